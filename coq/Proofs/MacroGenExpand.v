(* C15 -- the code of a program with macro calls IS the code of its hand-expanded program
   compiled with NO macro defined (Model/MacroGen.v).

   1. gen_fuel_mono: more fuel never changes a result of the generator (and the variants for the
      piecewise generators gen_begin / gen_all / gen_cond).
   2. expand_all: the hand expansion of a form -- every macro call in a position the generator
      compiles is replaced by its expansion, recursively (expansions that call further macros,
      macro calls nested in the arguments the expansion places in compiled positions).  It
      descends into exactly the sub-forms gen recurses into, with the same dispatch order (a
      special-form name wins over a macro of the same name, as in the generator); the generator
      context is threaded the same way because ONE position depends on it: the argument forms of
      a call are compiled here only when the call is a self tail call (Tail on, callee = the
      function being compiled, arity fits) -- the arguments of every other call are compiled at
      run time, not in this code, and are left as written.
   3. macro_program_is_expanded_program: gen with the macro table on f = gen with the EMPTY macro
      table on expand_all f, in every generator context, with the same fuel.
   4. gen_has_expansion: whenever the generator succeeds the hand expansion exists (same fuel), so
      (3) is not vacuous for any compilable form. *)
From Coq Require Import ZArith List Bool Lia.
Require Import ZV.Model.Templ ZV.Model.MacroGen.
Import ListNotations.
Open Scope Z_scope.

(* ---------------------------------------------------------------- 1. fuel monotonicity *)
Ltac agn H := first [exact H | reflexivity].

Definition gle (g g' : gctx -> value -> option (list pinstr)) : Prop :=
  forall c e code, g c e = Some code -> g' c e = Some code.

Section PiecesMono.
  Variables g g' : gctx -> value -> option (list pinstr).
  Hypothesis Hle : gle g g'.

  Lemma gen_begin_le : forall l c code,
    gen_begin g c l = Some code -> gen_begin g' c l = Some code.
  Proof.
    induction l as [|e r IH]; intros c code H; simpl in H |- *; [exact H|].
    destruct r as [|e2 r2]; [apply Hle; exact H|].
    destruct (g (with_tail c false) e) as [a|] eqn:Ha; [|discriminate].
    destruct (gen_begin g c (e2 :: r2)) as [b|] eqn:Hb; [|discriminate].
    assert (Hb' : gen_begin g' c (e2 :: r2) = Some b) by (apply (IH c); agn Hb).
    rewrite (Hle _ _ _ Ha), Hb'. exact H.
  Qed.

  Lemma gen_all_le : forall l c code,
    gen_all g c l = Some code -> gen_all g' c l = Some code.
  Proof.
    induction l as [|e r IH]; intros c code H; simpl in H |- *; [exact H|].
    destruct (g c e) as [a|] eqn:Ha; [|discriminate].
    destruct (gen_all g c r) as [b|] eqn:Hb; [|discriminate].
    assert (Hb' : gen_all g' c r = Some b) by (apply (IH c); agn Hb).
    rewrite (Hle _ _ _ Ha), Hb'. exact H.
  Qed.

  Lemma gen_cond_le_aux : forall l c,
    (forall code, gen_cond g c l = Some code -> gen_cond g' c l = Some code) /\
    (forall x code, gen_cond g c (x :: l) = Some code -> gen_cond g' c (x :: l) = Some code).
  Proof.
    induction l as [|e r IH]; intros c.
    - split; [discriminate|]. intros x code H; simpl in H |- *. apply Hle; exact H.
    - destruct (IH c) as [IH1 IH2]. split.
      + intros code H. apply IH2; exact H.
      + intros x code H. simpl in H |- *.
        destruct (g (with_tail c false) x) as [a|] eqn:Ha; [|discriminate].
        destruct (g c e) as [b|] eqn:Hb; [|discriminate].
        destruct (gen_cond g c r) as [z|] eqn:Hz; [|discriminate].
        assert (Hz' : gen_cond g' c r = Some z) by (apply IH1; agn Hz).
        rewrite (Hle _ _ _ Ha), (Hle _ _ _ Hb), Hz'. exact H.
  Qed.

  Lemma gen_cond_le : forall l c code,
    gen_cond g c l = Some code -> gen_cond g' c l = Some code.
  Proof. intros l c code H. destruct (gen_cond_le_aux l c) as [A _]. apply A; exact H. Qed.
End PiecesMono.

Section Mono.
  Variable expander : Z -> option (list value -> option value).
  Variable special : Z -> bool.
  Notation G := (gen expander special).

  Lemma gen_step_le : forall n m, gle (G n) (G m) -> gle (G (S n)) (G (S m)).
  Proof.
    intros n m Hle c f code H.
    cbn [gen] in H |- *.
    destruct f as [z|s|s|z|l|l|tn kv]; try discriminate; try exact H.
    destruct l as [|h args]; [exact H|].
    destruct h as [z|s|z|z|l0|l0|tn kv]; try discriminate.
    destruct (Z.eqb s sym_begin); [exact (gen_begin_le _ _ Hle _ _ _ H)|].
    destruct (Z.eqb s sym_let || Z.eqb s sym_letseq).
    { destruct args as [|b body]; [discriminate|]. destruct b; try discriminate.
      destruct (let_inits l) as [inits|]; destruct body as [|b1 body]; try discriminate.
      destruct (gen_all (G n) (with_tail (inc_scope c) false) inits) as [a|] eqn:Ha; [|discriminate].
      destruct (gen_begin (G n) (inc_scope c) (b1 :: body)) as [b|] eqn:Hb; [|discriminate].
      rewrite (gen_all_le _ _ Hle _ _ _ Ha), (gen_begin_le _ _ Hle _ _ _ Hb). exact H. }
    destruct (Z.eqb s sym_newscope).
    { destruct args as [|a0 args]; [exact H|].
      destruct (gen_begin (G n) (inc_scope c) (a0 :: args)) as [b|] eqn:Hb; [|discriminate].
      rewrite (gen_begin_le _ _ Hle _ _ _ Hb). exact H. }
    destruct (Z.eqb s sym_for).
    { destruct args as [|ctl body]; [discriminate|]. destruct ctl as [| | | | |ctl|]; try discriminate.
      destruct ctl as [|init [|test [|incr [|x ctl]]]]; try discriminate.
      destruct (G n (enter_loop c) init) as [i|] eqn:Hi; [|discriminate].
      destruct (G n (enter_loop c) incr) as [u|] eqn:Hu; [|discriminate].
      destruct (G n (enter_loop c) test) as [t|] eqn:Ht; [|discriminate].
      destruct (gen_begin (G n) (enter_loop c) body) as [b|] eqn:Hb; [|discriminate].
      rewrite (Hle _ _ _ Hi), (Hle _ _ _ Hu), (Hle _ _ _ Ht), (gen_begin_le _ _ Hle _ _ _ Hb).
      exact H. }
    destruct (Z.eqb s sym_break); [exact H|].
    destruct (Z.eqb s sym_continue); [exact H|].
    destruct (Z.eqb s sym_cond); [exact (gen_cond_le _ _ Hle _ _ _ H)|].
    destruct (Z.eqb s sym_def || Z.eqb s sym_set).
    { destruct args as [|a0 [|e [|x args]]]; try discriminate; destruct a0; try discriminate.
      exact (Hle _ _ _ H). }
    destruct (special s); [discriminate|].
    destruct (expander s) as [ex|].
    { destruct (ex args) as [e|]; [|discriminate]. exact (Hle _ _ _ H). }
    destruct (g_tail c && Z.eqb s (g_fn c) && Nat.eqb (length args) (g_nargs c)); [|exact H].
    destruct (gen_all (G n) (with_tail c false) args) as [a|] eqn:Ha; [|discriminate].
    rewrite (gen_all_le _ _ Hle _ _ _ Ha). exact H.
  Qed.

  Lemma gen_succ_le : forall n, gle (G n) (G (S n)).
  Proof.
    induction n as [|n IH]; [intros c f code H; discriminate|].
    apply gen_step_le; exact IH.
  Qed.

  (* more fuel never changes a result *)
  Theorem gen_fuel_mono : forall n m c f code,
    G n c f = Some code -> (n <= m)%nat -> G m c f = Some code.
  Proof.
    intros n m c f code H Hnm. induction Hnm as [|m Hnm IH]; [exact H|].
    apply gen_succ_le; exact IH.
  Qed.

  Lemma gen_fuel_gle : forall n m, (n <= m)%nat -> gle (G n) (G m).
  Proof. intros n m Hnm c f code H. eapply gen_fuel_mono; eauto. Qed.

  Theorem gen_begin_fuel_mono : forall n m c l code,
    gen_begin (G n) c l = Some code -> (n <= m)%nat -> gen_begin (G m) c l = Some code.
  Proof. intros n m c l code H Hnm. eapply gen_begin_le; [apply gen_fuel_gle; exact Hnm|exact H]. Qed.

  Theorem gen_all_fuel_mono : forall n m c l code,
    gen_all (G n) c l = Some code -> (n <= m)%nat -> gen_all (G m) c l = Some code.
  Proof. intros n m c l code H Hnm. eapply gen_all_le; [apply gen_fuel_gle; exact Hnm|exact H]. Qed.

  Theorem gen_cond_fuel_mono : forall n m c l code,
    gen_cond (G n) c l = Some code -> (n <= m)%nat -> gen_cond (G m) c l = Some code.
  Proof. intros n m c l code H Hnm. eapply gen_cond_le; [apply gen_fuel_gle; exact Hnm|exact H]. Qed.
End Mono.

(* ---------------------------------------------------------------- 2. the hand expansion *)
Section ExpPieces.
  Variable x : gctx -> value -> option value.

  (* the positions of GenerateBegin: Tail off for all but the last form *)
  Fixpoint exp_begin (c : gctx) (l : list value) : option (list value) :=
    match l with
    | [] => Some []
    | [e] => match x c e with Some e' => Some [e'] | None => None end
    | e :: r =>
        match x (with_tail c false) e with
        | Some e' => match exp_begin c r with Some r' => Some (e' :: r') | None => None end
        | None => None
        end
    end.

  Fixpoint exp_all (c : gctx) (l : list value) : option (list value) :=
    match l with
    | [] => Some []
    | e :: r =>
        match x c e with
        | Some e' => match exp_all c r with Some r' => Some (e' :: r') | None => None end
        | None => None
        end
    end.

  (* the positions of GenerateCond: predicates Tail off, bodies and the default as the caller *)
  Fixpoint exp_cond (c : gctx) (l : list value) : option (list value) :=
    match l with
    | [] => Some []
    | [d] => match x c d with Some d' => Some [d'] | None => None end
    | p :: b :: r =>
        match x (with_tail c false) p, x c b, exp_cond c r with
        | Some p', Some b', Some r' => Some (p' :: b' :: r')
        | _, _, _ => None
        end
    end.

  (* the initialisers of a let binding vector [n1 e1 n2 e2 ..], names kept *)
  Fixpoint exp_binds (c : gctx) (b : list value) : option (list value) :=
    match b with
    | [] => Some []
    | VSym s :: e :: r =>
        match x c e, exp_binds c r with
        | Some e', Some r' => Some (VSym s :: e' :: r')
        | _, _ => None
        end
    | _ => None
    end.
End ExpPieces.

Definition relist (s : Z) (o : option (list value)) : option value :=
  match o with Some l => Some (VList (VSym s :: l)) | None => None end.

Section Expand.
  Variable expander : Z -> option (list value -> option value).
  Variable other_special : Z -> bool.

  (* None = out of fuel, a failing expander, or a form outside the modelled fragment *)
  Fixpoint expand_all (fuel : nat) (c : gctx) (f : value) {struct fuel} : option value :=
    match fuel with
    | O => None
    | S n =>
        match f with
        | VInt _ | VSym _ | VStr _ => Some f
        | VList [] => Some f
        | VList (VSym s :: args) =>
            if Z.eqb s sym_begin then relist s (exp_begin (expand_all n) c args)
            else if Z.eqb s sym_let || Z.eqb s sym_letseq then
              match args with
              | VArr binds :: body =>
                  let c1 := inc_scope c in
                  match exp_binds (expand_all n) (with_tail c1 false) binds,
                        exp_begin (expand_all n) c1 body with
                  | Some binds', Some body' => Some (VList (VSym s :: VArr binds' :: body'))
                  | _, _ => None
                  end
              | _ => None
              end
            else if Z.eqb s sym_newscope then
              match args with
              | [] => Some f
              | _ => relist s (exp_begin (expand_all n) (inc_scope c) args)
              end
            else if Z.eqb s sym_for then
              match args with
              | VArr [init; test; incr] :: body =>
                  let c1 := enter_loop c in
                  match expand_all n c1 init, expand_all n c1 incr, expand_all n c1 test,
                        exp_begin (expand_all n) c1 body with
                  | Some i, Some u, Some t, Some b => Some (VList (VSym s :: VArr [i; t; u] :: b))
                  | _, _, _, _ => None
                  end
              | _ => None
              end
            else if Z.eqb s sym_break then Some f
            else if Z.eqb s sym_continue then Some f
            else if Z.eqb s sym_cond then relist s (exp_cond (expand_all n) c args)
            else if Z.eqb s sym_def || Z.eqb s sym_set then
              match args with
              | [VSym v; e] =>
                  match expand_all n (with_tail c false) e with
                  | Some e' => Some (VList [VSym s; VSym v; e'])
                  | None => None
                  end
              | _ => None
              end
            else if other_special s then None
            else
              match expander s with
              | Some ex =>
                  (* the macro call is replaced by its expansion, which is expanded in turn *)
                  match ex args with
                  | Some e => expand_all n c e
                  | None => None
                  end
              | None =>
                  if g_tail c && Z.eqb s (g_fn c) && Nat.eqb (length args) (g_nargs c) then
                    relist s (exp_all (expand_all n) (with_tail c false) args)
                  else Some f
              end
        | _ => None
        end
    end.
End Expand.

(* ---------------------------------------------------------------- 3. code = code of the expansion *)
Section PiecesSound.
  Variable x : gctx -> value -> option value.
  Variables g g' : gctx -> value -> option (list pinstr).
  Hypothesis Hx : forall c e e' code, x c e = Some e' -> g c e = Some code -> g' c e' = Some code.

  Lemma exp_begin_cons : forall c e r l', exp_begin x c (e :: r) = Some l' -> exists e' r', l' = e' :: r'.
  Proof.
    intros c e r l' H. simpl in H. destruct r as [|e2 r2].
    - destruct (x c e) as [e'|]; [|discriminate]. inversion H; eauto.
    - destruct (x (with_tail c false) e) as [e'|]; [|discriminate].
      destruct (exp_begin x c (e2 :: r2)) as [r'|]; [|discriminate]. inversion H; eauto.
  Qed.

  Lemma gen_begin_cons2 : forall (h : gctx -> value -> option (list pinstr)) c e e2 r,
    gen_begin h c (e :: e2 :: r) =
    match h (with_tail c false) e with
    | Some a => match gen_begin h c (e2 :: r) with Some b => Some (a ++ b) | None => None end
    | None => None
    end.
  Proof. reflexivity. Qed.

  Lemma exp_begin_sound : forall l c l' code,
    exp_begin x c l = Some l' -> gen_begin g c l = Some code -> gen_begin g' c l' = Some code.
  Proof.
    induction l as [|e r IH]; intros c l' code HX HG.
    - simpl in HX. inversion HX; subst. exact HG.
    - simpl in HX, HG. destruct r as [|e2 r2].
      + destruct (x c e) as [e'|] eqn:He; [|discriminate].
        inversion HX; subst. simpl. exact (Hx _ _ _ _ He HG).
      + destruct (x (with_tail c false) e) as [e'|] eqn:He; [|discriminate].
        destruct (exp_begin x c (e2 :: r2)) as [r'|] eqn:Hr; [|discriminate].
        inversion HX; subst.
        destruct (g (with_tail c false) e) as [a|] eqn:Ha; [|discriminate].
        destruct (gen_begin g c (e2 :: r2)) as [b|] eqn:Hb; [|discriminate].
        destruct (exp_begin_cons _ _ _ _ Hr) as [y [r'' Hy]]. subst r'.
        assert (Hb' : gen_begin g' c (y :: r'') = Some b) by (apply (IH c); [agn Hr|agn Hb]).
        rewrite gen_begin_cons2, (Hx _ _ _ _ He Ha), Hb'. exact HG.
  Qed.

  Lemma exp_all_sound : forall l c l' code,
    exp_all x c l = Some l' -> gen_all g c l = Some code ->
    gen_all g' c l' = Some code /\ length l' = length l.
  Proof.
    induction l as [|e r IH]; intros c l' code HX HG; simpl in HX, HG.
    - inversion HX; subst. split; [exact HG|reflexivity].
    - destruct (x c e) as [e'|] eqn:He; [|discriminate].
      destruct (exp_all x c r) as [r'|] eqn:Hr; [|discriminate].
      inversion HX; subst.
      destruct (g c e) as [a|] eqn:Ha; [|discriminate].
      destruct (gen_all g c r) as [b|] eqn:Hb; [|discriminate].
      assert (I12 : gen_all g' c r' = Some b /\ length r' = length r) by (apply (IH c); [agn Hr|agn Hb]).
      destruct I12 as [I1 I2].
      simpl. rewrite (Hx _ _ _ _ He Ha), I1, I2. split; [exact HG|reflexivity].
  Qed.

  Lemma exp_all_length : forall l c l', exp_all x c l = Some l' -> length l' = length l.
  Proof.
    induction l as [|e r IH]; intros c l' HX; simpl in HX.
    - inversion HX; reflexivity.
    - destruct (x c e) as [e'|]; [|discriminate].
      destruct (exp_all x c r) as [r'|] eqn:Hr; [|discriminate].
      inversion HX; subst. simpl. rewrite (IH c r' Hr). reflexivity.
  Qed.

  Lemma exp_cond_sound_aux : forall l c,
    (forall l' code, exp_cond x c l = Some l' -> gen_cond g c l = Some code ->
                     gen_cond g' c l' = Some code) /\
    (forall y l' code, exp_cond x c (y :: l) = Some l' -> gen_cond g c (y :: l) = Some code ->
                       gen_cond g' c l' = Some code).
  Proof.
    induction l as [|e r IH]; intros c.
    - split; [intros l' code _ HG; discriminate|].
      intros y l' code HX HG; simpl in HX, HG.
      destruct (x c y) as [y'|] eqn:Hy; [|discriminate]. inversion HX; subst.
      simpl. eapply Hx; eauto.
    - destruct (IH c) as [IH1 IH2]. split.
      + intros l' code HX HG. eapply IH2; eauto.
      + intros y l' code HX HG. cbn [exp_cond] in HX. cbn [gen_cond] in HG.
        destruct (x (with_tail c false) y) as [y'|] eqn:Hy; [|discriminate].
        destruct (x c e) as [e'|] eqn:He; [|discriminate].
        destruct (exp_cond x c r) as [r'|] eqn:Hr; [|discriminate].
        inversion HX; subst.
        destruct (g (with_tail c false) y) as [a|] eqn:Ha; [|discriminate].
        destruct (g c e) as [b|] eqn:Hb; [|discriminate].
        destruct (gen_cond g c r) as [z|] eqn:Hz; [|discriminate].
        assert (Hz' : gen_cond g' c r' = Some z) by (apply IH1; [agn Hr|agn Hz]).
        cbn [gen_cond]. rewrite (Hx _ _ _ _ Hy Ha), (Hx _ _ _ _ He Hb), Hz'.
        exact HG.
  Qed.

  Lemma exp_cond_sound : forall l c l' code,
    exp_cond x c l = Some l' -> gen_cond g c l = Some code -> gen_cond g' c l' = Some code.
  Proof. intros l c l' code HX HG. destruct (exp_cond_sound_aux l c) as [A _]. eapply A; eauto. Qed.

  Fixpoint binds_ind (P : list value -> Prop) (H0 : P [])
      (H1 : forall v, P [v]) (H2 : forall a b r, P r -> P (a :: b :: r)) (l : list value) : P l :=
    match l with
    | [] => H0
    | [v] => H1 v
    | a :: b :: r => H2 a b r (binds_ind P H0 H1 H2 r)
    end.

  Lemma exp_binds_sound : forall b c b' inits code,
    exp_binds x c b = Some b' -> let_inits b = Some inits -> gen_all g c inits = Some code ->
    exists inits', let_inits b' = Some inits' /\ gen_all g' c inits' = Some code.
  Proof.
    intros b. induction b as [|v|n e r IH] using binds_ind; intros c b' inits code HX HL HG.
    - simpl in HX, HL. inversion HX; inversion HL; subst. exists []. split; [reflexivity|exact HG].
    - simpl in HL. destruct v; discriminate.
    - cbn [exp_binds] in HX. cbn [let_inits] in HL. destruct n as [z|s|z|z|l0|l0|tn kv]; try discriminate.
      destruct (x c e) as [e'|] eqn:He; [|discriminate].
      destruct (exp_binds x c r) as [r'|] eqn:Hr; [|discriminate].
      inversion HX; subst.
      destruct (let_inits r) as [li|] eqn:Hli; [|discriminate]. inversion HL; subst.
      simpl in HG.
      destruct (g c e) as [a|] eqn:Ha; [|discriminate].
      destruct (gen_all g c li) as [bb|] eqn:Hb; [|discriminate].
      assert (IHr : exists inits', let_inits r' = Some inits' /\ gen_all g' c inits' = Some bb)
        by (apply (IH c r' li bb); [agn Hr|agn Hli|agn Hb]).
      destruct IHr as [li' [L1 L2]].
      exists (e' :: li'). split.
      + cbn [let_inits]. rewrite L1. reflexivity.
      + simpl. rewrite (Hx _ _ _ _ He Ha), L2. exact HG.
  Qed.
End PiecesSound.

(* ---------------------------------------------------------------- 4. the expansion exists *)
Section PiecesTotal.
  Variable x : gctx -> value -> option value.
  Variable g : gctx -> value -> option (list pinstr).
  Hypothesis Ht : forall c e code, g c e = Some code -> exists e', x c e = Some e'.

  Lemma exp_begin_total : forall l c code,
    gen_begin g c l = Some code -> exists l', exp_begin x c l = Some l'.
  Proof.
    induction l as [|e r IH]; intros c code HG.
    - exists []. reflexivity.
    - simpl in HG |- *. destruct r as [|e2 r2].
      + destruct (Ht _ _ _ HG) as [e' He]. rewrite He. eexists; reflexivity.
      + destruct (g (with_tail c false) e) as [a|] eqn:Ha; [|discriminate].
        destruct (gen_begin g c (e2 :: r2)) as [b|] eqn:Hb; [|discriminate].
        destruct (Ht _ _ _ Ha) as [e' He].
        assert (Hr : exists l', exp_begin x c (e2 :: r2) = Some l') by (apply (IH c b); agn Hb).
        destruct Hr as [r' Hr]. rewrite He, Hr. eexists; reflexivity.
  Qed.

  Lemma exp_all_total : forall l c code,
    gen_all g c l = Some code -> exists l', exp_all x c l = Some l'.
  Proof.
    induction l as [|e r IH]; intros c code HG.
    - exists []. reflexivity.
    - simpl in HG |- *.
      destruct (g c e) as [a|] eqn:Ha; [|discriminate].
      destruct (gen_all g c r) as [b|] eqn:Hb; [|discriminate].
      destruct (Ht _ _ _ Ha) as [e' He].
      assert (Hr : exists l', exp_all x c r = Some l') by (apply (IH c b); agn Hb).
      destruct Hr as [r' Hr]. rewrite He, Hr. eexists; reflexivity.
  Qed.

  Lemma exp_cond_total_aux : forall l c,
    (forall code, gen_cond g c l = Some code -> exists l', exp_cond x c l = Some l') /\
    (forall y code, gen_cond g c (y :: l) = Some code -> exists l', exp_cond x c (y :: l) = Some l').
  Proof.
    induction l as [|e r IH]; intros c.
    - split; [intros code HG; discriminate|].
      intros y code HG; simpl in HG |- *.
      destruct (Ht _ _ _ HG) as [y' Hy]. rewrite Hy. eexists; reflexivity.
    - destruct (IH c) as [IH1 IH2]. split.
      + intros code HG. eapply IH2; eauto.
      + intros y code HG. cbn [gen_cond] in HG. cbn [exp_cond].
        destruct (g (with_tail c false) y) as [a|] eqn:Ha; [|discriminate].
        destruct (g c e) as [b|] eqn:Hb; [|discriminate].
        destruct (gen_cond g c r) as [z|] eqn:Hz; [|discriminate].
        destruct (Ht _ _ _ Ha) as [y' Hy]. destruct (Ht _ _ _ Hb) as [e' He].
        assert (Hr : exists l', exp_cond x c r = Some l') by (apply (IH1 z); agn Hz).
        destruct Hr as [r' Hr]. rewrite Hy, He, Hr. eexists; reflexivity.
  Qed.

  Lemma exp_cond_total : forall l c code,
    gen_cond g c l = Some code -> exists l', exp_cond x c l = Some l'.
  Proof. intros l c code HG. destruct (exp_cond_total_aux l c) as [A _]. eapply A; eauto. Qed.

  Lemma exp_binds_total : forall b c inits code,
    let_inits b = Some inits -> gen_all g c inits = Some code -> exists b', exp_binds x c b = Some b'.
  Proof.
    intros b. induction b as [|v|n e r IH] using binds_ind; intros c inits code HL HG.
    - exists []. reflexivity.
    - simpl in HL. destruct v; discriminate.
    - cbn [let_inits] in HL. cbn [exp_binds].
      destruct n as [z|s|z|z|l0|l0|tn kv]; try discriminate.
      destruct (let_inits r) as [li|] eqn:Hli; [|discriminate]. inversion HL; subst.
      simpl in HG.
      destruct (g c e) as [a|] eqn:Ha; [|discriminate].
      destruct (gen_all g c li) as [bb|] eqn:Hb; [|discriminate].
      destruct (Ht _ _ _ Ha) as [e' He].
      assert (Hr : exists b', exp_binds x c r = Some b') by (apply (IH c li bb); [agn Hli|agn Hb]).
      destruct Hr as [r' Hr]. rewrite He, Hr. eexists; reflexivity.
  Qed.
End PiecesTotal.

Section Main.
  Variable expander : Z -> option (list value -> option value).
  Variable special : Z -> bool.
  Notation G := (gen expander special).
  Notation G0 := (gen (fun _ => None) special).
  Notation X := (expand_all expander special).

  (* same fuel on both sides: every macro step of G costs one unit that G0 does not need, and
     gen_fuel_mono gives it back *)
  Lemma expand_sound : forall k n c f f' code,
    X k c f = Some f' -> G n c f = Some code -> G0 n c f' = Some code.
  Proof.
    induction k as [|k IH]; intros n c f f' code HX HG; [discriminate|].
    destruct n as [|n]; [discriminate|].
    assert (IHn : forall c e e' code, X k c e = Some e' -> G n c e = Some code -> G0 n c e' = Some code)
      by (intros; eapply IH; eauto).
    cbn [expand_all] in HX. cbn [gen] in HG.
    destruct f as [z|s|s|z|l|l|tn kv]; try discriminate;
      try (inversion HX; subst; exact HG).
    destruct l as [|h args]; [inversion HX; subst; exact HG|].
    destruct h as [z|s|z|z|l0|l0|tn kv]; try discriminate.
    destruct (Z.eqb s sym_begin) eqn:E1.
    { unfold relist in HX. destruct (exp_begin (X k) c args) as [a'|] eqn:Ha; [|discriminate].
      inversion HX; subst. cbn [gen]. rewrite E1.
      exact (exp_begin_sound (X k) (G n) (G0 n) IHn _ _ _ _ Ha HG). }
    destruct (Z.eqb s sym_let || Z.eqb s sym_letseq) eqn:E2.
    { destruct args as [|b body]; [discriminate|]. destruct b; try discriminate.
      destruct (let_inits l) as [inits|] eqn:Hli; destruct body as [|b1 body]; try discriminate.
      destruct (exp_binds (X k) (with_tail (inc_scope c) false) l) as [binds'|] eqn:Hbi; [|discriminate].
      destruct (exp_begin (X k) (inc_scope c) (b1 :: body)) as [body'|] eqn:Hbo; [|discriminate].
      inversion HX; subst.
      destruct (gen_all (G n) (with_tail (inc_scope c) false) inits) as [a|] eqn:Ha; [|discriminate].
      destruct (gen_begin (G n) (inc_scope c) (b1 :: body)) as [b|] eqn:Hb; [|discriminate].
      destruct (exp_binds_sound (X k) (G n) (G0 n) IHn _ _ _ _ _ Hbi Hli Ha) as [inits' [L1 L2]].
      pose proof (exp_begin_sound (X k) (G n) (G0 n) IHn _ _ _ _ Hbo Hb) as L3.
      destruct (exp_begin_cons _ _ _ _ _ Hbo) as [y [r'' Hy]]. subst body'.
      cbn [gen]. rewrite E1, E2, L1, L2, L3. exact HG. }
    destruct (Z.eqb s sym_newscope) eqn:E3.
    { destruct args as [|a0 args]; [inversion HX; subst; cbn [gen]; rewrite E1, E2, E3; exact HG|].
      unfold relist in HX.
      destruct (exp_begin (X k) (inc_scope c) (a0 :: args)) as [a'|] eqn:Ha; [|discriminate].
      inversion HX; subst.
      destruct (gen_begin (G n) (inc_scope c) (a0 :: args)) as [b|] eqn:Hb; [|discriminate].
      pose proof (exp_begin_sound (X k) (G n) (G0 n) IHn _ _ _ _ Ha Hb) as L3.
      destruct (exp_begin_cons _ _ _ _ _ Ha) as [y [r'' Hy]]. subst a'.
      cbn [gen]. rewrite E1, E2, E3, L3. exact HG. }
    destruct (Z.eqb s sym_for) eqn:E4.
    { destruct args as [|ctl body]; [discriminate|]. destruct ctl as [| | | | |ctl|]; try discriminate.
      destruct ctl as [|init [|test [|incr [|y ctl]]]]; try discriminate.
      destruct (X k (enter_loop c) init) as [i'|] eqn:Xi; [|discriminate].
      destruct (X k (enter_loop c) incr) as [u'|] eqn:Xu; [|discriminate].
      destruct (X k (enter_loop c) test) as [t'|] eqn:Xt; [|discriminate].
      destruct (exp_begin (X k) (enter_loop c) body) as [b'|] eqn:Xb; [|discriminate].
      inversion HX; subst.
      destruct (G n (enter_loop c) init) as [i|] eqn:Hi; [|discriminate].
      destruct (G n (enter_loop c) incr) as [u|] eqn:Hu; [|discriminate].
      destruct (G n (enter_loop c) test) as [t|] eqn:Ht; [|discriminate].
      destruct (gen_begin (G n) (enter_loop c) body) as [b|] eqn:Hb; [|discriminate].
      cbn [gen]. rewrite E1, E2, E3, E4.
      rewrite (IHn _ _ _ _ Xi Hi), (IHn _ _ _ _ Xu Hu), (IHn _ _ _ _ Xt Ht).
      rewrite (exp_begin_sound (X k) (G n) (G0 n) IHn _ _ _ _ Xb Hb). exact HG. }
    destruct (Z.eqb s sym_break) eqn:E5.
    { inversion HX; subst. cbn [gen]. rewrite E1, E2, E3, E4, E5. exact HG. }
    destruct (Z.eqb s sym_continue) eqn:E6.
    { inversion HX; subst. cbn [gen]. rewrite E1, E2, E3, E4, E5, E6. exact HG. }
    destruct (Z.eqb s sym_cond) eqn:E7.
    { unfold relist in HX. destruct (exp_cond (X k) c args) as [a'|] eqn:Ha; [|discriminate].
      inversion HX; subst. cbn [gen]. rewrite E1, E2, E3, E4, E5, E6, E7.
      exact (exp_cond_sound (X k) (G n) (G0 n) IHn _ _ _ _ Ha HG). }
    destruct (Z.eqb s sym_def || Z.eqb s sym_set) eqn:E8.
    { destruct args as [|a0 [|e [|y args]]]; try discriminate; destruct a0; try discriminate.
      destruct (X k (with_tail c false) e) as [e'|] eqn:Xe; [|discriminate].
      inversion HX; subst. cbn [gen]. rewrite E1, E2, E3, E4, E5, E6, E7, E8.
      exact (IHn _ _ _ _ Xe HG). }
    destruct (special s) eqn:E9; [discriminate|].
    destruct (expander s) as [ex|] eqn:Ex.
    { destruct (ex args) as [e|]; [|discriminate].
      apply (gen_fuel_mono (fun _ => None) special n (S n)); [|lia].
      exact (IHn _ _ _ _ HX HG). }
    destruct (g_tail c && Z.eqb s (g_fn c) && Nat.eqb (length args) (g_nargs c)) eqn:E10.
    { unfold relist in HX.
      destruct (exp_all (X k) (with_tail c false) args) as [a'|] eqn:Xa; [|discriminate].
      inversion HX; subst.
      destruct (gen_all (G n) (with_tail c false) args) as [a|] eqn:Ha; [|discriminate].
      destruct (exp_all_sound (X k) (G n) (G0 n) IHn _ _ _ _ Xa Ha) as [L1 L2].
      cbn [gen]. rewrite E1, E2, E3, E4, E5, E6, E7, E8, E9, L2, E10, L1. exact HG. }
    inversion HX; subst. cbn [gen]. rewrite E1, E2, E3, E4, E5, E6, E7, E8, E9, E10. exact HG.
  Qed.

  (* THE THEOREM: for every generator context c, the code of a form with macro calls (nested to
     any depth, expansions calling further macros) is the code of its hand expansion compiled with
     NO macro defined.  No side condition: a head symbol that is both a special form and a macro
     name is a special form for gen and for expand_all alike (the generator's dispatch order); the
     expanders are pure functions of the argument forms (the model has no macro whose expansion
     defines a macro at expansion time -- see docs/C15.md, "MacroGen"). *)
  Theorem macro_program_is_expanded_program_same_fuel : forall k n c f f' code,
    X k c f = Some f' -> G n c f = Some code -> G0 n c f' = Some code.
  Proof. exact expand_sound. Qed.

  Theorem macro_program_is_expanded_program : forall k n c f f' code,
    X k c f = Some f' -> G n c f = Some code -> exists m, G0 m c f' = Some code.
  Proof. intros k n c f f' code HX HG. exists n. eapply expand_sound; eauto. Qed.

  (* function bodies (GenerateFn compiles the body with GenerateBegin) *)
  Theorem macro_body_is_expanded_body : forall k n c body body' code,
    exp_begin (X k) c body = Some body' -> gen_begin (G n) c body = Some code ->
    gen_begin (G0 n) c body' = Some code.
  Proof.
    intros k n c body body' code HX HG.
    eapply exp_begin_sound; [|exact HX|exact HG].
    intros c0 e e' code0 H1 H2. eapply expand_sound; eauto.
  Qed.

  (* single level (the corollary of macro_call_in_context + gen_fuel_mono): if the expansion e of
     a macro call compiles to code, so does the call, in the same context *)
  Corollary macro_call_code : forall n c s args ex e code,
    Z.eqb s sym_begin = false -> (Z.eqb s sym_let || Z.eqb s sym_letseq) = false ->
    Z.eqb s sym_newscope = false -> Z.eqb s sym_for = false -> Z.eqb s sym_break = false ->
    Z.eqb s sym_continue = false -> Z.eqb s sym_cond = false ->
    (Z.eqb s sym_def || Z.eqb s sym_set) = false -> special s = false ->
    expander s = Some ex -> ex args = Some e ->
    G n c e = Some code ->
    forall m, (n < m)%nat -> G m c (VList (VSym s :: args)) = Some code.
  Proof.
    intros n c s args ex e code H1 H2 H3 H4 H5 H6 H7 H8 H9 Hx He HG m Hm.
    apply (gen_fuel_mono expander special (S n) m); [|lia].
    cbn [gen]. rewrite H1, H2, H3, H4, H5, H6, H7, H8, H9, Hx, He. exact HG.
  Qed.

  (* whenever the generator succeeds, the hand expansion exists (with the same fuel) *)
  Lemma gen_has_expansion : forall n c f code,
    G n c f = Some code -> exists f', X n c f = Some f'.
  Proof.
    induction n as [|n IH]; intros c f code HG; [discriminate|].
    cbn [gen] in HG. cbn [expand_all].
    destruct f as [z|s|s|z|l|l|tn kv]; try discriminate; try (eexists; reflexivity).
    destruct l as [|h args]; [eexists; reflexivity|].
    destruct h as [z|s|z|z|l0|l0|tn kv]; try discriminate.
    destruct (Z.eqb s sym_begin).
    { destruct (exp_begin_total (X n) (G n) IH _ _ _ HG) as [l' Hl]. rewrite Hl. eexists; reflexivity. }
    destruct (Z.eqb s sym_let || Z.eqb s sym_letseq).
    { destruct args as [|b body]; [discriminate|]. destruct b; try discriminate.
      destruct (let_inits l) as [inits|] eqn:Hli; destruct body as [|b1 body]; try discriminate.
      destruct (gen_all (G n) (with_tail (inc_scope c) false) inits) as [a|] eqn:Ha; [|discriminate].
      destruct (gen_begin (G n) (inc_scope c) (b1 :: body)) as [b|] eqn:Hb; [|discriminate].
      destruct (exp_binds_total (X n) (G n) IH _ _ _ _ Hli Ha) as [b' Hb'].
      destruct (exp_begin_total (X n) (G n) IH _ _ _ Hb) as [bo' Hbo].
      rewrite Hb', Hbo. eexists; reflexivity. }
    destruct (Z.eqb s sym_newscope).
    { destruct args as [|a0 args]; [eexists; reflexivity|].
      destruct (gen_begin (G n) (inc_scope c) (a0 :: args)) as [b|] eqn:Hb; [|discriminate].
      destruct (exp_begin_total (X n) (G n) IH _ _ _ Hb) as [bo' Hbo].
      rewrite Hbo. eexists; reflexivity. }
    destruct (Z.eqb s sym_for).
    { destruct args as [|ctl body]; [discriminate|]. destruct ctl as [| | | | |ctl|]; try discriminate.
      destruct ctl as [|init [|test [|incr [|y ctl]]]]; try discriminate.
      destruct (G n (enter_loop c) init) as [i|] eqn:Hi; [|discriminate].
      destruct (G n (enter_loop c) incr) as [u|] eqn:Hu; [|discriminate].
      destruct (G n (enter_loop c) test) as [t|] eqn:Ht; [|discriminate].
      destruct (gen_begin (G n) (enter_loop c) body) as [b|] eqn:Hb; [|discriminate].
      destruct (IH _ _ _ Hi) as [i' Xi]. destruct (IH _ _ _ Hu) as [u' Xu].
      destruct (IH _ _ _ Ht) as [t' Xt].
      destruct (exp_begin_total (X n) (G n) IH _ _ _ Hb) as [bo' Hbo].
      rewrite Xi, Xu, Xt, Hbo. eexists; reflexivity. }
    destruct (Z.eqb s sym_break); [eexists; reflexivity|].
    destruct (Z.eqb s sym_continue); [eexists; reflexivity|].
    destruct (Z.eqb s sym_cond).
    { destruct (exp_cond_total (X n) (G n) IH _ _ _ HG) as [l' Hl]. rewrite Hl. eexists; reflexivity. }
    destruct (Z.eqb s sym_def || Z.eqb s sym_set).
    { destruct args as [|a0 [|e [|y args]]]; try discriminate; destruct a0; try discriminate.
      destruct (IH _ _ _ HG) as [e' Xe]. rewrite Xe. eexists; reflexivity. }
    destruct (special s); [discriminate|].
    destruct (expander s) as [ex|].
    { destruct (ex args) as [e|]; [|discriminate]. exact (IH _ _ _ HG). }
    destruct (g_tail c && Z.eqb s (g_fn c) && Nat.eqb (length args) (g_nargs c)); [|eexists; reflexivity].
    destruct (gen_all (G n) (with_tail c false) args) as [a|] eqn:Ha; [|discriminate].
    destruct (exp_all_total (X n) (G n) IH _ _ _ Ha) as [l' Hl]. rewrite Hl. eexists; reflexivity.
  Qed.

  (* unconditional form: every form the generator compiles HAS a hand expansion, and the code of
     the form is the code of that expansion compiled with no macro defined *)
  Theorem macro_program_has_expanded_program : forall n c f code,
    G n c f = Some code ->
    exists f', X n c f = Some f' /\ G0 n c f' = Some code.
  Proof.
    intros n c f code HG. destruct (gen_has_expansion n c f code HG) as [f' HX].
    exists f'. split; [exact HX|exact (expand_sound _ _ _ _ _ _ HX HG)].
  Qed.

  Theorem fn_body_has_expanded_body : forall n c body code,
    gen_begin (G n) c body = Some code ->
    exists body', exp_begin (X n) c body = Some body' /\ gen_begin (G0 n) c body' = Some code.
  Proof.
    intros n c body code HG.
    destruct (exp_begin_total (X n) (G n) (gen_has_expansion n) _ _ _ HG) as [body' HX].
    exists body'. split; [exact HX|exact (macro_body_is_expanded_body _ _ _ _ _ _ HX HG)].
  Qed.
End Main.
