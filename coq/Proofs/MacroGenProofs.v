(* C15 -- proofs about the code generator's treatment of macro calls (Model/MacroGen.v). *)
From Coq Require Import ZArith List Bool Lia.
Require Import ZV.Model.Templ ZV.Model.MacroGen.
Import ListNotations.

Lemma chk_app : forall a b st,
  chk st (a ++ b) = match chk st a with Some st' => chk st' b | None => None end.
Proof.
  induction a as [|i a IH]; intros b st; simpl; [reflexivity|].
  destruct (chk_step st i); [apply IH|reflexivity].
Qed.

(* the code leaves the scope depth and the loop context as it found them, and every Break /
   Continue / self tail call in it pops exactly the scopes opened above its target *)
Definition exact (c : gctx) (code : list pinstr) : Prop :=
  chk (g_scopes c, g_loops c) code = Some (g_scopes c, g_loops c).

Definition good (g : gctx -> value -> option (list pinstr)) : Prop :=
  forall c e code, ctx_ok c = true -> g c e = Some code -> exact c code.

Lemma exact_nil : forall c, exact c [].
Proof. intros c; reflexivity. Qed.

Lemma exact_app : forall c a b, exact c a -> exact c b -> exact c (a ++ b).
Proof. unfold exact; intros c a b Ha Hb. rewrite chk_app, Ha. exact Hb. Qed.

Lemma exact_tail : forall c b code, exact (with_tail c b) code -> exact c code.
Proof. intros c b code H; exact H. Qed.

Lemma ok_tail : forall c b, ctx_ok (with_tail c b) = ctx_ok c.
Proof. reflexivity. Qed.

Lemma ok_inc : forall c, ctx_ok c = true -> ctx_ok (inc_scope c) = true.
Proof.
  unfold ctx_ok; intros c H; simpl. rewrite forallb_forall in *. intros l Hl.
  specialize (H l Hl). apply Nat.ltb_lt in H. apply Nat.ltb_lt. lia.
Qed.

Lemma ok_loop : forall c, ctx_ok c = true -> ctx_ok (enter_loop c) = true.
Proof.
  unfold ctx_ok; intros c H; simpl. apply andb_true_iff; split.
  - apply Nat.ltb_lt; lia.
  - rewrite forallb_forall in *. intros l Hl.
    specialize (H l Hl). apply Nat.ltb_lt in H. apply Nat.ltb_lt. lia.
Qed.

Lemma exact_scope : forall c b, exact (inc_scope c) b -> exact c (PAdd :: b ++ [PRemove]).
Proof.
  unfold exact; intros c b H; simpl in *. rewrite chk_app, H. reflexivity.
Qed.

Lemma exact_loop : forall c b, exact (enter_loop c) b -> exact c (PLoop :: PAdd :: b ++ [PLoopEnd; PRemove]).
Proof.
  unfold exact; intros c b H; simpl in *. rewrite chk_app, H. reflexivity.
Qed.

Section Pieces.
  Variable g : gctx -> value -> option (list pinstr).
  Hypothesis Hg : good g.

  Lemma gen_begin_good : forall l c code,
    ctx_ok c = true -> gen_begin g c l = Some code -> exact c code.
  Proof.
    induction l as [|e r IH]; intros c code Hok H; simpl in H.
    - inversion H; apply exact_nil.
    - destruct r as [|e2 r2]; [eapply Hg; eauto|].
      destruct (g (with_tail c false) e) as [a|] eqn:Ha; [|discriminate].
      destruct (gen_begin g c (e2 :: r2)) as [b|] eqn:Hb; [|discriminate].
      inversion H; subst. apply exact_app.
      + apply exact_tail with (b := false). eapply Hg; eauto.
      + eapply IH; eauto.
  Qed.

  Lemma gen_all_good : forall l c code,
    ctx_ok c = true -> gen_all g c l = Some code -> exact c code.
  Proof.
    induction l as [|e r IH]; intros c code Hok H; simpl in H.
    - inversion H; apply exact_nil.
    - destruct (g c e) as [a|] eqn:Ha; [|discriminate].
      destruct (gen_all g c r) as [b|] eqn:Hb; [|discriminate].
      inversion H; subst. apply exact_app; [eapply Hg; eauto|eapply IH; eauto].
  Qed.

  Lemma gen_cond_good_aux : forall l c,
    ctx_ok c = true ->
    (forall code, gen_cond g c l = Some code -> exact c code) /\
    (forall x code, gen_cond g c (x :: l) = Some code -> exact c code).
  Proof.
    induction l as [|e r IH]; intros c Hok.
    - split; [discriminate|]. intros x code H; simpl in H. eapply Hg; eauto.
    - destruct (IH c Hok) as [IH1 IH2]. split.
      + intros code H. eapply IH2; eauto.
      + intros x code H. simpl in H.
        destruct (g (with_tail c false) x) as [a|] eqn:Ha; [|discriminate].
        destruct (g c e) as [b|] eqn:Hb; [|discriminate].
        destruct (gen_cond g c r) as [z|] eqn:Hz; [|discriminate].
        inversion H; subst. apply exact_app; [|apply exact_app].
        * apply exact_tail with (b := false). eapply Hg; eauto.
        * eapply Hg; eauto.
        * eapply IH1; eauto.
  Qed.

  Lemma gen_cond_good : forall l c code,
    ctx_ok c = true -> gen_cond g c l = Some code -> exact c code.
  Proof. intros l c code Hok H. destruct (gen_cond_good_aux l c Hok) as [A _]. eauto. Qed.
End Pieces.

Section Gen.
  Variable expander : Z -> option (list value -> option value).
  Variable special : Z -> bool.

  (* Every form of the fragment -- macro calls at any depth, expansions that contain break,
     continue, lets, loops, self tail calls, further macro calls -- compiles, in ANY generator
     context whose loops lie below the current scope depth, to code with the exact scope
     discipline. *)
  Theorem gen_exact : forall n, good (gen expander special n).
  Proof.
    induction n as [|n IH]; intros c f code Hok H; [discriminate|].
    cbn [gen] in H.
    destruct f as [z|s|s|z|l|l|tn kv]; try discriminate;
      try (inversion H; subst; apply exact_nil).
    destruct l as [|h args]; [inversion H; subst; apply exact_nil|].
    destruct h as [z|s|z|z|l0|l0|tn kv]; try discriminate.
    destruct (Z.eqb s sym_begin); [eapply gen_begin_good; eauto|].
    destruct (Z.eqb s sym_let || Z.eqb s sym_letseq).
    { destruct args as [|b body]; [discriminate|]. destruct b; try discriminate.
      destruct (let_inits l) as [inits|]; destruct body as [|b1 body]; try discriminate.
      destruct (gen_all (gen expander special n) (with_tail (inc_scope c) false) inits) as [a|] eqn:Ha; [|discriminate].
      destruct (gen_begin (gen expander special n) (inc_scope c) (b1 :: body)) as [b|] eqn:Hb; [|discriminate].
      inversion H; subst. rewrite app_assoc. apply (exact_scope c (a ++ b)). apply exact_app.
      - apply exact_tail with (b := false). eapply gen_all_good; eauto. apply ok_inc; exact Hok.
      - eapply gen_begin_good; eauto. apply ok_inc; exact Hok. }
    destruct (Z.eqb s sym_newscope).
    { destruct args as [|a0 args]; [inversion H; subst; apply exact_nil|].
      destruct (gen_begin (gen expander special n) (inc_scope c) (a0 :: args)) as [b|] eqn:Hb; [|discriminate].
      inversion H; subst. apply exact_scope. eapply gen_begin_good; eauto. apply ok_inc; exact Hok. }
    destruct (Z.eqb s sym_for).
    { destruct args as [|ctl body]; [discriminate|]. destruct ctl as [| | | | |ctl|]; try discriminate.
      destruct ctl as [|init [|test [|incr [|x ctl]]]]; try discriminate.
      destruct (gen expander special n (enter_loop c) init) as [i|] eqn:Hi; [|discriminate].
      destruct (gen expander special n (enter_loop c) incr) as [u|] eqn:Hu; [|discriminate].
      destruct (gen expander special n (enter_loop c) test) as [t|] eqn:Ht; [|discriminate].
      destruct (gen_begin (gen expander special n) (enter_loop c) body) as [b|] eqn:Hb; [|discriminate].
      inversion H; subst. pose proof (ok_loop c Hok) as Hl.
      replace (i ++ u ++ t ++ b ++ [PLoopEnd; PRemove]) with ((i ++ u ++ t ++ b) ++ [PLoopEnd; PRemove])
        by (repeat rewrite <- app_assoc; reflexivity).
      apply (exact_loop c (i ++ u ++ t ++ b)).
      repeat apply exact_app; try (eapply IH; eauto; fail).
      eapply gen_begin_good; eauto. }
    destruct (Z.eqb s sym_break).
    { destruct args; [|discriminate]. destruct (g_loops c) as [|d L] eqn:HL; [discriminate|].
      inversion H; subst. unfold exact; simpl. rewrite HL.
      unfold ctx_ok in Hok. rewrite HL in Hok. simpl in Hok. apply andb_true_iff in Hok.
      destruct Hok as [Hd _]. apply Nat.ltb_lt in Hd.
      replace (Nat.eqb (g_scopes c) (S (d + (g_scopes c - S d)))) with true; [reflexivity|].
      symmetry; apply Nat.eqb_eq; lia. }
    destruct (Z.eqb s sym_continue).
    { destruct args; [|discriminate]. destruct (g_loops c) as [|d L] eqn:HL; [discriminate|].
      inversion H; subst. unfold exact; simpl. rewrite HL.
      unfold ctx_ok in Hok. rewrite HL in Hok. simpl in Hok. apply andb_true_iff in Hok.
      destruct Hok as [Hd _]. apply Nat.ltb_lt in Hd.
      replace (Nat.eqb (g_scopes c) (S (d + (g_scopes c - S d)))) with true; [reflexivity|].
      symmetry; apply Nat.eqb_eq; lia. }
    destruct (Z.eqb s sym_cond); [eapply gen_cond_good; eauto|].
    destruct (Z.eqb s sym_def || Z.eqb s sym_set).
    { destruct args as [|a0 [|e [|x args]]]; try discriminate; destruct a0; try discriminate.
      apply exact_tail with (b := false). exact (IH (with_tail c false) e code Hok H). }
    destruct (special s); [discriminate|].
    destruct (expander s) as [ex|].
    { destruct (ex args) as [e|]; [|discriminate]. eapply IH; eauto. }
    destruct (g_tail c && Z.eqb s (g_fn c) && Nat.eqb (length args) (g_nargs c)).
    { destruct (gen_all (gen expander special n) (with_tail c false) args) as [a|] eqn:Ha; [|discriminate].
      inversion H; subst. apply exact_app.
      - apply exact_tail with (b := false). eapply gen_all_good; eauto.
      - unfold exact; simpl. rewrite Nat.eqb_refl. reflexivity. }
    inversion H; subst. reflexivity.
  Qed.

  (* GenerateCallBySymbol, macro branch: the code of a macro call IS the code of its expansion
     compiled in the caller's generator context c -- the same scope count, the same loops, the
     same Tail flag and function name. *)
  Theorem macro_call_in_context : forall n c s args ex e,
    Z.eqb s sym_begin = false -> (Z.eqb s sym_let || Z.eqb s sym_letseq) = false ->
    Z.eqb s sym_newscope = false -> Z.eqb s sym_for = false -> Z.eqb s sym_break = false ->
    Z.eqb s sym_continue = false -> Z.eqb s sym_cond = false ->
    (Z.eqb s sym_def || Z.eqb s sym_set) = false -> special s = false ->
    expander s = Some ex -> ex args = Some e ->
    gen expander special (S n) c (VList (VSym s :: args)) = gen expander special n c e.
  Proof.
    intros n c s args ex e H1 H2 H3 H4 H5 H6 H7 H8 H9 Hx He.
    cbn [gen]. rewrite H1, H2, H3, H4, H5, H6, H7, H8, H9, Hx, He. reflexivity.
  Qed.

  (* a whole function body (GenerateFn: scopes = 0, Tail on, no loop) *)
  Theorem fn_body_exact : forall n fn nargs body code,
    gen_begin (gen expander special n) (fn_ctx fn nargs) body = Some code ->
    chk (0%nat, []) code = Some (0%nat, []).
  Proof.
    intros n fn nargs body code H.
    apply (gen_begin_good _ (gen_exact n) body (fn_ctx fn nargs) code); [reflexivity|exact H].
  Qed.
End Gen.

(* a (break) that comes out of a macro expansion k scopes above the loop's own scope pops k *)
Theorem expansion_break_pops : forall expander special n c s args ex d L,
  Z.eqb s sym_begin = false -> (Z.eqb s sym_let || Z.eqb s sym_letseq) = false ->
  Z.eqb s sym_newscope = false -> Z.eqb s sym_for = false -> Z.eqb s sym_break = false ->
  Z.eqb s sym_continue = false -> Z.eqb s sym_cond = false ->
  (Z.eqb s sym_def || Z.eqb s sym_set) = false -> special s = false ->
  expander s = Some ex -> ex args = Some (VList [VSym sym_break]) ->
  g_loops c = d :: L ->
  gen expander special (S (S n)) c (VList (VSym s :: args)) = Some [PBreak (g_scopes c - S d)].
Proof.
  intros expander special n c s args ex d L H1 H2 H3 H4 H5 H6 H7 H8 H9 Hx He HL.
  rewrite (macro_call_in_context expander special (S n) c s args ex _ H1 H2 H3 H4 H5 H6 H7 H8 H9 Hx He).
  cbn. rewrite HL. reflexivity.
Qed.
