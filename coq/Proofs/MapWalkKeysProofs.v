(* C20 -- proofs about Model/MapWalkKeys.v: Go's string order is a strict total order, hence every
   correct sort over it returns ONE slice whatever the walk order; interning after the sort;
   the rank specification; lookup-only maps; first offender; process-global cells. *)
From Coq Require Import List Bool ZArith Arith Lia Permutation Sorted.
Require Import ZV.Model.MapWalk ZV.Model.MapWalkKeys.
Require Import ZV.Proofs.MapWalkProofs.
Import ListNotations.

(* ------------------------------------------------------------------------------------ *)
(* Go's < on strings                                                                     *)

Lemma str_ltb_irrefl : forall a, str_ltb a a = false.
Proof. induction a as [|x a IH]; simpl; auto. rewrite Z.ltb_irrefl. exact IH. Qed.

Lemma str_ltb_asym : forall a b, str_ltb a b = true -> str_ltb b a = false.
Proof.
  induction a as [|x a IH]; intros [|y b]; simpl; intros H; try discriminate; auto.
  destruct (Z.ltb_spec x y); destruct (Z.ltb_spec y x); try lia; try discriminate; auto.
Qed.

Lemma str_ltb_tri : forall a b, str_ltb a b = false -> str_ltb b a = false -> a = b.
Proof.
  induction a as [|x a IH]; intros [|y b]; simpl; intros H1 H2; try discriminate; auto.
  destruct (Z.ltb_spec x y); destruct (Z.ltb_spec y x); try lia; try discriminate.
  assert (x = y) by lia. subst. f_equal. auto.
Qed.

Lemma str_ltb_negtrans : forall c a b, str_ltb c a = true -> str_ltb c b = true \/ str_ltb b a = true.
Proof.
  induction c as [|x c IH]; intros [|y a] [|z b]; simpl; intros H; try discriminate; auto.
  destruct (Z.ltb_spec x y); destruct (Z.ltb_spec y x); destruct (Z.ltb_spec x z); destruct (Z.ltb_spec z x);
    destruct (Z.ltb_spec z y); destruct (Z.ltb_spec y z); try lia; try discriminate; auto.
Qed.

Lemma str_ltb_trans : forall a b c, str_ltb a b = true -> str_ltb b c = true -> str_ltb a c = true.
Proof.
  intros a b c H1 H2. destruct (str_ltb_negtrans a b c H1) as [H|H]; auto.
  apply str_ltb_asym in H2. congruence.
Qed.

Lemma str_eqb_eq : forall a b, str_eqb a b = true <-> a = b.
Proof.
  induction a as [|x a IH]; intros [|y b]; simpl; split; intros H; try discriminate; auto.
  - apply andb_true_iff in H. destruct H as [H1 H2]. apply Z.eqb_eq in H1. apply IH in H2. now subst.
  - inversion H; subst. rewrite Z.eqb_refl. simpl. now apply IH.
Qed.

Lemma str_eqb_refl : forall a, str_eqb a a = true.
Proof. intros. now apply str_eqb_eq. Qed.

Lemma str_eqb_neq : forall a b, a <> b -> str_eqb a b = false.
Proof. intros a b H. destruct (str_eqb a b) eqn:E; auto. apply str_eqb_eq in E. contradiction. Qed.

(* ------------------------------------------------------------------------------------ *)
(* sorting with a comparator that is a strict weak order                                 *)

Section LessSort.
  Variable A : Type.
  Variable less : A -> A -> bool.
  Hypothesis less_asym : forall a b, less a b = true -> less b a = false.
  Hypothesis less_negtrans : forall c a b, less c a = true -> less c b = true \/ less b a = true.

  Definition lele (a b : A) : Prop := less b a = false.

  Lemma lele_trans : forall a b c, lele a b -> lele b c -> lele a c.
  Proof.
    unfold lele. intros a b c H1 H2. destruct (less c a) eqn:E; auto.
    destruct (less_negtrans c a b E) as [H|H]; congruence.
  Qed.

  Lemma less_insert_perm : forall x l, Permutation (less_insert less x l) (x :: l).
  Proof.
    induction l as [|y t IH]; simpl; auto.
    destruct (less y x); auto.
    eapply Permutation_trans; [apply perm_skip, IH | apply perm_swap].
  Qed.

  Lemma less_sort_perm : forall l, Permutation (less_sort less l) l.
  Proof.
    induction l as [|x t IH]; simpl; auto.
    eapply Permutation_trans; [apply less_insert_perm | now apply perm_skip].
  Qed.

  Lemma less_insert_sorted : forall x l, StronglySorted lele l -> StronglySorted lele (less_insert less x l).
  Proof.
    induction l as [|y t IH]; simpl; intros S.
    - constructor; constructor.
    - inversion S as [|? ? St Fy]; subst. destruct (less y x) eqn:E.
      + constructor; auto.
        eapply Permutation_Forall; [apply Permutation_sym, less_insert_perm|].
        constructor; auto. unfold lele. now apply less_asym.
      + constructor; auto. constructor; [exact E|].
        rewrite Forall_forall in *. intros z Iz. eapply lele_trans; [exact E | now apply Fy].
  Qed.

  Lemma less_sort_sorted : forall l, StronglySorted lele (less_sort less l).
  Proof. induction l as [|x t IH]; simpl; [constructor | now apply less_insert_sorted]. Qed.

  (* every correct sorting function agrees with the model on lists whose items the comparator
     tells apart: sort.Sort (pattern-defeating quicksort, not stable) = the insertion sort *)
  Lemma any_sort_eq_model : forall (sort : list A -> list A),
    (forall l, Permutation (sort l) l) -> (forall l, StronglySorted lele (sort l)) ->
    forall l, (forall a b, In a l -> In b l -> less a b = false -> less b a = false -> a = b) ->
    sort l = less_sort less l.
  Proof.
    intros sort SP SS l anti. apply ssorted_perm_eq with (le := lele); auto using less_sort_sorted.
    - eapply Permutation_trans; [apply SP | apply Permutation_sym, less_sort_perm].
    - intros a b Ia Ib H1 H2. apply anti; auto; eapply Permutation_in; try apply SP; auto.
  Qed.

  Lemma less_sort_indep_on : forall l1 l2, Permutation l1 l2 ->
    (forall a b, In a l1 -> In b l1 -> less a b = false -> less b a = false -> a = b) ->
    less_sort less l1 = less_sort less l2.
  Proof.
    intros l1 l2 P anti. apply sort_perm_indep with (le := lele); auto using less_sort_perm, less_sort_sorted.
  Qed.
End LessSort.

(* sort.Strings: NO side condition -- Go's string order tells any two different strings apart *)
Lemma sort_strings_indep_lemma : forall l1 l2, Permutation l1 l2 -> sort_strings l1 = sort_strings l2.
Proof.
  intros l1 l2 P. unfold sort_strings.
  apply less_sort_indep_on; auto using str_ltb_asym, str_ltb_negtrans.
  intros a b _ _. apply str_ltb_tri.
Qed.

Lemma any_string_sort_is_the_model_lemma : forall (sort : list gostr -> list gostr),
  (forall l, Permutation (sort l) l) ->
  (forall l, StronglySorted (fun a b => str_ltb b a = false) (sort l)) ->
  forall l, sort l = sort_strings l.
Proof.
  intros sort SP SS l. unfold sort_strings.
  apply any_sort_eq_model; auto using str_ltb_asym, str_ltb_negtrans.
  intros a b _ _. apply str_ltb_tri.
Qed.

Lemma sort_strings_spec_lemma : forall l,
  Permutation (sort_strings l) l /\ StronglySorted (fun a b => str_ltb b a = false) (sort_strings l).
Proof.
  intros l. split.
  - apply less_sort_perm.
  - apply (less_sort_sorted gostr str_ltb str_ltb_asym str_ltb_negtrans).
Qed.

(* makeSortedSlicesFromMap: the keys of one Go map are pairwise distinct *)
Lemma key_less_asym : forall V (a b : gostr * V), key_less a b = true -> key_less b a = false.
Proof. unfold key_less. intros. now apply str_ltb_asym. Qed.
Lemma key_less_negtrans : forall V (c a b : gostr * V), key_less c a = true -> key_less c b = true \/ key_less b a = true.
Proof. unfold key_less. intros. now apply str_ltb_negtrans. Qed.

Lemma nodup_fst_inj : forall K V (l : list (K * V)) a b,
  NoDup (map fst l) -> In a l -> In b l -> fst a = fst b -> a = b.
Proof.
  induction l as [|x t IH]; simpl; intros a b ND Ia Ib E; [contradiction|].
  inversion ND as [|? ? Nx NDt]; subst.
  destruct Ia as [->|Ia]; destruct Ib as [->|Ib]; auto.
  - exfalso. apply Nx. rewrite E. now apply in_map.
  - exfalso. apply Nx. rewrite <- E. now apply in_map.
Qed.

Lemma sorted_slices_indep_lemma : forall V (o1 o2 : list (gostr * V)),
  Permutation o1 o2 -> NoDup (map fst o1) -> sorted_slices o1 = sorted_slices o2.
Proof.
  intros V o1 o2 P ND. unfold sorted_slices.
  apply less_sort_indep_on; auto using key_less_asym, key_less_negtrans.
  intros a b Ia Ib H1 H2. eapply nodup_fst_inj; eauto. now apply str_ltb_tri.
Qed.

Lemma any_sort_gives_sorted_slices_lemma : forall V (sort : list (gostr * V) -> list (gostr * V)),
  (forall l, Permutation (sort l) l) ->
  (forall l, StronglySorted (fun a b => key_less b a = false) (sort l)) ->
  forall o, NoDup (map fst o) -> sort o = sorted_slices o.
Proof.
  intros V sort SP SS o ND. unfold sorted_slices.
  apply any_sort_eq_model; auto using key_less_asym, key_less_negtrans.
  intros a b Ia Ib H1 H2. eapply nodup_fst_inj; eauto. now apply str_ltb_tri.
Qed.

(* a folding comparator: fine when the fold is injective on the keys present, refuted otherwise *)
Lemma folded_slices_indep_lemma : forall V (fold : gostr -> gostr) (o1 o2 : list (gostr * V)),
  Permutation o1 o2 -> NoDup (map fst o1) ->
  (forall a b, In a o1 -> In b o1 -> fold (fst a) = fold (fst b) -> fst a = fst b) ->
  folded_slices fold o1 = folded_slices fold o2.
Proof.
  intros V fold o1 o2 P ND inj. unfold folded_slices.
  apply less_sort_indep_on; auto.
  - intros a b. apply str_ltb_asym.
  - intros c a b. apply str_ltb_negtrans.
  - intros a b Ia Ib H1 H2. eapply nodup_fst_inj; eauto. apply inj; auto. now apply str_ltb_tri.
Qed.

Lemma case_folding_comparator_refuted_lemma :
  exists o1 o2 : list (gostr * Z), Permutation o1 o2 /\ NoDup (map fst o1) /\
    folded_slices ascii_lower o1 <> folded_slices ascii_lower o2.
Proof.
  exists [([105; 100], 1); ([73; 68], 2)]%Z, [([73; 68], 2); ([105; 100], 1)]%Z.
  split; [apply perm_swap|]. split.
  - constructor; [simpl; intros [H|[]]; discriminate|]. constructor; [simpl; tauto | constructor].
  - vm_compute. discriminate.
Qed.

(* ------------------------------------------------------------------------------------ *)
(* interning                                                                             *)

Lemma new_zlisp_symtab_indep_lemma : forall V (reserved : list gostr) (o1 o2 : list (gostr * V)),
  Permutation o1 o2 -> new_zlisp_symtab reserved o1 = new_zlisp_symtab reserved o2.
Proof.
  intros V reserved o1 o2 P. unfold new_zlisp_symtab.
  rewrite (sort_strings_indep_lemma (map fst o1) (map fst o2)); auto. now apply Permutation_map.
Qed.

Lemma new_zlisp_symtab_unsorted_refuted_lemma :
  exists (o1 o2 : list (gostr * Z)) (q : gostr), Permutation o1 o2 /\ NoDup (map fst o1) /\
    symnums [q] (new_zlisp_symtab_unsorted [] o1) <> symnums [q] (new_zlisp_symtab_unsorted [] o2).
Proof.
  exists [([97], 0); ([98], 0)]%Z, [([98], 0); ([97], 0)]%Z, [97]%Z.
  split; [apply perm_swap|]. split.
  - constructor; [simpl; intros [H|[]]; discriminate|]. constructor; [simpl; tauto | constructor].
  - vm_compute. discriminate.
Qed.

(* invariant of the table: every number in use is below nextsymbol, names are distinct *)
Definition st_inv (t : symtab) : Prop := forall e, In e (st_tbl t) -> snd e < st_next t.

Lemma st_used_false : forall tbl n, (forall e, In e tbl -> snd e < n) -> st_used n tbl = false.
Proof.
  induction tbl as [|e tbl IH]; simpl; intros n H; auto.
  rewrite IH by (intros; apply H; now right).
  specialize (H e (or_introl eq_refl)). destruct (Nat.eqb_spec (snd e) n); [lia | reflexivity].
Qed.

Lemma make_symbol_fresh : forall name t, st_inv t -> st_lookup name t = None ->
  make_symbol name t = Some (st_next t, mkSymtab ((name, st_next t) :: st_tbl t) (S (st_next t))).
Proof.
  intros name t I L. unfold make_symbol. rewrite L. simpl. now rewrite st_used_false.
Qed.

Lemma make_symbol_total_inv : forall name t, st_inv t ->
  exists n t', make_symbol name t = Some (n, t') /\ st_inv t' /\ st_lookup name t' = Some n
    /\ (forall q, q <> name -> st_lookup q t' = st_lookup q t)
    /\ (forall m, st_lookup name t = Some m -> n = m /\ t' = t).
Proof.
  intros name t I. destruct (st_lookup name t) as [n|] eqn:L.
  - exists n, t. unfold make_symbol. rewrite L.
    split; [reflexivity|]. split; [exact I|]. split; [reflexivity|]. split; [reflexivity|].
    intros m0 H0. inversion H0. auto.
  - eexists; eexists. rewrite make_symbol_fresh by auto. split; [reflexivity|].
    split; [|split; [|split]].
    + intros e [<-|Ie]; simpl; [lia|]. specialize (I e Ie). lia.
    + unfold st_lookup. simpl. now rewrite str_eqb_refl.
    + intros q Hq. unfold st_lookup. simpl. rewrite str_eqb_neq by congruence. reflexivity.
    + intros m0 H0; discriminate.
Qed.

Lemma intern_all_total_inv : forall names t, st_inv t ->
  exists t', intern_all names t = Some t' /\ st_inv t'
    /\ (forall q, ~ In q names -> st_lookup q t' = st_lookup q t)
    /\ (forall q n, st_lookup q t = Some n -> st_lookup q t' = Some n).
Proof.
  induction names as [|x r IH]; simpl; intros t I.
  - exists t. split; [reflexivity|]. split; [exact I|]. split; auto.
  - destruct (make_symbol_total_inv x t I) as (n & t1 & E & I1 & L1 & O1 & K1). rewrite E.
    destruct (IH t1 I1) as (t2 & E2 & I2 & O2 & K2). exists t2. repeat split; auto.
    + intros q Hq. rewrite O2 by tauto. apply O1. intros ->. tauto.
    + intros q m Hq. apply K2. destruct (list_eq_dec Z.eq_dec q x) as [->|Hne].
      * destruct (K1 m Hq) as [-> ->]. exact Hq.
      * rewrite O1; auto.
Qed.

Lemma st_inv_init : st_inv (mkSymtab [] 1).
Proof. intros e []. Qed.

Lemma new_zlisp_symtab_total_lemma : forall V (reserved : list gostr) (o : list (gostr * V)),
  exists t, new_zlisp_symtab reserved o = Some t.
Proof.
  intros V reserved o. unfold new_zlisp_symtab.
  destruct (intern_all_total_inv [s_null; s_nil] _ st_inv_init) as (t0 & E0 & I0 & _). rewrite E0.
  destruct (intern_all_total_inv (sort_strings (map fst o)) t0 I0) as (t1 & E1 & I1 & _). rewrite E1.
  destruct (intern_all_total_inv reserved t1 I1) as (t2 & E2 & _). exists t2. exact E2.
Qed.

(* interning a strictly sorted list of fresh names numbers them by position *)
Lemma intern_fresh_numbers : forall names t, st_inv t -> NoDup names ->
  (forall q, In q names -> st_lookup q t = None) ->
  exists t', intern_all names t = Some t' /\ st_inv t' /\ st_next t' = st_next t + length names
    /\ (forall q, ~ In q names -> st_lookup q t' = st_lookup q t)
    /\ (forall i q, nth_error names i = Some q -> st_lookup q t' = Some (st_next t + i)).
Proof.
  induction names as [|x r IH]; simpl; intros t I ND F.
  - exists t. split; [reflexivity|]. split; [exact I|]. split; [lia|]. split; [reflexivity|].
    intros [|i] q H; discriminate.
  - inversion ND as [|? ? Nx NDr]; subst.
    rewrite make_symbol_fresh by auto.
    set (t1 := mkSymtab ((x, st_next t) :: st_tbl t) (S (st_next t))).
    assert (I1 : st_inv t1). { intros e [<-|Ie]; simpl; [lia|]. specialize (I e Ie). lia. }
    assert (L1 : forall q, q <> x -> st_lookup q t1 = st_lookup q t).
    { intros q Hq. unfold st_lookup. simpl. rewrite str_eqb_neq by congruence. reflexivity. }
    destruct (IH t1 I1 NDr) as (t2 & E2 & I2 & N2 & O2 & P2).
    { intros q Hq. rewrite L1; [apply F; now right | intros ->; contradiction]. }
    exists t2. split; [exact E2|]. split; [exact I2|]. split; [simpl in N2; lia|]. split.
    + intros q Hq. rewrite O2 by tauto. apply L1. intros ->. tauto.
    + intros [|i] q H; simpl in H.
      * inversion H; subst. rewrite O2 by exact Nx. unfold st_lookup. simpl. rewrite str_eqb_refl. simpl. f_equal. lia.
      * rewrite (P2 i q H). simpl. f_equal. lia.
Qed.

Lemma filter_none : forall A (p : A -> bool) l, (forall y, In y l -> p y = false) -> filter p l = [].
Proof.
  induction l as [|y l IH]; simpl; intros H; auto.
  rewrite (H y (or_introl eq_refl)). apply IH. intros; apply H; now right.
Qed.

(* position in a strictly sorted list = number of smaller elements *)
Lemma rank_sorted_nth : forall s, StronglySorted (fun a b => str_ltb b a = false) s -> NoDup s ->
  forall i q, nth_error s i = Some q -> rank q s = i.
Proof.
  unfold rank. induction s as [|x s IH]; intros S ND i q H; [destruct i; discriminate|].
  inversion S as [|? ? Ss Fx]; subst. inversion ND as [|? ? Nx NDs]; subst.
  rewrite Forall_forall in Fx. destruct i as [|i]; simpl in H.
  - inversion H; subst. simpl. rewrite str_ltb_irrefl.
    rewrite filter_none by (intros y Iy; now apply Fx). reflexivity.
  - assert (Iq : In q s) by (eapply nth_error_In; eauto).
    simpl. assert (str_ltb x q = true) as ->.
    { destruct (str_ltb x q) eqn:E; auto. exfalso. apply Nx.
      rewrite (str_ltb_tri x q E (Fx q Iq)). exact Iq. }
    simpl. f_equal. now apply IH.
Qed.

Lemma rank_perm : forall q l1 l2, Permutation l1 l2 -> rank q l1 = rank q l2.
Proof.
  unfold rank. intros q l1 l2 P. induction P; simpl; auto.
  - destruct (str_ltb x q); simpl; auto.
  - destruct (str_ltb x q); destruct (str_ltb y q); simpl; auto.
  - congruence.
Qed.

Lemma lookup_t0 : forall q, q <> s_null -> q <> s_nil ->
  st_lookup q (mkSymtab [(s_nil, 2); (s_null, 1)] 3) = None.
Proof.
  intros q H1 H2. unfold st_lookup. cbn [st_tbl find fst].
  rewrite (str_eqb_neq s_nil q) by congruence. rewrite (str_eqb_neq s_null q) by congruence. reflexivity.
Qed.

(* REFINEMENT: the symbol number NewZlispWithFuncs gives a builtin is the order-free rank
   specification, for every set of builtin names that does not contain null / nil. *)
Lemma builtin_symnum_refines_rank_lemma : forall V (reserved : list gostr) (o : list (gostr * V)),
  NoDup (map fst o) -> ~ In s_null (map fst o) -> ~ In s_nil (map fst o) ->
  forall f, In f (map fst o) ->
    symnums [f] (new_zlisp_symtab reserved o) = [Some (spec_builtin_symnum (map fst o) f)].
Proof.
  intros V reserved o ND Nnull Nnil f If. unfold new_zlisp_symtab.
  change (intern_all [s_null; s_nil] (mkSymtab [] 1)) with (Some (mkSymtab [(s_nil, 2); (s_null, 1)] 3)).
  set (t0 := mkSymtab [(s_nil, 2); (s_null, 1)] 3).
  assert (I0 : st_inv t0). { intros e [<-|[<-|[]]]; simpl; lia. }
  destruct (sort_strings_spec_lemma (map fst o)) as [SP SS].
  set (names := sort_strings (map fst o)) in *.
  assert (NDn : NoDup names) by (eapply Permutation_NoDup; [apply Permutation_sym, SP | exact ND]).
  destruct (intern_fresh_numbers names t0 I0 NDn) as (t1 & E1 & I1 & _ & _ & P1).
  { intros q Iq. assert (Iq' : In q (map fst o)) by (eapply Permutation_in; eauto).
    apply lookup_t0; intros ->; contradiction. }
  rewrite E1.
  destruct (intern_all_total_inv reserved t1 I1) as (t2 & E2 & _ & _ & K2). rewrite E2.
  assert (Ifn : In f names) by (eapply Permutation_in; [apply Permutation_sym, SP | exact If]).
  destruct (In_nth_error _ _ Ifn) as [i Hi].
  simpl. rewrite (K2 f _ (P1 i f Hi)). unfold spec_builtin_symnum.
  rewrite (rank_perm f (map fst o) names) by (now apply Permutation_sym).
  rewrite (rank_sorted_nth names SS NDn i f Hi). reflexivity.
Qed.

(* ------------------------------------------------------------------------------------ *)
(* a Go map that is only indexed                                                         *)

Lemma assoc_lookup_indep_lemma : forall V k (o1 o2 : list (gostr * V)),
  Permutation o1 o2 -> NoDup (map fst o1) -> assoc_lookup k o1 = assoc_lookup k o2.
Proof.
  intros V k o1 o2 P ND. unfold assoc_lookup. f_equal.
  apply (unique_match_indep_lemma gostr V (fun e => str_eqb (fst e) k)); auto.
  intros a b Ia Ib Ha Hb. apply str_eqb_eq in Ha. apply str_eqb_eq in Hb.
  eapply nodup_fst_inj; eauto. congruence.
Qed.

Lemma named_args_final_indep_lemma : forall V declared (s1 s2 : list (gostr * V)),
  Permutation s1 s2 -> NoDup (map fst s1) -> named_args_final declared s1 = named_args_final declared s2.
Proof.
  intros V declared s1 s2 P ND. unfold named_args_final. apply map_ext. intros d.
  now apply assoc_lookup_indep_lemma.
Qed.

Lemma named_args_check_indep_lemma : forall V (tyof : V -> Z) declared (s1 s2 : list (gostr * V)),
  Permutation s1 s2 -> NoDup (map fst s1) -> named_args_check tyof declared s1 = named_args_check tyof declared s2.
Proof.
  intros V tyof declared s1 s2 P ND. unfold named_args_check.
  now rewrite (named_args_final_indep_lemma V (map fst declared) s1 s2 P ND).
Qed.

Lemma named_args_check_in_walk_order_refuted_lemma :
  exists (declared : list (gostr * Z)) (s1 s2 : list (gostr * Z)), Permutation s1 s2 /\ NoDup (map fst s1) /\
    named_args_check_in_walk_order (fun v => v) declared s1 <> named_args_check_in_walk_order (fun v => v) declared s2.
Proof.
  exists [([97], 0); ([98], 0)]%Z, [([97], 1); ([98], 1)]%Z, [([98], 1); ([97], 1)]%Z.
  split; [apply perm_swap|]. split.
  - constructor; [simpl; intros [H|[]]; discriminate|]. constructor; [simpl; tauto | constructor].
  - vm_compute. discriminate.
Qed.

(* ------------------------------------------------------------------------------------ *)
(* first offender                                                                        *)

Lemma first_offender_sorted_indep_lemma : forall V (bad : gostr * V -> bool) (o1 o2 : list (gostr * V)),
  Permutation o1 o2 -> NoDup (map fst o1) -> first_offender_sorted bad o1 = first_offender_sorted bad o2.
Proof. intros V bad o1 o2 P ND. unfold first_offender_sorted. now rewrite (sorted_slices_indep_lemma V o1 o2). Qed.

Lemma first_offender_walk_refuted_lemma :
  exists (bad : gostr * Z -> bool) (o1 o2 : list (gostr * Z)), Permutation o1 o2 /\ NoDup (map fst o1) /\
    first_offender_walk bad o1 <> first_offender_walk bad o2.
Proof.
  exists (fun _ => true), [([122], 0); ([121], 0)]%Z, [([121], 0); ([122], 0)]%Z.
  split; [apply perm_swap|]. split.
  - constructor; [simpl; intros [H|[]]; discriminate|]. constructor; [simpl; tauto | constructor].
  - vm_compute. discriminate.
Qed.

(* at most one offender: the raw walk is order-independent too *)
Lemma first_offender_walk_unique_indep_lemma : forall V (bad : gostr * V -> bool) (o1 o2 : list (gostr * V)),
  Permutation o1 o2 -> (forall a b, In a o1 -> In b o1 -> bad a = true -> bad b = true -> a = b) ->
  first_offender_walk bad o1 = first_offender_walk bad o2.
Proof.
  intros V bad o1 o2 P U. unfold first_offender_walk. f_equal.
  now apply (unique_match_indep_lemma gostr V bad).
Qed.

(* ------------------------------------------------------------------------------------ *)
(* process-global cells: invariant over ALL histories                                    *)

Lemma store_always_history_indep_lemma : forall K G (val : K -> G) (h : list K) (k : K),
  after_history (store_always val) h k = val k.
Proof. intros. unfold after_history, store_always. reflexivity. Qed.

Lemma store_if_unset_history_lemma : forall K G (val : K -> G) (h : list K) (k : K),
  after_history (store_if_unset val) h k = match h with [] => val k | k0 :: _ => val k0 end.
Proof.
  intros K G val h k. unfold after_history.
  assert (F : forall h g v, g = Some v -> fold_left (fun g k' => fst (store_if_unset val g k')) h g = Some v).
  { induction h0 as [|a h0 IH]; simpl; intros g v ->; auto. }
  destruct h as [|k0 h]; simpl; [reflexivity|].
  rewrite (F h (Some (val k0)) (val k0) eq_refl). reflexivity.
Qed.

Lemma store_if_unset_const_indep_lemma : forall K G (val : K -> G),
  (forall k1 k2, val k1 = val k2) -> forall h k, after_history (store_if_unset val) h k = val k.
Proof. intros K G val C h k. rewrite store_if_unset_history_lemma. destruct h; auto. Qed.

Lemma store_if_unset_refuted_lemma :
  exists (val : bool -> Z) (h : list bool) (k : bool),
    after_history (store_if_unset val) h k <> after_history (store_if_unset val) [] k.
Proof. exists (fun b : bool => if b then 1%Z else 2%Z), [true], false. vm_compute. discriminate. Qed.
