(* C20 -- proofs that each class of map walk is independent of the iteration order,
   refutations for the classes that are not, coverage of the generated census. *)
From Coq Require Import String List Bool ZArith Arith Lia Permutation Sorted.
Require Import ZV.Model.MapWalk.
Require Import ZV.Generated.Census.
Import ListNotations.

(* ------------------------------------------------------------------------------------ *)
(* Sorted lists that are permutations of each other are equal (antisymmetric on the list) *)

Section SortedUnique.
  Variable A : Type.
  Variable le : A -> A -> Prop.

  Lemma ssorted_perm_eq : forall l1 l2 : list A,
    StronglySorted le l1 -> StronglySorted le l2 -> Permutation l1 l2 ->
    (forall a b, In a l1 -> In b l1 -> le a b -> le b a -> a = b) ->
    l1 = l2.
  Proof.
    induction l1 as [|x t IH]; intros l2 S1 S2 P anti.
    - apply Permutation_nil in P. now subst.
    - destruct l2 as [|y u].
      + apply Permutation_sym, Permutation_nil in P. discriminate.
      + inversion S1 as [|? ? S1t F1]; subst. inversion S2 as [|? ? S2u F2]; subst.
        assert (x = y) as ->.
        { assert (Iy : In y (x :: t)) by (eapply Permutation_in; [apply Permutation_sym, P | now left]).
          assert (Ix : In x (y :: u)) by (eapply Permutation_in; [apply P | now left]).
          destruct Iy as [->|Iy]; [reflexivity|].
          destruct Ix as [->|Ix]; [reflexivity|].
          rewrite Forall_forall in F1, F2.
          apply anti; [now left | now right | now apply F1 | now apply F2]. }
        f_equal. apply IH; auto.
        * eapply Permutation_cons_inv; eauto.
        * intros a b Ia Ib. apply anti; now right.
  Qed.

  Variable sort : list A -> list A.
  Hypothesis sort_perm : forall l, Permutation (sort l) l.
  Hypothesis sort_sorted : forall l, StronglySorted le (sort l).

  (* Any sorting function gives the same slice for every order of the same items, provided the
     order relation distinguishes the items that are present (no two different items compare
     equal).  When sort keys collide the hypothesis fails -- see sorted_walk_collision_refuted. *)
  Lemma sort_perm_indep : forall l1 l2 : list A,
    Permutation l1 l2 ->
    (forall a b, In a l1 -> In b l1 -> le a b -> le b a -> a = b) ->
    sort l1 = sort l2.
  Proof.
    intros l1 l2 P anti. apply ssorted_perm_eq; auto.
    - eapply Permutation_trans; [apply sort_perm|].
      eapply Permutation_trans; [apply P|]. apply Permutation_sym, sort_perm.
    - intros a b Ia Ib. apply anti; eapply Permutation_in; try apply sort_perm; auto.
  Qed.
End SortedUnique.

(* The walk of class SortedAfter over a Go map: for ALL maps (lists with distinct keys), ALL
   orders, ALL item functions that keep the key apart (two different elements never compare
   equal in both directions), ALL correct sorting functions. *)
Theorem sorted_walk_indep_lemma :
  forall (K V A : Type) (le : A -> A -> Prop) (sort : list A -> list A) (item : K * V -> A),
    (forall l, Permutation (sort l) l) -> (forall l, StronglySorted le (sort l)) ->
    forall order1 order2 : list (K * V),
      Permutation order1 order2 ->
      (forall e1 e2, In e1 order1 -> In e2 order1 -> le (item e1) (item e2) -> le (item e2) (item e1) -> item e1 = item e2) ->
      sorted_walk K V item sort order1 = sorted_walk K V item sort order2.
Proof.
  intros K V A le sort item SP SS o1 o2 P anti. unfold sorted_walk.
  eapply sort_perm_indep; eauto.
  - now apply Permutation_map.
  - intros a b Ia Ib. apply in_map_iff in Ia. apply in_map_iff in Ib.
    destruct Ia as [e1 [<- I1]]. destruct Ib as [e2 [<- I2]]. now apply anti.
Qed.

(* zsort is a correct sorting function for the order "key x <= key y" *)
Lemma zinsert_perm : forall A (key : A -> Z) x l, Permutation (zinsert key x l) (x :: l).
Proof.
  induction l as [|y t IH]; simpl; auto.
  destruct (key x <=? key y)%Z; auto.
  eapply Permutation_trans; [apply perm_skip, IH | apply perm_swap].
Qed.
Lemma zsort_perm : forall A (key : A -> Z) l, Permutation (zsort key l) l.
Proof.
  induction l as [|x t IH]; simpl; auto.
  eapply Permutation_trans; [apply zinsert_perm | now apply perm_skip].
Qed.
Lemma zinsert_sorted : forall A (key : A -> Z) x l,
  StronglySorted (fun a b => (key a <= key b)%Z) l ->
  StronglySorted (fun a b => (key a <= key b)%Z) (zinsert key x l).
Proof.
  induction l as [|y t IH]; simpl; intros S.
  - constructor; constructor.
  - inversion S as [|? ? St F]; subst.
    destruct (key x <=? key y)%Z eqn:E.
    + apply Z.leb_le in E. constructor; auto. constructor; auto.
      rewrite Forall_forall in *. intros z Iz. specialize (F z Iz). simpl in F. lia.
    + apply Z.leb_gt in E. constructor; auto.
      rewrite Forall_forall in *. intros z Iz.
      eapply Permutation_in in Iz; [|apply zinsert_perm].
      destruct Iz as [<-|Iz]; [lia | now apply F].
  Qed.
Lemma zsort_sorted : forall A (key : A -> Z) l, StronglySorted (fun a b => (key a <= key b)%Z) (zsort key l).
Proof. induction l; simpl; [constructor | now apply zinsert_sorted]. Qed.

(* Items sorted by a key that is the (distinct) map key: order-independent. *)
Lemma sorted_by_map_key_indep_lemma :
  forall (V : Type) (order1 order2 : list (Z * V)),
    Permutation order1 order2 -> NoDup (map fst order1) ->
    sorted_walk Z V (fun kv => kv) (zsort fst) order1 = sorted_walk Z V (fun kv => kv) (zsort fst) order2.
Proof.
  intros V o1 o2 P ND.
  apply sorted_walk_indep_lemma with (le := fun a b => (fst a <= fst b)%Z); auto.
  - apply zsort_perm.
  - apply zsort_sorted.
  - intros e1 e2 I1 I2 L1 L2. assert (E : fst e1 = fst e2) by lia. clear L1 L2.
    (* distinct keys: same key -> same element *)
    revert I1 I2 ND. clear P. induction o1 as [|h t IH]; simpl; [tauto|].
    intros I1 I2 ND. inversion ND as [|? ? Nh NDt]; subst.
    destruct I1 as [->|I1], I2 as [->|I2]; auto.
    + exfalso. apply Nh. rewrite E. now apply in_map.
    + exfalso. apply Nh. rewrite <- E. now apply in_map.
Qed.

(* environment.go:NewZlispWithFuncs after the repair: symbol numbers of the builtin names do
   not depend on the walk order. *)
Lemma intern_sorted_indep_lemma :
  forall next (order1 order2 : list (Z * Z)), Permutation order1 order2 ->
    intern_sorted next order1 = intern_sorted next order2.
Proof.
  intros next o1 o2 P. unfold intern_sorted. f_equal.
  apply sort_perm_indep with (le := fun a b : Z => (a <= b)%Z).
  - apply zsort_perm.
  - apply (zsort_sorted Z (fun n => n)).
  - now apply Permutation_map.
  - intros; lia.
Qed.

(* The caveat, made explicit: with colliding sort keys even a stable sort returns different
   slices for different walk orders. *)
Lemma sorted_walk_collision_refuted_lemma :
  exists order1 order2 : list (Z * Z),
    Permutation order1 order2 /\ NoDup (map fst order1) /\
    sorted_walk Z Z (fun kv => kv) (zsort (fun kv : Z * Z => snd kv)) order1 <>
    sorted_walk Z Z (fun kv => kv) (zsort (fun kv : Z * Z => snd kv)) order2.
Proof.
  exists [(1, 7); (2, 7)]%Z, [(2, 7); (1, 7)]%Z. split; [apply perm_swap|]. split.
  - simpl. repeat constructor; simpl; intuition discriminate.
  - vm_compute. discriminate.
Qed.

(* A comparator that folds distinct keys together (keys 1 = "id", 2 = "ID", fold = lower case):
   the walk is sorted and still order-dependent.  This is why the census only accepts the plain
   < on the walk key as SortedAfter and reports every other comparator as SortedCustomComparator. *)
Lemma folded_comparator_refuted_lemma :
  exists (fold : Z -> Z) (order1 order2 : list (Z * Z)),
    Permutation order1 order2 /\ NoDup (map fst order1) /\
    folded_sort_walk fold order1 <> folded_sort_walk fold order2.
Proof.
  exists (fun _ => 0%Z), [(1, 10); (2, 20)]%Z, [(2, 20); (1, 10)]%Z.
  split; [apply perm_swap|]. split.
  - simpl. repeat constructor; simpl; intuition discriminate.
  - vm_compute. discriminate.
Qed.

(* ... and an injective fold keeps the walk order-independent *)
Lemma injective_fold_indep_lemma :
  forall (fold : Z -> Z), (forall a b, fold a = fold b -> a = b) ->
  forall order1 order2 : list (Z * Z), Permutation order1 order2 -> NoDup (map fst order1) ->
    folded_sort_walk fold order1 = folded_sort_walk fold order2.
Proof.
  intros fold inj o1 o2 P ND. unfold folded_sort_walk.
  apply sorted_walk_indep_lemma with (le := fun a b : Z * Z => (fold (fst a) <= fold (fst b))%Z); auto.
  - apply zsort_perm.
  - apply (zsort_sorted (Z * Z) (fun kv => fold (fst kv))).
  - intros e1 e2 I1 I2 L1 L2. assert (E : fst e1 = fst e2) by (apply inj; lia). clear L1 L2.
    revert I1 I2 ND. clear P. induction o1 as [|h t IH]; simpl; [tauto|].
    intros I1 I2 ND. inversion ND as [|? ? Nh NDt]; subst.
    destruct I1 as [->|I1], I2 as [->|I2]; auto.
    + exfalso. apply Nh. rewrite E. now apply in_map.
    + exfalso. apply Nh. rewrite <- E. now apply in_map.
Qed.

(* ------------------------------------------------------------------------------------ *)
(* Commutative folds                                                                     *)

Lemma fold_comm_indep_lemma : forall (A B : Type) (f : A -> B -> A),
  (forall a x y, f (f a x) y = f (f a y) x) ->
  forall l1 l2, Permutation l1 l2 -> forall a, fold_left f l1 a = fold_left f l2 a.
Proof.
  intros A B f C l1 l2 P. induction P; intros a; simpl; auto.
  - now rewrite C.
  - now rewrite IHP1.
Qed.

Lemma sum_walk_indep_lemma : forall K V (g : K * V -> Z) o1 o2, Permutation o1 o2 -> sum_walk K V g o1 = sum_walk K V g o2.
Proof. intros. unfold sum_walk. apply fold_comm_indep_lemma; auto. intros; lia. Qed.

Lemma count_walk_indep_lemma : forall K V (p : K * V -> bool) o1 o2, Permutation o1 o2 -> count_walk K V p o1 = count_walk K V p o2.
Proof.
  intros. unfold count_walk. apply fold_comm_indep_lemma; auto.
  intros a x y. destruct (p x), (p y); reflexivity.
Qed.

Lemma max_walk_indep_lemma : forall K V (g : K * V -> Z) o1 o2 s, Permutation o1 o2 -> max_walk K V g o1 s = max_walk K V g o2 s.
Proof. intros. unfold max_walk. apply fold_comm_indep_lemma; auto. intros; lia. Qed.

Section Fill.
  Variables K V K2 V2 : Type.
  Variable k2_eqb : K2 -> K2 -> bool.
  Hypothesis k2_eqb_spec : forall a b, k2_eqb a b = true <-> a = b.
  Variable keyf : K * V -> K2.
  Variable valf : K * V -> V2.

  Let fill := fill_walk K V K2 V2 k2_eqb keyf valf.

  Lemma fill_ext : forall l m m', (forall k, m k = m' k) -> forall k, fill l m k = fill l m' k.
  Proof.
    induction l as [|x t IH]; simpl; intros m m' E k; auto.
    apply IH. intros k'. unfold fm_insert. now rewrite E.
  Qed.

  (* Inserting under pairwise distinct keys gives extensionally equal maps for every order. *)
  Lemma fill_indep : forall o1 o2, Permutation o1 o2 -> NoDup (map keyf o1) ->
    forall m0 k, fill o1 m0 k = fill o2 m0 k.
  Proof.
    intros o1 o2 P. induction P; intros ND m0 k; simpl; auto.
    - apply IHP. now inversion ND.
    - apply fill_ext. intros k'. unfold fm_insert.
      inversion ND as [|? ? N1 ND']; subst.
      destruct (k2_eqb (keyf x) k') eqn:Ex, (k2_eqb (keyf y) k') eqn:Ey; auto.
      apply k2_eqb_spec in Ex, Ey. exfalso. apply N1. left. congruence.
    - rewrite IHP1; auto. apply IHP2.
      eapply Permutation_NoDup; [apply Permutation_map, P1 | auto].
  Qed.

  Lemma delete_indep : forall o1 o2, Permutation o1 o2 ->
    forall m0 k, delete_walk K V K2 V2 k2_eqb keyf o1 m0 k = delete_walk K V K2 V2 k2_eqb keyf o2 m0 k.
  Proof.
    assert (ext : forall l m m', (forall k, m k = m' k) -> forall k,
              delete_walk K V K2 V2 k2_eqb keyf l m k = delete_walk K V K2 V2 k2_eqb keyf l m' k).
    { induction l as [|x t IH]; simpl; intros m m' E k; auto.
      apply IH. intros k'. unfold fm_delete. now rewrite E. }
    intros o1 o2 P. induction P; intros m0 k; simpl; auto.
    - apply ext. intros k'. unfold fm_delete.
      destruct (k2_eqb (keyf x) k'), (k2_eqb (keyf y) k'); auto.
    - now rewrite IHP1.
  Qed.
End Fill.

(* The walks whose index is the walk key itself (CopyMap, CloneFrom, CloneScope): keys of a
   Go map are pairwise distinct, which is all the theorem needs. *)
Lemma copy_walk_indep_lemma :
  forall (K V : Type) (eqb : K -> K -> bool), (forall a b, eqb a b = true <-> a = b) ->
  forall o1 o2 : list (K * V), Permutation o1 o2 -> NoDup (map fst o1) ->
  forall m0 k, fill_walk K V K V eqb fst snd o1 m0 k = fill_walk K V K V eqb fst snd o2 m0 k.
Proof. intros. eapply fill_indep; eauto. Qed.

(* A fill under a DERIVED key is order-dependent as soon as two keys collide:
   jsonmsgp.go:SexpToGoStructs, hash {a:1.5 "a":2.5} into a Go map[string]float64
   (source keys 1 = symbol a, 2 = string "a", both become the Go string 10). *)
Lemma fill_colliding_keys_refuted_lemma :
  exists (togo : Z -> Z) (o1 o2 : list (Z * Z)),
    Permutation o1 o2 /\ NoDup (map fst o1) /\ goname_fill togo o1 10%Z <> goname_fill togo o2 10%Z.
Proof.
  exists (fun _ => 10%Z), [(1, 15); (2, 25)]%Z, [(2, 25); (1, 15)]%Z.
  split; [apply perm_swap|]. split.
  - simpl. repeat constructor; simpl; intuition discriminate.
  - vm_compute. discriminate.
Qed.

(* ------------------------------------------------------------------------------------ *)
(* Exists queries and first-match scans                                                  *)

Lemma exists_walk_indep_lemma : forall K V (p : K * V -> bool) o1 o2,
  Permutation o1 o2 -> exists_walk K V p o1 = exists_walk K V p o2.
Proof.
  intros K V p o1 o2 P. unfold exists_walk. induction P; simpl; auto.
  - now rewrite IHP.
  - destruct (p x), (p y); reflexivity.
  - congruence.
Qed.

(* first match = THE match when at most one element satisfies the predicate *)
Lemma unique_match_indep_lemma : forall K V (p : K * V -> bool) o1 o2,
  Permutation o1 o2 ->
  (forall a b, In a o1 -> In b o1 -> p a = true -> p b = true -> a = b) ->
  first_match K V p o1 = first_match K V p o2.
Proof.
  intros K V p o1 o2 P. unfold first_match. induction P; intros U; simpl; auto.
  - destruct (p x); auto. apply IHP. intros a b Ia Ib. apply U; now right.
  - destruct (p y) eqn:Ey, (p x) eqn:Ex; auto.
    f_equal. apply U; simpl; auto.
  - rewrite IHP1; auto. apply IHP2.
    intros a b Ia Ib. apply U; eapply Permutation_in; try apply Permutation_sym; eauto.
Qed.

(* The registry holds each Go type under two names; the scan returns whichever comes first.
   names 1 = "snoopy", 2 = "zygo.Snoopy"; type 100 = *zygo.Snoopy. *)
Lemma first_match_order_dependent_refuted_lemma :
  exists (registry1 registry2 : list (Z * Z)) (ty : Z),
    Permutation registry1 registry2 /\ NoDup (map fst registry1) /\
    registry_scan registry1 ty <> registry_scan registry2 ty.
Proof.
  exists [(1, 100); (2, 100)]%Z, [(2, 100); (1, 100)]%Z, 100%Z.
  split; [apply perm_swap|]. split.
  - simpl. repeat constructor; simpl; intuition discriminate.
  - vm_compute. discriminate.
Qed.

(* ... but with one name per type the same scan is order-independent. *)
Lemma registry_scan_one_name_indep_lemma :
  forall (r1 r2 : list (Z * Z)) ty, Permutation r1 r2 -> NoDup (map snd r1) ->
    registry_scan r1 ty = registry_scan r2 ty.
Proof.
  intros r1 r2 ty P ND. unfold registry_scan. f_equal.
  apply unique_match_indep_lemma; auto.
  intros a b Ia Ib Pa Pb. apply Z.eqb_eq in Pa, Pb.
  assert (E : snd a = snd b) by congruence. clear Pa Pb P.
  induction r1 as [|h t IH]; simpl in *; [tauto|].
  inversion ND as [|? ? Nh NDt]; subst.
  destruct Ia as [->|Ia], Ib as [->|Ib]; auto.
  - exfalso. apply Nh. rewrite E. now apply in_map.
  - exfalso. apply Nh. rewrite <- E. now apply in_map.
Qed.

(* gotypereg.go:ImportBaseTypes: the symbol number of a type name depends on the walk order *)
Lemma intern_in_walk_order_refuted_lemma :
  exists (next : nat) (o1 o2 : list (Z * Z)) (name : Z),
    Permutation o1 o2 /\ NoDup (map fst o1) /\
    symnum_of name (intern_in_walk_order next o1) <> symnum_of name (intern_in_walk_order next o2).
Proof.
  exists 219, [(1, 0); (2, 0)]%Z, [(2, 0); (1, 0)]%Z, 1%Z.
  split; [apply perm_swap|]. split.
  - simpl. repeat constructor; simpl; intuition discriminate.
  - vm_compute. discriminate.
Qed.

(* scopes.go:Scope.Show: sorted afterwards, yet the rendering of each value happens in walk
   order with a shared "already shown" state: two names bound to one value. *)
Lemma stateful_sorted_walk_refuted_lemma :
  exists o1 o2 : list (Z * Z), Permutation o1 o2 /\ NoDup (map fst o1) /\ show_walk o1 <> show_walk o2.
Proof.
  exists [(1, 50); (2, 50)]%Z, [(2, 50); (1, 50)]%Z.
  split; [apply perm_swap|]. split.
  - simpl. repeat constructor; simpl; intuition discriminate.
  - vm_compute. discriminate.
Qed.

(* jsonmsgp.go:SexpToGoStructs: which unknown field the panic names *)
Lemma first_unknown_field_refuted_lemma :
  exists (known : Z -> bool) (o1 o2 : list (Z * Z)),
    Permutation o1 o2 /\ NoDup (map fst o1) /\ first_unknown_field known o1 <> first_unknown_field known o2.
Proof.
  exists (fun _ => false), [(1, 0); (2, 0)]%Z, [(2, 0); (1, 0)]%Z.
  split; [apply perm_swap|]. split.
  - simpl. repeat constructor; simpl; intuition discriminate.
  - vm_compute. discriminate.
Qed.

(* ------------------------------------------------------------------------------------ *)
(* Coverage of the census generated from the source                                      *)

Lemma census_covered_lemma : forallb site_ok generated_census = true.
Proof. vm_compute. reflexivity. Qed.

Lemma census_sites_lemma : forall s, In s generated_census ->
  class_proved s = true
  \/ (exists l, In l benign_sites /\ same_site l s = true)
  \/ (exists l, In l known_nondeterministic /\ same_site l s = true).
Proof.
  intros s I. pose proof census_covered_lemma as C. rewrite forallb_forall in C.
  specialize (C s I). unfold site_ok in C.
  apply orb_true_iff in C. destruct C as [C|C].
  - apply orb_true_iff in C. destruct C as [C|C]; auto.
    right; left. apply existsb_exists in C. destruct C as [l [Il E]]. eauto.
  - right; right. apply existsb_exists in C. destruct C as [l [Il E]]. eauto.
Qed.

Lemma globals_covered_lemma : forallb global_ok generated_globals = true.
Proof. vm_compute. reflexivity. Qed.
