(* C11, msgpack route: the independent msgpack reader inverts the writer on every Go tree
   (mp_read_bytes), the Go map of a sorted member list is that list (go_map_sorted). *)
From Coq Require Import ZArith List Bool Lia ZifyBool ZifyNat.
Import ListNotations.
From ZV Require Import Model.Json Model.Msgpack Proofs.JsonTreeProofs.
Open Scope Z_scope.

Ltac Zify.zify_post_hook ::= Z.to_euclidean_division_equations.

(* ---------------------------------------------------------------- nested induction on Go trees *)
Section GtreeInd.
Variable P : gtree -> Prop.
Hypothesis HNil : P GNil.
Hypothesis HBool : forall b, P (GBool b).
Hypothesis HInt : forall z, P (GInt z).
Hypothesis HFloat : forall b, P (GFloat b).
Hypothesis HStr : forall s, P (GStr s).
Hypothesis HArr : forall l, Forall P l -> P (GArr l).
Hypothesis HMap : forall ms, Forall (fun kx => P (snd kx)) ms -> P (GMap ms).

Fixpoint gtree_ind_nested (g : gtree) : P g :=
  match g with
  | GNil => HNil
  | GBool b => HBool b
  | GInt z => HInt z
  | GFloat b => HFloat b
  | GStr s => HStr s
  | GArr l => HArr l ((fix go (l : list gtree) : Forall P l :=
                         match l with
                         | [] => Forall_nil _
                         | x :: r => Forall_cons x (gtree_ind_nested x) (go r)
                         end) l)
  | GMap ms => HMap ms ((fix go (ms : list (list Z * gtree)) : Forall (fun kx => P (snd kx)) ms :=
                           match ms with
                           | [] => Forall_nil _
                           | kx :: r => Forall_cons kx (gtree_ind_nested (snd kx)) (go r)
                           end) ms)
  end.
End GtreeInd.

(* ---------------------------------------------------------------- big-endian integers *)
Lemma be_val_snoc : forall l b, be_val (l ++ [b]) = be_val l * 256 + b.
Proof. intros l b. unfold be_val. rewrite fold_left_app. reflexivity. Qed.

Lemma length_be : forall k z, length (be k z) = k.
Proof.
  induction k as [|k IH]; intro z; [reflexivity|].
  cbn [be]. rewrite app_length, IH. cbn. lia.
Qed.

Lemma be_val_be : forall k z, be_val (be k z) = z mod 256 ^ Z.of_nat k.
Proof.
  induction k as [|k IH]; intro z.
  - cbn. rewrite Z.mod_1_r. reflexivity.
  - cbn [be]. rewrite be_val_snoc, IH.
    replace (Z.of_nat (S k)) with (1 + Z.of_nat k) by lia.
    rewrite Z.pow_add_r by lia. change (256 ^ 1) with 256.
    assert (Hp : 0 < 256 ^ Z.of_nat k) by (apply Z.pow_pos_nonneg; lia).
    rewrite (Z.rem_mul_r z 256 (256 ^ Z.of_nat k)) by lia. lia.
Qed.

Lemma take_app : forall a r, take (Z.of_nat (length a)) (a ++ r) = Some (a, r).
Proof.
  intros a r. unfold take. rewrite app_length.
  destruct (Z.ltb_spec (Z.of_nat (length a + length r)) (Z.of_nat (length a))); [lia|].
  rewrite Nat2Z.id, firstn_app, skipn_app, Nat.sub_diag, firstn_all, skipn_all.
  cbn. rewrite app_nil_r. reflexivity.
Qed.

Lemma take_be_be : forall (k : nat) z r,
  take_be (Z.of_nat k) (be k z ++ r) = Some (z mod 256 ^ Z.of_nat k, r).
Proof.
  intros k z r. unfold take_be.
  rewrite <- (length_be k z) at 1. rewrite take_app, be_val_be. reflexivity.
Qed.

(* ---------------------------------------------------------------- integers *)
Lemma tb1 : forall z r, take_be 1 (be 1 z ++ r) = Some (z mod 256, r).
Proof. intros z r. exact (take_be_be 1 z r). Qed.
Lemma tb2 : forall z r, take_be 2 (be 2 z ++ r) = Some (z mod 65536, r).
Proof. intros z r. exact (take_be_be 2 z r). Qed.
Lemma tb4 : forall z r, take_be 4 (be 4 z ++ r) = Some (z mod 4294967296, r).
Proof. intros z r. exact (take_be_be 4 z r). Qed.
Lemma tb8 : forall z r, take_be 8 (be 8 z ++ r) = Some (z mod 18446744073709551616, r).
Proof. intros z r. exact (take_be_be 8 z r). Qed.

(* decide the conditions one at a time (never inside a branch that is not taken) *)
Ltac ifs :=
  repeat (match goal with
          | |- context [if ?b then _ else _] =>
              first [ (let H := fresh in assert (H : b = true) by lia; rewrite H; clear H)
                    | (let H := fresh in assert (H : b = false) by lia; rewrite H; clear H) ]
          end; cbv beta iota zeta).

Ltac zcases :=
  repeat (match goal with
          | |- context [?a <? ?b] => destruct (Z.ltb_spec a b); try lia
          | |- context [?a <=? ?b] => destruct (Z.leb_spec a b); try lia
          | |- context [?a =? ?b] => destruct (Z.eqb_spec a b); try lia
          end; cbv beta iota zeta).

Ltac pows :=
  replace (2 ^ (8 * 1 - 1)) with 128 by reflexivity; replace (2 ^ (8 * 1)) with 256 by reflexivity;
  replace (2 ^ (8 * 2 - 1)) with 32768 by reflexivity; replace (2 ^ (8 * 2)) with 65536 by reflexivity;
  replace (2 ^ (8 * 4 - 1)) with 2147483648 by reflexivity; replace (2 ^ (8 * 4)) with 4294967296 by reflexivity;
  replace (2 ^ (8 * 8 - 1)) with 9223372036854775808 by reflexivity;
  replace (2 ^ (8 * 8)) with 18446744073709551616 by reflexivity.

Ltac sint_case lem :=
  cbn [app]; unfold mp_dispatch; cbv beta iota zeta; ifs; rewrite lem; unfold signed;
  pows; ifs; repeat f_equal; lia.

Lemma dispatch_int : forall rd z rest, in_i64 z = true ->
  match mp_int z ++ rest with
  | c :: r => mp_dispatch rd c r = Some (GInt z, rest)
  | [] => False
  end.
Proof.
  intros rd z rest Hz. unfold in_i64 in Hz.
  assert (Hr : -9223372036854775808 <= z <= 9223372036854775807) by lia. clear Hz.
  unfold mp_int.
  destruct (Z.ltb_spec 127 z) as [H1|H1].
  - destruct (Z.leb_spec z 32767) as [H2|H2]; [|destruct (Z.leb_spec z 2147483647) as [H3|H3]].
    + sint_case tb2.
    + sint_case tb4.
    + sint_case tb8.
  - destruct (Z.leb_spec (-32) z) as [H2|H2].
    + cbn [app]. unfold mp_dispatch. cbv beta iota zeta.
      destruct (Z.ltb_spec z 0) as [Hn|Hn].
      * assert (E : z mod 256 = z + 256) by lia. rewrite E.
        ifs. repeat f_equal. lia.
      * assert (E : z mod 256 = z) by lia. rewrite E. ifs. reflexivity.
    + destruct (Z.leb_spec (-128) z) as [H3|H3];
        [|destruct (Z.leb_spec (-32768) z) as [H4|H4]; [|destruct (Z.leb_spec (-2147483648) z) as [H5|H5]]].
      * change [208; z mod 256] with (208 :: be 1 z). sint_case tb1.
      * sint_case tb2.
      * sint_case tb4.
      * sint_case tb8.
Qed.

(* ---------------------------------------------------------------- strings *)
Ltac bcases :=
  repeat (match goal with
          | |- context [?a <? ?b] => destruct (Z.ltb_spec a b); try lia
          | |- context [?a <=? ?b] => destruct (Z.leb_spec a b); try lia
          | |- context [?a =? ?b] => destruct (Z.eqb_spec a b); try lia
          end; cbn [andb negb orb]; cbv beta iota zeta).

Lemma utf8_dec_cons : forall c s, cp_scalar c = true ->
  utf8_dec (utf8_enc c ++ s) = option_map (cons c) (utf8_dec s).
Proof.
  intros c s H. unfold cp_scalar in H.
  assert (Hc : 0 <= c <= 1114111 /\ ~ (55296 <= c < 57344)) by lia. clear H.
  unfold utf8_enc.
  destruct (Z.ltb_spec c 128) as [H1|H1];
    [| destruct (Z.ltb_spec c 2048) as [H2|H2]; [| destruct (Z.ltb_spec c 65536) as [H3|H3]]].
  - cbn [app utf8_dec]. ifs. reflexivity.
  - cbn [app utf8_dec]. unfold cont. ifs. repeat f_equal. lia.
  - cbn [app utf8_dec]. unfold cont.
    assert (E : (224 + c / 4096 - 224) * 4096 + (128 + (c / 64) mod 64 - 128) * 64 + (128 + c mod 64 - 128) = c) by lia.
    rewrite E. ifs. reflexivity.
  - cbn [app utf8_dec]. unfold cont.
    assert (E : (240 + c / 262144 - 240) * 262144 + (128 + (c / 4096) mod 64 - 128) * 4096
                + (128 + (c / 64) mod 64 - 128) * 64 + (128 + c mod 64 - 128) = c) by lia.
    rewrite E. ifs. reflexivity.
Qed.

Lemma utf8_dec_bytes : forall s, str_valid s = true -> utf8_dec (utf8_bytes s) = Some s.
Proof.
  induction s as [|c s IH]; intro H; [reflexivity|].
  unfold str_valid in H. cbn [forallb] in H. apply andb_true_iff in H. destruct H as [Hc Hs].
  unfold utf8_bytes. cbn [flat_map]. rewrite utf8_dec_cons by exact Hc.
  fold (utf8_bytes s). rewrite IH by exact Hs. reflexivity.
Qed.

Lemma read_str_bytes : forall s rest, str_valid s = true ->
  read_str (Z.of_nat (length (utf8_bytes s))) (utf8_bytes s ++ rest) = Some (GStr s, rest).
Proof.
  intros s rest H. unfold read_str. rewrite take_app, utf8_dec_bytes by exact H. reflexivity.
Qed.

Lemma dispatch_str : forall rd s rest, str_valid s = true -> u32 (length (utf8_bytes s)) = true ->
  match mp_str s ++ rest with
  | c :: r => mp_dispatch rd c r = Some (GStr s, rest)
  | [] => False
  end.
Proof.
  intros rd s rest Hv Hu. unfold u32 in Hu. unfold mp_str, str_hdr, mp_len.
  pose proof (read_str_bytes s rest Hv) as HR.
  set (L := Z.of_nat (length (utf8_bytes s))) in *.
  assert (HL : 0 <= L < 4294967296) by lia.
  cbn [Z.ltb Z.compare andb].
  destruct (Z.ltb_spec L 32) as [H1|H1];
    [| destruct (Z.ltb_spec L 256) as [H2|H2]; [| destruct (Z.ltb_spec L 65536) as [H3|H3]]].
  - cbn [app]. unfold mp_dispatch. cbv beta iota zeta. ifs;
    replace (160 + L - 160) with L by lia; exact HR.
  - cbn [app]. unfold mp_dispatch. cbv beta iota zeta. ifs;
    change (L :: utf8_bytes s ++ rest) with ([L] ++ utf8_bytes s ++ rest);
    replace [L] with (be 1 L) by (cbn; f_equal; lia);
    rewrite tb1; replace (L mod 256) with L by lia; exact HR.
  - cbn [app]. unfold mp_dispatch. cbv beta iota zeta. ifs;
    rewrite <- app_assoc; rewrite tb2; replace (L mod 65536) with L by lia; exact HR.
  - cbn [app]. unfold mp_dispatch. cbv beta iota zeta. ifs;
    rewrite <- app_assoc; rewrite tb4; replace (L mod 4294967296) with L by lia; exact HR.
Qed.

(* ---------------------------------------------------------------- the Go map of a sorted member list *)
Lemma str_ltb_irrefl : forall a, str_ltb a a = false.
Proof. induction a as [|x a IH]; [reflexivity|]. cbn [str_ltb]. rewrite Z.ltb_irrefl. exact IH. Qed.

Lemma str_ltb_asym : forall a b, str_ltb a b = true -> str_ltb b a = false.
Proof.
  induction a as [|x a IH]; intros [|y b] H; cbn [str_ltb] in *; try congruence.
  destruct (Z.ltb_spec x y) as [H1|H1]; destruct (Z.ltb_spec y x) as [H2|H2]; try lia; try congruence.
  apply IH. exact H.
Qed.

Lemma str_ltb_neq : forall a b, str_ltb a b = true -> str_eqb b a = false.
Proof.
  intros a b H. apply str_eqb_neq. intro E. subst b. rewrite str_ltb_irrefl in H. discriminate.
Qed.

Lemma map_put_last : forall (T : Type) k (x : T) acc,
  (forall a, In a (map fst acc) -> str_ltb a k = true) -> map_put k x acc = acc ++ [(k, x)].
Proof.
  intros T k x. induction acc as [|[k' x'] acc IH]; intro H; [reflexivity|].
  cbn [map_put app].
  assert (Hk : str_ltb k' k = true) by (apply H; left; reflexivity).
  rewrite (str_ltb_neq _ _ Hk), (str_ltb_asym _ _ Hk). f_equal.
  apply IH. intros a Ha. apply H. right. exact Ha.
Qed.

Lemma go_map_sorted_acc : forall (T : Type) (ms acc : list (list Z * T)),
  (forall a b, In a (map fst acc) -> In b (map fst ms) -> str_ltb a b = true) ->
  ssorted (map fst ms) = true ->
  fold_left (fun m kx => map_put (fst kx) (snd kx) m) ms acc = acc ++ ms.
Proof.
  intros T. induction ms as [|[k x] ms IH]; intros acc Hlt Hs.
  - cbn. rewrite app_nil_r. reflexivity.
  - cbn [map fst ssorted] in Hs. apply andb_true_iff in Hs. destruct Hs as [Hk Hs].
    rewrite forallb_forall in Hk.
    cbn [fold_left fst snd]. rewrite map_put_last.
    + rewrite IH; [rewrite <- app_assoc; reflexivity| |exact Hs].
      intros a b Ha Hb. rewrite map_app in Ha. apply in_app_or in Ha. destruct Ha as [Ha|Ha].
      * apply Hlt; [exact Ha|right; exact Hb].
      * cbn in Ha. destruct Ha as [Ha|[]]. subst a. apply Hk. exact Hb.
    + intros a Ha. apply Hlt; [exact Ha|left; reflexivity].
Qed.

Theorem go_map_sorted : forall (T : Type) (ms : list (list Z * T)),
  ssorted (map fst ms) = true -> go_map ms = ms.
Proof.
  intros T ms H. unfold go_map. rewrite go_map_sorted_acc; [reflexivity| |exact H].
  intros a b [].
Qed.

(* ---------------------------------------------------------------- containers *)
Definition reads_back (rd : list Z -> option (gtree * list Z)) (g : gtree) : Prop :=
  forall rest, rd (mp_bytes g ++ rest) = Some (g, rest).

Lemma read_items_bytes : forall rd l rest, Forall (reads_back rd) l ->
  read_items rd (length l) (flat_map mp_bytes l ++ rest) = Some (l, rest).
Proof.
  intros rd. induction l as [|g l IH]; intros rest H; [reflexivity|].
  inversion H as [|? ? Hg Hl]; subst. cbn [length read_items flat_map].
  rewrite <- app_assoc, (Hg _), IH by exact Hl. reflexivity.
Qed.

Definition member_bytes (kx : list Z * gtree) : list Z :=
  match kx with (k, x) => mp_str k ++ mp_bytes x end.

Lemma read_members_bytes : forall rd ms rest,
  Forall (fun kx => reads_back rd (GStr (fst kx)) /\ reads_back rd (snd kx)) ms ->
  read_members rd (length ms) (flat_map member_bytes ms ++ rest) = Some (ms, rest).
Proof.
  intros rd. induction ms as [|[k x] ms IH]; intros rest H; [reflexivity|].
  inversion H as [|? ? Hg Hl]; subst. destruct Hg as [Hk Hx]. cbn [fst snd] in *.
  cbn [length read_members flat_map member_bytes].
  rewrite <- !app_assoc.
  change (mp_str k) with (mp_bytes (GStr k)). rewrite (Hk _), (Hx _), IH by exact Hl. reflexivity.
Qed.

Lemma length_flat_map_ge : forall (A : Type) (f : A -> list Z) (l : list A),
  (forall x, In x l -> (1 <= length (f x))%nat) -> (length l <= length (flat_map f l))%nat.
Proof.
  intros A f. induction l as [|x l IH]; intro H; [cbn; lia|].
  cbn [flat_map length]. rewrite app_length.
  pose proof (H x (or_introl eq_refl)). pose proof (IH (fun y Hy => H y (or_intror Hy))). lia.
Qed.

Lemma mp_len_nonempty : forall a b c d e l, (1 <= length (mp_len a b c d e l))%nat.
Proof.
  intros. unfold mp_len.
  destruct ((0 <? a) && (l <? a)); [cbn; lia|].
  destruct ((0 <? c) && (l <? 256)); [cbn; lia|].
  destruct (l <? 65536); cbn; lia.
Qed.

Lemma mp_bytes_nonempty : forall g, (1 <= length (mp_bytes g))%nat.
Proof.
  destruct g; cbn [mp_bytes]; try (cbn; lia).
  - unfold mp_int. repeat match goal with |- context [if ?b then _ else _] => destruct b end; cbn; lia.
  - unfold mp_str, str_hdr. rewrite app_length. pose proof (mp_len_nonempty 32 160 217 218 219 (Z.of_nat (length (utf8_bytes s)))). lia.
  - unfold arr_hdr. rewrite app_length. pose proof (mp_len_nonempty 16 144 0 220 221 (Z.of_nat (length l))). lia.
  - unfold map_hdr. rewrite app_length. pose proof (mp_len_nonempty 16 128 0 222 223 (Z.of_nat (length ms))). lia.
Qed.

(* the header of a container of n entries followed by its entries, read through mp_dispatch *)
Lemma dispatch_arr : forall rd l rest, u32 (length l) = true -> Forall (reads_back rd) l ->
  match mp_bytes (GArr l) ++ rest with
  | c :: r => mp_dispatch rd c r = Some (GArr l, rest)
  | [] => False
  end.
Proof.
  intros rd l rest Hu Hl. unfold u32 in Hu. cbn [mp_bytes]. unfold arr_hdr, mp_len.
  pose proof (read_items_bytes rd l rest Hl) as HR.
  assert (HC : count_ok (Z.of_nat (length l)) (flat_map mp_bytes l ++ rest) = true).
  { unfold count_ok. rewrite app_length.
    pose proof (length_flat_map_ge _ mp_bytes l (fun x _ => mp_bytes_nonempty x)). lia. }
  set (L := Z.of_nat (length l)) in *.
  assert (HN : Z.to_nat L = length l) by (subst L; apply Nat2Z.id).
  assert (HL : 0 <= L < 4294967296) by lia.
  cbn [Z.ltb Z.compare andb].
  destruct (Z.ltb_spec L 16) as [H1|H1]; [| destruct (Z.ltb_spec L 65536) as [H3|H3]].
  - cbn [app]. unfold mp_dispatch. cbv beta iota zeta. ifs.
    replace (144 + L - 144) with L by lia. rewrite HC, HN, HR. reflexivity.
  - cbn [app]. unfold mp_dispatch. cbv beta iota zeta. ifs.
    rewrite <- app_assoc, tb2. replace (L mod 65536) with L by lia. rewrite HC, HN, HR. reflexivity.
  - cbn [app]. unfold mp_dispatch. cbv beta iota zeta. ifs.
    rewrite <- app_assoc, tb4. replace (L mod 4294967296) with L by lia. rewrite HC, HN, HR. reflexivity.
Qed.

Lemma dispatch_map : forall rd ms rest, u32 (length ms) = true -> ssorted (map fst ms) = true ->
  Forall (fun kx => reads_back rd (GStr (fst kx)) /\ reads_back rd (snd kx)) ms ->
  match mp_bytes (GMap ms) ++ rest with
  | c :: r => mp_dispatch rd c r = Some (GMap ms, rest)
  | [] => False
  end.
Proof.
  intros rd ms rest Hu Hs Hl. unfold u32 in Hu. cbn [mp_bytes]. fold member_bytes.
  change (fun kx : list Z * gtree => match kx with (k, x) => mp_str k ++ mp_bytes x end) with member_bytes.
  unfold map_hdr, mp_len.
  pose proof (read_members_bytes rd ms rest Hl) as HR.
  assert (HC : count_ok (Z.of_nat (length ms)) (flat_map member_bytes ms ++ rest) = true).
  { unfold count_ok. rewrite app_length.
    assert (forall kx, In kx ms -> (1 <= length (member_bytes kx))%nat).
    { intros [k x] _. unfold member_bytes. rewrite app_length. pose proof (mp_bytes_nonempty x). lia. }
    pose proof (length_flat_map_ge _ member_bytes ms H). lia. }
  set (L := Z.of_nat (length ms)) in *.
  assert (HN : Z.to_nat L = length ms) by (subst L; apply Nat2Z.id).
  assert (HL : 0 <= L < 4294967296) by lia.
  pose proof (go_map_sorted _ ms Hs) as HG.
  cbn [Z.ltb Z.compare andb].
  destruct (Z.ltb_spec L 16) as [H1|H1]; [| destruct (Z.ltb_spec L 65536) as [H3|H3]].
  - cbn [app]. unfold mp_dispatch. cbv beta iota zeta. ifs.
    replace (128 + L - 128) with L by lia. rewrite HC, HN, HR, HG. reflexivity.
  - cbn [app]. unfold mp_dispatch. cbv beta iota zeta. ifs.
    rewrite <- app_assoc, tb2. replace (L mod 65536) with L by lia. rewrite HC, HN, HR, HG. reflexivity.
  - cbn [app]. unfold mp_dispatch. cbv beta iota zeta. ifs.
    rewrite <- app_assoc, tb4. replace (L mod 4294967296) with L by lia. rewrite HC, HN, HR, HG. reflexivity.
Qed.

(* ---------------------------------------------------------------- the reader inverts the writer *)
Lemma gdepth_pos : forall g, (1 <= gdepth g)%nat.
Proof. destruct g; cbn [gdepth]; lia. Qed.

Lemma max_depth_in : forall (l : list gtree) m,
  (fold_right (fun x a => Nat.max (gdepth x) a) O l <= m)%nat -> forall x, In x l -> (gdepth x <= m)%nat.
Proof.
  induction l as [|y l IH]; intros m H x Hx; [destruct Hx|].
  cbn [fold_right] in H. destruct Hx as [E|Hx]; [subst; lia|]. apply IH; [lia|exact Hx].
Qed.

Lemma max_depth_in_map : forall (ms : list (list Z * gtree)) m,
  (fold_right (fun kx a => match kx with (_, x) => Nat.max (gdepth x) a end) O ms <= m)%nat ->
  forall kx, In kx ms -> (gdepth (snd kx) <= m)%nat.
Proof.
  induction ms as [|[k y] ms IH]; intros m H kx Hx; [destruct Hx|].
  cbn [fold_right] in H. destruct Hx as [E|Hx]; [subst; cbn; lia|]. apply IH; [lia|exact Hx].
Qed.

Lemma with_dispatch : forall n (b rest : list Z) (g : gtree),
  match b ++ rest with
  | c :: r => mp_dispatch (mp_read n) c r = Some (g, rest)
  | [] => False
  end -> mp_read (S n) (b ++ rest) = Some (g, rest).
Proof. intros n b rest g H. destruct (b ++ rest); [contradiction|]. exact H. Qed.

Lemma reads_str : forall n k, str_valid k = true -> u32 (length (utf8_bytes k)) = true ->
  reads_back (mp_read (S n)) (GStr k).
Proof.
  intros n k Hv Hu rest. cbn [mp_bytes]. apply with_dispatch. apply dispatch_str; assumption.
Qed.

Theorem mp_read_bytes : forall g, gt_ok g = true -> forall n rest, (gdepth g <= n)%nat ->
  mp_read n (mp_bytes g ++ rest) = Some (g, rest).
Proof.
  induction g as [| b | z | b | s | l IH | ms IH] using gtree_ind_nested; intros Hok n rest Hn;
    (destruct n as [|n]; [pose proof (gdepth_pos g); cbn [gdepth] in Hn; lia|]) || idtac.
  - destruct n as [|n]; [cbn in Hn; lia|]. cbn [mp_bytes app mp_read]. unfold mp_dispatch. cbv beta iota zeta. ifs. reflexivity.
  - destruct n as [|n]; [cbn in Hn; lia|]. destruct b; cbn [mp_bytes app mp_read]; unfold mp_dispatch; cbv beta iota zeta; ifs; reflexivity.
  - destruct n as [|n]; [cbn in Hn; lia|]. cbn [mp_bytes]. apply with_dispatch. apply dispatch_int. exact Hok.
  - destruct n as [|n]; [cbn in Hn; lia|]. cbn [gt_ok] in Hok.
    cbn [mp_bytes app mp_read]. unfold mp_dispatch. cbv beta iota zeta. ifs.
    rewrite tb8. replace (b mod 18446744073709551616) with b by lia. reflexivity.
  - destruct n as [|n]; [cbn in Hn; lia|]. cbn [gt_ok] in Hok. apply andb_true_iff in Hok. destruct Hok as [Hv Hu].
    apply (reads_str n s Hv Hu).
  - destruct n as [|n]; [cbn in Hn; lia|]. cbn [gt_ok] in Hok. apply andb_true_iff in Hok. destruct Hok as [Hu Hall].
    cbn [gdepth] in Hn. apply with_dispatch. apply dispatch_arr; [exact Hu|].
    rewrite forallb_forall in Hall. rewrite Forall_forall in IH. apply Forall_forall.
    intros x Hx rest'. apply IH; [exact Hx|apply Hall; exact Hx|].
    apply (max_depth_in l n); [lia|exact Hx].
  - destruct n as [|n]; [cbn in Hn; lia|]. cbn [gt_ok] in Hok.
    apply andb_true_iff in Hok. destruct Hok as [Hok Hall].
    apply andb_true_iff in Hok. destruct Hok as [Hu Hs].
    cbn [gdepth] in Hn. apply with_dispatch. apply dispatch_map; [exact Hu|exact Hs|].
    rewrite forallb_forall in Hall. rewrite Forall_forall in IH. apply Forall_forall.
    intros [k x] Hx. specialize (Hall _ Hx). cbn beta iota in Hall.
    apply andb_true_iff in Hall. destruct Hall as [Hk Hgx].
    apply andb_true_iff in Hk. destruct Hk as [Hkv Hku].
    pose proof (max_depth_in_map ms n ltac:(lia) _ Hx) as Hd. cbn [snd] in Hd.
    pose proof (gdepth_pos x) as Hp.
    destruct n as [|n']; [lia|].
    split.
    + cbn [fst]. apply reads_str; assumption.
    + cbn [snd]. intros rest'. apply (IH _ Hx); [exact Hgx|exact Hd].
Qed.

Lemma length_flat_map_depth : forall g, (gdepth g <= length (mp_bytes g))%nat.
Proof.
  induction g as [| b | z | b | s | l IH | ms IH] using gtree_ind_nested.
  - cbn. lia.
  - cbn [gdepth]. pose proof (mp_bytes_nonempty (GBool b)). lia.
  - cbn [gdepth]. pose proof (mp_bytes_nonempty (GInt z)). lia.
  - cbn [gdepth]. pose proof (mp_bytes_nonempty (GFloat b)). lia.
  - cbn [gdepth]. pose proof (mp_bytes_nonempty (GStr s)). lia.
  - cbn [gdepth mp_bytes]. rewrite app_length.
    assert (fold_right (fun x a => Nat.max (gdepth x) a) O l <= length (flat_map mp_bytes l))%nat.
    { induction l as [|x l IHl]; [cbn; lia|]. inversion IH; subst.
      cbn [fold_right flat_map]. rewrite app_length. specialize (IHl H2). lia. }
    pose proof (mp_len_nonempty 16 144 0 220 221 (Z.of_nat (length l))) as Hh.
    unfold arr_hdr in *. lia.
  - cbn [gdepth mp_bytes]. rewrite app_length.
    assert (fold_right (fun kx a => match kx with (_, x) => Nat.max (gdepth x) a end) O ms
            <= length (flat_map (fun kx => match kx with (k, x) => mp_str k ++ mp_bytes x end) ms))%nat.
    { induction ms as [|[k x] ms IHl]; [cbn; lia|]. inversion IH; subst. cbn [snd] in *.
      cbn [fold_right flat_map]. rewrite !app_length. specialize (IHl H2). lia. }
    pose proof (mp_len_nonempty 16 128 0 222 223 (Z.of_nat (length ms))) as Hh.
    unfold map_hdr in *. lia.
Qed.

(* a whole document *)
Theorem mp_decode_bytes : forall g, gt_ok g = true -> mp_decode (mp_bytes g) = Some g.
Proof.
  intros g H. unfold mp_decode.
  rewrite <- (app_nil_r (mp_bytes g)) at 2.
  rewrite mp_read_bytes; [reflexivity|exact H|].
  pose proof (length_flat_map_depth g). lia.
Qed.
