(* C11, msgpack route: the independent msgpack reader inverts the writer on every Go tree
   (mp_read_bytes), the Go map of a sorted member list is that list (go_map_sorted). *)
From Coq Require Import ZArith List Bool Lia ZifyBool ZifyNat.
Import ListNotations.
From ZV Require Import Model.Json Model.Msgpack Proofs.JsonTreeProofs.
Open Scope Z_scope.

Ltac Zify.zify_post_hook ::= Z.to_euclidean_division_equations.

(* ---------------------------------------------------------------- nested induction on Go trees *)
Section GtreeInd.
Variable P : gtree -> Prop.
Hypothesis HNil : P GNil.
Hypothesis HBool : forall b, P (GBool b).
Hypothesis HInt : forall z, P (GInt z).
Hypothesis HFloat : forall b, P (GFloat b).
Hypothesis HStr : forall s, P (GStr s).
Hypothesis HArr : forall l, Forall P l -> P (GArr l).
Hypothesis HMap : forall ms, Forall (fun kx => P (snd kx)) ms -> P (GMap ms).

Fixpoint gtree_ind_nested (g : gtree) : P g :=
  match g with
  | GNil => HNil
  | GBool b => HBool b
  | GInt z => HInt z
  | GFloat b => HFloat b
  | GStr s => HStr s
  | GArr l => HArr l ((fix go (l : list gtree) : Forall P l :=
                         match l with
                         | [] => Forall_nil _
                         | x :: r => Forall_cons x (gtree_ind_nested x) (go r)
                         end) l)
  | GMap ms => HMap ms ((fix go (ms : list (list Z * gtree)) : Forall (fun kx => P (snd kx)) ms :=
                           match ms with
                           | [] => Forall_nil _
                           | kx :: r => Forall_cons kx (gtree_ind_nested (snd kx)) (go r)
                           end) ms)
  end.
End GtreeInd.

(* ---------------------------------------------------------------- big-endian integers *)
Lemma be_val_snoc : forall l b, be_val (l ++ [b]) = be_val l * 256 + b.
Proof. intros l b. unfold be_val. rewrite fold_left_app. reflexivity. Qed.

Lemma length_be : forall k z, length (be k z) = k.
Proof.
  induction k as [|k IH]; intro z; [reflexivity|].
  cbn [be]. rewrite app_length, IH. cbn. lia.
Qed.

Lemma be_val_be : forall k z, be_val (be k z) = z mod 256 ^ Z.of_nat k.
Proof.
  induction k as [|k IH]; intro z.
  - cbn. rewrite Z.mod_1_r. reflexivity.
  - cbn [be]. rewrite be_val_snoc, IH.
    replace (Z.of_nat (S k)) with (1 + Z.of_nat k) by lia.
    rewrite Z.pow_add_r by lia. change (256 ^ 1) with 256.
    assert (Hp : 0 < 256 ^ Z.of_nat k) by (apply Z.pow_pos_nonneg; lia).
    rewrite (Z.rem_mul_r z 256 (256 ^ Z.of_nat k)) by lia. lia.
Qed.

Lemma take_app : forall a r, take (Z.of_nat (length a)) (a ++ r) = Some (a, r).
Proof.
  intros a r. unfold take. rewrite app_length.
  destruct (Z.ltb_spec (Z.of_nat (length a + length r)) (Z.of_nat (length a))); [lia|].
  rewrite Nat2Z.id, firstn_app, skipn_app, Nat.sub_diag, firstn_all, skipn_all.
  cbn. rewrite app_nil_r. reflexivity.
Qed.

Lemma take_be_be : forall (k : nat) z r,
  take_be (Z.of_nat k) (be k z ++ r) = Some (z mod 256 ^ Z.of_nat k, r).
Proof.
  intros k z r. unfold take_be.
  rewrite <- (length_be k z) at 1. rewrite take_app, be_val_be. reflexivity.
Qed.

(* ---------------------------------------------------------------- integers *)
Lemma tb1 : forall z r, take_be 1 (be 1 z ++ r) = Some (z mod 256, r).
Proof. intros z r. exact (take_be_be 1 z r). Qed.
Lemma tb2 : forall z r, take_be 2 (be 2 z ++ r) = Some (z mod 65536, r).
Proof. intros z r. exact (take_be_be 2 z r). Qed.
Lemma tb4 : forall z r, take_be 4 (be 4 z ++ r) = Some (z mod 4294967296, r).
Proof. intros z r. exact (take_be_be 4 z r). Qed.
Lemma tb8 : forall z r, take_be 8 (be 8 z ++ r) = Some (z mod 18446744073709551616, r).
Proof. intros z r. exact (take_be_be 8 z r). Qed.

Ltac zcases :=
  repeat (match goal with
          | |- context [?a <? ?b] => destruct (Z.ltb_spec a b); try lia
          | |- context [?a <=? ?b] => destruct (Z.leb_spec a b); try lia
          | |- context [?a =? ?b] => destruct (Z.eqb_spec a b); try lia
          end; cbv beta iota zeta).

Ltac pows :=
  replace (2 ^ (8 * 1 - 1)) with 128 by reflexivity; replace (2 ^ (8 * 1)) with 256 by reflexivity;
  replace (2 ^ (8 * 2 - 1)) with 32768 by reflexivity; replace (2 ^ (8 * 2)) with 65536 by reflexivity;
  replace (2 ^ (8 * 4 - 1)) with 2147483648 by reflexivity; replace (2 ^ (8 * 4)) with 4294967296 by reflexivity;
  replace (2 ^ (8 * 8 - 1)) with 9223372036854775808 by reflexivity;
  replace (2 ^ (8 * 8)) with 18446744073709551616 by reflexivity.

Ltac sint_case lem :=
  cbn [app]; unfold mp_dispatch; cbv beta iota zeta; zcases; cbn [andb]; rewrite lem; unfold signed;
  pows; zcases; repeat f_equal; lia.

Lemma dispatch_int : forall rd z rest, in_i64 z = true ->
  match mp_int z ++ rest with
  | c :: r => mp_dispatch rd c r = Some (GInt z, rest)
  | [] => False
  end.
Proof.
  intros rd z rest Hz. unfold in_i64 in Hz.
  assert (Hr : -9223372036854775808 <= z <= 9223372036854775807) by lia. clear Hz.
  unfold mp_int.
  destruct (Z.ltb_spec 127 z) as [H1|H1].
  - destruct (Z.leb_spec z 32767) as [H2|H2]; [|destruct (Z.leb_spec z 2147483647) as [H3|H3]].
    + sint_case tb2.
    + sint_case tb4.
    + sint_case tb8.
  - destruct (Z.leb_spec (-32) z) as [H2|H2].
    + cbn [app]. unfold mp_dispatch. cbv beta iota zeta.
      destruct (Z.ltb_spec z 0) as [Hn|Hn].
      * assert (E : z mod 256 = z + 256) by lia. rewrite E.
        zcases. cbn [andb]. repeat f_equal. lia.
      * assert (E : z mod 256 = z) by lia. rewrite E. zcases. reflexivity.
    + destruct (Z.leb_spec (-128) z) as [H3|H3];
        [|destruct (Z.leb_spec (-32768) z) as [H4|H4]; [|destruct (Z.leb_spec (-2147483648) z) as [H5|H5]]].
      * change [208; z mod 256] with (208 :: be 1 z). sint_case tb1.
      * sint_case tb2.
      * sint_case tb4.
      * sint_case tb8.
Qed.

(* ---------------------------------------------------------------- strings *)
Ltac bcases :=
  repeat (match goal with
          | |- context [?a <? ?b] => destruct (Z.ltb_spec a b); try lia
          | |- context [?a <=? ?b] => destruct (Z.leb_spec a b); try lia
          | |- context [?a =? ?b] => destruct (Z.eqb_spec a b); try lia
          end; cbn [andb negb orb]; cbv beta iota zeta).

Lemma utf8_dec_cons : forall c s, cp_scalar c = true ->
  utf8_dec (utf8_enc c ++ s) = option_map (cons c) (utf8_dec s).
Proof.
  intros c s H. unfold cp_scalar in H.
  assert (Hc : 0 <= c <= 1114111 /\ ~ (55296 <= c < 57344)) by lia. clear H.
  unfold utf8_enc.
  destruct (Z.ltb_spec c 128) as [H1|H1];
    [| destruct (Z.ltb_spec c 2048) as [H2|H2]; [| destruct (Z.ltb_spec c 65536) as [H3|H3]]].
  - cbn [app utf8_dec]. bcases. reflexivity.
  - cbn [app utf8_dec]. unfold cont. bcases. repeat f_equal. lia.
  - cbn [app utf8_dec]. unfold cont.
    assert (E : (224 + c / 4096 - 224) * 4096 + (128 + (c / 64) mod 64 - 128) * 64 + (128 + c mod 64 - 128) = c) by lia.
    rewrite E. bcases. reflexivity.
  - cbn [app utf8_dec]. unfold cont.
    assert (E : (240 + c / 262144 - 240) * 262144 + (128 + (c / 4096) mod 64 - 128) * 4096
                + (128 + (c / 64) mod 64 - 128) * 64 + (128 + c mod 64 - 128) = c) by lia.
    rewrite E. bcases. reflexivity.
Qed.

Lemma utf8_dec_bytes : forall s, str_valid s = true -> utf8_dec (utf8_bytes s) = Some s.
Proof.
  induction s as [|c s IH]; intro H; [reflexivity|].
  unfold str_valid in H. cbn [forallb] in H. apply andb_true_iff in H. destruct H as [Hc Hs].
  unfold utf8_bytes. cbn [flat_map]. rewrite utf8_dec_cons by exact Hc.
  fold (utf8_bytes s). rewrite IH by exact Hs. reflexivity.
Qed.

Lemma read_str_bytes : forall s rest, str_valid s = true ->
  read_str (Z.of_nat (length (utf8_bytes s))) (utf8_bytes s ++ rest) = Some (GStr s, rest).
Proof.
  intros s rest H. unfold read_str. rewrite take_app, utf8_dec_bytes by exact H. reflexivity.
Qed.

Lemma dispatch_str : forall rd s rest, str_valid s = true -> u32 (length (utf8_bytes s)) = true ->
  match mp_str s ++ rest with
  | c :: r => mp_dispatch rd c r = Some (GStr s, rest)
  | [] => False
  end.
Proof.
  intros rd s rest Hv Hu. unfold u32 in Hu. unfold mp_str, str_hdr, mp_len.
  pose proof (read_str_bytes s rest Hv) as HR.
  set (L := Z.of_nat (length (utf8_bytes s))) in *.
  assert (HL : 0 <= L < 4294967296) by lia.
  cbn [Z.ltb Z.compare andb].
  destruct (Z.ltb_spec L 32) as [H1|H1];
    [| destruct (Z.ltb_spec L 256) as [H2|H2]; [| destruct (Z.ltb_spec L 65536) as [H3|H3]]].
  - cbn [app]. unfold mp_dispatch. cbv beta iota zeta. zcases.
    replace (160 + L - 160) with L by lia. exact HR.
  - cbn [app]. unfold mp_dispatch. cbv beta iota zeta. zcases.
    change (L :: utf8_bytes s ++ rest) with ([L] ++ utf8_bytes s ++ rest).
    replace [L] with (be 1 L) by (cbn; f_equal; lia).
    rewrite tb1. replace (L mod 256) with L by lia. exact HR.
  - cbn [app]. unfold mp_dispatch. cbv beta iota zeta. zcases.
    rewrite <- app_assoc. rewrite tb2. replace (L mod 65536) with L by lia. exact HR.
  - cbn [app]. unfold mp_dispatch. cbv beta iota zeta. zcases.
    rewrite <- app_assoc. rewrite tb4. replace (L mod 4294967296) with L by lia. exact HR.
Qed.
