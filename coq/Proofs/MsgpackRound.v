(* C11, msgpack route: the round trip THROUGH THE BYTES, without a codec oracle.
   (unmsgpack (msgpack v)) = norm v for every data value whose sizes the msgpack format can express:
   SexpToJson, the RFC reader, JsonToGo (go_of_tree), GoToMsgpack (mp_bytes), the independent reader
   (mp_decode), GoToSexp (sexp_of_go).
   Ingredients: str_ltb is a strict total order, so the Go map go_map builds is sorted with distinct
   names whatever the member order (ssorted_go_map); gt_of v is the Go tree a value denotes
   (go_of_tree_tree_of), it is in the writer's domain (gt_ok_gt_of) and GoToSexp inverts it
   (sexp_of_go_gt_of, the analogue of of_tree_tree_of on Go trees); then MsgpackProofs.mp_decode_bytes. *)
From Coq Require Import ZArith List Bool Lia.
Import ListNotations.
From ZV Require Import Model.Json Model.Msgpack Proofs.JsonTreeProofs Proofs.JsonParseProofs
                       Proofs.JsonProofs Proofs.MsgpackProofs.
Open Scope Z_scope.

(* ---------------------------------------------------------------- str_ltb is a strict total order *)
Lemma str_ltb_trans : forall a b c, str_ltb a b = true -> str_ltb b c = true -> str_ltb a c = true.
Proof.
  induction a as [|x a IH]; intros [|y b] [|z c] H1 H2; cbn [str_ltb] in *; try congruence.
  destruct (Z.ltb_spec x y); destruct (Z.ltb_spec y x); destruct (Z.ltb_spec y z); destruct (Z.ltb_spec z y);
  destruct (Z.ltb_spec x z); destruct (Z.ltb_spec z x); try lia; try congruence.
  eapply IH; eassumption.
Qed.

Lemma str_ltb_total : forall a b, str_eqb a b = false -> str_ltb a b = false -> str_ltb b a = true.
Proof.
  induction a as [|x a IH]; intros [|y b] H1 H2; cbn [str_ltb str_eqb] in *; try congruence.
  destruct (Z.ltb_spec x y); destruct (Z.ltb_spec y x); destruct (Z.eqb_spec x y); try lia; try congruence.
  cbn [andb] in H1. apply IH; assumption.
Qed.

(* ---------------------------------------------------------------- the Go map: sorted, nothing invented *)
Section GoMapOrder.
Context {T : Type}.

Lemma ssorted_map_put : forall k (x : T) m,
  ssorted (map fst m) = true -> ssorted (map fst (map_put k x m)) = true.
Proof.
  intros k x. induction m as [|[k' x'] r IH]; intro Hs.
  - reflexivity.
  - cbn [map fst ssorted] in Hs. apply andb_true_iff in Hs. destruct Hs as [Hk Hr].
    cbn [map_put]. destruct (str_eqb k k') eqn:E1.
    + apply str_eqb_eq in E1. subst k'. cbn [map fst ssorted]. rewrite Hk, Hr. reflexivity.
    + destruct (str_ltb k k') eqn:E2.
      * cbn [map fst ssorted forallb]. rewrite E2, Hk, Hr. cbn [andb]. rewrite andb_true_r.
        apply forallb_forall. intros b Hb. rewrite forallb_forall in Hk.
        apply (str_ltb_trans k k' b E2). apply Hk. exact Hb.
      * cbn [map fst ssorted]. rewrite (IH Hr). rewrite andb_true_r.
        apply forallb_forall. intros b Hb. apply keys_map_put in Hb. destruct Hb as [Hb|Hb].
        -- subst b. apply str_ltb_total; [exact E1|exact E2].
        -- rewrite forallb_forall in Hk. apply Hk. exact Hb.
Qed.

Lemma ssorted_put_all : forall (l m0 : list (list Z * T)),
  ssorted (map fst m0) = true -> ssorted (map fst (put_all l m0)) = true.
Proof.
  induction l as [|[k x] l IH]; intros m0 H; [exact H|].
  change (ssorted (map fst (put_all l (map_put k x m0))) = true).
  apply IH. apply ssorted_map_put. exact H.
Qed.

(* whatever the order and the repetitions of the members, the Go map is sorted with distinct names *)
Lemma ssorted_go_map : forall l : list (list Z * T), ssorted (map fst (go_map l)) = true.
Proof. intro l. change (go_map l) with (put_all l []). apply ssorted_put_all. reflexivity. Qed.

Lemma in_map_put : forall k (x : T) m e, In e (map_put k x m) -> e = (k, x) \/ In e m.
Proof.
  intros k x. induction m as [|[k' x'] r IH]; intros e H.
  - cbn [map_put In] in H. destruct H as [H|[]]. left. symmetry. exact H.
  - cbn [map_put] in H. destruct (str_eqb k k').
    + destruct H as [H|H]; [left; symmetry; exact H|right; right; exact H].
    + destruct (str_ltb k k').
      * destruct H as [H|H]; [left; symmetry; exact H|right; exact H].
      * destruct H as [H|H]; [right; left; exact H|].
        destruct (IH e H) as [H1|H1]; [left; exact H1|right; right; exact H1].
Qed.

Lemma in_put_all : forall (l m0 : list (list Z * T)) e, In e (put_all l m0) -> In e l \/ In e m0.
Proof.
  induction l as [|[k x] l IH]; intros m0 e H; [right; exact H|].
  change (In e (put_all l (map_put k x m0))) in H.
  destruct (IH _ _ H) as [H1|H1]; [left; right; exact H1|].
  apply in_map_put in H1. destruct H1 as [H1|H1]; [left; left; symmetry; exact H1|right; exact H1].
Qed.

Lemma length_map_put : forall k (x : T) m, (length (map_put k x m) <= S (length m))%nat.
Proof.
  intros k x. induction m as [|[k' x'] r IH]; cbn [map_put length]; [lia|].
  destruct (str_eqb k k'); [cbn [length]; lia|]. destruct (str_ltb k k'); cbn [length]; lia.
Qed.

Lemma length_put_all : forall (l m0 : list (list Z * T)),
  (length (put_all l m0) <= length l + length m0)%nat.
Proof.
  induction l as [|[k x] l IH]; intros m0; [cbn; lia|].
  change (put_all ((k, x) :: l) m0) with (put_all l (map_put k x m0)).
  pose proof (IH (map_put k x m0)) as H1. pose proof (length_map_put k x m0) as H2.
  cbn [length]. lia.
Qed.
End GoMapOrder.

(* ---------------------------------------------------------------- GoToSexp decorates the members in place *)
Definition dec_go (kx : list Z * gtree) : list Z * (gtree * outcome) :=
  match kx with (k, x) => (k, (x, sexp_of_go x)) end.

Lemma sexp_arr : forall l, sexp_of_go (GArr l) =
  match all_ok (map sexp_of_go l) with Some vs => Ok (VArr vs) | None => Crash end.
Proof. reflexivity. Qed.

Lemma sexp_map : forall ms, sexp_of_go (GMap ms) = build_hash_go (map dec_go ms).
Proof. reflexivity. Qed.

Lemma map_dec_map_put : forall k x m,
  map dec_go (map_put k x m) = map_put k (x, sexp_of_go x) (map dec_go m).
Proof.
  intros k x. induction m as [|[k' x'] r IH]; [reflexivity|].
  cbn [map_put map dec_go]. destruct (str_eqb k k'); [reflexivity|]. destruct (str_ltb k k'); [reflexivity|].
  cbn [map dec_go]. rewrite IH. reflexivity.
Qed.

Lemma map_dec_put_all : forall l m0,
  map dec_go (put_all l m0) = put_all (map dec_go l) (map dec_go m0).
Proof.
  induction l as [|[k x] l IH]; intro m0; [reflexivity|].
  change (put_all ((k, x) :: l) m0) with (put_all l (map_put k x m0)).
  rewrite IH, map_dec_map_put. reflexivity.
Qed.

Lemma g_strs_strs : forall ks, g_strs (map GStr ks) = Some ks.
Proof. induction ks as [|k ks IH]; cbn [map g_strs]; [reflexivity|]. rewrite IH. reflexivity. Qed.

Lemma all_ok_gstrs : forall ks, all_ok (map sexp_of_go (map GStr ks)) = Some (map (VStr false) ks).
Proof.
  induction ks as [|k ks IH]; cbn [map all_ok sexp_of_go]; [reflexivity|]. rewrite IH. reflexivity.
Qed.

Lemma sexp_strs : forall ks, sexp_of_go (GArr (map GStr ks)) = Ok (VArr (map (VStr false) ks)).
Proof. intro ks. rewrite sexp_arr, all_ok_gstrs. reflexivity. Qed.

Definition FpairsG (e : list Z * (gtree * outcome)) : list (list Z * value) :=
  if is_reserved (fst e) then [] else match snd (snd e) with Ok v => [(fst e, v)] | _ => [] end.

Lemma lookup_pairsG : forall k (m : list (list Z * (gtree * outcome))) t v,
  is_reserved k = false -> lookup k m = Some (t, Ok v) -> lookup k (flat_map FpairsG m) = Some v.
Proof.
  intros k m t v Hr. induction m as [|[k1 [t1 o1]] r IH]; simpl; intro H; [discriminate|].
  destruct (str_eqb k k1) eqn:E.
  - apply str_eqb_eq in E. subst k1. inversion H; subst. unfold FpairsG at 1. simpl. rewrite Hr.
    simpl. rewrite str_eqb_refl. reflexivity.
  - unfold FpairsG at 1. simpl. destruct (is_reserved k1); simpl; [apply IH; exact H|].
    destruct o1; simpl; try (apply IH; exact H). rewrite E. apply IH. exact H.
Qed.

(* ---------------------------------------------------------------- the Go tree a value denotes *)
(* numbers by value, strings by their code points, a hash as the Go map of Atype, its fields and
   zKeyOrder (for a hash with fields) *)
Fixpoint gt_of (v : value) : gtree :=
  match v with
  | VNil => GNil
  | VBool b => GBool b
  | VInt z => GInt z
  | VFloat _ b => GFloat b
  | VStr _ s => GStr s
  | VArr l => GArr (map gt_of l)
  | VHash tn fs =>
      GMap (go_map ((s_Atype, GStr tn) ::
                    match fs with
                    | [] => []
                    | _ => map (fun kv => match kv with (k, x) => (key_text k, gt_of x) end) fs
                           ++ [(s_zKeyOrder, GArr (map (fun kv => GStr (key_text (fst kv))) fs))]
                    end))
  end.

Definition gmember (kv : key * value) : list Z * gtree :=
  match kv with (k, x) => (key_text k, gt_of x) end.
Definition gmembers (tn : list Z) (fs : list (key * value)) : list (list Z * gtree) :=
  (s_Atype, GStr tn) :: map gmember fs ++ [(s_zKeyOrder, GArr (map GStr (keys_of fs)))].

Lemma gt_of_hash : forall tn fs, fs <> [] -> gt_of (VHash tn fs) = GMap (go_map (gmembers tn fs)).
Proof.
  intros tn [|kv fs] H; [contradiction|]. unfold gmembers, keys_of. rewrite map_map. reflexivity.
Qed.

(* what the msgpack format can express: a float is 64 bits, the byte length of a string, the length of
   an array and the number of members of a map (the fields, Atype and zKeyOrder) are below 2^32.
   Go values always have 64-bit floats; the length bounds exclude values of 4 GiB and more, for which
   writeContainerLen truncates the count to uint32 *)
Fixpoint mp_fits (v : value) : bool :=
  match v with
  | VFloat _ b => (0 <=? b) && (b <? 18446744073709551616)
  | VStr _ s => u32 (length (utf8_bytes s))
  | VArr l => u32 (length l) && forallb mp_fits l
  | VHash tn fs =>
      u32 (length (utf8_bytes tn)) && u32 (length fs + 2)
      && forallb (fun kv => match kv with (k, x) => u32 (length (utf8_bytes (key_text k))) && mp_fits x end) fs
  | _ => true
  end.

Lemma u32_le : forall a b, (a <= b)%nat -> u32 b = true -> u32 a = true.
Proof. unfold u32. intros a b H1 H2. apply Z.ltb_lt in H2. apply Z.ltb_lt. lia. Qed.

(* ---------------------------------------------------------------- GoToSexp inverts gt_of *)
Lemma all_ok_map_go : forall l : list value,
  Forall (fun x => sexp_of_go (gt_of x) = Ok (norm x)) l ->
  all_ok (map sexp_of_go (map gt_of l)) = Some (map norm l).
Proof.
  induction l as [|x l IH]; intro H; cbn [map all_ok]; [reflexivity|].
  inversion H as [|? ? H1 H2]; subst. rewrite H1. rewrite (IH H2). reflexivity.
Qed.

Lemma build_hash_go_fields : forall tn (fs : list (key * value)),
  fs <> [] ->
  Forall (fun kv => sexp_of_go (gt_of (snd kv)) = Ok (norm (snd kv))) fs ->
  NoDup (keys_of fs) ->
  Forall (fun kv => is_reserved (key_text (fst kv)) = false) fs ->
  build_hash_go (map dec_go (go_map (gmembers tn fs)))
  = Ok (VHash tn (map (fun kv => match kv with (k, x) => (KSym (key_text k), norm x) end) fs)).
Proof.
  intros tn fs Hne Hok Hnd Hres.
  change (go_map (gmembers tn fs)) with (put_all (gmembers tn fs) []).
  rewrite map_dec_put_all. cbn [map].
  set (dm := map dec_go (gmembers tn fs)).
  assert (Edm : dm = (s_Atype, (GStr tn, Ok (VStr false tn))) :: map dec_go (map gmember fs)
                     ++ [(s_zKeyOrder, (GArr (map GStr (keys_of fs)), Ok (VArr (map (VStr false) (keys_of fs)))))]).
  { unfold dm, gmembers. cbn [map]. rewrite map_app. rewrite <- (sexp_strs (keys_of fs)). reflexivity. }
  assert (Hent : forall kv, In kv fs ->
            In (key_text (fst kv), (gt_of (snd kv), Ok (norm (snd kv)))) (map dec_go (map gmember fs))).
  { intros [k x] Hin. rewrite Forall_forall in Hok. pose proof (Hok _ Hin) as Hk. cbn [snd] in Hk.
    apply in_map_iff. exists (key_text k, gt_of x). split.
    - cbn [dec_go fst snd]. rewrite Hk. reflexivity.
    - apply in_map_iff. exists (k, x). split; [reflexivity|exact Hin]. }
  assert (Hkeys : map fst (map dec_go (map gmember fs)) = keys_of fs).
  { unfold keys_of. rewrite !map_map. apply map_ext. intros [k x]. reflexivity. }
  assert (HnotA : ~ In s_Atype (keys_of fs) /\ ~ In s_zKeyOrder (keys_of fs)).
  { split; intro Hin; unfold keys_of in Hin; apply in_map_iff in Hin; destruct Hin as [kv [E Hin]];
      rewrite Forall_forall in Hres; pose proof (Hres _ Hin) as Hr; rewrite E in Hr; discriminate Hr. }
  assert (Hndm : NoDup (map fst dm)).
  { rewrite Edm. cbn [map fst]. rewrite map_app. rewrite Hkeys. cbn [map fst].
    constructor.
    - intro Hin. apply in_app_or in Hin. destruct Hin as [Hin|[Hin|[]]]; [tauto|discriminate Hin].
    - apply NoDup_snoc; tauto. }
  assert (HAll : forallb (fun e : list Z * (gtree * outcome) => str_eqb (fst e) s_Atype || is_ok (snd (snd e)))
                         (put_all dm []) = true).
  { apply forallb_forall. intros e He. apply in_put_all in He. destruct He as [He|[]].
    assert (Hq : is_ok (snd (snd e)) = true); [|rewrite Hq; apply orb_true_r].
    rewrite Edm in He. destruct He as [He|He]; [subst e; reflexivity|].
    apply in_app_or in He. destruct He as [He|[He|[]]]; [|subst e; reflexivity].
    apply in_map_iff in He. destruct He as [[k g] [E He]].
    apply in_map_iff in He. destruct He as [[k0 x0] [E0 He]]. inversion E0; subst.
    rewrite Forall_forall in Hok. pose proof (Hok _ He) as Hk. cbn [snd] in Hk.
    cbn [dec_go snd]. rewrite Hk. reflexivity. }
  assert (HlA : lookup s_Atype (put_all dm []) = Some (GStr tn, Ok (VStr false tn))).
  { apply lookup_put_all_in; [exact Hndm|]. rewrite Edm. left. reflexivity. }
  assert (HlZ : lookup s_zKeyOrder (put_all dm [])
                = Some (GArr (map GStr (keys_of fs)), Ok (VArr (map (VStr false) (keys_of fs))))).
  { apply lookup_put_all_in; [exact Hndm|]. rewrite Edm. right. apply in_or_app. right. left. reflexivity. }
  assert (HlF : forall kv, In kv fs ->
            lookup (key_text (fst kv)) (flat_map FpairsG (put_all dm [])) = Some (norm (snd kv))).
  { intros kv Hin. apply lookup_pairsG with (t := gt_of (snd kv)).
    - rewrite Forall_forall in Hres. apply Hres. exact Hin.
    - apply lookup_put_all_in; [exact Hndm|]. rewrite Edm. right. apply in_or_app. left. apply Hent. exact Hin. }
  assert (Hcnt : length (flat_map FpairsG (put_all dm [])) = length fs).
  { rewrite count_put_all; [|exact Hndm|intros k _ []].
    cbn [flat_map length]. rewrite Nat.add_0_r. rewrite Edm. cbn [flat_map]. rewrite flat_map_app. cbn [flat_map].
    rewrite !app_length.
    assert (E1 : FpairsG (s_Atype, (GStr tn, Ok (VStr false tn))) = []) by reflexivity.
    assert (E2 : FpairsG (s_zKeyOrder, (GArr (map GStr (keys_of fs)), Ok (VArr (map (VStr false) (keys_of fs))))) = [])
      by reflexivity.
    rewrite E1, E2. cbn [length]. rewrite Nat.add_0_r. cbn [Nat.add].
    clear - Hok Hres. induction fs as [|[k x] fs IH]; [reflexivity|].
    inversion Hok as [|? ? A1 A2]; inversion Hres as [|? ? B1 B2]; subst.
    cbn [map flat_map gmember dec_go]. unfold FpairsG at 1. cbn [fst snd] in *. rewrite B1.
    rewrite A1. cbn [app length]. f_equal. apply IH; assumption. }
  unfold build_hash_go. rewrite HAll. cbv beta iota zeta. cbn [negb]. rewrite HlA, HlZ. cbv beta iota.
  rewrite g_strs_strs.
  change (flat_map _ (put_all dm [])) with (flat_map FpairsG (put_all dm [])).
  unfold keys_of. rewrite (restore_fields fs fs _ HlF).
  rewrite map_length. rewrite Hcnt. rewrite Nat.eqb_refl. reflexivity.
Qed.

Section Round.
Variable fmt : bool -> Z -> list Z.

Theorem sexp_of_go_gt_of : forall v, data fmt v = true -> no_reserved_keys v = true ->
  sexp_of_go (gt_of v) = Ok (norm v).
Proof.
  induction v as [| b | z | sci b | raw s | l IH | tn fs IH] using value_ind_nested; intros Hd Hr;
    try reflexivity.
  - cbn [data] in Hd. cbn [no_reserved_keys] in Hr. cbn [gt_of norm]. rewrite sexp_arr.
    rewrite all_ok_map_go; [reflexivity|].
    apply Forall_forall. intros x Hx. rewrite Forall_forall in IH.
    rewrite forallb_forall in Hd, Hr. apply IH; auto.
  - cbn [data] in Hd. cbn [no_reserved_keys] in Hr.
    apply andb_true_iff in Hd. destruct Hd as [Hd Hfs]. apply andb_true_iff in Hd. destruct Hd as [Htn Hnd].
    assert (Hcase : fs = [] \/ fs <> []) by (destruct fs; [left; reflexivity|right; discriminate]).
    destruct Hcase as [Hnil|Hne].
    + subst fs. reflexivity.
    + rewrite gt_of_hash by exact Hne. rewrite sexp_map.
      rewrite forallb_forall in Hfs, Hr. rewrite Forall_forall in IH.
      rewrite build_hash_go_fields; [reflexivity|exact Hne| | |].
      * apply Forall_forall. intros [k x] Hin. cbn [snd].
        pose proof (Hfs _ Hin) as H1. pose proof (Hr _ Hin) as H2. cbn beta iota in H1, H2.
        apply andb_true_iff in H1. apply andb_true_iff in H2.
        apply (IH (k, x) Hin); tauto.
      * apply nodup_str_NoDup. exact Hnd.
      * apply Forall_forall. intros [k x] Hin. pose proof (Hr _ Hin) as H2. cbn beta iota in H2.
        apply andb_true_iff in H2. destruct H2 as [H2 _]. apply negb_true_iff in H2. exact H2.
Qed.

(* ---------------------------------------------------------------- gt_of v is in the writer's domain *)
Lemma gt_ok_members : forall L : list (list Z * gtree),
  u32 (length L) = true ->
  (forall k x, In (k, x) L -> str_valid k && u32 (length (utf8_bytes k)) && gt_ok x = true) ->
  gt_ok (GMap (go_map L)) = true.
Proof.
  intros L Hlen Hall. cbn [gt_ok]. rewrite ssorted_go_map. rewrite andb_true_r.
  apply andb_true_iff. split.
  - apply (u32_le _ (length L)); [|exact Hlen].
    change (go_map L) with (put_all L []). pose proof (length_put_all L []) as H. cbn [length] in H. lia.
  - apply forallb_forall. intros [k x] Hin. change (go_map L) with (put_all L []) in Hin.
    apply in_put_all in Hin. destruct Hin as [Hin|[]]. apply Hall. exact Hin.
Qed.

Theorem gt_ok_gt_of : forall v, data fmt v = true -> mp_fits v = true -> gt_ok (gt_of v) = true.
Proof.
  induction v as [| b | z | sci b | raw s | l IH | tn fs IH] using value_ind_nested; intros Hd Hm.
  - reflexivity.
  - reflexivity.
  - exact Hd.
  - exact Hm.
  - cbn [data] in Hd. cbn [mp_fits] in Hm. cbn [gt_of gt_ok]. rewrite Hd, Hm. reflexivity.
  - cbn [data] in Hd. cbn [mp_fits] in Hm. apply andb_true_iff in Hm. destruct Hm as [Hlen Hm].
    cbn [gt_of gt_ok]. rewrite map_length, Hlen. cbn [andb].
    apply forallb_forall. intros g Hg. apply in_map_iff in Hg. destruct Hg as [x [E Hx]]. subst g.
    rewrite Forall_forall in IH. rewrite forallb_forall in Hd, Hm. apply IH; auto.
  - cbn [data] in Hd. cbn [mp_fits] in Hm.
    apply andb_true_iff in Hd. destruct Hd as [Hd Hfs]. apply andb_true_iff in Hd. destruct Hd as [Htn _].
    apply andb_true_iff in Hm. destruct Hm as [Hm Hmf]. apply andb_true_iff in Hm. destruct Hm as [Hmt Hcnt].
    rewrite forallb_forall in Hfs, Hmf. rewrite Forall_forall in IH.
    assert (Hcase : fs = [] \/ fs <> []) by (destruct fs; [left; reflexivity|right; discriminate]).
    destruct Hcase as [Hnil|Hne].
    + subst fs. change (gt_of (VHash tn [])) with (GMap (go_map [(s_Atype, GStr tn)])).
      apply gt_ok_members; [reflexivity|]. intros k x [E|[]]. inversion E; subst.
      cbn [gt_ok]. rewrite Htn, Hmt. reflexivity.
    + rewrite gt_of_hash by exact Hne. apply gt_ok_members.
      * apply (u32_le _ (length fs + 2)); [|exact Hcnt].
        unfold gmembers. cbn [length]. rewrite app_length, map_length. cbn [length]. lia.
      * intros k x Hin. unfold gmembers in Hin. destruct Hin as [E|Hin].
        { inversion E; subst. cbn [gt_ok]. rewrite Htn, Hmt. reflexivity. }
        apply in_app_or in Hin. destruct Hin as [Hin|[E|[]]].
        { apply in_map_iff in Hin. destruct Hin as [[k0 x0] [E Hin]]. inversion E; subst.
          pose proof (Hfs _ Hin) as H1. pose proof (Hmf _ Hin) as H2. cbn beta iota in H1, H2.
          apply andb_true_iff in H1. destruct H1 as [H1 H1']. apply andb_true_iff in H2. destruct H2 as [H2 H2'].
          rewrite H1, H2. cbn [andb]. apply (IH (k0, x0) Hin); assumption. }
        { inversion E; subst. cbn [gt_ok]. rewrite map_length. unfold keys_of. rewrite map_length.
          rewrite (u32_le (length fs) (length fs + 2)) by (try lia; exact Hcnt).
          assert (Hks : forallb gt_ok (map GStr (map (fun kv : key * value => key_text (fst kv)) fs)) = true).
          { apply forallb_forall. intros g Hg. apply in_map_iff in Hg. destruct Hg as [t [E1 Hg]]. subst g.
            apply in_map_iff in Hg. destruct Hg as [[k0 x0] [E2 Hg]]. subst t.
            pose proof (Hfs _ Hg) as H1. pose proof (Hmf _ Hg) as H2. cbn beta iota in H1, H2.
            apply andb_true_iff in H1. destruct H1 as [H1 _]. apply andb_true_iff in H2. destruct H2 as [H2 _].
            cbn [gt_ok fst]. rewrite H1, H2. reflexivity. }
          rewrite Hks. reflexivity. }
Qed.

(* ---------------------------------------------------------------- JsonToGo delivers gt_of *)
Section Oracles.
Variable pf : list Z -> Z.
Hypothesis pf_fmt : forall sci b, float_finite b = true ->
  is_json_number (float_token fmt sci b) = true -> pf (float_token fmt sci b) = b.
Hypothesis fmt_e : forall b, float_finite b = true -> has_dot_e (fmt true b) = true.

Definition gmemb (kt : list Z * jtree) : option (list Z * gtree) :=
  match kt with (k, x) => match go_of_tree pf x with Some g => Some (k, g) | None => None end end.

Lemma go_of_tree_obj : forall ms l, all_some (map gmemb ms) = Some l ->
  go_of_tree pf (JObj ms) = Some (GMap (go_map l)).
Proof.
  intros ms l H.
  change (go_of_tree pf (JObj ms))
    with (match all_some (map gmemb ms) with Some l => Some (GMap (go_map l)) | None => None end).
  rewrite H. reflexivity.
Qed.

Lemma go_of_tree_arr : forall ts gs, all_some (map (go_of_tree pf) ts) = Some gs ->
  go_of_tree pf (JArr ts) = Some (GArr gs).
Proof.
  intros ts gs H.
  change (go_of_tree pf (JArr ts))
    with (match all_some (map (go_of_tree pf) ts) with Some gs => Some (GArr gs) | None => None end).
  rewrite H. reflexivity.
Qed.

Lemma all_some_app : forall (A : Type) (a b : list (option A)) xs ys,
  all_some a = Some xs -> all_some b = Some ys -> all_some (a ++ b) = Some (xs ++ ys).
Proof.
  induction a as [|[x|] a IH]; intros b xs ys Ha Hb; cbn [all_some app] in *.
  - inversion Ha; subst. exact Hb.
  - destruct (all_some a) as [xs'|] eqn:E; [|discriminate]. inversion Ha; subst.
    rewrite (IH b xs' ys eq_refl Hb). reflexivity.
  - discriminate.
Qed.

Lemma all_some_map_go : forall l : list value,
  Forall (fun x => go_of_tree pf (tree_of fmt x) = Some (gt_of x)) l ->
  all_some (map (go_of_tree pf) (map (tree_of fmt) l)) = Some (map gt_of l).
Proof.
  induction l as [|x l IH]; intro H; cbn [map all_some]; [reflexivity|].
  inversion H as [|? ? H1 H2]; subst. rewrite H1. rewrite (IH H2). reflexivity.
Qed.

Definition field_ok_go (kv : key * value) : Prop :=
  go_of_tree pf (tree_of fmt (snd kv)) = Some (gt_of (snd kv)) /\ fix_str (key_text (fst kv)) = key_text (fst kv).

Lemma all_some_fields : forall fs : list (key * value), Forall field_ok_go fs ->
  all_some (map gmemb (map (fun kv : key * value => match kv with (k, x) => (fix_str (key_text k), tree_of fmt x) end) fs))
  = Some (map gmember fs).
Proof.
  induction fs as [|[k x] fs IH]; intro H; [reflexivity|].
  inversion H as [|? ? [H1 H2] H3]; subst. cbn [fst snd] in H1, H2.
  cbn [map gmemb gmember all_some]. rewrite H1, H2. rewrite (IH H3). reflexivity.
Qed.

Lemma all_some_keys : forall fs : list (key * value), Forall field_ok_go fs ->
  all_some (map (go_of_tree pf) (map (fun kv : key * value => JStr (fix_str (key_text (fst kv)))) fs))
  = Some (map GStr (keys_of fs)).
Proof.
  unfold keys_of. induction fs as [|kv fs IH]; intro H; [reflexivity|].
  inversion H as [|? ? [H1 H2] H3]; subst.
  cbn [map all_some go_of_tree]. rewrite H2. rewrite (IH H3). reflexivity.
Qed.

Theorem go_of_tree_tree_of : forall v, data fmt v = true ->
  go_of_tree pf (tree_of fmt v) = Some (gt_of v).
Proof.
  induction v as [| b | z | sci b | raw s | l IH | tn fs IH] using value_ind_nested; intro Hd.
  - reflexivity.
  - reflexivity.
  - cbn [tree_of go_of_tree gt_of]. rewrite num_value_dec by exact Hd. reflexivity.
  - cbn [data] in Hd. apply andb_true_iff in Hd. destruct Hd as [Hf Hn].
    cbn [tree_of gt_of]. rewrite Hf. cbn [go_of_tree].
    rewrite num_value_float by (apply (has_dot_e_token fmt fmt_e); exact Hf).
    rewrite pf_fmt by assumption. reflexivity.
  - cbn [data] in Hd. cbn [tree_of go_of_tree gt_of]. rewrite fix_str_valid by exact Hd. reflexivity.
  - cbn [data] in Hd. cbn [tree_of gt_of]. apply go_of_tree_arr. apply all_some_map_go.
    apply Forall_forall. intros x Hx. rewrite Forall_forall in IH. rewrite forallb_forall in Hd. auto.
  - cbn [data] in Hd.
    apply andb_true_iff in Hd. destruct Hd as [Hd Hfs]. apply andb_true_iff in Hd. destruct Hd as [Htn _].
    rewrite forallb_forall in Hfs. rewrite Forall_forall in IH.
    assert (Hcase : fs = [] \/ fs <> []) by (destruct fs; [left; reflexivity|right; discriminate]).
    destruct Hcase as [Hnil|Hne].
    + subst fs. cbn [tree_of]. rewrite (fix_str_valid tn Htn).
      apply (go_of_tree_obj _ [(s_Atype, GStr tn)]). reflexivity.
    + assert (Hok : Forall field_ok_go fs).
      { apply Forall_forall. intros [k x] Hin. pose proof (Hfs _ Hin) as H. cbn beta iota in H.
        apply andb_true_iff in H. destruct H as [H1 H2]. split; cbn [fst snd].
        - apply (IH (k, x) Hin). exact H2.
        - apply fix_str_valid. exact H1. }
      rewrite gt_of_hash by exact Hne.
      assert (Hform : tree_of fmt (VHash tn fs) =
                JObj ((s_Atype, JStr (fix_str tn)) ::
                      map (fun kv : key * value => match kv with (k, x) => (fix_str (key_text k), tree_of fmt x) end) fs
                      ++ [(s_zKeyOrder, JArr (map (fun kv : key * value => JStr (fix_str (key_text (fst kv)))) fs))])).
      { destruct fs; [contradiction|reflexivity]. }
      rewrite Hform. apply go_of_tree_obj. unfold gmembers.
      cbn [map gmemb go_of_tree all_some]. rewrite (fix_str_valid tn Htn).
      rewrite map_app.
      rewrite (all_some_app _ _ _ (map gmember fs) [(s_zKeyOrder, GArr (map GStr (keys_of fs)))]);
        [reflexivity|apply all_some_fields; exact Hok|].
      cbn [map gmemb]. rewrite (go_of_tree_arr _ (map GStr (keys_of fs))) by (apply all_some_keys; exact Hok).
      reflexivity.
Qed.

(* ---------------------------------------------------------------- the routes *)
(* the Go tree a data value denotes is delivered by JsonToGo, is in the writer's domain, and
   GoToSexp gives the value back: the two facts the byte-level round trip was waiting for *)
Theorem gtree_of_data : forall v, data fmt v = true -> no_reserved_keys v = true -> mp_fits v = true ->
  exists g, gtree_of fmt pf v = Some g /\ gt_ok g = true /\ sexp_of_go g = Ok (norm v).
Proof.
  intros v Hd Hr Hm. exists (gt_of v). unfold gtree_of. split; [apply go_of_tree_tree_of; exact Hd|].
  split; [apply gt_ok_gt_of; assumption|apply sexp_of_go_gt_of; assumption].
Qed.

(* (unjson (json v)) as the code is factored (JsonToGo, GoToSexp); no size premise on this route *)
Theorem unjson_go_json : forall v, data fmt v = true -> no_reserved_keys v = true ->
  unjson_go pf (to_json fmt v) = Ok (norm v).
Proof.
  intros v Hd Hr. unfold unjson_go. rewrite json_wellformed by (apply data_wf; exact Hd).
  rewrite go_of_tree_tree_of by exact Hd. apply sexp_of_go_gt_of; assumption.
Qed.

(* (unmsgpack (msgpack v)) through the bytes, no codec oracle *)
Theorem msgpack_roundtrip_bytes : forall v,
  data fmt v = true -> no_reserved_keys v = true -> mp_fits v = true ->
  exists b, msgpack_bytes fmt pf v = Some b /\ unmsgpack_bytes b = Ok (norm v).
Proof.
  intros v Hd Hr Hm. exists (mp_bytes (gt_of v)). unfold msgpack_bytes, unmsgpack_bytes.
  rewrite json_wellformed by (apply data_wf; exact Hd). rewrite go_of_tree_tree_of by exact Hd.
  split; [reflexivity|].
  rewrite mp_decode_bytes by (apply gt_ok_gt_of; assumption). apply sexp_of_go_gt_of; assumption.
Qed.

(* encodings are values: several byte strings alive at once each decode to their own original *)
Theorem history_msgpack_roundtrip_bytes : forall vs,
  Forall (fun v => data fmt v = true /\ no_reserved_keys v = true /\ mp_fits v = true) vs ->
  map (fun v => match msgpack_bytes fmt pf v with Some b => unmsgpack_bytes b | None => Crash end) vs
  = map (fun v => Ok (norm v)) vs.
Proof.
  intros vs H. apply map_ext_in. intros v Hv. rewrite Forall_forall in H. destruct (H v Hv) as [Hd [Hr Hm]].
  destruct (msgpack_roundtrip_bytes v Hd Hr Hm) as [b [E1 E2]]. rewrite E1. exact E2.
Qed.
End Oracles.
End Round.
