(* Proofs about Model/NumBits.v: the integer-only builtins (shifts, bit operations,
   complement, modulo) equal their exact specification for all 64-bit operands. *)
From Coq Require Import ZArith Bool Lia List.
From ZV Require Import Model.Num Model.NumSpec Model.NumBits Proofs.NumProofs.
Import ListNotations.
Open Scope Z_scope.

(* ------------------------------------------------------------------ *)
(* 64-bit patterns                                                      *)

Lemma signed64_pattern64 : forall z, signed64 (pattern64 z) = wrap64 z.
Proof.
  intro z. unfold signed64, pattern64, wrap64.
  pose proof two64_pos as Hp. pose proof two64_two63 as E.
  pose proof (Z.mod_pos_bound z two64 Hp) as Hb.
  pose proof (Z.div_mod z two64 ltac:(lia)) as Hz.
  set (m := z mod two64) in *. set (k := z / two64) in *.
  destruct (Z.ltb_spec m two63) as [Hlt|Hge].
  - assert (H : (z + two63) mod two64 = m + two63).
    { symmetry. apply Z.mod_unique with (q := k); lia. }
    lia.
  - assert (H : (z + two63) mod two64 = m + two63 - two64).
    { symmetry. apply Z.mod_unique with (q := k + 1); lia. }
    lia.
Qed.

Lemma signed64_small : forall p, in_u64 p = true -> signed64 p = wrap64 p.
Proof.
  intros p Hp. rewrite <- signed64_pattern64. unfold pattern64.
  apply in_u64_iff in Hp. rewrite Z.mod_small by assumption. reflexivity.
Qed.

Lemma div_pow2_in_u64 : forall p c, in_u64 p = true -> 0 <= c -> in_u64 (p / 2 ^ c) = true.
Proof.
  intros p c Hp Hc. apply in_u64_iff in Hp. apply in_u64_iff.
  assert (H2 : 0 < 2 ^ c) by (apply Z.pow_pos_nonneg; lia).
  split; [apply Z.div_pos; lia|].
  apply Z.le_lt_trans with p; [|lia]. apply Z.div_le_upper_bound; [assumption|]. nia.
Qed.

Lemma norm_i64_wrap64 : forall z, norm_i64 z = wrap64 z.
Proof. intro z. rewrite <- signed64_pattern64. reflexivity. Qed.

Lemma pattern64_wrapu64 : forall z, pattern64 z = wrapu64 z.
Proof. reflexivity. Qed.

Lemma two64_pow : two64 = 2 ^ 64. Proof. reflexivity. Qed.
Lemma two63_pow : two63 = 2 ^ 63. Proof. reflexivity. Qed.

(* ------------------------------------------------------------------ *)
(* the bit loop                                                         *)

Lemma mod_pow2_step : forall x n, 0 <= n ->
  x mod 2 ^ (Z.succ n) = Z.b2z (Z.odd x) + 2 * (Z.div2 x mod 2 ^ n).
Proof.
  intros x n Hn. rewrite Z.pow_succ_r by assumption.
  assert (Hm : 0 < 2 ^ n) by (apply Z.pow_pos_nonneg; lia).
  set (m := 2 ^ n) in *.
  pose proof (Z.div2_odd x) as Hx.
  set (q := Z.div2 x) in *. set (r := Z.b2z (Z.odd x)) in *.
  assert (Hr : 0 <= r <= 1) by (subst r; destruct (Z.odd x); cbn; lia).
  pose proof (Z.mod_pos_bound q m Hm) as Hb.
  pose proof (Z.div_mod q m ltac:(lia)) as Hq.
  symmetry. apply Z.mod_unique with (q := q / m); [lia|].
  rewrite Hx at 1. rewrite Hq at 1. ring.
Qed.

Section BitOp.
  Variable f : bool -> bool -> bool.
  Variable zop : Z -> Z -> Z.
  Hypothesis zop_spec : forall a b n, 0 <= n -> Z.testbit (zop a b) n = f (Z.testbit a n) (Z.testbit b n).
  Hypothesis zop_shiftr : forall a b n, Z.shiftr (zop a b) n = zop (Z.shiftr a n) (Z.shiftr b n).
  Hypothesis zop_00 : zop 0 0 = 0.
  Hypothesis zop_sign : forall x y, (x = 0 \/ x = -1) -> (y = 0 \/ y = -1) -> (zop x y = 0 \/ zop x y = -1).

  Lemma zop_odd : forall a b, Z.odd (zop a b) = f (Z.odd a) (Z.odd b).
  Proof. intros a b. rewrite <- !Z.bit0_odd. apply zop_spec. lia. Qed.

  Lemma zop_div2 : forall a b, Z.div2 (zop a b) = zop (Z.div2 a) (Z.div2 b).
  Proof. intros a b. rewrite !Z.div2_spec. apply zop_shiftr. Qed.

  (* the bit loop computes the low n bits of the operation *)
  Lemma bitw_spec : forall n a b, bitw f n a b = zop a b mod 2 ^ Z.of_nat n.
  Proof.
    induction n as [|n IH]; intros a b.
    - cbn [bitw Z.of_nat]. rewrite Z.pow_0_r, Z.mod_1_r. reflexivity.
    - cbn [bitw]. rewrite Nat2Z.inj_succ. rewrite mod_pow2_step by lia.
      rewrite zop_odd, zop_div2, IH. reflexivity.
  Qed.

  Lemma bitw_bit : forall n a b i, 0 <= i < Z.of_nat n ->
    Z.testbit (bitw f n a b) i = f (Z.testbit a i) (Z.testbit b i).
  Proof.
    intros n a b i Hi. rewrite bitw_spec. rewrite Z.mod_pow2_bits_low by lia. apply zop_spec. lia.
  Qed.

  Lemma in_i64_shiftr : forall z, in_i64 z = true <-> (Z.shiftr z 63 = 0 \/ Z.shiftr z 63 = -1).
  Proof.
    intro z. rewrite in_i64_iff. rewrite Z.shiftr_div_pow2 by lia. rewrite <- two63_pow.
    pose proof two63_pos as Hp.
    pose proof (Z.div_mod z two63 ltac:(lia)) as Hz.
    pose proof (Z.mod_pos_bound z two63 Hp) as Hb.
    set (q := z / two63) in *. set (r := z mod two63) in *.
    split; intro H.
    - assert (-1 <= q <= 0) by nia. lia.
    - destruct H as [H|H]; rewrite H in Hz; lia.
  Qed.

  Lemma in_u64_shiftr : forall z, in_u64 z = true <-> Z.shiftr z 64 = 0.
  Proof.
    intro z. rewrite in_u64_iff. rewrite Z.shiftr_div_pow2 by lia. rewrite <- two64_pow.
    pose proof two64_pos as Hp.
    pose proof (Z.div_mod z two64 ltac:(lia)) as Hz.
    pose proof (Z.mod_pos_bound z two64 Hp) as Hb.
    set (q := z / two64) in *. set (r := z mod two64) in *.
    split; intro H.
    - assert (0 <= q <= 0) by nia. lia.
    - rewrite H in Hz. lia.
  Qed.

  (* bit operations never leave the 64-bit range of their operands: no wrap is needed *)
  Lemma zop_in_i64 : forall a b, in_i64 a = true -> in_i64 b = true -> in_i64 (zop a b) = true.
  Proof.
    intros a b Ha Hb. apply in_i64_shiftr. rewrite zop_shiftr.
    apply zop_sign; apply in_i64_shiftr; assumption.
  Qed.

  Lemma zop_in_u64 : forall a b, in_u64 a = true -> in_u64 b = true -> in_u64 (zop a b) = true.
  Proof.
    intros a b Ha Hb. apply in_u64_shiftr. rewrite zop_shiftr.
    apply in_u64_shiftr in Ha, Hb. rewrite Ha, Hb. exact zop_00.
  Qed.

  Lemma zop_signed_spec : forall a b, in_i64 a = true -> in_i64 b = true ->
    zop a b = signed64 (bitw f 64 a b).
  Proof.
    intros a b Ha Hb. rewrite bitw_spec. change (2 ^ Z.of_nat 64) with two64.
    change (zop a b mod two64) with (pattern64 (zop a b)).
    rewrite signed64_pattern64. symmetry. apply wrap64_id. apply zop_in_i64; assumption.
  Qed.

  Lemma zop_unsigned_spec : forall a b, in_u64 a = true -> in_u64 b = true ->
    zop a b = bitw f 64 a b.
  Proof.
    intros a b Ha Hb. rewrite bitw_spec. change (2 ^ Z.of_nat 64) with two64.
    symmetry. apply Z.mod_small. apply in_u64_iff. apply zop_in_u64; assumption.
  Qed.
End BitOp.

Ltac sign_cases :=
  intros x y [Hx|Hx] [Hy|Hy]; subst x y; cbn; auto.

Lemma land_signed_spec : forall a b, in_i64 a = true -> in_i64 b = true ->
  Z.land a b = signed64 (bitw andb 64 a b).
Proof.
  apply zop_signed_spec.
  - intros; apply Z.land_spec. - intros; apply Z.shiftr_land. - sign_cases.
Qed.
Lemma lor_signed_spec : forall a b, in_i64 a = true -> in_i64 b = true ->
  Z.lor a b = signed64 (bitw orb 64 a b).
Proof.
  apply zop_signed_spec.
  - intros; apply Z.lor_spec. - intros; apply Z.shiftr_lor. - sign_cases.
Qed.
Lemma lxor_signed_spec : forall a b, in_i64 a = true -> in_i64 b = true ->
  Z.lxor a b = signed64 (bitw xorb 64 a b).
Proof.
  apply zop_signed_spec.
  - intros; apply Z.lxor_spec. - intros; apply Z.shiftr_lxor. - sign_cases.
Qed.
Lemma land_unsigned_spec : forall a b, in_u64 a = true -> in_u64 b = true ->
  Z.land a b = bitw andb 64 a b.
Proof.
  apply zop_unsigned_spec.
  - intros; apply Z.land_spec. - intros; apply Z.shiftr_land. - reflexivity.
Qed.
Lemma lor_unsigned_spec : forall a b, in_u64 a = true -> in_u64 b = true ->
  Z.lor a b = bitw orb 64 a b.
Proof.
  apply zop_unsigned_spec.
  - intros; apply Z.lor_spec. - intros; apply Z.shiftr_lor. - reflexivity.
Qed.
Lemma lxor_unsigned_spec : forall a b, in_u64 a = true -> in_u64 b = true ->
  Z.lxor a b = bitw xorb 64 a b.
Proof.
  apply zop_unsigned_spec.
  - intros; apply Z.lxor_spec. - intros; apply Z.shiftr_lxor. - reflexivity.
Qed.

(* every result bit is the boolean function of the operand bits (all bit positions, signed operands too) *)
Lemma bitop_bits : forall op f a b i, bit_fun op = Some f -> 0 <= i ->
  (forall r, int_integer_do op a b = Ok r ->
     exists z, r = NInt z /\ Z.testbit z i = f (Z.testbit a i) (Z.testbit b i)).
Proof.
  intros op f a b i Hf Hi r Hr.
  destruct op; cbn [bit_fun] in Hf; try discriminate; injection Hf as <-;
    cbn [int_integer_do] in Hr; injection Hr as <-; eexists; split; try reflexivity.
  - apply Z.land_spec. - apply Z.lor_spec. - apply Z.lxor_spec.
Qed.

(* ------------------------------------------------------------------ *)
(* shifts                                                               *)

Lemma wrap64_mul_pow_big : forall a c, 64 <= c -> wrap64 (a * 2 ^ c) = 0.
Proof.
  intros a c Hc. unfold wrap64.
  replace c with ((c - 64) + 64) by ring. rewrite Z.pow_add_r by lia. rewrite <- two64_pow.
  rewrite Z.mul_assoc. rewrite Z.add_comm. rewrite Z.mod_add by (pose proof two64_pos; lia).
  pose proof two64_two63 as E. pose proof two63_pos.
  rewrite Z.mod_small by lia. lia.
Qed.

Lemma wrapu64_mul_pow_big : forall a c, 64 <= c -> wrapu64 (a * 2 ^ c) = 0.
Proof.
  intros a c Hc. unfold wrapu64.
  replace c with ((c - 64) + 64) by ring. rewrite Z.pow_add_r by lia. rewrite <- two64_pow.
  rewrite Z.mul_assoc. apply Z.mod_mul. pose proof two64_pos; lia.
Qed.

(* (sll a c) is a * 2^c reduced to int64, for EVERY count c >= 0 *)
Lemma shl_i64_exact : forall a c, 0 <= c -> shl_i64 a c = wrap64 (a * 2 ^ c).
Proof.
  intros a c Hc. unfold shl_i64. destruct (Z.ltb_spec c 64) as [H|H].
  - rewrite Z.shiftl_mul_pow2 by assumption. reflexivity.
  - symmetry. apply wrap64_mul_pow_big. assumption.
Qed.

Lemma shl_u64_exact : forall a c, 0 <= c -> shl_u64 a c = wrapu64 (a * 2 ^ c).
Proof.
  intros a c Hc. unfold shl_u64. destruct (Z.ltb_spec c 64) as [H|H].
  - rewrite Z.shiftl_mul_pow2 by assumption. reflexivity.
  - symmetry. apply wrapu64_mul_pow_big. assumption.
Qed.

Lemma pow_ge_two64 : forall c, 64 <= c -> two64 <= 2 ^ c.
Proof. intros c Hc. rewrite two64_pow. apply Z.pow_le_mono_r; lia. Qed.

(* (sra a c) is the floor of a / 2^c for every count *)
Lemma sra_i64_exact : forall a c, in_i64 a = true -> 0 <= c -> sra_i64 a c = a / 2 ^ c.
Proof.
  intros a c Ha Hc. unfold sra_i64. destruct (Z.ltb_spec c 64) as [H|H].
  - apply Z.shiftr_div_pow2. assumption.
  - apply in_i64_iff in Ha. pose proof (pow_ge_two64 c H) as Hp. pose proof two64_two63 as E.
    pose proof two63_pos.
    destruct (Z.ltb_spec a 0) as [Hn|Hn].
    + apply Z.div_unique_pos with (r := a + 2 ^ c); lia.
    + symmetry. apply Z.div_small. lia.
Qed.

Lemma shr_u64_exact : forall a c, in_u64 a = true -> 0 <= c -> shr_u64 a c = a / 2 ^ c.
Proof.
  intros a c Ha Hc. unfold shr_u64. destruct (Z.ltb_spec c 64) as [H|H].
  - apply Z.shiftr_div_pow2. assumption.
  - apply in_u64_iff in Ha. pose proof (pow_ge_two64 c H) as Hp.
    symmetry. apply Z.div_small. lia.
Qed.

(* (srl a c) shifts the unsigned pattern of a and reads the result back as int64 *)
Lemma srl_i64_exact : forall a c, 0 <= c -> srl_i64 a c = wrap64 (wrapu64 a / 2 ^ c).
Proof.
  intros a c Hc. unfold srl_i64. destruct (Z.ltb_spec c 64) as [H|H].
  - rewrite Z.shiftr_div_pow2 by assumption. reflexivity.
  - pose proof (wrapu64_range a) as Hr. rewrite <- (shr_u64_exact _ _ Hr Hc).
    unfold shr_u64. destruct (Z.ltb_spec c 64); [lia|]. reflexivity.
Qed.

(* the capped count of the executable specification is the same number *)
Lemma cap_shl_i64 : forall a c, 0 <= c -> wrap64 (a * 2 ^ cap64 c) = wrap64 (a * 2 ^ c).
Proof.
  intros a c Hc. unfold cap64. destruct (Z.le_ge_cases c 64) as [H|H].
  - rewrite Z.min_l by assumption. reflexivity.
  - rewrite Z.min_r by assumption. rewrite !wrap64_mul_pow_big by lia. reflexivity.
Qed.
Lemma cap_shl_u64 : forall a c, 0 <= c -> wrapu64 (a * 2 ^ cap64 c) = wrapu64 (a * 2 ^ c).
Proof.
  intros a c Hc. unfold cap64. destruct (Z.le_ge_cases c 64) as [H|H].
  - rewrite Z.min_l by assumption. reflexivity.
  - rewrite Z.min_r by assumption. rewrite !wrapu64_mul_pow_big by lia. reflexivity.
Qed.
Lemma cap_sra : forall a c, in_i64 a = true -> 0 <= c -> a / 2 ^ cap64 c = a / 2 ^ c.
Proof.
  intros a c Ha Hc. unfold cap64. destruct (Z.le_ge_cases c 64) as [H|H].
  - rewrite Z.min_l by assumption. reflexivity.
  - rewrite Z.min_r by assumption.
    rewrite <- (sra_i64_exact a 64 Ha) by lia. rewrite <- (sra_i64_exact a c Ha) by lia.
    unfold sra_i64. change (64 <? 64) with false. cbv iota.
    destruct (Z.ltb_spec c 64); [lia|reflexivity].
Qed.
Lemma cap_shr_u : forall a c, in_u64 a = true -> 0 <= c -> a / 2 ^ cap64 c = a / 2 ^ c.
Proof.
  intros a c Ha Hc. unfold cap64. destruct (Z.le_ge_cases c 64) as [H|H].
  - rewrite Z.min_l by assumption. reflexivity.
  - rewrite Z.min_r by assumption.
    rewrite <- (shr_u64_exact a 64 Ha) by lia. rewrite <- (shr_u64_exact a c Ha) by lia.
    unfold shr_u64. change (64 <? 64) with false. cbv iota.
    destruct (Z.ltb_spec c 64); [lia|reflexivity].
Qed.

(* ------------------------------------------------------------------ *)
(* model = specification                                                *)

Lemma pattern64_nonneg : forall z, 0 <= pattern64 z.
Proof. intro z. pose proof (wrapu64_range z) as H. apply in_u64_iff in H. exact (proj1 H). Qed.

Lemma int_int_matches_spec : forall op a b, in_i64 a = true -> in_i64 b = true ->
  int_integer_do op a b = lift_res NInt (spec_int_int op a b).
Proof.
  intros op a b Ha Hb. pose proof (pattern64_nonneg b) as Hc.
  destruct op; cbn [int_integer_do spec_int_int lift_res].
  - rewrite signed64_pattern64, cap_shl_i64 by assumption.
    rewrite shl_i64_exact by assumption. reflexivity.
  - rewrite cap_sra by assumption. rewrite sra_i64_exact by assumption. reflexivity.
  - rewrite (cap_shr_u (pattern64 a)) by (try apply wrapu64_range; assumption).
    rewrite signed64_small by (apply div_pow2_in_u64; [apply wrapu64_range|assumption]).
    rewrite srl_i64_exact by assumption. reflexivity.
  - unfold imod. destruct (b =? 0) eqn:E; [reflexivity|]. cbn [lift_res].
    apply Z.eqb_neq in E. pose proof (Z.quot_rem' a b) as H. do 2 f_equal. lia.
  - rewrite <- land_signed_spec by assumption. reflexivity.
  - rewrite <- lor_signed_spec by assumption. reflexivity.
  - rewrite <- lxor_signed_spec by assumption. reflexivity.
Qed.

Lemma uint_uint_matches_spec : forall op a b, in_u64 a = true -> in_u64 b = true ->
  uint_integer_do op a b = lift_res NUint (spec_uint_uint op a b).
Proof.
  intros op a b Ha Hb. pose proof Hb as Hb'. apply in_u64_iff in Hb'. pose proof Ha as Ha'. apply in_u64_iff in Ha'.
  destruct op; cbn [uint_integer_do spec_uint_uint lift_res].
  - change (pattern64 (a * 2 ^ cap64 b)) with (wrapu64 (a * 2 ^ cap64 b)).
    rewrite cap_shl_u64 by lia. rewrite shl_u64_exact by lia. reflexivity.
  - rewrite cap_shr_u by (try assumption; lia). rewrite shr_u64_exact by (try assumption; lia). reflexivity.
  - rewrite cap_shr_u by (try assumption; lia). rewrite shr_u64_exact by (try assumption; lia). reflexivity.
  - unfold umod. destruct (b =? 0) eqn:E; [reflexivity|]. cbn [lift_res].
    apply Z.eqb_neq in E. rewrite Z.rem_mod_nonneg by lia.
    pose proof (Z.div_mod a b E) as H. do 2 f_equal. lia.
  - rewrite <- land_unsigned_spec by assumption. reflexivity.
  - rewrite <- lor_unsigned_spec by assumption. reflexivity.
  - rewrite <- lxor_unsigned_spec by assumption. reflexivity.
Qed.

(* MASTER: for all in-range operands of every kind, IntegerDo equals the exact specification *)
Lemma integer_do_matches_spec : forall op a b, wf_num a = true -> wf_num b = true ->
  integer_do op a b = spec_integer op a b.
Proof.
  intros op a b Wa Wb.
  destruct a as [i|u|c|f], b as [j|v|d|g]; cbn [integer_do uinteger_do spec_integer wf_num] in *;
    try reflexivity;
    try (apply int_int_matches_spec; try assumption; apply in_i32_i64; assumption);
    try (apply uint_uint_matches_spec; try assumption; apply wrapu64_range).
Qed.

(* results stay in range *)
Lemma int_integer_do_wf : forall op a b r, in_i64 a = true -> in_i64 b = true ->
  int_integer_do op a b = Ok r -> wf_num r = true.
Proof.
  intros op a b r Ha Hb H. destruct op; cbn [int_integer_do] in H; try (injection H as <-); cbn [wf_num].
  - unfold shl_i64. destruct (_ <? 64); [apply wrap64_range|reflexivity].
  - rewrite sra_i64_exact by (try assumption; apply pattern64_nonneg).
    apply in_i64_iff in Ha. apply in_i64_iff.
    assert (Hp : 0 < 2 ^ wrapu64 b) by (apply Z.pow_pos_nonneg; [lia|apply pattern64_nonneg]).
    pose proof two63_pos. split.
    + apply Z.div_le_lower_bound; [assumption|]. nia.
    + apply Z.div_lt_upper_bound; [assumption|]. nia.
  - unfold srl_i64. destruct (_ <? 64); [apply wrap64_range|reflexivity].
  - unfold imod in H. destruct (b =? 0) eqn:E; [discriminate|]. injection H as <-. cbn [wf_num].
    apply Z.eqb_neq in E. apply in_i64_iff in Ha, Hb. apply in_i64_iff.
    pose proof (Z.rem_bound_abs a b E). pose proof (Z.rem_sign_nz a b E).
    destruct (Z.eq_dec (Z.rem a b) 0) as [Z0|NZ]; [rewrite Z0; pose proof two63_pos; lia|].
    specialize (H0 NZ). lia.
  - apply zop_in_i64; [intros; apply Z.shiftr_land | sign_cases | assumption | assumption].
  - apply zop_in_i64; [intros; apply Z.shiftr_lor | sign_cases | assumption | assumption].
  - apply zop_in_i64; [intros; apply Z.shiftr_lxor | sign_cases | assumption | assumption].
Qed.

(* errors: exactly a float operand or a zero divisor of mod *)
Lemma integer_do_err_iff : forall op a b, wf_num a = true -> wf_num b = true ->
  (integer_do op a b = Err <->
   is_float a = true \/ is_float b = true \/ (op = IMod /\ int_val b = 0)).
Proof.
  intros op a b Wa Wb.
  assert (HI : forall x y, int_integer_do op x y = Err <-> op = IMod /\ y = 0).
  { intros x y. destruct op; cbn [int_integer_do]; unfold imod;
      try (split; [discriminate|intros (H & _); discriminate]).
    destruct (Z.eqb_spec y 0); split; try discriminate; try tauto. }
  assert (HU : forall x y, uint_integer_do op x y = Err <-> op = IMod /\ y = 0).
  { intros x y. destruct op; cbn [uint_integer_do]; unfold umod;
      try (split; [discriminate|intros (H & _); discriminate]).
    destruct (Z.eqb_spec y 0); split; try discriminate; try tauto. }
  destruct a as [i|u|c|f], b as [j|v|d|g];
    cbn [integer_do uinteger_do is_float int_val wf_num] in *;
    try (split; [intros _; auto | reflexivity]);
    try rewrite HI; try rewrite HU;
    try (split; [intros (H1 & H2); right; right; split; assumption
                | intros [H|[H|(H1 & H2)]]; try discriminate; split; assumption]).
  - pose proof (wrapu64_zero_i64 j Wb) as Hz.
    split; [intros (H1 & H2); right; right; split; [assumption|apply Hz; assumption]
           | intros [H|[H|(H1 & H2)]]; try discriminate; split; [assumption|apply Hz; assumption]].
  - pose proof (wrapu64_zero_i64 d (in_i32_i64 d Wb)) as Hz.
    split; [intros (H1 & H2); right; right; split; [assumption|apply Hz; assumption]
           | intros [H|[H|(H1 & H2)]]; try discriminate; split; [assumption|apply Hz; assumption]].
Qed.

(* the `mod` builtin of Num.v is IntegerDo with op = Modulo *)
Lemma integer_do_mod : forall a b, integer_do IMod a b = mod_do a b.
Proof. intros a b. destruct a, b; reflexivity. Qed.

(* BinaryIntFunction / BitwiseFunction: exactly two arguments *)
Lemma int_function_two : forall op a b, int_function op [a; b] = integer_do op a b.
Proof. reflexivity. Qed.
Lemma int_function_arity : forall op args, length args <> 2%nat -> int_function op args = Err.
Proof.
  intros op args H. destruct args as [|a [|b [|c l]]]; try reflexivity. cbn in H. congruence.
Qed.

(* ---- bitNot ---- *)
Lemma complement_matches_spec : forall a, complement a = spec_complement a.
Proof. intro a. destruct a; cbn [complement spec_complement]; try reflexivity; unfold Z.lnot; do 2 f_equal; lia. Qed.

Lemma complement_wf : forall a r, wf_num a = true -> complement a = Ok r -> wf_num r = true.
Proof.
  intros a r Wa H. destruct a; cbn [complement] in H; try discriminate; injection H as <-; cbn [wf_num] in *; unfold Z.lnot.
  - apply in_i64_iff in Wa. apply in_i64_iff. lia.
  - unfold in_i32 in *. rewrite andb_true_iff, Z.leb_le, Z.ltb_lt in *. lia.
Qed.

Lemma complement_involutive : forall a r, complement a = Ok r -> complement r = Ok a.
Proof.
  intros a r H. destruct a; cbn [complement] in H; try discriminate; injection H as <-; cbn [complement];
    rewrite Z.lnot_involutive; reflexivity.
Qed.

(* every bit of the complement is flipped *)
Lemma complement_bits : forall z i, 0 <= i -> Z.testbit (Z.lnot z) i = negb (Z.testbit z i).
Proof. intros z i Hi. apply Z.lnot_spec. assumption. Qed.

(* ------------------------------------------------------------------ *)
(* the arithmetic oracle of NumSpec.v is implied by the model (all in-range operands) *)

Lemma rem_zero_iff_mod_zero : forall x y, y <> 0 -> (Z.rem x y =? 0) = (x mod y =? 0).
Proof.
  intros x y Hy. destruct (Z.eqb_spec (Z.rem x y) 0) as [H|H]; destruct (Z.eqb_spec (x mod y) 0) as [G|G]; try reflexivity.
  - exfalso. apply G. apply Z.rem_divide in H; [|assumption]. apply Z.mod_divide; assumption.
  - exfalso. apply H. apply Z.mod_divide in G; [|assumption]. apply Z.rem_divide; assumption.
Qed.

Lemma quot_div_exact : forall x y, y <> 0 -> x mod y = 0 -> Z.quot x y = x / y.
Proof.
  intros x y Hy H. apply Z.mod_divide in H; [|assumption]. destruct H as [k ->].
  rewrite Z.quot_mul, Z.div_mul by assumption. reflexivity.
Qed.

Lemma int_do_matches_spec : forall op x y,
  spec_arith op (NInt x) (NInt y) = Some (int_do op x y).
Proof.
  intros op x y. destruct op; cbn [spec_arith int_do exact_op]; rewrite ?norm_i64_wrap64; try reflexivity.
  destruct (Z.eqb_spec y 0) as [E|E]; [reflexivity|].
  rewrite rem_zero_iff_mod_zero by assumption.
  destruct (Z.eqb_spec (x mod y) 0) as [G|G]; [|reflexivity].
  rewrite quot_div_exact by assumption. reflexivity.
Qed.

Lemma uint_do_matches_spec : forall op x y,
  spec_arith op (NUint x) (NUint y) = Some (uint_do op x y).
Proof.
  intros op x y. destruct op; cbn [spec_arith uint_do exact_op]; try reflexivity.
  destruct (Z.eqb_spec y 0) as [E|E]; [reflexivity|].
  rewrite rem_zero_iff_mod_zero by assumption.
  destruct (Z.eqb_spec (x mod y) 0) as [G|G]; [|reflexivity].
  rewrite quot_div_exact by assumption. reflexivity.
Qed.

(* wherever the arithmetic oracle speaks, the model of NumericDo says the same *)
Lemma arith_matches_spec : forall op a b r, wf_num a = true -> wf_num b = true ->
  spec_arith op a b = Some r -> numeric_do op a b = r.
Proof.
  intros op a b r Wa Wb H.
  destruct a as [i|u|c|f], b as [j|v|d|g];
    try (rewrite int_do_matches_spec in H; injection H as <-; reflexivity);
    try (rewrite uint_do_matches_spec in H; injection H as <-; reflexivity);
    try (cbn [spec_arith] in H; injection H as <-; reflexivity);
    cbn [spec_arith] in H; destruct op; try discriminate;
    match type of H with
    | match ?z with _ => _ end = _ => destruct z; try discriminate
    end; injection H as <-; try reflexivity.
Qed.

Lemma mod_matches_spec : forall a b r, wf_num a = true -> wf_num b = true ->
  spec_mod a b = Some r -> mod_do a b = r.
Proof.
  intros a b r Wa Wb H.
  destruct a as [i|u|c|f], b as [j|v|d|g]; cbn [spec_mod mod_do wf_num] in *;
    try (injection H as <-; reflexivity).
  - unfold imod. destruct (j =? 0) eqn:E; injection H as <-; [reflexivity|].
    apply Z.eqb_neq in E. pose proof (Z.quot_rem' i j). do 2 f_equal. lia.
  - destruct v; try discriminate. injection H as <-. reflexivity.
  - destruct d; try discriminate. injection H as <-. reflexivity.
  - destruct j; try discriminate. injection H as <-. reflexivity.
  - unfold umod. apply in_u64_iff in Wa, Wb. destruct (v =? 0) eqn:E; injection H as <-; [reflexivity|].
    apply Z.eqb_neq in E. rewrite Z.rem_mod_nonneg by lia. pose proof (Z.div_mod u v E). do 2 f_equal. lia.
  - destruct d; try discriminate. injection H as <-. reflexivity.
  - destruct j; try discriminate. injection H as <-. reflexivity.
  - destruct v; try discriminate. injection H as <-. reflexivity.
  - destruct d; try discriminate. injection H as <-. reflexivity.
Qed.
