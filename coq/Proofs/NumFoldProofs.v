(* Proofs about the n-ary folds of NumericFunction ((op a1 a2 ... an), any n): every
   integer operator wraps like the exact fold, floats absorb, only `/` can fail,
   results stay well-formed 64-bit values. *)
From Coq Require Import ZArith Bool Lia List.
From ZV Require Import Model.Num Model.NumSpec Model.NumBits Proofs.NumProofs Proofs.NumBitsProofs.
Import ListNotations.
Open Scope Z_scope.

Definition fstep (op : arop) := fun (acc : res num) (x : num) =>
  match acc with Ok v => numeric_do op v x | Err => Err end.

Lemma numeric_fold_cons : forall op a l, numeric_fold op (a :: l) = fold_left (fstep op) l (Ok a).
Proof. reflexivity. Qed.

(* ---- congruence modulo 2^64 ---- *)
Lemma wrap64_eq_of_congr : forall x y, (x - y) mod two64 = 0 -> wrap64 x = wrap64 y.
Proof.
  intros x y H. pose proof two64_pos as Hp.
  apply Z.mod_divide in H; [|lia]. destruct H as [k Hk].
  unfold wrap64. f_equal. replace (x + two63) with (y + two63 + k * two64) by lia.
  apply Z.mod_add. lia.
Qed.

Lemma wrap64_op_l : forall op x y, op <> OpDiv ->
  wrap64 (exact_op op (wrap64 x) y) = wrap64 (exact_op op x y).
Proof.
  intros op x y Hop. apply wrap64_eq_of_congr. pose proof two64_pos as Hp.
  pose proof (wrap64_congr x) as H. apply Z.mod_divide in H; [|lia]. destruct H as [k Hk].
  apply Z.mod_divide; [lia|].
  destruct op; cbn [exact_op]; try congruence.
  - exists k. lia.
  - exists k. lia.
  - exists (k * y). replace (wrap64 x * y - x * y) with ((wrap64 x - x) * y) by ring. rewrite Hk. ring.
Qed.

Lemma wrapu64_op_l : forall op x y, op <> OpDiv ->
  wrapu64 (exact_op op (wrapu64 x) y) = wrapu64 (exact_op op x y).
Proof.
  intros op x y Hop. unfold wrapu64. pose proof two64_pos as Hp.
  destruct op; cbn [exact_op]; try congruence.
  - apply Z.add_mod_idemp_l. lia.
  - apply Zminus_mod_idemp_l.
  - apply Z.mul_mod_idemp_l. lia.
Qed.

Lemma int_do_exact_op : forall op a b, op <> OpDiv -> int_do op a b = Ok (NInt (wrap64 (exact_op op a b))).
Proof. intros op a b H. destruct op; try reflexivity. congruence. Qed.
Lemma uint_do_exact_op : forall op a b, op <> OpDiv -> uint_do op a b = Ok (NUint (wrapu64 (exact_op op a b))).
Proof. intros op a b H. destruct op; try reflexivity. congruence. Qed.

Lemma fold_ints_from : forall op, op <> OpDiv -> forall l a,
  fold_left (fstep op) (map NInt l) (Ok (NInt (wrap64 a)))
  = Ok (NInt (wrap64 (fold_left (exact_op op) l a))).
Proof.
  intros op Hop. induction l as [|x l IH]; intro a; cbn [map fold_left].
  - reflexivity.
  - cbn [fstep numeric_do]. rewrite int_do_exact_op by assumption.
    rewrite wrap64_op_l by assumption. apply IH.
Qed.

(* (op a1 ... an) on int64 operands, op in + - *, is the exact left fold reduced to int64 ONCE *)
Lemma int_fold_wraps : forall op a l, op <> OpDiv -> in_i64 a = true ->
  numeric_fold op (map NInt (a :: l)) = Ok (NInt (wrap64 (fold_left (exact_op op) l a))).
Proof.
  intros op a l Hop Ha. cbn [map]. rewrite numeric_fold_cons.
  rewrite <- (wrap64_id a Ha) at 1. apply fold_ints_from. assumption.
Qed.

Lemma fold_uints_from : forall op, op <> OpDiv -> forall l a,
  fold_left (fstep op) (map NUint l) (Ok (NUint (wrapu64 a)))
  = Ok (NUint (wrapu64 (fold_left (exact_op op) l a))).
Proof.
  intros op Hop. induction l as [|x l IH]; intro a; cbn [map fold_left].
  - reflexivity.
  - cbn [fstep numeric_do]. rewrite uint_do_exact_op by assumption.
    rewrite wrapu64_op_l by assumption. apply IH.
Qed.

Lemma uint_fold_wraps : forall op a l, op <> OpDiv -> in_u64 a = true ->
  numeric_fold op (map NUint (a :: l)) = Ok (NUint (wrapu64 (fold_left (exact_op op) l a))).
Proof.
  intros op a l Hop Ha. cbn [map]. rewrite numeric_fold_cons.
  rewrite <- (wrapu64_id a Ha) at 1. apply fold_uints_from. assumption.
Qed.

(* ---- floats absorb ---- *)
Lemma numeric_do_float_l : forall op f b, exists g, numeric_do op (NFloat f) b = Ok (NFloat g).
Proof. intros. eexists. reflexivity. Qed.

Lemma numeric_do_float_r : forall op a g, exists h, numeric_do op a (NFloat g) = Ok (NFloat h).
Proof. intros op a g. destruct a; eexists; reflexivity. Qed.

Lemma fold_from_float : forall op l f, exists g, fold_left (fstep op) l (Ok (NFloat f)) = Ok (NFloat g).
Proof.
  intros op. induction l as [|x l IH]; intro f; cbn [fold_left].
  - eexists; reflexivity.
  - cbn [fstep numeric_do]. apply IH.
Qed.

Lemma fold_left_err : forall op l, fold_left (fstep op) l (@Err num) = Err.
Proof. intros op l; induction l as [|x l IH]; cbn [fold_left fstep]; auto. Qed.

Lemma fold_float_absorbs_from : forall op l v r,
  fold_left (fstep op) l (Ok v) = Ok r ->
  is_float v = true \/ existsb is_float l = true -> is_float r = true.
Proof.
  intros op. induction l as [|x l IH]; intros v r H Hf; cbn [fold_left existsb] in *.
  - injection H as <-. destruct Hf as [Hf|Hf]; [assumption|discriminate].
  - cbn [fstep] in H. destruct (numeric_do op v x) as [w|] eqn:E.
    + apply (IH w r H). destruct Hf as [Hf|Hf].
      * left. destruct v; try discriminate. cbn [numeric_do] in E. injection E as <-. reflexivity.
      * apply orb_true_iff in Hf. destruct Hf as [Hf|Hf]; [|right; assumption].
        left. destruct x; try discriminate. destruct (numeric_do_float_r op v f) as [h Hh].
        rewrite Hh in E. injection E as <-. reflexivity.
    + rewrite fold_left_err in H. discriminate.
Qed.

(* one float operand anywhere makes the result of (op a1 ... an) a float *)
Lemma fold_float_absorbs : forall op args r,
  numeric_fold op args = Ok r -> existsb is_float args = true -> is_float r = true.
Proof.
  intros op args r H Hf. destruct args as [|a l]; [discriminate|].
  rewrite numeric_fold_cons in H. cbn [existsb] in Hf. apply orb_true_iff in Hf.
  eapply fold_float_absorbs_from; eassumption.
Qed.

(* and without a float operand the result is not a float unless a division was inexact *)
Lemma numeric_do_int_like : forall op a b r, op <> OpDiv ->
  is_float a = false -> is_float b = false -> numeric_do op a b = Ok r -> is_float r = false.
Proof.
  intros op a b r Hop Ha Hb H.
  destruct a as [i|u|c|f], b as [j|v|d|g]; try discriminate; cbn [numeric_do] in H;
    try rewrite int_do_exact_op in H by assumption; try rewrite uint_do_exact_op in H by assumption;
    cbn [char_post] in H; injection H as <-; reflexivity.
Qed.

Lemma fold_int_like_from : forall op, op <> OpDiv -> forall l v r,
  fold_left (fstep op) l (Ok v) = Ok r ->
  is_float v = false -> existsb is_float l = false -> is_float r = false.
Proof.
  intros op Hop. induction l as [|x l IH]; intros v r H Hv Hl; cbn [fold_left existsb] in *.
  - injection H as <-. assumption.
  - apply orb_false_iff in Hl. destruct Hl as [Hx Hl]. cbn [fstep] in H.
    destruct (numeric_do op v x) as [w|] eqn:E; [|rewrite fold_left_err in H; discriminate].
    apply (IH w r H); [|assumption]. exact (numeric_do_int_like op v x w Hop Hv Hx E).
Qed.

Lemma fold_int_like : forall op args r, op <> OpDiv ->
  numeric_fold op args = Ok r -> existsb is_float args = false -> is_float r = false.
Proof.
  intros op args r Hop H Hf. destruct args as [|a l]; [discriminate|].
  rewrite numeric_fold_cons in H. cbn [existsb] in Hf. apply orb_false_iff in Hf. destruct Hf.
  eapply fold_int_like_from; eassumption.
Qed.

(* ---- only division can fail ---- *)
Lemma fold_total_from : forall op, op <> OpDiv -> forall l v, exists r, fold_left (fstep op) l (Ok v) = Ok r.
Proof.
  intros op Hop. induction l as [|x l IH]; intro v; cbn [fold_left].
  - eexists; reflexivity.
  - cbn [fstep]. destruct (numeric_do op v x) as [w|] eqn:E; [apply IH|].
    apply arith_err_iff in E. destruct E as [E _]. contradiction.
Qed.

Lemma fold_total : forall op args, op <> OpDiv -> args <> [] -> exists r, numeric_fold op args = Ok r.
Proof.
  intros op args Hop Hne. destruct args as [|a l]; [contradiction|].
  rewrite numeric_fold_cons. apply fold_total_from. assumption.
Qed.

(* a failing (/ a1 ... an) has a zero integer divisor at the step that failed *)
Lemma fold_div_err_from : forall l v,
  fold_left (fstep OpDiv) l (Ok v) = Err ->
  exists pre x post w, l = pre ++ x :: post /\ fold_left (fstep OpDiv) pre (Ok v) = Ok w /\
                       eff_divisor w x = Some 0.
Proof.
  induction l as [|x l IH]; intros v H; cbn [fold_left] in H; [discriminate|].
  cbn [fstep] in H. destruct (numeric_do OpDiv v x) as [w|] eqn:E.
  - destruct (IH w H) as (pre & y & post & u & Hl & Hp & Hd).
    exists (x :: pre), y, post, u. split; [rewrite Hl; reflexivity|]. split; [|assumption].
    cbn [fold_left fstep]. rewrite E. assumption.
  - exists [], x, l, v. split; [reflexivity|]. split; [reflexivity|].
    apply arith_err_iff in E. tauto.
Qed.

(* ---- results are 64-bit values again ---- *)
Lemma wrap32_range : forall z, in_i32 (wrap32 z) = true.
Proof.
  intro z. unfold in_i32, wrap32. rewrite andb_true_iff, Z.leb_le, Z.ltb_lt.
  pose proof (Z.mod_pos_bound (z + 2147483648) 4294967296 ltac:(lia)). lia.
Qed.

Lemma int_do_wf : forall op a b r, int_do op a b = Ok r -> wf_num r = true.
Proof.
  intros op a b r H. destruct op; cbn [int_do] in H; try (injection H as <-; apply wrap64_range).
  destruct (b =? 0); [discriminate|]. destruct (Z.rem a b =? 0); injection H as <-; [apply wrap64_range|reflexivity].
Qed.

Lemma uint_do_wf : forall op a b r, in_u64 a = true -> in_u64 b = true -> uint_do op a b = Ok r -> wf_num r = true.
Proof.
  intros op a b r Ha Hb H. destruct op; cbn [uint_do] in H; try (injection H as <-; apply wrapu64_range).
  destruct (Z.eqb_spec b 0) as [E|E]; [discriminate|].
  destruct (Z.rem a b =? 0); injection H as <-; [|reflexivity]. cbn [wf_num].
  apply in_u64_iff in Ha, Hb. apply in_u64_iff.
  rewrite Z.quot_div_nonneg by lia.
  split; [apply Z.div_pos; lia|]. apply Z.le_lt_trans with a; [|lia].
  apply Z.div_le_upper_bound; [lia|]. nia.
Qed.

Lemma numeric_do_wf : forall op a b r, wf_num a = true -> wf_num b = true ->
  numeric_do op a b = Ok r -> wf_num r = true.
Proof.
  intros op a b r Wa Wb H.
  destruct a as [i|u|c|f], b as [j|v|d|g]; cbn [numeric_do wf_num] in *;
    try (injection H as <-; reflexivity);
    try (eapply int_do_wf; eassumption);
    try (refine (uint_do_wf _ _ _ _ _ _ H); solve [assumption | apply wrapu64_range]).
  - destruct (int_do op c j) as [[z|z|z|z]|] eqn:E; cbn [char_post] in H; try discriminate;
      injection H as <-; [apply wrap32_range|reflexivity].
  - destruct (int_do op c d) as [[z|z|z|z]|] eqn:E; cbn [char_post] in H; try discriminate;
      injection H as <-; [apply wrap32_range|reflexivity].
Qed.

Lemma fold_wf_from : forall op l v r, wf_num v = true -> forallb wf_num l = true ->
  fold_left (fstep op) l (Ok v) = Ok r -> wf_num r = true.
Proof.
  intros op. induction l as [|x l IH]; intros v r Wv Wl H; cbn [fold_left forallb] in *.
  - injection H as <-. assumption.
  - apply andb_true_iff in Wl. destruct Wl as [Wx Wl]. cbn [fstep] in H.
    destruct (numeric_do op v x) as [w|] eqn:E; [|rewrite fold_left_err in H; discriminate].
    apply (IH w r); try assumption. exact (numeric_do_wf op v x w Wv Wx E).
Qed.

Lemma fold_wf : forall op args r, forallb wf_num args = true ->
  numeric_fold op args = Ok r -> wf_num r = true.
Proof.
  intros op args r W H. destruct args as [|a l]; [discriminate|].
  rewrite numeric_fold_cons in H. cbn [forallb] in W. apply andb_true_iff in W. destruct W as [Wa Wl].
  exact (fold_wf_from op l a r Wa Wl H).
Qed.

(* ---- the fold oracle (spec_fold) is implied by the model ---- *)
Lemma all_ints_map : forall args l, all_ints args = Some l -> args = map NInt l.
Proof.
  induction args as [|x t IH]; intros l H; cbn [all_ints] in H.
  - injection H as <-. reflexivity.
  - destruct x; try discriminate. destruct (all_ints t) as [r|]; [|discriminate].
    injection H as <-. cbn [map]. f_equal. apply IH. reflexivity.
Qed.
Lemma all_uints_map : forall args l, all_uints args = Some l -> args = map NUint l.
Proof.
  induction args as [|x t IH]; intros l H; cbn [all_uints] in H.
  - injection H as <-. reflexivity.
  - destruct x; try discriminate. destruct (all_uints t) as [r|]; [|discriminate].
    injection H as <-. cbn [map]. f_equal. apply IH. reflexivity.
Qed.

Lemma fold_matches_spec : forall op args r, forallb wf_num args = true ->
  spec_fold op args = Some r -> numeric_fold op args = r.
Proof.
  intros op args r W H. unfold spec_fold in H.
  destruct (is_ptr_form op args); [discriminate|].
  assert (Hop : op <> OpDiv) by (intro E; subst op; discriminate).
  assert (G : match all_ints args with
              | Some (a :: l) => Some (Ok (NInt (signed64 (pattern64 (fold_left (exact_op op) l a)))))
              | _ => match all_uints args with
                     | Some (a :: l) => Some (Ok (NUint (pattern64 (fold_left (exact_op op) l a))))
                     | _ => None end
              end = Some r) by (destruct op; try exact H; congruence).
  clear H.
  destruct (all_ints args) as [[|a l]|] eqn:EI.
  - destruct (all_uints args) as [[|b m]|] eqn:EU; try discriminate.
    apply all_ints_map in EI. subst args. discriminate.
  - injection G as <-. apply all_ints_map in EI. subst args.
    cbn [map forallb] in W. apply andb_true_iff in W. destruct W as [Wa _].
    rewrite signed64_pattern64. apply int_fold_wraps; assumption.
  - destruct (all_uints args) as [[|b m]|] eqn:EU; try discriminate.
    injection G as <-. apply all_uints_map in EU. subst args.
    cbn [map forallb] in W. apply andb_true_iff in W. destruct W as [Wa _].
    apply uint_fold_wraps; assumption.
Qed.

(* the builtin behind + - * / is the fold, except for the one-argument form of "*" *)
Lemma numeric_builtin_fold : forall op args, is_ptr_form op args = false ->
  numeric_builtin op args = numeric_fold op args.
Proof. intros op args H. unfold numeric_builtin. rewrite H. reflexivity. Qed.
Lemma numeric_builtin_two_or_more : forall op a b l,
  numeric_builtin op (a :: b :: l) = numeric_fold op (a :: b :: l).
Proof. intros op a b l. destruct op; reflexivity. Qed.
