(* Mixed integer / float comparison against the exact real order: the conversion to float64
   never inverts the order (for every 64-bit integer, also above 2^53), and is exact when the
   integer is representable (|i| <= 2^53). *)
From Coq Require Import ZArith Bool Reals Lia Lra.
From Flocq Require Import Core.Core.
From Flocq Require Import IEEE754.BinarySingleNaN IEEE754.Binary IEEE754.Bits.
From ZV Require Import Model.Num Proofs.NumProofs.
Open Scope Z_scope.

Local Instance prec53' : FLX.Prec_gt_0 53. Proof. reflexivity. Qed.

Local Instance vexp64 : Valid_exp (FLT.FLT_exp (-1074) 53) := FLT.FLT_exp_valid (-1074) 53.
Local Instance vrnd64 : Valid_rnd (round_mode mode_NE) := valid_rnd_round_mode mode_NE.

(* round to nearest even in binary64 *)
Definition rnd64 (x : R) : R := round radix2 (FLT.FLT_exp (-1074) 53) (round_mode mode_NE) x.

Lemma F2R_int : forall z, F2R (Float radix2 z 0) = IZR z.
Proof. intro z. unfold F2R. cbn [Fnum Fexp bpow]. lra. Qed.

Lemma bpow64 : bpow radix2 64 = IZR two64.
Proof. rewrite <- (IZR_Zpower radix2) by lia. reflexivity. Qed.

Lemma of_Z_correct : forall z, Z.abs z <= two64 ->
  B2R 53 1024 (of_Z z) = rnd64 (IZR z) /\ is_finite 53 1024 (of_Z z) = true.
Proof.
  intros z Hz. unfold of_Z.
  pose proof (binary_normalize_correct 53 1024 (eq_refl _) (eq_refl _) mode_NE z 0 false) as H.
  change (SpecFloat.fexp 53 1024) with (FLT.FLT_exp (-1074) 53) in H.
  rewrite F2R_int in H. fold (rnd64 (IZR z)) in H.
  rewrite Rlt_bool_true in H.
  - destruct H as (H1 & H2 & _). split; assumption.
  - apply Rle_lt_trans with (bpow radix2 64).
    + unfold rnd64. apply (abs_round_le_generic radix2 (FLT.FLT_exp (-1074) 53) (round_mode mode_NE)).
      * apply (generic_format_bpow radix2 (FLT.FLT_exp (-1074) 53)). unfold FLT.FLT_exp. lia.
      * rewrite bpow64. rewrite <- abs_IZR. apply IZR_le. assumption.
    + apply bpow_lt. lia.
Qed.

Lemma rnd64_B2R : forall g : f64, rnd64 (B2R 53 1024 g) = B2R 53 1024 g.
Proof.
  intro g. unfold rnd64. apply (round_generic radix2 (FLT.FLT_exp (-1074) 53) (round_mode mode_NE)).
  apply (generic_format_B2R 53 1024).
Qed.

Lemma rnd64_le : forall x y, (x <= y)%R -> (rnd64 x <= rnd64 y)%R.
Proof. intros x y H. unfold rnd64. apply (round_le radix2 (FLT.FLT_exp (-1074) 53) (round_mode mode_NE)). assumption. Qed.

(* the order found after converting the integer is never the opposite of the exact order *)
Lemma int_float_order_sound : forall z (g : f64), Z.abs z <= two64 -> is_finite 53 1024 g = true ->
  match fcmp (of_Z z) g with
  | Some Lt => (IZR z < B2R 53 1024 g)%R
  | Some Gt => (B2R 53 1024 g < IZR z)%R
  | Some Eq => B2R 53 1024 g = rnd64 (IZR z)
  | None => False
  end.
Proof.
  intros z g Hz Fg. destruct (of_Z_correct z Hz) as [HR HF].
  unfold fcmp, b64_compare. rewrite Bcompare_correct by assumption. rewrite HR.
  destruct (Rcompare_spec (rnd64 (IZR z)) (B2R 53 1024 g)) as [H|H|H].
  - apply Rnot_le_lt. intro C. apply rnd64_le in C. rewrite rnd64_B2R in C. lra.
  - symmetry. assumption.
  - apply Rnot_le_lt. intro C. apply rnd64_le in C. rewrite rnd64_B2R in C. lra.
Qed.

(* representable integers: |z| <= 2^53 *)
Lemma rnd64_small_int : forall z, Z.abs z <= 2 ^ 53 -> rnd64 (IZR z) = IZR z.
Proof.
  intros z Hz. unfold rnd64. apply (round_generic radix2 (FLT.FLT_exp (-1074) 53) (round_mode mode_NE)).
  destruct (Z.eq_dec (Z.abs z) (2 ^ 53)) as [E|NE].
  - assert (Hb : generic_format radix2 (FLT.FLT_exp (-1074) 53) (bpow radix2 53)).
    { apply (generic_format_bpow radix2 (FLT.FLT_exp (-1074) 53)). unfold FLT.FLT_exp. lia. }
    assert (Hp : bpow radix2 53 = IZR (2 ^ 53)) by (rewrite <- (IZR_Zpower radix2) by lia; reflexivity).
    destruct (Z.abs_eq_or_opp z) as [A|A]; rewrite A in E.
    + rewrite E, <- Hp. exact Hb.
    + replace z with (- 2 ^ 53) by lia. rewrite opp_IZR, <- Hp. apply generic_format_opp. exact Hb.
  - apply FLT.generic_format_FLT. exists (Float radix2 z 0).
    + symmetry. apply F2R_int.
    + change (Z.abs z < 2 ^ 53). lia.
    + change (-1074 <= 0). lia.
Qed.

Lemma two53_le_two64 : 2 ^ 53 <= two64. Proof. unfold two64. lia. Qed.

Lemma int_float_order_exact : forall z (g : f64), Z.abs z <= 2 ^ 53 -> is_finite 53 1024 g = true ->
  fcmp (of_Z z) g = Some (Rcompare (IZR z) (B2R 53 1024 g)).
Proof.
  intros z g Hz Fg. pose proof two53_le_two64 as L.
  destruct (of_Z_correct z ltac:(lia)) as [HR HF].
  unfold fcmp, b64_compare. rewrite Bcompare_correct by assumption. rewrite HR.
  rewrite rnd64_small_int by assumption. reflexivity.
Qed.

(* language level: (op i g) for an int64 or char i and a finite float g *)
Definition int_like_val (a : num) : option Z :=
  match a with NInt z | NChar z => Some z | _ => None end.

Lemma wf_abs_two64 : forall a z, wf_num a = true -> int_like_val a = Some z -> Z.abs z <= two64.
Proof.
  intros a z W H. pose proof two64_two63 as E. pose proof two63_pos.
  destruct a; cbn [int_like_val wf_num] in *; try discriminate; injection H as <-.
  - apply in_i64_iff in W. lia.
  - apply in_i32_i64 in W. apply in_i64_iff in W. lia.
Qed.

Lemma spec_order_int_float_sound : forall a z g, wf_num a = true -> int_like_val a = Some z ->
  is_finite 53 1024 g = true ->
  match spec_order a (NFloat g) with
  | Ok (Some Lt) => (IZR z < B2R 53 1024 g)%R
  | Ok (Some Gt) => (B2R 53 1024 g < IZR z)%R
  | Ok (Some Eq) => B2R 53 1024 g = rnd64 (IZR z)
  | _ => False
  end.
Proof.
  intros a z g W H Fg. pose proof (wf_abs_two64 a z W H) as Hz.
  destruct a; cbn [int_like_val] in H; try discriminate; injection H as <-;
    cbn [spec_order to_float]; apply int_float_order_sound; assumption.
Qed.

Lemma fcmp_swap' : forall x y, fcmp y x = match fcmp x y with Some c => Some (CompOpp c) | None => None end.
Proof. intros x y. apply fcmp_swap. Qed.

Lemma spec_order_float_int_sound : forall a z g, wf_num a = true -> int_like_val a = Some z ->
  is_finite 53 1024 g = true ->
  match spec_order (NFloat g) a with
  | Ok (Some Lt) => (B2R 53 1024 g < IZR z)%R
  | Ok (Some Gt) => (IZR z < B2R 53 1024 g)%R
  | Ok (Some Eq) => B2R 53 1024 g = rnd64 (IZR z)
  | _ => False
  end.
Proof.
  intros a z g W H Fg. pose proof (spec_order_int_float_sound a z g W H Fg) as S.
  rewrite (spec_order_swap a (NFloat g)).
  destruct (spec_order a (NFloat g)) as [[[| |]|]|]; cbn [opp_res]; try contradiction; assumption.
Qed.

Lemma spec_order_int_float_exact : forall a z g, int_like_val a = Some z -> Z.abs z <= 2 ^ 53 ->
  is_finite 53 1024 g = true ->
  spec_order a (NFloat g) = Ok (Some (Rcompare (IZR z) (B2R 53 1024 g))).
Proof.
  intros a z g H Hz Fg.
  destruct a; cbn [int_like_val] in H; try discriminate; injection H as <-;
    cbn [spec_order to_float]; f_equal; apply int_float_order_exact; assumption.
Qed.
