(* Proofs about the model in Model/Num.v: comparison agrees with the exact-order
   specification, integer arithmetic wraps modulo 2^64, division behaviour. *)
From Coq Require Import ZArith Bool Reals Lia Lra.
From Flocq Require Import Core.Core.
From Flocq Require Import IEEE754.BinarySingleNaN IEEE754.Binary IEEE754.Bits.
From Flocq Require Import Plus_error.
From ZV Require Import Model.Num.
Open Scope Z_scope.

(* ------------------------------------------------------------------ *)
(* machine integers                                                     *)

Lemma two64_pos : 0 < two64.
Proof. unfold two64. lia. Qed.

Lemma two64_two63 : two64 = 2 * two63.
Proof. reflexivity. Qed.

Lemma two63_pos : 0 < two63.
Proof. unfold two63. lia. Qed.

Lemma in_i64_iff : forall z, in_i64 z = true <-> - two63 <= z < two63.
Proof.
  intro z. unfold in_i64. rewrite andb_true_iff, Z.leb_le, Z.ltb_lt. tauto.
Qed.

Lemma in_u64_iff : forall z, in_u64 z = true <-> 0 <= z < two64.
Proof.
  intro z. unfold in_u64. rewrite andb_true_iff, Z.leb_le, Z.ltb_lt. tauto.
Qed.

Lemma wrap64_range : forall z, in_i64 (wrap64 z) = true.
Proof.
  intro z. apply in_i64_iff. unfold wrap64.
  pose proof (Z.mod_pos_bound (z + two63) two64 two64_pos) as Hb.
  pose proof two64_two63 as E. lia.
Qed.

Lemma wrap64_congr : forall z, (wrap64 z - z) mod two64 = 0.
Proof.
  intro z. unfold wrap64.
  pose proof two64_pos as Hp.
  rewrite (Z.mod_eq (z + two63) two64) by lia.
  replace (z + two63 - two64 * ((z + two63) / two64) - two63 - z)
    with ((- ((z + two63) / two64)) * two64) by ring.
  apply Z.mod_mul. lia.
Qed.

Lemma wrap64_id : forall z, in_i64 z = true -> wrap64 z = z.
Proof.
  intros z Hz. apply in_i64_iff in Hz. unfold wrap64.
  pose proof two64_two63 as E.
  rewrite Z.mod_small by lia. lia.
Qed.

Lemma wrapu64_range : forall z, in_u64 (wrapu64 z) = true.
Proof.
  intro z. apply in_u64_iff. unfold wrapu64.
  apply Z.mod_pos_bound. exact two64_pos.
Qed.

Lemma wrapu64_congr : forall z, (wrapu64 z - z) mod two64 = 0.
Proof.
  intro z. unfold wrapu64.
  pose proof two64_pos as Hp.
  rewrite (Z.mod_eq z two64) by lia.
  replace (z - two64 * (z / two64) - z) with ((- (z / two64)) * two64) by ring.
  apply Z.mod_mul. lia.
Qed.

Lemma wrapu64_id : forall z, in_u64 z = true -> wrapu64 z = z.
Proof.
  intros z Hz. apply in_u64_iff in Hz. unfold wrapu64.
  apply Z.mod_small. exact Hz.
Qed.

(* wrapu64 of an in-range int64 is zero only for zero *)
Lemma wrapu64_zero_i64 : forall z, in_i64 z = true -> (wrapu64 z = 0 <-> z = 0).
Proof.
  intros z Hz. apply in_i64_iff in Hz. unfold wrapu64.
  pose proof two64_pos as Hp. pose proof two64_two63 as E. pose proof two63_pos as Hq.
  split.
  - intro Hm. apply Z.mod_divide in Hm; [|lia]. destruct Hm as (k & Hk).
    assert (k = 0) by nia. lia.
  - intros ->. apply Z.mod_0_l. lia.
Qed.

Lemma in_i32_i64 : forall z, in_i32 z = true -> in_i64 z = true.
Proof.
  intros z Hz. unfold in_i32 in Hz. apply andb_true_iff in Hz as (H1 & H2).
  apply Z.leb_le in H1. apply Z.ltb_lt in H2. apply in_i64_iff.
  unfold two63. lia.
Qed.

(* ------------------------------------------------------------------ *)
(* integer comparison                                                   *)

Definition z_of_cmp (c : comparison) : Z :=
  match c with Lt => -1 | Eq => 0 | Gt => 1 end.

Lemma cmp_z_spec : forall a b, cmp_z a b = z_of_cmp (a ?= b).
Proof.
  intros a b. unfold cmp_z, Z.gtb, Z.ltb. destruct (a ?= b); reflexivity.
Qed.

Lemma cmp_int_exact : forall a b,
  compare (NInt a) (NInt b) = Ok (match a ?= b with Lt => -1 | Eq => 0 | Gt => 1 end).
Proof. intros a b. cbn [compare compare_int]. rewrite cmp_z_spec. reflexivity. Qed.

Lemma cmp_uint_exact : forall a b,
  compare (NUint a) (NUint b) = Ok (match a ?= b with Lt => -1 | Eq => 0 | Gt => 1 end).
Proof. intros a b. cbn [compare compare_uint]. rewrite cmp_z_spec. reflexivity. Qed.

Lemma cmp_char_exact : forall a b,
  compare (NChar a) (NChar b) = Ok (match a ?= b with Lt => -1 | Eq => 0 | Gt => 1 end).
Proof. intros a b. cbn [compare compare_char]. rewrite cmp_z_spec. reflexivity. Qed.

Lemma cmp_int_char_exact : forall a b,
  compare (NInt a) (NChar b) = Ok (match a ?= b with Lt => -1 | Eq => 0 | Gt => 1 end) /\
  compare (NChar a) (NInt b) = Ok (match a ?= b with Lt => -1 | Eq => 0 | Gt => 1 end).
Proof.
  intros a b. cbn [compare compare_int compare_char]. rewrite cmp_z_spec. split; reflexivity.
Qed.

(* ------------------------------------------------------------------ *)
(* integer arithmetic wraps                                             *)

Lemma add_wraps : forall a b,
  exists r, numeric_do OpAdd (NInt a) (NInt b) = Ok (NInt r) /\
            in_i64 r = true /\ (r - (a + b)) mod two64 = 0.
Proof.
  intros a b. exists (wrap64 (a + b)). split; [reflexivity|].
  split; [apply wrap64_range|apply wrap64_congr].
Qed.

Lemma sub_wraps : forall a b,
  exists r, numeric_do OpSub (NInt a) (NInt b) = Ok (NInt r) /\
            in_i64 r = true /\ (r - (a - b)) mod two64 = 0.
Proof.
  intros a b. exists (wrap64 (a - b)). split; [reflexivity|].
  split; [apply wrap64_range|apply wrap64_congr].
Qed.

Lemma mul_wraps : forall a b,
  exists r, numeric_do OpMul (NInt a) (NInt b) = Ok (NInt r) /\
            in_i64 r = true /\ (r - (a * b)) mod two64 = 0.
Proof.
  intros a b. exists (wrap64 (a * b)). split; [reflexivity|].
  split; [apply wrap64_range|apply wrap64_congr].
Qed.

Lemma uadd_wraps : forall a b,
  exists r, numeric_do OpAdd (NUint a) (NUint b) = Ok (NUint r) /\
            in_u64 r = true /\ (r - (a + b)) mod two64 = 0.
Proof.
  intros a b. exists (wrapu64 (a + b)). split; [reflexivity|].
  split; [apply wrapu64_range|apply wrapu64_congr].
Qed.

Lemma usub_wraps : forall a b,
  exists r, numeric_do OpSub (NUint a) (NUint b) = Ok (NUint r) /\
            in_u64 r = true /\ (r - (a - b)) mod two64 = 0.
Proof.
  intros a b. exists (wrapu64 (a - b)). split; [reflexivity|].
  split; [apply wrapu64_range|apply wrapu64_congr].
Qed.

Lemma umul_wraps : forall a b,
  exists r, numeric_do OpMul (NUint a) (NUint b) = Ok (NUint r) /\
            in_u64 r = true /\ (r - (a * b)) mod two64 = 0.
Proof.
  intros a b. exists (wrapu64 (a * b)). split; [reflexivity|].
  split; [apply wrapu64_range|apply wrapu64_congr].
Qed.

(* when the mathematical result is representable there is no wrap at all *)
Lemma add_exact_in_range : forall a b, in_i64 (a + b) = true ->
  numeric_do OpAdd (NInt a) (NInt b) = Ok (NInt (a + b)).
Proof. intros a b H. cbn [numeric_do int_do]. rewrite wrap64_id by exact H. reflexivity. Qed.

Lemma sub_exact_in_range : forall a b, in_i64 (a - b) = true ->
  numeric_do OpSub (NInt a) (NInt b) = Ok (NInt (a - b)).
Proof. intros a b H. cbn [numeric_do int_do]. rewrite wrap64_id by exact H. reflexivity. Qed.

Lemma mul_exact_in_range : forall a b, in_i64 (a * b) = true ->
  numeric_do OpMul (NInt a) (NInt b) = Ok (NInt (a * b)).
Proof. intros a b H. cbn [numeric_do int_do]. rewrite wrap64_id by exact H. reflexivity. Qed.

(* ------------------------------------------------------------------ *)
(* division                                                             *)

Lemma div_exact_or_float : forall a b, b <> 0 ->
  numeric_do OpDiv (NInt a) (NInt b) =
    if Z.rem a b =? 0 then Ok (NInt (wrap64 (Z.quot a b)))
    else Ok (NFloat (fdiv (of_Z a) (of_Z b))).
Proof.
  intros a b Hb. cbn [numeric_do int_do].
  apply Z.eqb_neq in Hb. rewrite Hb. reflexivity.
Qed.

Lemma udiv_exact_or_float : forall a b, b <> 0 ->
  numeric_do OpDiv (NUint a) (NUint b) =
    if Z.rem a b =? 0 then Ok (NUint (Z.quot a b))
    else Ok (NFloat (fdiv (of_Z a) (of_Z b))).
Proof.
  intros a b Hb. cbn [numeric_do uint_do].
  apply Z.eqb_neq in Hb. rewrite Hb. reflexivity.
Qed.

(* an exact unsigned quotient of in-range operands is in range (no wrap needed) *)
Lemma udiv_quot_in_range : forall a b, in_u64 a = true -> in_u64 b = true -> b <> 0 ->
  in_u64 (Z.quot a b) = true.
Proof.
  intros a b Ha Hb Hne. apply in_u64_iff in Ha. apply in_u64_iff in Hb. apply in_u64_iff.
  rewrite Z.quot_div_nonneg by lia.
  split.
  - apply Z.div_pos; lia.
  - apply Z.le_lt_trans with a; [|lia]. apply Z.div_le_upper_bound; nia.
Qed.

Lemma div_zero_is_error : forall a, numeric_do OpDiv (NInt a) (NInt 0) = Err.
Proof. intro a. reflexivity. Qed.

Lemma udiv_zero_is_error : forall a, numeric_do OpDiv (NUint a) (NUint 0) = Err.
Proof. intro a. reflexivity. Qed.

Lemma mixed_arith_float64 : forall op a g,
  numeric_do op (NInt a) (NFloat g) = Ok (NFloat (float_do op (of_Z a) g)).
Proof. intros op a g. reflexivity. Qed.

Lemma mixed_arith_float64_sym : forall op f b,
  numeric_do op (NFloat f) (NInt b) = Ok (NFloat (float_do op f (of_Z b))).
Proof. intros op f b. reflexivity. Qed.

Lemma float_arith_any : forall op f b,
  numeric_do op (NFloat f) b = Ok (NFloat (float_do op f (to_float b))).
Proof. intros op f b. reflexivity. Qed.

Lemma any_arith_float : forall op a g,
  numeric_do op a (NFloat g) = Ok (NFloat (float_do op (to_float a) g)).
Proof. intros op a g. destruct a; reflexivity. Qed.

(* the divisor that the integer code path actually divides by; None on a float path *)
Definition eff_divisor (a b : num) : option Z :=
  match a, b with
  | NFloat _, _ | _, NFloat _ => None
  | NUint _, NInt j | NUint _, NChar j => Some (wrapu64 j)
  | _, NInt j | _, NUint j | _, NChar j => Some j
  end.

Lemma int_do_err : forall op a b, int_do op a b = Err <-> op = OpDiv /\ b = 0.
Proof.
  intros op a b. destruct op; cbn [int_do]; try (split; [discriminate|intros (H & _); discriminate]).
  destruct (b =? 0) eqn:E.
  - apply Z.eqb_eq in E. tauto.
  - apply Z.eqb_neq in E. destruct (Z.rem a b =? 0); split; try discriminate; tauto.
Qed.

Lemma uint_do_err : forall op a b, uint_do op a b = Err <-> op = OpDiv /\ b = 0.
Proof.
  intros op a b. destruct op; cbn [uint_do]; try (split; [discriminate|intros (H & _); discriminate]).
  destruct (b =? 0) eqn:E.
  - apply Z.eqb_eq in E. tauto.
  - apply Z.eqb_neq in E. destruct (Z.rem a b =? 0); split; try discriminate; tauto.
Qed.

Lemma char_post_int_do_err : forall op a b,
  char_post (int_do op a b) = Err <-> int_do op a b = Err.
Proof.
  intros op a b. destruct op; cbn [int_do char_post]; try tauto; try (split; discriminate).
  destruct (b =? 0); [tauto|]. destruct (Z.rem a b =? 0); cbn [char_post]; split; discriminate.
Qed.

Lemma arith_err_iff : forall op a b,
  numeric_do op a b = Err <-> op = OpDiv /\ eff_divisor a b = Some 0.
Proof.
  intros op a b.
  destruct a as [i|u|c|f], b as [j|v|d|g]; cbn [numeric_do eff_divisor];
    try rewrite char_post_int_do_err; try rewrite int_do_err; try rewrite uint_do_err;
    try (split; [discriminate | intros (_ & H); discriminate]);
    (split; intros (H1 & H2); split; congruence).
Qed.

Lemma arith_total : forall op a b,
  (exists r, numeric_do op a b = Ok r) \/
  (numeric_do op a b = Err /\ op = OpDiv /\ eff_divisor a b = Some 0).
Proof.
  intros op a b. destruct (numeric_do op a b) as [r|] eqn:E.
  - left. exists r. reflexivity.
  - right. split; [reflexivity|]. apply arith_err_iff. exact E.
Qed.

Definition is_float (a : num) : bool := match a with NFloat _ => true | _ => false end.
Definition int_val (a : num) : Z :=
  match a with NInt z | NUint z | NChar z => z | NFloat _ => 0 end.

(* on well-formed (in-range) values: Err exactly for integer division by zero *)
Lemma arith_err_iff_wf : forall op a b, wf_num a = true -> wf_num b = true ->
  (numeric_do op a b = Err <->
   op = OpDiv /\ is_float a = false /\ is_float b = false /\ int_val b = 0).
Proof.
  intros op a b Wa Wb. rewrite arith_err_iff.
  destruct a as [i|u|c|f], b as [j|v|d|g]; cbn [eff_divisor is_float int_val wf_num] in *;
    try (split; [intros (_ & H); discriminate | intros (_ & H & _); try discriminate; intros; tauto]);
    try (split; [intros (_ & H); discriminate | intros (_ & _ & H & _); discriminate]);
    try (split; [intros (H1 & H2); repeat split; congruence | intros (H1 & _ & _ & H2); split; congruence]).
  - assert (Hz := wrapu64_zero_i64 j Wb).
    split; [intros (H1 & H2); repeat split; try congruence; apply Hz; congruence
           | intros (H1 & _ & _ & H2); split; [assumption|]; f_equal; apply Hz; assumption].
  - assert (Hz := wrapu64_zero_i64 d (in_i32_i64 d Wb)).
    split; [intros (H1 & H2); repeat split; try congruence; apply Hz; congruence
           | intros (H1 & _ & _ & H2); split; [assumption|]; f_equal; apply Hz; assumption].
Qed.

(* ------------------------------------------------------------------ *)
(* floats: sign of the rounded difference decides the order            *)

Local Instance prec53 : FLX.Prec_gt_0 53. Proof. reflexivity. Qed.

Lemma is_nanb_is_nan : forall x : f64, is_nanb x = is_nan 53 1024 x.
Proof. intros x. destruct x; reflexivity. Qed.

Lemma of_Z_not_nan : forall z, is_nanb (of_Z z) = false.
Proof. intro z. rewrite is_nanb_is_nan. unfold of_Z, binary_normalize. apply is_nan_BSN2B'. Qed.

Lemma Bsign_B2R_true : forall x : f64, is_finite 53 1024 x = true -> Bsign 53 1024 x = true -> (B2R 53 1024 x <= 0)%R.
Proof.
  intros x Fx Sx. destruct x as [s|s|s pl H|s m e H]; try discriminate; cbn [B2R Bsign] in *.
  - lra.
  - subst s. apply F2R_le_0. simpl. lia.
Qed.

Lemma Bsign_B2R_false : forall x : f64, is_finite 53 1024 x = true -> Bsign 53 1024 x = false -> (0 <= B2R 53 1024 x)%R.
Proof.
  intros x Fx Sx. destruct x as [s|s|s pl H|s m e H]; try discriminate; cbn [B2R Bsign] in *.
  - lra.
  - subst s. apply F2R_ge_0. simpl. lia.
Qed.

Lemma signum_inf : forall s, signum_float (B754_infinity 53 1024 s) = if s then -1 else 1.
Proof. intros [|]; reflexivity. Qed.

Lemma signum_sub_finite : forall x y : f64,
  is_finite _ _ x = true -> is_finite _ _ y = true ->
  signum_float (fsub x y) =
    match fcmp x y with Some Lt => -1 | Some Gt => 1 | _ => 0 end.
Proof.
  intros x y Fx Fy.
  unfold fcmp at 1, b64_compare. rewrite (Bcompare_correct 53 1024 x y Fx Fy).
  unfold fsub, b64_minus.
  match goal with |- context [Bminus ?p ?e ?H1 ?H2 ?n ?m x y] =>
    pose proof (Bminus_correct p e H1 H2 n m x y Fx Fy) as H;
    set (r := Bminus p e H1 H2 n m x y) in * end.
  set (d := (B2R 53 1024 x - B2R 53 1024 y)%R) in *.
  change (SpecFloat.fexp 53 1024) with (FLT.FLT_exp (-1074) 53) in *.
  destruct (Rlt_bool (Rabs (round radix2 (FLT.FLT_exp (-1074) 53) (round_mode mode_NE) d)) (bpow radix2 1024)) eqn:Hb.
  - destruct H as (Hr & Hfin & Hsign).
    unfold signum_float, fcmp, b64_compare.
    rewrite (Bcompare_correct 53 1024 r fzero Hfin eq_refl).
    rewrite Hr. simpl (B2R 53 1024 fzero).
    assert (Hfmt: forall z, Generic_fmt.generic_format radix2 (FLT.FLT_exp (-1074) 53) (B2R 53 1024 z)).
    { intro z. apply generic_format_B2R. }
    destruct (Rcompare_spec (B2R 53 1024 x) (B2R 53 1024 y)) as [Hxy|Hxy|Hxy].
    + assert (Hd: (d < 0)%R) by (unfold d; lra).
      assert (Hle: (Generic_fmt.round radix2 (FLT.FLT_exp (-1074) 53) (round_mode mode_NE) d <= 0)%R).
      { rewrite <- (Generic_fmt.round_0 radix2 (FLT.FLT_exp (-1074) 53) (round_mode mode_NE)).
        apply Generic_fmt.round_le; auto with typeclass_instances. lra. }
      assert (Hne: (Generic_fmt.round radix2 (FLT.FLT_exp (-1074) 53) (round_mode mode_NE) d <> 0)%R).
      { intro E. unfold d in E.
        replace (B2R 53 1024 x - B2R 53 1024 y)%R with (B2R 53 1024 x + - B2R 53 1024 y)%R in E by ring.
        apply (round_plus_eq_0 radix2 (FLT.FLT_exp (-1074) 53)) in E; auto with typeclass_instances.
        lra. apply Generic_fmt.generic_format_opp; auto. }
      rewrite Rcompare_Lt; [reflexivity|lra].
    + assert (Hd: d = 0%R) by (unfold d; lra). rewrite Hd.
      rewrite Generic_fmt.round_0; auto with typeclass_instances. rewrite Rcompare_Eq; auto.
    + assert (Hd: (0 < d)%R) by (unfold d; lra).
      assert (Hle: (0 <= Generic_fmt.round radix2 (FLT.FLT_exp (-1074) 53) (round_mode mode_NE) d)%R).
      { rewrite <- (Generic_fmt.round_0 radix2 (FLT.FLT_exp (-1074) 53) (round_mode mode_NE)).
        apply Generic_fmt.round_le; auto with typeclass_instances. lra. }
      assert (Hne: (Generic_fmt.round radix2 (FLT.FLT_exp (-1074) 53) (round_mode mode_NE) d <> 0)%R).
      { intro E. unfold d in E.
        replace (B2R 53 1024 x - B2R 53 1024 y)%R with (B2R 53 1024 x + - B2R 53 1024 y)%R in E by ring.
        apply (round_plus_eq_0 radix2 (FLT.FLT_exp (-1074) 53)) in E; auto with typeclass_instances.
        lra. apply Generic_fmt.generic_format_opp; auto. }
      rewrite Rcompare_Gt; [reflexivity|lra].
  - (* overflow *)
    destruct H as (Hov & Hs).
    assert (Hr : r = B754_infinity 53 1024 (Bsign 53 1024 x)).
    { apply B2FF_inj. rewrite Hov. reflexivity. }
    rewrite Hr, signum_inf.
    assert (Hd0 : d <> 0%R).
    { intro E. rewrite E in Hb. rewrite Generic_fmt.round_0 in Hb; auto with typeclass_instances.
      rewrite Rabs_R0 in Hb.
      rewrite Rlt_bool_true in Hb; [discriminate|]. apply bpow_gt_0. }
    destruct (Bsign 53 1024 x) eqn:Sx.
    + assert (Sy : Bsign 53 1024 y = false) by (destruct (Bsign 53 1024 y); [discriminate|reflexivity]).
      pose proof (Bsign_B2R_true x Fx Sx). pose proof (Bsign_B2R_false y Fy Sy).
      rewrite Rcompare_Lt; [reflexivity|]. unfold d in Hd0. lra.
    + assert (Sy : Bsign 53 1024 y = true) by (destruct (Bsign 53 1024 y); [reflexivity|discriminate]).
      pose proof (Bsign_B2R_false x Fx Sx). pose proof (Bsign_B2R_true y Fy Sy).
      rewrite Rcompare_Gt; [reflexivity|]. unfold d in Hd0. lra.
Qed.

Lemma signum_sub_cmp : forall x y : f64, is_nanb x = false -> is_nanb y = false ->
  signum_float (fsub x y) = match fcmp x y with Some Lt => -1 | Some Gt => 1 | _ => 0 end.
Proof.
  intros x y Nx Ny.
  destruct (is_finite 53 1024 x) eqn:Fx; destruct (is_finite 53 1024 y) eqn:Fy.
  - apply signum_sub_finite; assumption.
  - destruct x as [sx|sx|sx plx Hx|sx mx ex Hx]; try discriminate;
    destruct y as [sy|sy|sy ply Hy|sy my ey Hy]; try discriminate;
    destruct sx, sy; reflexivity.
  - destruct x as [sx|sx|sx plx Hx|sx mx ex Hx]; try discriminate;
    destruct y as [sy|sy|sy ply Hy|sy my ey Hy]; try discriminate;
    destruct sx, sy; reflexivity.
  - destruct x as [sx|sx|sx plx Hx|sx mx ex Hx]; try discriminate;
    destruct y as [sy|sy|sy ply Hy|sy my ey Hy]; try discriminate;
    destruct sx, sy; reflexivity.
Qed.

Lemma fcmp_not_nan_some : forall x y : f64, is_nanb x = false -> is_nanb y = false ->
  exists c, fcmp x y = Some c.
Proof.
  intros x y Nx Ny.
  destruct (is_finite 53 1024 x) eqn:Fx; destruct (is_finite 53 1024 y) eqn:Fy.
  - eexists. unfold fcmp, b64_compare. apply Bcompare_correct; assumption.
  - destruct x as [sx|sx|sx plx Hx|sx mx ex Hx]; try discriminate;
    destruct y as [sy|sy|sy ply Hy|sy my ey Hy]; try discriminate;
    destruct sx, sy; eexists; reflexivity.
  - destruct x as [sx|sx|sx plx Hx|sx mx ex Hx]; try discriminate;
    destruct y as [sy|sy|sy ply Hy|sy my ey Hy]; try discriminate;
    destruct sx, sy; eexists; reflexivity.
  - destruct x as [sx|sx|sx plx Hx|sx mx ex Hx]; try discriminate;
    destruct y as [sy|sy|sy ply Hy|sy my ey Hy]; try discriminate;
    destruct sx, sy; eexists; reflexivity.
Qed.

Lemma fcmp_nan_l : forall x y : f64, is_nanb x = true -> fcmp x y = None.
Proof. intros x y Nx. destruct x; try discriminate. reflexivity. Qed.

Lemma fcmp_nan_r : forall x y : f64, is_nanb y = true -> fcmp x y = None.
Proof. intros x y Ny. destruct y; try discriminate. destruct x; reflexivity. Qed.

(* ------------------------------------------------------------------ *)
(* master theorem: model of the code = exact-order specification        *)

Definition decide (op : cmpop) (r : Z) : res bool :=
  if r >? 1 then Ok (match op with OpNe => true | _ => false end)
  else Ok (match op with
           | OpLt => r <? 0 | OpGt => r >? 0 | OpLe => r <=? 0
           | OpGe => r >=? 0 | OpEq => r =? 0 | OpNe => negb (r =? 0) end).

Definition spec_decide (op : cmpop) (oc : option comparison) : res bool :=
  match oc with
  | None => Ok (match op with OpNe => true | _ => false end)
  | Some c =>
      Ok (match op, c with
          | OpLt, Lt | OpGt, Gt | OpEq, Eq => true
          | OpLe, Lt | OpLe, Eq | OpGe, Gt | OpGe, Eq => true
          | OpNe, Lt | OpNe, Gt => true
          | _, _ => false end)
  end.

Lemma compare_function_decide : forall op a b,
  compare_function op a b = match compare a b with Err => Err | Ok r => decide op r end.
Proof. reflexivity. Qed.

Lemma spec_cmp_decide : forall op a b,
  spec_cmp op a b = match spec_order a b with Err => Err | Ok oc => spec_decide op oc end.
Proof. intros op a b. unfold spec_cmp. destruct (spec_order a b) as [[c|]|]; reflexivity. Qed.

Lemma decide_cmp : forall op c, decide op (z_of_cmp c) = spec_decide op (Some c).
Proof. intros op c. destruct op, c; reflexivity. Qed.

Lemma decide_2 : forall op, decide op 2 = spec_decide op None.
Proof. intros op. destruct op; reflexivity. Qed.

Lemma decide_3 : forall op, decide op 3 = spec_decide op None.
Proof. intros op. destruct op; reflexivity. Qed.

Lemma decide_float : forall op x y, is_nanb x = false -> is_nanb y = false ->
  decide op (signum_float (fsub x y)) = spec_decide op (fcmp x y).
Proof.
  intros op x y Nx Ny. rewrite (signum_sub_cmp x y Nx Ny).
  destruct (fcmp_not_nan_some x y Nx Ny) as (c & ->).
  destruct op, c; reflexivity.
Qed.

Lemma cmp_matches_spec : forall op a b, compare_function op a b = spec_cmp op a b.
Proof.
  intros op a b. rewrite compare_function_decide, spec_cmp_decide.
  destruct a as [i|u|c|f], b as [j|v|d|g];
    cbn [compare compare_int compare_uint compare_char compare_float spec_order to_float];
    try reflexivity;
    try (rewrite cmp_z_spec; apply decide_cmp).
  - (* int, float *)
    destruct (is_nanb g) eqn:Ng.
    + rewrite (fcmp_nan_r _ _ Ng). apply decide_2.
    + apply decide_float; [apply of_Z_not_nan|exact Ng].
  - (* char, float *)
    destruct (is_nanb g) eqn:Ng.
    + rewrite (fcmp_nan_r _ _ Ng). apply decide_2.
    + apply decide_float; [apply of_Z_not_nan|exact Ng].
  - (* float, int *)
    destruct (is_nanb f) eqn:Nf.
    + rewrite (fcmp_nan_l _ _ Nf). apply decide_2.
    + apply decide_float; [exact Nf|apply of_Z_not_nan].
  - (* float, char *)
    destruct (is_nanb f) eqn:Nf.
    + rewrite (fcmp_nan_l _ _ Nf). apply decide_2.
    + apply decide_float; [exact Nf|apply of_Z_not_nan].
  - (* float, float *)
    destruct (is_nanb f) eqn:Nf; destruct (is_nanb g) eqn:Ng; cbn [Z.add Z.gtb Z.compare Pos.add Pos.succ Pos.compare Pos.compare_cont].
    + rewrite (fcmp_nan_l _ _ Nf). apply decide_3.
    + rewrite (fcmp_nan_l _ _ Nf). apply decide_2.
    + rewrite (fcmp_nan_r _ _ Ng). apply decide_2.
    + apply decide_float; assumption.
Qed.

(* ------------------------------------------------------------------ *)
(* NaN is unordered                                                     *)

Definition is_nan_num (a : num) : bool :=
  match a with NFloat f => is_nanb f | _ => false end.
Definition is_uint (a : num) : bool :=
  match a with NUint _ => true | _ => false end.

Lemma compare_nan_code : forall a b,
  is_nan_num a = true \/ is_nan_num b = true -> compare a b <> Err ->
  compare a b = Ok 2 \/ compare a b = Ok 3.
Proof.
  intros a b Hn Hne.
  destruct a as [i|u|c|f], b as [j|v|d|g];
    cbn [compare compare_int compare_uint compare_char compare_float is_nan_num] in *;
    try (exfalso; apply Hne; reflexivity);
    try (destruct Hn as [Hn|Hn]; discriminate Hn);
    try (destruct Hn as [Hn|Hn]; [discriminate Hn|rewrite Hn; left; reflexivity]);
    try (destruct Hn as [Hn|Hn]; [rewrite Hn; left; reflexivity|discriminate Hn]).
  destruct (is_nanb f), (is_nanb g); cbn; auto.
  destruct Hn as [Hn|Hn]; discriminate Hn.
Qed.

Lemma nan_unordered : forall op a b,
  is_nan_num a = true \/ is_nan_num b = true -> compare a b <> Err ->
  compare_function op a b = Ok (match op with OpNe => true | _ => false end).
Proof.
  intros op a b Hn Hne. rewrite compare_function_decide.
  destruct (compare_nan_code a b Hn Hne) as [E|E]; rewrite E; destruct op; reflexivity.
Qed.

(* the only way a comparison is an error: a uint against a non-uint *)
Lemma compare_err_iff : forall a b, compare a b = Err <-> is_uint a <> is_uint b.
Proof.
  intros a b.
  destruct a as [i|u|c|f], b as [j|v|d|g];
    cbn [compare compare_int compare_uint compare_char compare_float is_uint];
    try (split; [discriminate|intro H; exfalso; apply H; reflexivity]);
    try (split; [intros _; discriminate|reflexivity]).
  - destruct (is_nanb g); split; try discriminate; intro H; exfalso; apply H; reflexivity.
  - destruct (is_nanb g); split; try discriminate; intro H; exfalso; apply H; reflexivity.
  - destruct (is_nanb f); split; try discriminate; intro H; exfalso; apply H; reflexivity.
  - destruct (is_nanb f); split; try discriminate; intro H; exfalso; apply H; reflexivity.
  - destruct ((if is_nanb f then 1 else 0) + (if is_nanb g then 1 else 0) >? 0);
      split; try discriminate; intro H; exfalso; apply H; reflexivity.
Qed.

Lemma nan_unordered_nonuint : forall op a b,
  is_nan_num a = true \/ is_nan_num b = true -> is_uint a = false -> is_uint b = false ->
  compare_function op a b = Ok (match op with OpNe => true | _ => false end).
Proof.
  intros op a b Hn Ua Ub. apply nan_unordered; [exact Hn|].
  intro E. apply compare_err_iff in E. congruence.
Qed.

(* ------------------------------------------------------------------ *)
(* trichotomy and swapping                                              *)

Lemma trichotomy : forall a b c, spec_order a b = Ok (Some c) ->
  compare_function OpLt a b = Ok (match c with Lt => true | _ => false end) /\
  compare_function OpEq a b = Ok (match c with Eq => true | _ => false end) /\
  compare_function OpGt a b = Ok (match c with Gt => true | _ => false end).
Proof.
  intros a b c H. rewrite !cmp_matches_spec. unfold spec_cmp. rewrite H.
  destruct c; repeat split; reflexivity.
Qed.

(* exactly one of < = > holds *)
Lemma trichotomy_exactly_one : forall a b c, spec_order a b = Ok (Some c) ->
  exists l e g,
    compare_function OpLt a b = Ok l /\ compare_function OpEq a b = Ok e /\
    compare_function OpGt a b = Ok g /\
    ((l = true /\ e = false /\ g = false) \/
     (l = false /\ e = true /\ g = false) \/
     (l = false /\ e = false /\ g = true)).
Proof.
  intros a b c H. destruct (trichotomy a b c H) as (Hl & He & Hg).
  eexists _, _, _. repeat split; try eassumption.
  destruct c; tauto.
Qed.

(* ordered pairs: every non-error, non-NaN comparison is ordered *)
Lemma ordered_unless_nan : forall a b,
  compare a b <> Err -> is_nan_num a = false -> is_nan_num b = false ->
  exists c, spec_order a b = Ok (Some c).
Proof.
  intros a b Hne Na Nb.
  destruct a as [i|u|c|f], b as [j|v|d|g];
    cbn [compare compare_int compare_uint compare_char compare_float is_nan_num spec_order to_float] in *;
    try (exfalso; apply Hne; reflexivity);
    try (eexists; reflexivity).
  - destruct (fcmp_not_nan_some (of_Z i) g (of_Z_not_nan i) Nb) as (c & ->). eexists; reflexivity.
  - destruct (fcmp_not_nan_some (of_Z c) g (of_Z_not_nan c) Nb) as (c' & ->). eexists; reflexivity.
  - destruct (fcmp_not_nan_some f (of_Z j) Na (of_Z_not_nan j)) as (c & ->). eexists; reflexivity.
  - destruct (fcmp_not_nan_some f (of_Z d) Na (of_Z_not_nan d)) as (c & ->). eexists; reflexivity.
  - destruct (fcmp_not_nan_some f g Na Nb) as (c & ->). eexists; reflexivity.
Qed.

Definition opp_res (r : res (option comparison)) : res (option comparison) :=
  match r with Ok (Some c) => Ok (Some (CompOpp c)) | r => r end.

Lemma fcmp_swap : forall x y,
  fcmp y x = match fcmp x y with Some c => Some (CompOpp c) | None => None end.
Proof. intros x y. unfold fcmp, b64_compare. apply Bcompare_swap. Qed.

Lemma spec_order_swap : forall a b, spec_order b a = opp_res (spec_order a b).
Proof.
  intros a b.
  destruct a as [i|u|c|f], b as [j|v|d|g]; cbn [spec_order to_float opp_res];
    try reflexivity;
    try (rewrite (Z.compare_antisym); reflexivity);
    try (match goal with |- Ok (fcmp ?y ?x) = _ => rewrite (fcmp_swap x y); destruct (fcmp x y); reflexivity end).
Qed.

Definition swap_op (op : cmpop) : cmpop :=
  match op with OpLt => OpGt | OpGt => OpLt | OpLe => OpGe | OpGe => OpLe
              | OpEq => OpEq | OpNe => OpNe end.

Lemma cmp_swap : forall op a b,
  compare_function op a b = compare_function (swap_op op) b a.
Proof.
  intros op a b. rewrite !cmp_matches_spec. unfold spec_cmp.
  rewrite (spec_order_swap a b).
  destruct (spec_order a b) as [[c|]|]; cbn [opp_res]; [|destruct op; reflexivity|reflexivity].
  destruct op, c; reflexivity.
Qed.

Lemma lt_gt_swap : forall a b, compare_function OpLt a b = compare_function OpGt b a.
Proof. intros a b. apply (cmp_swap OpLt). Qed.

Lemma le_ge_swap : forall a b, compare_function OpLe a b = compare_function OpGe b a.
Proof. intros a b. apply (cmp_swap OpLe). Qed.

Lemma eq_sym_cmp : forall a b, compare_function OpEq a b = compare_function OpEq b a.
Proof. intros a b. apply (cmp_swap OpEq). Qed.

Lemma ne_sym_cmp : forall a b, compare_function OpNe a b = compare_function OpNe b a.
Proof. intros a b. apply (cmp_swap OpNe). Qed.

(* <= is "< or =", and != is the negation of =, whenever the pair is comparable *)
Lemma le_is_lt_or_eq : forall a b l e,
  compare_function OpLt a b = Ok l -> compare_function OpEq a b = Ok e ->
  compare_function OpLe a b = Ok (l || e).
Proof.
  intros a b l e. rewrite !cmp_matches_spec. unfold spec_cmp.
  destruct (spec_order a b) as [[c|]|]; try discriminate.
  - destruct c; intros Hl He; inversion Hl; inversion He; reflexivity.
  - intros Hl He; inversion Hl; inversion He; reflexivity.
Qed.

Lemma ne_is_not_eq : forall a b e,
  compare_function OpEq a b = Ok e -> compare_function OpNe a b = Ok (negb e).
Proof.
  intros a b e. rewrite !cmp_matches_spec. unfold spec_cmp.
  destruct (spec_order a b) as [[c|]|]; try discriminate.
  - destruct c; intros He; inversion He; reflexivity.
  - intros He; inversion He; reflexivity.
Qed.

(* ------------------------------------------------------------------ *)
(* non-vacuity: concrete evaluations of the model                       *)

Definition qnan : f64 := b64_of_bits 9221120237041090560.   (* 0x7FF8000000000000 *)
Definition fmax : f64 := b64_of_bits 9218868437227405311.   (* +MaxFloat64 *)
Definition fmin : f64 := b64_of_bits 18442240474082181119.  (* -MaxFloat64 *)
Definition pinf : f64 := b64_of_bits 9218868437227405312.   (* +Inf *)

Lemma ex_qnan_is_nan : is_nanb qnan = true.
Proof. vm_compute; reflexivity. Qed.

Lemma ex_int_min_lt_one :
  compare_function OpLt (NInt (-9223372036854775808)) (NInt 1) = Ok true.
Proof. vm_compute; reflexivity. Qed.

Lemma ex_float_lt : compare_function OpLt (NFloat (of_Z 1)) (NFloat (of_Z 2)) = Ok true.
Proof. vm_compute; reflexivity. Qed.

Lemma ex_int_gt_float :
  compare_function OpGt (NInt 3) (NFloat (fdiv (of_Z 5) (of_Z 2))) = Ok true.
Proof. vm_compute; reflexivity. Qed.

(* int vs float goes through float64(int): 2^53 + 1 rounds to 2^53, so they compare equal *)
Lemma ex_int_float_rounding :
  compare_function OpEq (NFloat (of_Z 9007199254740992)) (NInt 9007199254740993) = Ok true /\
  compare_function OpLt (NFloat (of_Z 9007199254740992)) (NInt 9007199254740993) = Ok false.
Proof. vm_compute; split; reflexivity. Qed.

(* the rounded difference overflows to +Inf, the sign is still the right answer *)
Lemma ex_sub_overflow :
  bits_of_b64 (fsub fmax fmin) = 9218868437227405312 /\
  compare_function OpGt (NFloat fmax) (NFloat fmin) = Ok true.
Proof. vm_compute; split; reflexivity. Qed.

(* Inf - Inf is NaN, signum of NaN is 0, and Inf = Inf *)
Lemma ex_inf_eq_inf :
  is_nanb (fsub pinf pinf) = true /\
  compare_function OpEq (NFloat pinf) (NFloat pinf) = Ok true.
Proof. vm_compute; split; reflexivity. Qed.

Lemma ex_nan_ne_nan :
  compare_function OpNe (NFloat qnan) (NFloat qnan) = Ok true /\
  compare_function OpEq (NFloat qnan) (NFloat qnan) = Ok false /\
  compare_function OpLe (NInt 0) (NFloat qnan) = Ok false /\
  compare_function OpGe (NFloat qnan) (NChar 65) = Ok false.
Proof. vm_compute; repeat split; reflexivity. Qed.

Lemma ex_uint_mixed_err :
  compare_function OpEq (NInt 1) (NUint 1) = Err /\
  compare_function OpNe (NFloat qnan) (NUint 0) = Err.
Proof. vm_compute; split; reflexivity. Qed.

Lemma ex_add_wraps :
  numeric_do OpAdd (NInt 9223372036854775807) (NInt 1) = Ok (NInt (-9223372036854775808)).
Proof. vm_compute; reflexivity. Qed.

Lemma ex_mul_wraps :
  numeric_do OpMul (NInt 4294967296) (NInt 4294967296) = Ok (NInt 0).
Proof. vm_compute; reflexivity. Qed.

Lemma ex_usub_wraps :
  numeric_do OpSub (NUint 0) (NUint 1) = Ok (NUint 18446744073709551615).
Proof. vm_compute; reflexivity. Qed.

(* MinInt64 / -1 : exact quotient 2^63 wraps back to MinInt64 (Go does not panic here) *)
Lemma ex_div_min_by_minus_one :
  numeric_do OpDiv (NInt (-9223372036854775808)) (NInt (-1)) = Ok (NInt (-9223372036854775808)).
Proof. vm_compute; reflexivity. Qed.

Lemma ex_div_inexact_is_float :
  match numeric_do OpDiv (NInt 7) (NInt 2) with
  | Ok (NFloat g) => bits_of_b64 g = 4615063718147915776   (* 3.5 *)
  | _ => False end.
Proof. vm_compute; reflexivity. Qed.

Lemma ex_div_zero : numeric_do OpDiv (NInt 7) (NInt 0) = Err.
Proof. vm_compute; reflexivity. Qed.

(* ---- modulo ---- *)
Lemma mod_zero_is_error : forall a z, (z = NInt 0 \/ z = NUint 0 \/ z = NChar 0) -> mod_do a z = Err.
Proof.
  intros a z [H|[H|H]]; subst z; destruct a; reflexivity.
Qed.

Lemma mod_int_spec : forall x y, y <> 0 ->
  mod_do (NInt x) (NInt y) = Ok (NInt (x - y * Z.quot x y)).
Proof.
  intros x y Hy. unfold mod_do, imod.
  destruct (Z.eqb_spec y 0) as [E|_]; [contradiction|].
  f_equal. f_equal. pose proof (Z.quot_rem' x y) as H. lia.
Qed.

Lemma mod_uint_spec : forall x y, 0 <= x -> 0 < y ->
  mod_do (NUint x) (NUint y) = Ok (NUint (x - y * (x / y))).
Proof.
  intros x y Hx Hy. unfold mod_do, umod.
  destruct (Z.eqb_spec y 0) as [E|_]; [lia|].
  f_equal. f_equal. rewrite Z.rem_mod_nonneg by lia. pose proof (Z.div_mod x y) as H. lia.
Qed.

Lemma mod_float_is_error : forall a b f, (a = NFloat f \/ b = NFloat f) -> mod_do a b = Err.
Proof.
  intros a b f [H|H]; subst; [reflexivity|destruct a; reflexivity].
Qed.

Lemma mod_err_iff : forall a b, mod_do a b = Err <->
  (exists f, a = NFloat f) \/ (exists f, b = NFloat f) \/
  (match a, b with
   | NUint _, NInt j | NUint _, NChar j => wrapu64 j = 0
   | _, NInt j | _, NChar j | _, NUint j => j = 0
   | _, _ => False end).
Proof.
  intros a b; split.
  - destruct a as [i|u|c|f]; destruct b as [j|v|d|g]; cbn [mod_do]; unfold imod, umod; intro H;
      try (left; eexists; reflexivity);
      try (right; left; eexists; reflexivity);
      right; right;
      match goal with
      | H : (if ?c then _ else _) = _ |- _ => destruct c eqn:E; [apply Z.eqb_eq in E; exact E|discriminate]
      end.
  - intros [[f ->]|[[f ->]|H]].
    + reflexivity.
    + destruct a; reflexivity.
    + destruct a as [i|u|c|f]; destruct b as [j|v|d|g]; cbn [mod_do]; unfold imod, umod;
        try contradiction; try reflexivity; rewrite H; reflexivity.
Qed.

(* ---- n-ary folds (NumericFunction) ---- *)
From Coq Require Import List.
Import ListNotations.
Lemma wrap64_add_l : forall x y, wrap64 (wrap64 x + y) = wrap64 (x + y).
Proof.
  intros x y. unfold wrap64. pose proof two64_pos as Hp.
  f_equal.
  replace ((x + two63) mod two64 - two63 + y + two63) with ((x + two63) mod two64 + y) by ring.
  replace (x + y + two63) with ((x + two63) + y) by ring.
  rewrite Z.add_mod_idemp_l by lia. reflexivity.
Qed.

Lemma fold_err_stays : forall op l,
  fold_left (fun acc x => match acc with Ok v => numeric_do op v x | Err => Err end) l (@Err num) = Err.
Proof. intros op l; induction l as [|x l IH]; cbn [fold_left]; auto. Qed.

Lemma add_fold_ints_from : forall l a,
  fold_left (fun acc x => match acc with Ok v => numeric_do OpAdd v x | Err => Err end)
            (map NInt l) (Ok (NInt (wrap64 a)))
  = Ok (NInt (wrap64 (a + fold_right Z.add 0 l))).
Proof.
  induction l as [|x l IH]; intro a; cbn [map fold_left fold_right].
  - rewrite Z.add_0_r. reflexivity.
  - cbn [numeric_do int_do]. rewrite wrap64_add_l. rewrite IH. f_equal. f_equal. f_equal. ring.
Qed.

(* (+ a1 a2 ... an) on ints is the sum reduced to int64, whatever the number of operands *)
Lemma add_fold_wraps : forall a l, in_i64 a = true ->
  numeric_fold OpAdd (map NInt (a :: l)) = Ok (NInt (wrap64 (a + fold_right Z.add 0 l))).
Proof.
  intros a l Ha. unfold numeric_fold. cbn [map].
  rewrite <- (wrap64_id a Ha) at 1. apply add_fold_ints_from.
Qed.

Lemma fold_single : forall op a, numeric_fold op [a] = Ok a.
Proof. reflexivity. Qed.

Lemma fold_two : forall op a b, numeric_fold op [a; b] = numeric_do op a b.
Proof. reflexivity. Qed.
