(* Blanks around an operator do not change the tokens (used by C06: an infix block means what the
   precedence table says, however it is spaced).  Over Model/Lexer.v, for complete texts. *)
From Coq Require Import ZArith List Bool Lia.
From ZV Require Import Model.Regex Generated.LexTables Model.Lexer Proofs.LexerProofs Proofs.SugarTokens.
Import ListNotations.
Open Scope Z_scope.

Ltac ds s := destruct s as [st pr tk bf pt ppt pb ln pi rg].

(* ---- the ring after lexing a text that ends in r ---- *)
Lemma lex_all_ring_wf : forall p s, ring_wf s -> ring_wf (lres_state (lex_all s p)).
Proof.
  induction p as [|r p IH]; intros s W; simpl; [exact W|].
  pose proof (lex_rune_ring s r) as G.
  destruct (lex_rune s r) as [a|a]; simpl in *.
  - apply IH. eapply ring_wf_ringof; [symmetry; exact G|apply ring_push_wf; exact W].
  - eapply ring_wf_ringof; [symmetry; exact G|apply ring_push_wf; exact W].
Qed.

Lemma last_pushed : forall p r s u, ring_wf s -> lex_all s (p ++ [r]) = LOk u ->
  forall r2, twoback (ring_push r2 u) = r.
Proof.
  intros p r s u W H r2. rewrite lex_all_app in H.
  destruct (lex_all s p) as [u0|u0] eqn:E; [|discriminate].
  pose proof (lex_all_ring_wf p s W) as W0. rewrite E in W0. simpl in W0.
  simpl in H. pose proof (lex_rune_ring u0 r) as G. destruct (lex_rune u0 r) as [u1|u1]; [|discriminate].
  inversion H; subst u1. simpl in G.
  rewrite (twoback_ringof _ _ (ringof_push r2 _ _ G)). apply twoback_push_push. exact W0.
Qed.

(* ---- two ways to lex a piece in the middle of a text that lead to related states give the same tokens ---- *)
Definition Junction (x1 x2 : lres) : Prop :=
  match x1, x2 with
  | LOk u, LOk u' => R u u'
  | LErr u, LErr u' => l_tokens u = l_tokens u'
  | _, _ => False
  end.

Lemma frame : forall a p1 p2 r rest s,
  lex_all init_lstate a = LOk s ->
  Junction (lex_all s (p1 ++ [r])) (lex_all s (p2 ++ [r])) ->
  lex_text (a ++ (p1 ++ [r]) ++ rest) = lex_text (a ++ (p2 ++ [r]) ++ rest).
Proof.
  intros a p1 p2 r rest s Ha HJ. unfold lex_text.
  rewrite !(lex_all_app a), Ha. rewrite (lex_all_app (p1 ++ [r]) rest), (lex_all_app (p2 ++ [r]) rest).
  pose proof (lex_all_ring_wf a init_lstate ring_wf_init) as W. rewrite Ha in W. simpl in W.
  destruct (lex_all s (p1 ++ [r])) as [u|u] eqn:E1; destruct (lex_all s (p2 ++ [r])) as [u'|u'] eqn:E2; simpl in HJ; try contradiction.
  - assert (same_out (lex_all u rest) (lex_all u' rest)) as [S1 S2].
    { apply lex_all_R; [exact HJ| | |].
      - pose proof (lex_all_ring_wf (p1 ++ [r]) s W) as X. rewrite E1 in X. exact X.
      - pose proof (lex_all_ring_wf (p2 ++ [r]) s W) as X. rewrite E2 in X. exact X.
      - intros r2. unfold T. rewrite (last_pushed _ _ _ _ W E1 r2), (last_pushed _ _ _ _ W E2 r2). reflexivity. }
    cbv iota. rewrite S1, S2. reflexivity.
  - cbv iota. simpl. rewrite HJ. reflexivity.
Qed.

Local Opaque re_match decode_atom sci_prefix_ok.
Local Arguments Nat.modulo : simpl never.
Local Arguments nth : simpl never.

(* operators that open the operator mode whatever precedes them *)
Definition G : list Z := [42; 60; 62; 61; 33; 38; 124].

Lemma lex_normal_R : forall u u' r, l_state u = LNormal -> R u u' -> T u u' ->
  Rres (lex_normal u r) (lex_normal u' r).
Proof.
  intros u u' r Hs HR HT. pose proof (lex_body_R u u' r HR HT) as H.
  unfold lex_body in H. destruct HR as (E1 & _). rewrite <- E1, Hs in H. exact H.
Qed.

Lemma Rres_junction : forall x y, Rres x y -> Junction x y.
Proof. intros [a|a] [b|b] H; simpl in *; try contradiction; [exact H|apply H]. Qed.

Local Transparent re_match.
Lemma g_space_no_merge : forall c, In c G -> re_match re_BuiltinOpRegex [c; 32] = false.
Proof. intros c H. simpl in H. repeat (destruct H as [<-|H]; [vm_compute; reflexivity|]). contradiction. Qed.
Lemma g_cls : forall c, In c G -> cls c = cls 32.
Proof. intros c H. simpl in H. repeat (destruct H as [<-|H]; [vm_compute; reflexivity|]). contradiction. Qed.
Local Opaque re_match.

(* ---- single lexing steps as equations ---- *)
Lemma dump_push : forall c s, dump_buffer (ring_push c s) =
  match dump_buffer s with Some x => Some (ring_push c x) | None => None end.
Proof. intros c s; ds s. unfold dump_buffer; simpl. destruct bf; [reflexivity|]. destruct (decode_atom _); reflexivity. Qed.

Lemma dump_empty : forall s, l_buffer s = [] -> dump_buffer s = Some s.
Proof. intros s H. unfold dump_buffer. rewrite H. reflexivity. Qed.

Lemma dump_result : forall s x, dump_buffer s = Some x ->
  l_buffer x = [] /\ l_state x = l_state s /\ l_prevrune x = l_prevrune s /\ ringof x = ringof s.
Proof.
  intros s x H; ds s. unfold dump_buffer in H; simpl in H. destruct bf; [inversion H; subst; repeat split|].
  destruct (decode_atom _); inversion H; subst; repeat split.
Qed.

Definition open_op (c : Z) (s1 : lstate) : lstate :=
  set_prevrune c (set_prebuiltin (twoback s1) (set_state LBuiltinOperator s1)).

Lemma step_space : forall s, l_state s = LNormal ->
  lex_rune s 32 = match dump_buffer s with Some x => LOk (ring_push 32 x) | None => LErr (ring_push 32 s) end.
Proof.
  intros s H. rewrite lex_rune_body. unfold lex_body. replace (l_state (ring_push 32 s)) with LNormal by (ds s; simpl in *; congruence).
  unfold lex_normal; simpl. unfold with_dump. rewrite dump_push. destruct (dump_buffer s); reflexivity.
Qed.

Lemma step_open : forall s c, l_state s = LNormal -> In c G ->
  lex_rune s c = match dump_buffer s with Some x => LOk (open_op c (ring_push c x)) | None => LErr (ring_push c s) end.
Proof.
  intros s c H Hin. rewrite lex_rune_body. unfold lex_body. replace (l_state (ring_push c s)) with LNormal by (ds s; simpl in *; congruence).
  simpl in Hin. repeat (destruct Hin as [<-|Hin]; [unfold lex_normal; simpl; unfold with_dump; rewrite dump_push; destruct (dump_buffer s); reflexivity|]).
  contradiction.
Qed.

Lemma step_builtin_plain : forall s x, l_state s = LBuiltinOperator -> l_prevrune s <> 45 ->
  re_match re_BuiltinOpRegex [l_prevrune s; x] = false ->
  lex_rune s x = lex_normal (append_token (mkTok TSymbol [l_prevrune s]) (set_state LNormal (ring_push x s))) x.
Proof.
  intros s x H Hp Hm. rewrite lex_rune_body. unfold lex_body. replace (l_state (ring_push x s)) with LBuiltinOperator by (ds s; simpl in *; congruence).
  unfold lex_builtin.
  replace (l_prevrune (set_state LNormal (ring_push x s))) with (l_prevrune s) by (ds s; reflexivity).
  assert (l_prevrune s =? 45 = false) as -> by (apply Z.eqb_neq; exact Hp). cbn [andb]. rewrite Hm. reflexivity.
Qed.

(* one-rune operator c followed by a rune r it does not merge with *)
Lemma junction_single : forall s c r,
  l_state s = LNormal -> ring_wf s -> In c G -> re_match re_BuiltinOpRegex [c; r] = false ->
  Junction (lex_all s ([c] ++ [r])) (lex_all s ([32; c; 32] ++ [r])).
Proof.
  intros s c r Hst W Hin Hnm. pose proof (g_space_no_merge c Hin) as Hsp. pose proof (g_cls c Hin) as Hcl.
  assert (c <> 45) as H45 by (simpl in Hin; intros ->; repeat (destruct Hin as [Hin|Hin]; [discriminate|]); contradiction).
  simpl app. simpl lex_all.
  rewrite (step_open s c Hst Hin), (step_space s Hst).
  destruct (dump_buffer s) as [x|] eqn:D; [|simpl; ds s; reflexivity].
  destruct (dump_result _ _ D) as (Bx & Sx & Px & Rx).
  assert (ring_wf x) as Wx by (eapply ring_wf_ringof; [symmetry; exact Rx|exact W]).
  (* unspaced *)
  set (B1 := open_op c (ring_push c x)).
  assert (lex_rune B1 r = lex_normal (append_token (mkTok TSymbol [c]) (set_state LNormal (ring_push r B1))) r) as E1.
  { rewrite (step_builtin_plain B1 r); [unfold B1; ds x; reflexivity|unfold B1; ds x; reflexivity|unfold B1; ds x; simpl; exact H45|unfold B1; ds x; simpl; exact Hnm]. }
  rewrite E1. clear E1.
  (* spaced *)
  set (x1 := ring_push 32 x).
  assert (lex_rune x1 c = LOk (open_op c (ring_push c x1))) as E2.
  { rewrite (step_open x1 c); [|unfold x1; ds x; simpl in *; congruence|exact Hin].
    rewrite dump_empty; [reflexivity|unfold x1; ds x; exact Bx]. }
  rewrite E2. clear E2. set (B1' := open_op c (ring_push c x1)).
  assert (lex_rune B1' 32 = LOk (append_token (mkTok TSymbol [c]) (set_state LNormal (ring_push 32 B1')))) as E3.
  { rewrite (step_builtin_plain B1' 32); [|unfold B1'; ds x; reflexivity|unfold B1'; ds x; simpl; exact H45|unfold B1'; ds x; simpl; exact Hsp].
    replace (l_prevrune B1') with c by (unfold B1'; ds x; reflexivity).
    unfold lex_normal; simpl. unfold with_dump. rewrite dump_empty; [reflexivity|unfold B1', x1; ds x; exact Bx]. }
  rewrite E3. clear E3. set (s3 := append_token (mkTok TSymbol [c]) (set_state LNormal (ring_push 32 B1'))).
  assert (lex_rune s3 r = lex_normal (ring_push r s3) r) as E4.
  { rewrite lex_rune_body. unfold lex_body. replace (l_state (ring_push r s3)) with LNormal by (unfold s3; ds x; reflexivity). reflexivity. }
  rewrite E4. clear E4.
  (* the last step: the same lex_normal on related states *)
  match goal with |- Junction (match ?a with _ => _ end) (match ?b with _ => _ end) =>
    assert (Rres a b) as HR end.
  { apply lex_normal_R.
    - unfold B1; ds x; reflexivity.
    - unfold s3, B1', B1, x1, R; ds x; simpl in *; subst. repeat split; intros; discriminate.
    - unfold T.
      assert (twoback (append_token (mkTok TSymbol [c]) (set_state LNormal (ring_push r B1))) = c) as ->.
      { transitivity (twoback (ring_push r (ring_push c x))); [unfold B1; ds x; reflexivity|apply twoback_push_push; exact Wx]. }
      assert (twoback (ring_push r s3) = 32) as ->.
      { transitivity (twoback (ring_push r (ring_push 32 (ring_push c (ring_push 32 x))))); [unfold s3, B1', x1; ds x; reflexivity|].
        apply twoback_push_push. apply ring_push_wf. apply ring_push_wf. exact Wx. }
      exact Hcl. }
  destruct (lex_normal _ r) as [u|u]; destruct (lex_normal _ r) as [u'|u']; simpl in *; try contradiction; [exact HR|apply HR].
Qed.

Theorem op_spacing_single : forall a b c s,
  lex_all init_lstate a = LOk s -> l_state s = LNormal -> In c G ->
  re_match re_BuiltinOpRegex [c; hd 10 (b ++ [10])] = false ->
  lex_text (a ++ [c] ++ b ++ [10]) = lex_text (a ++ [32; c; 32] ++ b ++ [10]).
Proof.
  intros a b c s Ha Hst Hin Hnm.
  destruct (b ++ [10]) as [|r rest] eqn:E; [destruct b; discriminate|]. simpl in Hnm.
  pose proof (lex_all_ring_wf a init_lstate ring_wf_init) as W. rewrite Ha in W. simpl in W.
  change (a ++ [c] ++ r :: rest) with (a ++ ([c] ++ [r]) ++ rest).
  change (a ++ [32; c; 32] ++ r :: rest) with (a ++ ([32; c; 32] ++ [r]) ++ rest).
  eapply frame; [exact Ha|]. apply junction_single; assumption.
Qed.

(* ---- two-rune operators whose first rune is in G ---- *)
Definition G2 : list (Z * Z) :=
  [(61, 61); (60, 61); (62, 61); (60, 45); (42, 61); (42, 42); (33, 61); (60, 33); (38, 38); (124, 124)].

Definition op2_name (c c2 : Z) : list Z :=
  if list_eqb [c; c2] [38; 38] then [97; 110; 100] else if list_eqb [c; c2] [124; 124] then [111; 114] else [c; c2].

Local Transparent re_match.
Lemma g2_facts : forall c c2, In (c, c2) G2 ->
  In c G /\ re_match re_BuiltinOpRegex [c; c2] = true /\ cls c2 = cls 32.
Proof.
  intros c c2 H. simpl in H.
  repeat (destruct H as [H|H]; [inversion H; subst; split; [simpl; tauto|split; vm_compute; reflexivity]|]). contradiction.
Qed.
Local Opaque re_match.

Lemma step_builtin_op2 : forall s x, l_state s = LBuiltinOperator -> l_prevrune s <> 45 ->
  re_match re_BuiltinOpRegex [l_prevrune s; x] = true ->
  lex_rune s x = LOk (append_token (mkTok TSymbol (op2_name (l_prevrune s) x)) (set_state LNormal (ring_push x s))).
Proof.
  intros s x H Hp Hm. rewrite lex_rune_body. unfold lex_body. replace (l_state (ring_push x s)) with LBuiltinOperator by (ds s; simpl in *; congruence).
  unfold lex_builtin.
  replace (l_prevrune (set_state LNormal (ring_push x s))) with (l_prevrune s) by (ds s; reflexivity).
  assert (l_prevrune s =? 45 = false) as -> by (apply Z.eqb_neq; exact Hp). cbn [andb]. rewrite Hm. reflexivity.
Qed.

Lemma step_normal : forall s r, l_state s = LNormal -> lex_rune s r = lex_normal (ring_push r s) r.
Proof. intros s r H. rewrite lex_rune_body. unfold lex_body. replace (l_state (ring_push r s)) with LNormal by (ds s; simpl in *; congruence). reflexivity. Qed.

Lemma junction_double : forall s c c2 r,
  l_state s = LNormal -> ring_wf s -> In (c, c2) G2 ->
  Junction (lex_all s ([c; c2] ++ [r])) (lex_all s ([32; c; c2; 32] ++ [r])).
Proof.
  intros s c c2 r Hst W Hin2. destruct (g2_facts c c2 Hin2) as (Hin & Hm & Hcl).
  assert (c <> 45) as H45 by (simpl in Hin; intros ->; repeat (destruct Hin as [Hin|Hin]; [discriminate|]); contradiction).
  simpl app. simpl lex_all.
  rewrite (step_open s c Hst Hin), (step_space s Hst).
  destruct (dump_buffer s) as [x|] eqn:D; [|simpl; ds s; reflexivity].
  destruct (dump_result _ _ D) as (Bx & Sx & Px & Rx).
  assert (ring_wf x) as Wx by (eapply ring_wf_ringof; [symmetry; exact Rx|exact W]).
  set (B1 := open_op c (ring_push c x)).
  rewrite (step_builtin_op2 B1 c2); [|unfold B1; ds x; reflexivity|unfold B1; ds x; simpl; exact H45|unfold B1; ds x; simpl; exact Hm].
  set (W1 := append_token _ (set_state LNormal (ring_push c2 B1))).
  rewrite (step_normal W1 r) by (unfold W1; ds x; reflexivity).
  set (x1 := ring_push 32 x).
  assert (lex_rune x1 c = LOk (open_op c (ring_push c x1))) as E2.
  { rewrite (step_open x1 c); [|unfold x1; ds x; simpl in *; congruence|exact Hin].
    rewrite dump_empty; [reflexivity|unfold x1; ds x; exact Bx]. }
  rewrite E2. clear E2. set (B1' := open_op c (ring_push c x1)).
  rewrite (step_builtin_op2 B1' c2); [|unfold B1'; ds x; reflexivity|unfold B1'; ds x; simpl; exact H45|unfold B1'; ds x; simpl; exact Hm].
  set (W1' := append_token _ (set_state LNormal (ring_push c2 B1'))).
  assert (lex_rune W1' 32 = LOk (ring_push 32 W1')) as E3.
  { rewrite (step_space W1') by (unfold W1'; ds x; reflexivity). rewrite dump_empty; [reflexivity|unfold W1', B1', x1; ds x; exact Bx]. }
  rewrite E3. clear E3.
  rewrite (step_normal (ring_push 32 W1') r) by (unfold W1'; ds x; reflexivity).
  match goal with |- Junction (match ?a with _ => _ end) (match ?b with _ => _ end) =>
    assert (Rres a b) as HR end.
  { apply lex_normal_R.
    - unfold W1; ds x; reflexivity.
    - unfold W1, W1', B1', B1, x1, R; ds x; simpl in *; subst. repeat split; intros; discriminate.
    - unfold T.
      assert (twoback (ring_push r W1) = c2) as ->.
      { transitivity (twoback (ring_push r (ring_push c2 (ring_push c x)))); [unfold W1, B1; ds x; reflexivity|].
        apply twoback_push_push. apply ring_push_wf. exact Wx. }
      assert (twoback (ring_push r (ring_push 32 W1')) = 32) as ->.
      { transitivity (twoback (ring_push r (ring_push 32 (ring_push c2 (ring_push c (ring_push 32 x)))))); [unfold W1', B1', x1; ds x; reflexivity|].
        apply twoback_push_push. repeat apply ring_push_wf. exact Wx. }
      exact Hcl. }
  destruct (lex_normal _ r) as [u|u]; destruct (lex_normal _ r) as [u'|u']; simpl in *; try contradiction; [exact HR|apply HR].
Qed.

Theorem op_spacing_double : forall a b c c2 s,
  lex_all init_lstate a = LOk s -> l_state s = LNormal -> In (c, c2) G2 ->
  lex_text (a ++ [c; c2] ++ b ++ [10]) = lex_text (a ++ [32; c; c2; 32] ++ b ++ [10]).
Proof.
  intros a b c c2 s Ha Hst Hin.
  destruct (b ++ [10]) as [|r rest] eqn:E; [destruct b; discriminate|].
  pose proof (lex_all_ring_wf a init_lstate ring_wf_init) as W. rewrite Ha in W. simpl in W.
  change (a ++ [c; c2] ++ r :: rest) with (a ++ ([c; c2] ++ [r]) ++ rest).
  change (a ++ [32; c; c2; 32] ++ r :: rest) with (a ++ ([32; c; c2; 32] ++ [r]) ++ rest).
  eapply frame; [exact Ha|]. apply junction_double; assumption.
Qed.

(* ---- + and - : the sign rule and the exponent rule are part of the language ---- *)
Local Transparent re_match sci_prefix_ok.
Lemma sign_facts : forall c, c = 43 \/ c = 45 ->
  re_match re_BuiltinOpRegex [c; 32] = false /\ cls c = cls 32 /\
  (re_match re_FloatRegex [45; 32] || re_match re_DecimalRegex [45; 32]) = false /\ sci_prefix_ok [] = false.
Proof. intros c [-> | ->]; repeat split; vm_compute; reflexivity. Qed.
Local Opaque re_match sci_prefix_ok.

Lemma step_open_sign : forall s c, l_state s = LNormal -> c = 43 \/ c = 45 ->
  ((twoback (ring_push c s) =? 101) || (twoback (ring_push c s) =? 69)) && sci_prefix_ok (l_buffer s) = false ->
  lex_rune s c = match dump_buffer s with Some x => LOk (open_op c (ring_push c x)) | None => LErr (ring_push c s) end.
Proof.
  intros s c H Hc Hsci. rewrite lex_rune_body. unfold lex_body. replace (l_state (ring_push c s)) with LNormal by (ds s; simpl in *; congruence).
  destruct Hc as [-> | ->].
  - set (X := ring_push 43 s) in *. unfold lex_normal; simpl. rewrite Hsci. unfold with_dump, X. rewrite dump_push. destruct (dump_buffer s); reflexivity.
  - set (X := ring_push 45 s) in *. unfold lex_normal; simpl. rewrite Hsci. unfold with_dump, X. rewrite dump_push. destruct (dump_buffer s); reflexivity.
Qed.

Lemma step_builtin_plain_gen : forall s x, l_state s = LBuiltinOperator ->
  (l_prevrune s =? 45) && can_start_signed_after (l_prebuiltin s) &&
    (re_match re_FloatRegex [l_prevrune s; x] || re_match re_DecimalRegex [l_prevrune s; x]) = false ->
  re_match re_BuiltinOpRegex [l_prevrune s; x] = false ->
  lex_rune s x = lex_normal (append_token (mkTok TSymbol [l_prevrune s]) (set_state LNormal (ring_push x s))) x.
Proof.
  intros s x H Hc1 Hm. rewrite lex_rune_body. unfold lex_body. replace (l_state (ring_push x s)) with LBuiltinOperator by (ds s; simpl in *; congruence).
  unfold lex_builtin.
  replace (l_prevrune (set_state LNormal (ring_push x s))) with (l_prevrune s) by (ds s; reflexivity).
  replace (l_prebuiltin (set_state LNormal (ring_push x s))) with (l_prebuiltin s) by (ds s; reflexivity).
  rewrite Hc1, Hm. reflexivity.
Qed.

Lemma junction_sign : forall s c r,
  l_state s = LNormal -> ring_wf s -> c = 43 \/ c = 45 ->
  (* the exponent rule: not right after the e of a number *)
  ((twoback (ring_push c s) =? 101) || (twoback (ring_push c s) =? 69)) && sci_prefix_ok (l_buffer s) = false ->
  (* the sign rule: the minus does not start a negative literal *)
  (c =? 45) && can_start_signed_after (twoback (ring_push c s)) &&
    (re_match re_FloatRegex [c; r] || re_match re_DecimalRegex [c; r]) = false ->
  re_match re_BuiltinOpRegex [c; r] = false ->
  Junction (lex_all s ([c] ++ [r])) (lex_all s ([32; c; 32] ++ [r])).
Proof.
  intros s c r Hst W Hc Hsci Hsign Hnm. destruct (sign_facts c Hc) as (Hsp & Hcl & Hnum & Hsci0).
  simpl app. simpl lex_all.
  rewrite (step_open_sign s c Hst Hc Hsci), (step_space s Hst).
  destruct (dump_buffer s) as [x|] eqn:D; [|simpl; ds s; reflexivity].
  destruct (dump_result _ _ D) as (Bx & Sx & Px & Rx).
  assert (ring_wf x) as Wx by (eapply ring_wf_ringof; [symmetry; exact Rx|exact W]).
  set (B1 := open_op c (ring_push c x)).
  assert (lex_rune B1 r = lex_normal (append_token (mkTok TSymbol [c]) (set_state LNormal (ring_push r B1))) r) as E1.
  { rewrite (step_builtin_plain_gen B1 r); [unfold B1; ds x; reflexivity|unfold B1; ds x; reflexivity| |unfold B1; ds x; simpl; exact Hnm].
    replace (l_prevrune B1) with c by (unfold B1; ds x; reflexivity).
    replace (l_prebuiltin B1) with (twoback (ring_push c s)); [exact Hsign|].
    unfold B1. transitivity (twoback (ring_push c x)); [apply twoback_ringof; apply ringof_push; symmetry; exact Rx|ds x; reflexivity]. }
  rewrite E1. clear E1.
  set (x1 := ring_push 32 x).
  assert (lex_rune x1 c = LOk (open_op c (ring_push c x1))) as E2.
  { rewrite (step_open_sign x1 c); [|unfold x1; ds x; simpl in *; congruence|exact Hc|].
    - rewrite dump_empty; [reflexivity|unfold x1; ds x; exact Bx].
    - replace (l_buffer x1) with (@nil Z) by (unfold x1; ds x; simpl in *; congruence). rewrite Hsci0. apply andb_false_r. }
  rewrite E2. clear E2. set (B1' := open_op c (ring_push c x1)).
  assert (lex_rune B1' 32 = LOk (append_token (mkTok TSymbol [c]) (set_state LNormal (ring_push 32 B1')))) as E3.
  { rewrite (step_builtin_plain_gen B1' 32); [|unfold B1'; ds x; reflexivity| |unfold B1'; ds x; simpl; exact Hsp].
    - replace (l_prevrune B1') with c by (unfold B1'; ds x; reflexivity).
      unfold lex_normal; simpl. unfold with_dump. rewrite dump_empty; [reflexivity|unfold B1', x1; ds x; exact Bx].
    - replace (l_prevrune B1') with c by (unfold B1'; ds x; reflexivity).
      destruct Hc as [-> | ->]; [reflexivity|]. rewrite Hnum. apply andb_false_r. }
  rewrite E3. clear E3. set (s3 := append_token (mkTok TSymbol [c]) (set_state LNormal (ring_push 32 B1'))).
  rewrite (step_normal s3 r) by (unfold s3; ds x; reflexivity).
  match goal with |- Junction (match ?a with _ => _ end) (match ?b with _ => _ end) =>
    assert (Rres a b) as HR end.
  { apply lex_normal_R.
    - unfold B1; ds x; reflexivity.
    - unfold s3, B1', B1, x1, R; ds x; simpl in *; subst. repeat split; intros; discriminate.
    - unfold T.
      assert (twoback (append_token (mkTok TSymbol [c]) (set_state LNormal (ring_push r B1))) = c) as ->.
      { transitivity (twoback (ring_push r (ring_push c x))); [unfold B1; ds x; reflexivity|apply twoback_push_push; exact Wx]. }
      assert (twoback (ring_push r s3) = 32) as ->.
      { transitivity (twoback (ring_push r (ring_push 32 (ring_push c (ring_push 32 x))))); [unfold s3, B1', x1; ds x; reflexivity|].
        apply twoback_push_push. repeat apply ring_push_wf. exact Wx. }
      exact Hcl. }
  destruct (lex_normal _ r) as [u|u]; destruct (lex_normal _ r) as [u'|u']; simpl in *; try contradiction; [exact HR|apply HR].
Qed.

Theorem op_spacing_sign_single : forall a b c s,
  lex_all init_lstate a = LOk s -> l_state s = LNormal -> c = 43 \/ c = 45 ->
  ((twoback (ring_push c s) =? 101) || (twoback (ring_push c s) =? 69)) && sci_prefix_ok (l_buffer s) = false ->
  (c =? 45) && can_start_signed_after (twoback (ring_push c s)) &&
    (re_match re_FloatRegex [c; hd 10 (b ++ [10])] || re_match re_DecimalRegex [c; hd 10 (b ++ [10])]) = false ->
  re_match re_BuiltinOpRegex [c; hd 10 (b ++ [10])] = false ->
  lex_text (a ++ [c] ++ b ++ [10]) = lex_text (a ++ [32; c; 32] ++ b ++ [10]).
Proof.
  intros a b c s Ha Hst Hc Hsci Hsign Hnm.
  destruct (b ++ [10]) as [|r rest] eqn:E; [destruct b; discriminate|]. simpl in Hsign, Hnm.
  pose proof (lex_all_ring_wf a init_lstate ring_wf_init) as W. rewrite Ha in W. simpl in W.
  change (a ++ [c] ++ r :: rest) with (a ++ ([c] ++ [r]) ++ rest).
  change (a ++ [32; c; 32] ++ r :: rest) with (a ++ ([32; c; 32] ++ [r]) ++ rest).
  eapply frame; [exact Ha|]. apply junction_sign; assumption.
Qed.

(* two-rune operators that begin with + or -: only the exponent rule matters *)
Definition G2s : list (Z * Z) := [(43, 43); (45, 45); (43, 61); (45, 61); (45, 62)].

Local Transparent re_match.
Lemma g2s_facts : forall c c2, In (c, c2) G2s ->
  (c = 43 \/ c = 45) /\ re_match re_BuiltinOpRegex [c; c2] = true /\ cls c2 = cls 32 /\
  (re_match re_FloatRegex [c; c2] || re_match re_DecimalRegex [c; c2]) = false.
Proof.
  intros c c2 H. simpl in H.
  repeat (destruct H as [H|H]; [inversion H; subst; split; [tauto|repeat split; vm_compute; reflexivity]|]). contradiction.
Qed.
Local Opaque re_match.

Lemma step_builtin_op2_gen : forall s x, l_state s = LBuiltinOperator ->
  (re_match re_FloatRegex [l_prevrune s; x] || re_match re_DecimalRegex [l_prevrune s; x]) = false ->
  re_match re_BuiltinOpRegex [l_prevrune s; x] = true ->
  lex_rune s x = LOk (append_token (mkTok TSymbol (op2_name (l_prevrune s) x)) (set_state LNormal (ring_push x s))).
Proof.
  intros s x H Hn Hm. rewrite lex_rune_body. unfold lex_body. replace (l_state (ring_push x s)) with LBuiltinOperator by (ds s; simpl in *; congruence).
  unfold lex_builtin.
  replace (l_prevrune (set_state LNormal (ring_push x s))) with (l_prevrune s) by (ds s; reflexivity).
  rewrite Hn, andb_false_r, Hm. reflexivity.
Qed.

Lemma junction_sign_double : forall s c c2 r,
  l_state s = LNormal -> ring_wf s -> In (c, c2) G2s ->
  ((twoback (ring_push c s) =? 101) || (twoback (ring_push c s) =? 69)) && sci_prefix_ok (l_buffer s) = false ->
  Junction (lex_all s ([c; c2] ++ [r])) (lex_all s ([32; c; c2; 32] ++ [r])).
Proof.
  intros s c c2 r Hst W Hin2 Hsci. destruct (g2s_facts c c2 Hin2) as (Hc & Hm & Hcl & Hn).
  destruct (sign_facts c Hc) as (_ & _ & _ & Hsci0).
  simpl app. simpl lex_all.
  rewrite (step_open_sign s c Hst Hc Hsci), (step_space s Hst).
  destruct (dump_buffer s) as [x|] eqn:D; [|simpl; ds s; reflexivity].
  destruct (dump_result _ _ D) as (Bx & Sx & Px & Rx).
  assert (ring_wf x) as Wx by (eapply ring_wf_ringof; [symmetry; exact Rx|exact W]).
  set (B1 := open_op c (ring_push c x)).
  rewrite (step_builtin_op2_gen B1 c2); [|unfold B1; ds x; reflexivity|unfold B1; ds x; simpl; exact Hn|unfold B1; ds x; simpl; exact Hm].
  set (W1 := append_token _ (set_state LNormal (ring_push c2 B1))).
  rewrite (step_normal W1 r) by (unfold W1; ds x; reflexivity).
  set (x1 := ring_push 32 x).
  assert (lex_rune x1 c = LOk (open_op c (ring_push c x1))) as E2.
  { rewrite (step_open_sign x1 c); [|unfold x1; ds x; simpl in *; congruence|exact Hc|].
    - rewrite dump_empty; [reflexivity|unfold x1; ds x; exact Bx].
    - replace (l_buffer x1) with (@nil Z) by (unfold x1; ds x; simpl in *; congruence). rewrite Hsci0. apply andb_false_r. }
  rewrite E2. clear E2. set (B1' := open_op c (ring_push c x1)).
  rewrite (step_builtin_op2_gen B1' c2); [|unfold B1'; ds x; reflexivity|unfold B1'; ds x; simpl; exact Hn|unfold B1'; ds x; simpl; exact Hm].
  set (W1' := append_token _ (set_state LNormal (ring_push c2 B1'))).
  assert (lex_rune W1' 32 = LOk (ring_push 32 W1')) as E3.
  { rewrite (step_space W1') by (unfold W1'; ds x; reflexivity). rewrite dump_empty; [reflexivity|unfold W1', B1', x1; ds x; exact Bx]. }
  rewrite E3. clear E3.
  rewrite (step_normal (ring_push 32 W1') r) by (unfold W1'; ds x; reflexivity).
  match goal with |- Junction (match ?a with _ => _ end) (match ?b with _ => _ end) =>
    assert (Rres a b) as HR end.
  { apply lex_normal_R.
    - unfold W1; ds x; reflexivity.
    - unfold W1, W1', B1', B1, x1, R; ds x; simpl in *; subst. repeat split; intros; discriminate.
    - unfold T.
      assert (twoback (ring_push r W1) = c2) as ->.
      { transitivity (twoback (ring_push r (ring_push c2 (ring_push c x)))); [unfold W1, B1; ds x; reflexivity|].
        apply twoback_push_push. apply ring_push_wf. exact Wx. }
      assert (twoback (ring_push r (ring_push 32 W1')) = 32) as ->.
      { transitivity (twoback (ring_push r (ring_push 32 (ring_push c2 (ring_push c (ring_push 32 x)))))); [unfold W1', B1', x1; ds x; reflexivity|].
        apply twoback_push_push. repeat apply ring_push_wf. exact Wx. }
      exact Hcl. }
  destruct (lex_normal _ r) as [u|u]; destruct (lex_normal _ r) as [u'|u']; simpl in *; try contradiction; [exact HR|apply HR].
Qed.

Theorem op_spacing_sign_double : forall a b c c2 s,
  lex_all init_lstate a = LOk s -> l_state s = LNormal -> In (c, c2) G2s ->
  ((twoback (ring_push c s) =? 101) || (twoback (ring_push c s) =? 69)) && sci_prefix_ok (l_buffer s) = false ->
  lex_text (a ++ [c; c2] ++ b ++ [10]) = lex_text (a ++ [32; c; c2; 32] ++ b ++ [10]).
Proof.
  intros a b c c2 s Ha Hst Hin Hsci.
  destruct (b ++ [10]) as [|r rest] eqn:E; [destruct b; discriminate|].
  pose proof (lex_all_ring_wf a init_lstate ring_wf_init) as W. rewrite Ha in W. simpl in W.
  change (a ++ [c; c2] ++ r :: rest) with (a ++ ([c; c2] ++ [r]) ++ rest).
  change (a ++ [32; c; c2; 32] ++ r :: rest) with (a ++ ([32; c; c2; 32] ++ [r]) ++ rest).
  eapply frame; [exact Ha|]. apply junction_sign_double; assumption.
Qed.

(* the operator sets are exactly the two-rune strings BuiltinOpRegex accepts that begin in G / in + - *)
Local Transparent re_match.
Example g2_complete :
  forallb (fun c => forallb (fun c2 =>
     Bool.eqb (re_match re_BuiltinOpRegex [c; c2])
              (existsb (fun p => (fst p =? c) && (snd p =? c2)) (G2 ++ G2s ++ [(47, 61); (58, 61)])))
     [33; 38; 42; 43; 45; 47; 58; 60; 61; 62; 124; 32; 97; 49])
     [33; 38; 42; 43; 45; 47; 58; 60; 61; 62; 124] = true.
Proof. vm_compute. reflexivity. Qed.
Local Opaque re_match.
