(* Proofs about Model/Phases.v (C05: what the read, compile and run phases leave behind). *)
From Coq Require Import ZArith Bool List Lia.
Require Import ZV.Model.Phases.
Import ListNotations.

(* ------------------------------------------------------------------ read phase *)

Lemma parser_reset_init : forall r, parser_reset r = r_init.
Proof. intros [s nx q su]. reflexivity. Qed.

Lemma read_after_any_proof : forall n text r, read_text n text r = read_text n text r_init.
Proof. intros. unfold read_text. rewrite !parser_reset_init. reflexivity. Qed.

Lemma read_is_spec_proof : forall n text r, fst (read_text n text r) = read_spec n text.
Proof. intros. unfold read_spec. rewrite read_after_any_proof. reflexivity. Qed.

(* ------------------------------------------------------------------ induction over forms *)

Section CformInd.
  Variable P : cform -> Prop.
  Hypothesis HLit : forall v, P (CLit v).
  Hypothesis HFalse : P CFalse.
  Hypothesis HVar : forall x, P (CVar x).
  Hypothesis HBad : P CBad.
  Hypothesis HUnspec : P CUnspec.
  Hypothesis HSeq : forall l, Forall P l -> P (CSeq l).
  Hypothesis HDef : forall x e, P e -> P (CDef x e).
  Hypothesis HFailk : forall e, P e -> P (CFailk e).
  Hypothesis HFn : forall l, Forall P l -> P (CFn l).
  Hypothesis HFor : forall lbl i t s b, P i -> P t -> P s -> Forall P b -> P (CFor lbl i t s b).
  Hypothesis HExit : forall lbl, P (CExit lbl).

  Fixpoint cform_rect2 (f : cform) : P f :=
    let fix go (l : list cform) : Forall P l :=
        match l with
        | [] => Forall_nil P
        | a :: r => Forall_cons a (cform_rect2 a) (go r)
        end in
    match f with
    | CLit v => HLit v
    | CFalse => HFalse
    | CVar x => HVar x
    | CBad => HBad
    | CUnspec => HUnspec
    | CSeq l => HSeq l (go l)
    | CDef x e => HDef x e (cform_rect2 e)
    | CFailk e => HFailk e (cform_rect2 e)
    | CFn l => HFn l (go l)
    | CFor lbl i t s b => HFor lbl i t s b (cform_rect2 i) (cform_rect2 t) (cform_rect2 s) (go b)
    | CExit lbl => HExit lbl
    end.
End CformInd.

Lemma gen_seq_eq : forall l ce, gen (CSeq l) ce = gen_list l ce.
Proof. reflexivity. Qed.

Lemma gen_list_cons : forall a r ce,
  gen_list (a :: r) ce =
  match gen a ce with
  | (GOk c1, ce1) =>
    match r with
    | [] => (GOk c1, ce1)
    | _ => match gen_list r ce1 with
           | (GOk c2, ce2) => (GOk (c1 ++ IPop :: c2), ce2)
           | o => o
           end
    end
  | o => o
  end.
Proof. reflexivity. Qed.

Lemma gen_fn_eq : forall l ce,
  gen (CFn l) ce = match gen_list l ce with (GOk _, ce1) => (GOk [IPush PvFn], ce1) | o => o end.
Proof. reflexivity. Qed.

Lemma gen_for_eq : forall lbl init test step body ce,
  gen (CFor lbl init test step body) ce =
    let ce1 := mkC (lbl :: c_loops ce) (S (c_nextsym ce)) in
    match gen_list body ce1 with
    | (GOk _, ce2) =>
      match gen init ce2 with
      | (GOk ci, ce3) =>
        match gen test ce3 with
        | (GOk _, ce4) =>
          match gen step ce4 with
          | (GOk _, ce5) =>
            ((if is_false test && negb (has_def init) then GOk (ci ++ [IPop; IPush PvNil]) else GUnspec), pop_loop ce5)
          | (o, ce5) => (o, pop_loop ce5)
          end
        | (o, ce4) => (o, pop_loop ce4)
        end
      | (o, ce3) => (o, pop_loop ce3)
      end
    | (o, ce2) => (o, pop_loop ce2)
    end.
Proof. reflexivity. Qed.

(* ------------------------------------------------------------------ compile phase: the loop stack *)

Definition keeps_loops (f : cform) : Prop := forall ce, c_loops (snd (gen f ce)) = c_loops ce.

Lemma gen_list_keeps : forall l, Forall keeps_loops l -> forall ce, c_loops (snd (gen_list l ce)) = c_loops ce.
Proof.
  induction l as [|a r IH]; intros HF ce; [reflexivity|].
  inversion HF as [|? ? Ha Hr]; subst. rewrite gen_list_cons.
  specialize (Ha ce). destruct (gen a ce) as [[c1| |] ce1]; cbn [snd] in *; try exact Ha.
  destruct r as [|b r']; [exact Ha|].
  specialize (IH Hr ce1). destruct (gen_list (b :: r') ce1) as [[c2| |] ce2]; cbn [snd] in *; congruence.
Qed.

Lemma gen_keeps_loops_all : forall f, keeps_loops f.
Proof.
  induction f using cform_rect2; unfold keeps_loops; intros ce; try reflexivity.
  - rewrite gen_seq_eq. apply gen_list_keeps; assumption.
  - cbn [gen]. specialize (IHf ce). destruct (gen f ce) as [[c| |] ce1]; exact IHf.
  - cbn [gen]. specialize (IHf ce). destruct (gen f ce) as [[c| |] ce1]; exact IHf.
  - rewrite gen_fn_eq. pose proof (gen_list_keeps l H ce) as K.
    destruct (gen_list l ce) as [[c| |] ce1]; exact K.
  - rewrite gen_for_eq. cbv zeta.
    pose proof (gen_list_keeps b H (mkC (lbl :: c_loops ce) (S (c_nextsym ce)))) as K2.
    destruct (gen_list b _) as [o2 ce2]. cbn [snd c_loops] in K2.
    assert (E2 : c_loops (pop_loop ce2) = c_loops ce) by (unfold pop_loop; cbn [c_loops]; rewrite K2; reflexivity).
    destruct o2; cbn [snd]; try exact E2.
    pose proof (IHf1 ce2) as K3. destruct (gen f1 ce2) as [o3 ce3]. cbn [snd] in K3.
    assert (E3 : c_loops (pop_loop ce3) = c_loops ce) by (unfold pop_loop; cbn [c_loops]; rewrite K3, K2; reflexivity).
    destruct o3; cbn [snd]; try exact E3.
    pose proof (IHf2 ce3) as K4. destruct (gen f2 ce3) as [o4 ce4]. cbn [snd] in K4.
    assert (E4 : c_loops (pop_loop ce4) = c_loops ce) by (unfold pop_loop; cbn [c_loops]; rewrite K4, K3, K2; reflexivity).
    destruct o4; cbn [snd]; try exact E4.
    pose proof (IHf3 ce4) as K5. destruct (gen f3 ce4) as [o5 ce5]. cbn [snd] in K5.
    assert (E5 : c_loops (pop_loop ce5) = c_loops ce) by (unfold pop_loop; cbn [c_loops]; rewrite K5, K4, K3, K2; reflexivity).
    destruct o5; cbn [snd]; exact E5.
Qed.

Lemma compile_keeps_loopstack_proof : forall f ce r ce', gen f ce = (r, ce') -> c_loops ce' = c_loops ce.
Proof. intros f ce r ce' H. pose proof (gen_keeps_loops_all f ce) as K. rewrite H in K. exact K. Qed.

Lemma compile_list_keeps_loopstack_proof : forall l ce r ce', gen_list l ce = (r, ce') -> c_loops ce' = c_loops ce.
Proof.
  intros l ce r ce' H.
  pose proof (gen_list_keeps l (proj2 (Forall_forall _ _) (fun f _ => gen_keeps_loops_all f)) ce) as K.
  rewrite H in K. exact K.
Qed.

Lemma stray_exit_rejected_proof : forall lbl ce, c_loops ce = [] -> fst (gen (CExit lbl) ce) = GErr.
Proof. intros lbl ce H. cbn [gen fst]. rewrite H. destruct lbl; reflexivity. Qed.

(* the generated code depends on the compile-time state only through the loop stack *)
Definition loops_only (f : cform) : Prop :=
  forall ce1 ce2, c_loops ce1 = c_loops ce2 -> fst (gen f ce1) = fst (gen f ce2).

Lemma gen_list_loops_only : forall l, Forall loops_only l ->
  forall ce1 ce2, c_loops ce1 = c_loops ce2 -> fst (gen_list l ce1) = fst (gen_list l ce2).
Proof.
  induction l as [|a r IH]; intros HF ce1 ce2 E; [reflexivity|].
  inversion HF as [|? ? Ha Hr]; subst. rewrite !gen_list_cons.
  specialize (Ha ce1 ce2 E).
  pose proof (gen_keeps_loops_all a ce1) as K1. pose proof (gen_keeps_loops_all a ce2) as K2.
  destruct (gen a ce1) as [o1 d1]. destruct (gen a ce2) as [o2 d2]. cbn [fst snd] in *. subst o2.
  destruct o1; try reflexivity. destruct r as [|b r']; [reflexivity|].
  assert (E' : c_loops d1 = c_loops d2) by congruence.
  specialize (IH Hr d1 d2 E').
  destruct (gen_list (b :: r') d1) as [p1 e1]. destruct (gen_list (b :: r') d2) as [p2 e2]. cbn [fst] in *. subst p2.
  destruct p1; reflexivity.
Qed.

Lemma gen_loops_only_all : forall f, loops_only f.
Proof.
  induction f using cform_rect2; unfold loops_only; intros ce1 ce2 E; try reflexivity.
  - rewrite !gen_seq_eq. apply gen_list_loops_only; assumption.
  - cbn [gen]. specialize (IHf ce1 ce2 E). destruct (gen f ce1) as [o1 d1]. destruct (gen f ce2) as [o2 d2].
    cbn [fst] in *. subst o2. destruct o1; reflexivity.
  - cbn [gen]. specialize (IHf ce1 ce2 E). destruct (gen f ce1) as [o1 d1]. destruct (gen f ce2) as [o2 d2].
    cbn [fst] in *. subst o2. destruct o1; reflexivity.
  - rewrite !gen_fn_eq. pose proof (gen_list_loops_only l H ce1 ce2 E) as K.
    destruct (gen_list l ce1) as [o1 d1]. destruct (gen_list l ce2) as [o2 d2]. cbn [fst] in *. subst o2.
    destruct o1; reflexivity.
  - rewrite !gen_for_eq. cbv zeta.
    set (a1 := mkC (lbl :: c_loops ce1) (S (c_nextsym ce1))). set (a2 := mkC (lbl :: c_loops ce2) (S (c_nextsym ce2))).
    assert (Ea : c_loops a1 = c_loops a2) by (unfold a1, a2; cbn [c_loops]; rewrite E; reflexivity).
    pose proof (gen_list_loops_only b H a1 a2 Ea) as K.
    pose proof (compile_list_keeps_loopstack_proof b a1) as L1. pose proof (compile_list_keeps_loopstack_proof b a2) as L2.
    destruct (gen_list b a1) as [o1 d1]. destruct (gen_list b a2) as [o2 d2]. cbn [fst] in K. subst o2.
    specialize (L1 _ _ eq_refl). specialize (L2 _ _ eq_refl).
    destruct o1; try reflexivity.
    assert (Ed : c_loops d1 = c_loops d2) by congruence.
    pose proof (IHf1 d1 d2 Ed) as K3.
    pose proof (gen_keeps_loops_all f1 d1) as M1. pose proof (gen_keeps_loops_all f1 d2) as M2.
    destruct (gen f1 d1) as [p1 g1]. destruct (gen f1 d2) as [p2 g2]. cbn [fst snd] in *. subst p2.
    destruct p1; try reflexivity.
    assert (Eg : c_loops g1 = c_loops g2) by congruence.
    pose proof (IHf2 g1 g2 Eg) as K4.
    pose proof (gen_keeps_loops_all f2 g1) as N1. pose proof (gen_keeps_loops_all f2 g2) as N2.
    destruct (gen f2 g1) as [q1 h1]. destruct (gen f2 g2) as [q2 h2]. cbn [fst snd] in *. subst q2.
    destruct q1; try reflexivity.
    assert (Eh : c_loops h1 = c_loops h2) by congruence.
    pose proof (IHf3 h1 h2 Eh) as K5.
    destruct (gen f3 h1) as [s1 j1]. destruct (gen f3 h2) as [s2 j2]. cbn [fst] in *. subst s2.
    destruct s1; reflexivity.
  - cbn [gen fst]. rewrite E. reflexivity.
Qed.

Lemma gen_list_indep : forall l ce1 ce2, c_loops ce1 = c_loops ce2 -> fst (gen_list l ce1) = fst (gen_list l ce2).
Proof.
  intros l. apply gen_list_loops_only. apply Forall_forall. intros f _. apply gen_loops_only_all.
Qed.

(* ------------------------------------------------------------------ run phase *)

Lemma run_code_app : forall k c1 c2 m,
  run_code k (c1 ++ c2) m = match run_code k c1 m with (None, m1) => run_code k c2 m1 | o => o end.
Proof.
  induction c1 as [|i r IH]; intros c2 m; [reflexivity|].
  cbn [app run_code]. destruct (exec_instr k i m) as [[e|] m1]; [reflexivity|apply IH].
Qed.

(* the point of failure: a prefix ran to its end, the next instruction failed, and that
   instruction defined nothing *)
Lemma run_error_point : forall k c m e m',
  run_code k c m = (Some e, m') ->
  exists pre i post m1, c = pre ++ i :: post /\ run_code k pre m = (None, m1)
                        /\ exec_instr k i m1 = (Some e, m') /\ m_defs m' = m_defs m1.
Proof.
  induction c as [|i r IH]; intros m e m' H; [discriminate|].
  cbn [run_code] in H. destruct (exec_instr k i m) as [[e1|] m1] eqn:Ex.
  - inversion H; subst. exists [], i, r, m. repeat split; try assumption.
    destruct i; unfold exec_instr in Ex.
    + discriminate.
    + destruct (m_data m); inversion Ex; reflexivity.
    + destruct (m_data m); inversion Ex; reflexivity.
    + destruct (plookup x (m_defs m)); inversion Ex; reflexivity.
    + destruct (Nat.eqb (S (m_ctr m)) k); inversion Ex; reflexivity.
    + inversion Ex; reflexivity.
  - destruct (IH m1 e m' H) as (pre & j & post & m2 & Hc & Hr & Hx & Hd).
    exists (i :: pre), j, post, m2. repeat split; try assumption.
    + rewrite Hc. reflexivity.
    + cbn [run_code]. rewrite Ex. exact Hr.
Qed.

(* stack discipline of the generated code: a pform that runs to its end leaves exactly one value *)
Definition pushes_one (f : cform) : Prop :=
  forall ce c ce', gen f ce = (GOk c, ce') ->
  forall k m m1, run_code k c m = (None, m1) -> exists v, m_data m1 = v :: m_data m.

Lemma gen_list_pushes : forall l, Forall pushes_one l ->
  forall ce c ce', gen_list l ce = (GOk c, ce') ->
  forall k m m1, run_code k c m = (None, m1) -> exists v, m_data m1 = v :: m_data m.
Proof.
  induction l as [|a r IH]; intros HF ce c ce' G k m m1 R.
  - cbn in G. inversion G; subst. cbn in R. inversion R; subst. eexists; reflexivity.
  - inversion HF as [|? ? Ha Hr]; subst. rewrite gen_list_cons in G.
    destruct (gen a ce) as [[c1| |] ce1] eqn:Ga; try discriminate.
    destruct r as [|b r'].
    + inversion G; subst. eapply Ha; eassumption.
    + destruct (gen_list (b :: r') ce1) as [[c2| |] ce2] eqn:Gr; try discriminate.
      inversion G; subst. rewrite run_code_app in R.
      destruct (run_code k c1 m) as [[e|] ma] eqn:R1; [discriminate|].
      destruct (Ha _ _ _ Ga _ _ _ R1) as [v Hv].
      cbn [run_code exec_instr] in R. rewrite Hv in R.
      destruct (IH Hr _ _ _ Gr _ _ _ R) as [w Hw].
      exists w. exact Hw.
Qed.

Lemma gen_pushes_one_all : forall f, pushes_one f.
Proof.
  induction f using cform_rect2; unfold pushes_one; intros ce c ce' G k m m1 R.
  - cbn in G. inversion G; subst. cbn in R. inversion R; subst. eexists; reflexivity.
  - cbn in G. inversion G; subst. cbn in R. inversion R; subst. eexists; reflexivity.
  - cbn in G. inversion G; subst. cbn in R. destruct (plookup x (m_defs m)); inversion R; subst. eexists; reflexivity.
  - discriminate.
  - discriminate.
  - rewrite gen_seq_eq in G. eapply gen_list_pushes; eassumption.
  - cbn [gen] in G. destruct (gen f ce) as [[c1| |] ce1] eqn:Gf; try discriminate. inversion G; subst.
    rewrite run_code_app in R. destruct (run_code k c1 m) as [[e|] ma] eqn:R1; [discriminate|].
    destruct (IHf _ _ _ Gf _ _ _ R1) as [v Hv]. cbn [run_code exec_instr] in R. rewrite Hv in R.
    inversion R; subst. cbn [m_data]. first [exists v; exact Hv | eexists; reflexivity].
  - cbn [gen] in G. destruct (gen f ce) as [[c1| |] ce1] eqn:Gf; try discriminate. inversion G; subst.
    rewrite run_code_app in R. destruct (run_code k c1 m) as [[e|] ma] eqn:R1; [discriminate|].
    destruct (IHf _ _ _ Gf _ _ _ R1) as [v Hv]. cbn [run_code exec_instr] in R.
    destruct (Nat.eqb (S (m_ctr ma)) k); [discriminate|]. inversion R; subst. cbn [m_data]. first [exists v; exact Hv | eexists; reflexivity].
  - rewrite gen_fn_eq in G. destruct (gen_list l ce) as [[c1| |] ce1]; try discriminate. inversion G; subst.
    cbn in R. inversion R; subst. eexists; reflexivity.
  - rewrite gen_for_eq in G. cbv zeta in G.
    destruct (gen_list b _) as [[cb| |] ce2]; try discriminate.
    destruct (gen f1 ce2) as [[ci| |] ce3] eqn:Gi; try discriminate.
    destruct (gen f2 ce3) as [[ct| |] ce4]; try discriminate.
    destruct (gen f3 ce4) as [[cs| |] ce5]; try discriminate.
    destruct (is_false f2 && negb (has_def f1)); try discriminate. inversion G; subst.
    rewrite run_code_app in R. destruct (run_code k ci m) as [[e|] ma] eqn:R1; [discriminate|].
    destruct (IHf1 _ _ _ Gi _ _ _ R1) as [v Hv]. cbn [run_code exec_instr] in R. rewrite Hv in R.
    inversion R; subst. cbn [m_data]. eexists; reflexivity.
  - cbn [gen] in G. destruct (loop_visible lbl (c_loops ce)); try discriminate. inversion G; subst.
    cbn in R. discriminate.
Qed.

Lemma gen_list_pushes_one : forall l ce c ce', gen_list l ce = (GOk c, ce') ->
  forall k m m1, run_code k c m = (None, m1) -> exists v, m_data m1 = v :: m_data m.
Proof.
  intros l. apply gen_list_pushes. apply Forall_forall. intros f _. apply gen_pushes_one_all.
Qed.

(* ------------------------------------------------------------------ the interpreter across loads *)

Definition at_rest (st : istate) : Prop := at_restb st = true.

Lemma at_rest_inv : forall st, at_rest st ->
  c_loops (i_ce st) = [] /\ m_data (i_m st) = [] /\ i_pc st = length (i_buf st).
Proof.
  intros st H. unfold at_rest, at_restb in H.
  destruct (c_loops (i_ce st)); [|discriminate]. destruct (m_data (i_m st)); [|discriminate].
  apply Nat.eqb_eq in H. repeat split; assumption.
Qed.

Lemma at_rest_intro : forall st,
  c_loops (i_ce st) = [] -> m_data (i_m st) = [] -> i_pc st = length (i_buf st) -> at_rest st.
Proof. intros st A B C. unfold at_rest, at_restb. rewrite A, B, C. apply Nat.eqb_refl. Qed.

Lemma skipn_len_app : forall (A : Type) (a b : list A), skipn (length a) (a ++ b) = b.
Proof. induction a; intros; [reflexivity|cbn; auto]. Qed.

Lemma trunc_data_zero : forall d, trunc_data 0 d = [].
Proof. intros d. unfold trunc_data. rewrite Nat.sub_0_r. apply skipn_all. Qed.

(* what one load does to a state at rest, spelled out *)
Lemma load_from_rest : forall n k text st, at_rest st ->
  load n k text st =
  match read_text n text r_init with
  | (PFuel, rd) => (OFuel, mkI rd (i_ce st) (i_buf st) (i_pc st) (i_m st))
  | (PErr, rd) => (OReadErr, mkI rd (i_ce st) (i_buf st) (i_pc st) (i_m st))
  | (POk forms, rd) =>
    match gen_list (map classify forms) (i_ce st) with
    | (GErr, ce) => (OCompileErr, mkI rd ce (i_buf st) (i_pc st) (i_m st))
    | (GUnspec, ce) => (OUnspec, mkI rd ce (i_buf st) (i_pc st) (i_m st))
    | (GOk code, ce) =>
      match run_code k code (i_m st) with
      | (None, m1) => (OVal (match m_data m1 with v :: _ => v | [] => PvNil end),
                       mkI rd ce (i_buf st ++ code) (length (i_buf st ++ code)) (mkM (m_defs m1) (m_ctr m1) (tl (m_data m1))))
      | (Some e, m1) => (ORunErr e,
                         mkI rd ce (i_buf st ++ code) (length (i_buf st ++ code)) (mkM (m_defs m1) (m_ctr m1) []))
      end
    end
  end.
Proof.
  intros n k text st H. destruct (at_rest_inv st H) as (HL & HD & HP).
  unfold load. rewrite read_after_any_proof.
  destruct (read_text n text r_init) as [[forms| |] rd]; try reflexivity.
  destruct (gen_list (map classify forms) (i_ce st)) as [[code| |] ce]; try reflexivity.
  rewrite HP, Nat.ltb_irrefl, skipn_len_app, HD. cbn [length]. 
  destruct (run_code k code (i_m st)) as [[e|] m1]; [|reflexivity].
  rewrite trunc_data_zero. reflexivity.
Qed.

Lemma load_at_rest_proof : forall n k text st, at_rest st -> at_rest (snd (load n k text st)).
Proof.
  intros n k text st H. destruct (at_rest_inv st H) as (HL & HD & HP).
  rewrite (load_from_rest n k text st H).
  destruct (read_text n text r_init) as [[forms| |] rd]; cbn [snd];
    try (apply at_rest_intro; cbn [i_ce i_m i_pc i_buf]; assumption).
  destruct (gen_list (map classify forms) (i_ce st)) as [[code| |] ce] eqn:G; cbn [snd];
    pose proof (compile_list_keeps_loopstack_proof _ _ _ _ G) as K;
    try (apply at_rest_intro; cbn [i_ce i_m i_pc i_buf]; congruence).
  destruct (run_code k code (i_m st)) as [[e|] m1] eqn:R; cbn [snd]; apply at_rest_intro; cbn [i_ce i_m i_pc i_buf m_data]; try congruence.
  destruct (gen_list_pushes_one _ _ _ _ G _ _ _ R) as [v Hv]. rewrite Hv, HD. reflexivity.
Qed.

Lemma session_cons : forall n k t r st,
  psession n k (t :: r) st = (fst (load n k t st) :: fst (psession n k r (snd (load n k t st))),
                             snd (psession n k r (snd (load n k t st)))).
Proof.
  intros. cbn [psession]. destruct (load n k t st) as [o st1]. cbn [fst snd].
  destruct (psession n k r st1) as [os st2]. reflexivity.
Qed.

Lemma session_at_rest_proof : forall n k texts st, at_rest st -> at_rest (snd (psession n k texts st)).
Proof.
  induction texts as [|t r IH]; intros st H; [exact H|].
  rewrite session_cons. cbn [snd]. apply IH. apply load_at_rest_proof. exact H.
Qed.

(* two interpreters at rest with the same global scope and failk counter: whatever their
   lexer / parser residue, symbol counter and main buffer *)
Definition equiv (a b : istate) : Prop := at_rest a /\ at_rest b /\ i_m a = i_m b.

Lemma load_equiv_proof : forall n k text a b, equiv a b ->
  fst (load n k text a) = fst (load n k text b) /\ equiv (snd (load n k text a)) (snd (load n k text b)).
Proof.
  intros n k text a b (Ha & Hb & Hm).
  pose proof (load_at_rest_proof n k text a Ha) as Ra. pose proof (load_at_rest_proof n k text b Hb) as Rb.
  destruct (at_rest_inv a Ha) as (La & _ & _). destruct (at_rest_inv b Hb) as (Lb & _ & _).
  assert (M : fst (load n k text a) = fst (load n k text b) /\ i_m (snd (load n k text a)) = i_m (snd (load n k text b))).
  { rewrite (load_from_rest n k text a Ha), (load_from_rest n k text b Hb).
    destruct (read_text n text r_init) as [[forms| |] rd]; cbn [fst snd i_m]; try (split; [reflexivity|exact Hm]).
    pose proof (gen_list_indep (map classify forms) (i_ce a) (i_ce b) (eq_trans La (eq_sym Lb))) as G.
    destruct (gen_list (map classify forms) (i_ce a)) as [o1 c1]. destruct (gen_list (map classify forms) (i_ce b)) as [o2 c2].
    cbn [fst] in G. subst o2. destruct o1 as [code| |]; cbn [fst snd i_m]; try (split; [reflexivity|exact Hm]).
    rewrite Hm. destruct (run_code k code (i_m b)) as [[e|] m1]; cbn [fst snd i_m]; split; reflexivity. }
  destruct M as [M1 M2]. split; [exact M1|]. repeat split; assumption.
Qed.

Lemma session_equiv_proof : forall n k texts a b, equiv a b ->
  fst (psession n k texts a) = fst (psession n k texts b).
Proof.
  induction texts as [|t r IH]; intros a b H; [reflexivity|].
  rewrite !session_cons. cbn [fst]. destruct (load_equiv_proof n k t a b H) as [E1 E2].
  rewrite E1. f_equal. apply IH. exact E2.
Qed.

(* a load that fails while reading or compiling is invisible *)
Lemma failed_load_invisible_proof : forall n k text st, at_rest st ->
  (fst (load n k text st) = OReadErr \/ fst (load n k text st) = OCompileErr) ->
  equiv (snd (load n k text st)) st.
Proof.
  intros n k text st H F. split; [apply load_at_rest_proof; exact H|]. split; [exact H|].
  rewrite (load_from_rest n k text st H) in *.
  destruct (read_text n text r_init) as [[forms| |] rd]; cbn [fst snd i_m] in *; try reflexivity.
  destruct (gen_list (map classify forms) (i_ce st)) as [[code| |] ce]; cbn [fst snd i_m] in *; try reflexivity.
  destruct (run_code k code (i_m st)) as [[e|] m1]; cbn [fst] in F; destruct F; discriminate.
Qed.

Lemma error_restores_read_compile_proof : forall n k text later st, at_rest st ->
  (fst (load n k text st) = OReadErr \/ fst (load n k text st) = OCompileErr) ->
  fst (psession n k later (snd (load n k text st))) = fst (psession n k later st)
  /\ at_rest (snd (load n k text st)).
Proof.
  intros. split.
  - apply session_equiv_proof. apply failed_load_invisible_proof; assumption.
  - apply load_at_rest_proof. assumption.
Qed.

(* a load that fails while running: a prefix of the text's code ran to its end, the global scope
   is the one that prefix produced, and the interpreter goes on like any interpreter at rest
   that holds this scope *)
Lemma error_restores_run_proof : forall n k text st e, at_rest st ->
  fst (load n k text st) = ORunErr e ->
  let st' := snd (load n k text st) in
  at_rest st'
  /\ (exists forms code pre i post m1,
        read_spec n text = POk forms
        /\ fst (gen_list (map classify forms) (i_ce st)) = GOk code
        /\ code = pre ++ i :: post
        /\ run_code k pre (i_m st) = (None, m1)
        /\ fst (exec_instr k i m1) = Some e
        /\ m_defs (i_m st') = m_defs m1)
  /\ (forall later st2, at_rest st2 -> i_m st2 = i_m st' ->
        fst (psession n k later st') = fst (psession n k later st2)).
Proof.
  intros n k text st e H F st'. split; [apply load_at_rest_proof; exact H|]. split.
  - unfold st'. rewrite (load_from_rest n k text st H) in *.
    destruct (read_text n text r_init) as [[forms| |] rd] eqn:RT; cbn [fst snd] in *; try discriminate.
    destruct (gen_list (map classify forms) (i_ce st)) as [[code| |] ce] eqn:G; cbn [fst snd] in *; try discriminate.
    destruct (run_code k code (i_m st)) as [[e1|] m1] eqn:R; cbn [fst snd i_m m_defs] in *; try discriminate.
    inversion F; subst e1.
    destruct (run_error_point _ _ _ _ _ R) as (pre & i & post & m2 & Hc & Hr & Hx & Hd).
    exists forms, code, pre, i, post, m2.
    split; [unfold read_spec; rewrite RT; reflexivity|]. split; [rewrite G; reflexivity|].
    split; [exact Hc|]. split; [exact Hr|].
    split; [rewrite Hx; reflexivity|exact Hd].
  - intros later st2 H2 E. apply session_equiv_proof. split; [apply load_at_rest_proof; exact H|].
    split; [exact H2|]. symmetry. exact E.
Qed.

(* ------------------------------------------------------------------ the memo cell of a lazy argument *)

Lemma failed_force_not_memoised_proof : forall k t m e v t' m',
  force k t m = ((Some e, v), t', m') -> t' = t.
Proof.
  intros k t m e v t' m' H. unfold force in H. destruct (t_forced t); [inversion H|].
  destruct (run_code k (t_code t) m) as [[e1|] m1]; inversion H; reflexivity.
Qed.

Lemma force_memo_proof : forall k t m v t' m',
  force k t m = ((None, v), t', m') ->
  t_forced t' = true /\ t_value t' = v /\ forall k2 m2, force k2 t' m2 = ((None, v), t', m2).
Proof.
  intros k t m v t' m' H. unfold force in H. destruct (t_forced t) eqn:F.
  - inversion H; subst. repeat split; try assumption. intros. unfold force. rewrite F. reflexivity.
  - destruct (run_code k (t_code t) m) as [[e1|] m1]; inversion H; subst. repeat split. 
Qed.

Lemma reforce_after_failure_proof : forall k t m e v t' m',
  force k t m = ((Some e, v), t', m') -> forall k2 m2, force k2 t' m2 = force k2 t m2.
Proof. intros. rewrite (failed_force_not_memoised_proof _ _ _ _ _ _ _ H). reflexivity. Qed.
