(* C18 proofs: the Go-shaped dot-path walkers (Model/Pkg.v) against the visibility
   specification (Model/PkgSpec.v). *)
From Coq Require Import ZArith List Bool Lia Arith.
Import ListNotations.
Require Import ZV.Model.Pkg ZV.Model.PkgSpec.
Open Scope Z_scope.

Section WithUpper.
Variable is_upper : Z -> bool.

Notation stack_walk := (stack_walk is_upper).
Notation hash_walk := (hash_walk is_upper).
Notation dot_get_set := (dot_get_set is_upper).
Notation visible := (visible is_upper).
Notation public := (public is_upper).
Notation err_if_private := (err_if_private is_upper).

(* the verdict a result of the code model stands for *)
Definition verdict_of (r : res (heap * val)) : verdict :=
  match r with
  | Ok (h, v) => Allowed h v
  | Err (EPriv m p) => Denied m p
  | Err ENotFoundSym | Err ENotFoundPkg | Err ENotFoundHash => NotFound
  | Err ENotRec | Err ENotPkg => NotRecord
  | Err ENotFun => NotCallable
  | Err EInternal | Err ECrash => Malformed
  | Err EFuel => Unbounded
  end.

Definition names_ok (p : list name) : Prop := Forall (fun n => n <> []) p.

(* ---------- list facts about the loop index ---------- *)
Lemma skipn_nth_cons : forall (A : Type) (l : list A) i x,
  nth_error l i = Some x -> skipn i l = x :: skipn (S i) l.
Proof.
  induction l as [|a l IH]; intros i x H.
  - destruct i; discriminate.
  - destruct i as [|i]; simpl in *.
    + inversion H; reflexivity.
    + apply IH; exact H.
Qed.

Lemma last_flag : forall (A : Type) (l : list A) i, (i < length l)%nat ->
  Nat.eqb i (length l - 1) = match skipn (S i) l with [] => true | _ => false end.
Proof.
  induction l as [|a l IH]; intros i H; simpl in H; [lia|].
  destruct i as [|i].
  - simpl. destruct l; reflexivity.
  - assert (Hi : (i < length l)%nat) by lia.
    specialize (IH i Hi).
    change (skipn (S (S i)) (a :: l)) with (skipn (S i) l).
    rewrite <- IH. simpl length.
    destruct l as [|b l]; [simpl in Hi; lia|]. simpl length.
    replace (S (S (length l)) - 1)%nat with (S (S (length l) - 1)) by lia.
    reflexivity.
Qed.

Lemma names_ok_skipn : forall p k, names_ok p -> names_ok (skipn k p).
Proof.
  unfold names_ok. induction p as [|a p IH]; intros k H.
  - destruct k; constructor.
  - destruct k; simpl; [exact H|]. apply IH. inversion H; assumption.
Qed.

Lemma skipn_length_pos : forall (A : Type) (l : list A) i x r,
  skipn i l = x :: r -> (i < length l)%nat.
Proof.
  induction l as [|a l IH]; intros i x r H.
  - destruct i; discriminate.
  - destruct i; simpl in *; [lia|]. apply IH in H. lia.
Qed.

Lemma err_if_private_public : forall n pn, n <> [] ->
  err_if_private n pn = if public n then None else Some (EPriv n pn).
Proof. intros [|r n] pn H; [congruence|reflexivity]. Qed.

(* one-step unfoldings of the mutual fixpoints *)
Lemma stack_walk_S : forall f h b pn sc dp i ret setv,
  stack_walk (S f) h b pn sc dp i ret setv =
    match dp with
    | [] => Err EInternal
    | _ =>
    match nth_error dp i with
    | None => Ok (h, ret)
    | Some cur =>
      if negb b then Err ENotPkg else
      match stack_lookup h sc cur with
      | None => Err ENotFoundPkg
      | Some (ret, scop) =>
        let last := Nat.eqb i (length dp - 1) in
        match setv, last with
        | Some v, true =>
          match err_if_private cur pn with
          | Some e => Err e
          | None => Ok (scope_set h scop cur v, v)
          end
        | _, _ =>
          if last then
            match ret with
            | VStack _ _ _ => Ok (h, ret)
            | _ => match err_if_private cur pn with Some e => Err e | None => Ok (h, ret) end
            end
          else
            match ret with
            | VHash x =>
              match err_if_private cur pn with
              | Some e => Err e
              | None => hash_walk f h x (skipn (i + 1) dp) 0 VNull setv
              end
            | VStack b' pn' sc' => stack_walk f h b' pn' sc' dp (i + 1) ret setv
            | _ => Err ENotRec
            end
        end
      end
    end
    end.
Proof. intros. destruct dp; reflexivity. Qed.

Lemma hash_walk_S : forall f h askh dp i ret setv,
  hash_walk (S f) h askh dp i ret setv =
    match dp with
    | [] => Err EInternal
    | _ =>
    match nth_error dp i with
    | None => Ok (h, ret)
    | Some cur =>
      let last := Nat.eqb i (length dp - 1) in
      match setv, last with
      | Some v, true => Ok (hash_set h askh cur v, v)
      | _, _ =>
        match hash_get h askh cur with
        | None => Err ENotFoundHash
        | Some ret =>
          if last then Ok (h, ret) else
          match ret with
          | VHash x => hash_walk f h x dp (i + 1) ret setv
          | VStack b pn sc => stack_walk f h b pn sc (skipn (i + 1) dp) 0 VNull setv
          | _ => Err ENotRec
          end
        end
      end
    end
    end.
Proof. intros. destruct dp; reflexivity. Qed.

(* a stack that is not flagged as a package is refused at the next iteration *)
Lemma stack_walk_notpkg : forall f h pn sc dp i ret setv, (i < length dp)%nat ->
  stack_walk (S f) h false pn sc dp i ret setv = Err ENotPkg.
Proof.
  intros. rewrite stack_walk_S.
  destruct dp as [|a dp]; [simpl in *; lia|].
  destruct (nth_error (a :: dp) i) eqn:E.
  - reflexivity.
  - apply nth_error_None in E. lia.
Qed.

(* ---------- the refinement: Go-shaped walkers = structural specification ---------- *)
Lemma walk_refines : forall fuel,
  (forall h pn sc dp i ret setv,
     (i < length dp)%nat -> names_ok dp ->
     stack_walk fuel h true pn sc dp i ret setv <> Err EFuel ->
     verdict_of (stack_walk fuel h true pn sc dp i ret setv) = visible h (CPkg pn sc) (skipn i dp) setv)
  /\
  (forall h id dp i ret setv,
     (i < length dp)%nat -> names_ok dp ->
     hash_walk fuel h id dp i ret setv <> Err EFuel ->
     verdict_of (hash_walk fuel h id dp i ret setv) = visible h (CHash id) (skipn i dp) setv).
Proof.
  induction fuel as [|f [IHs IHh]].
  - split; intros; simpl in *; congruence.
  - split.
    + (* package walker *)
      intros h pn sc dp i ret setv Hi Hn Hfuel.
      rewrite stack_walk_S in *.
      destruct dp as [|a0 dp0] eqn:Edp; [simpl in Hi; lia|]. rewrite <- Edp in *.
      assert (Hdp : match dp with [] => Err EInternal | _ :: _ => Err ENotRec end = @Err (heap * val) ENotRec)
        by (rewrite Edp; reflexivity).
      destruct (nth_error dp i) as [cur|] eqn:Ecur;
        [|apply nth_error_None in Ecur; lia].
      assert (Hcur : cur <> []).
      { unfold names_ok in Hn. rewrite Forall_forall in Hn. apply Hn. eapply nth_error_In; eauto. }
      pose proof (skipn_nth_cons _ dp i cur Ecur) as Hsk.
      rewrite Hsk in *.
      pose proof (last_flag _ dp i Hi) as Hlast.
      replace (i + 1)%nat with (S i) in * by lia.
      rewrite Edp in Hfuel |- *. rewrite <- Edp in Hfuel |- *.
      cbn [negb] in *. cbv zeta in *.
      cbn [visible PkgSpec.visible].
      destruct (stack_lookup h sc cur) as [[v scop]|] eqn:Elk; [|reflexivity].
      rewrite Hlast in *.
      rewrite (err_if_private_public cur pn Hcur) in *.
      destruct (skipn (S i) dp) as [|n2 rest2] eqn:Erest.
      * (* final part *)
        destruct setv as [nv|].
        -- destruct (public cur); reflexivity.
        -- destruct v; cbn [is_stack orb]; try reflexivity; destruct (public cur); reflexivity.
      * (* go deeper *)
        assert (Hi2 : (S i < length dp)%nat) by (eapply skipn_length_pos; eauto).
        assert (Hgo : forall sv : option val,
           match sv, false with
           | Some v0, true => @Err (heap * val) ENotRec
           | _, _ => @Err (heap * val) ENotFun end = Err ENotFun) by (intros [x|]; reflexivity).
        destruct v as [| z | fn ps bd cl | x | b' pn' sc'].
        -- destruct setv; reflexivity.
        -- destruct setv; reflexivity.
        -- destruct setv; reflexivity.
        -- (* hash member *)
           destruct (public cur) eqn:Epub.
           ++ assert (Hsub : names_ok (skipn (S i) dp)) by (apply names_ok_skipn; exact Hn).
              rewrite Erest in Hsub.
              assert (Hlen : (0 < length (n2 :: rest2))%nat) by (simpl; lia).
              assert (E1 : verdict_of (hash_walk f h x (n2 :: rest2) 0 VNull setv)
                           = visible h (CHash x) (n2 :: rest2) setv).
              { apply (IHh h x (n2 :: rest2) 0%nat VNull setv Hlen Hsub).
                destruct setv; exact Hfuel. }
              destruct setv; exact E1.
           ++ destruct setv; reflexivity.
        -- (* nested stack *)
           destruct b'.
           ++ assert (E1 : verdict_of (stack_walk f h true pn' sc' dp (S i) (VStack true pn' sc') setv)
                           = visible h (CPkg pn' sc') (skipn (S i) dp) setv).
              { apply (IHs h pn' sc' dp (S i) (VStack true pn' sc') setv Hi2 Hn).
                destruct setv; exact Hfuel. }
              rewrite Erest in E1.
              destruct setv; exact E1.
           ++ destruct f as [|f'].
              ** exfalso. destruct setv; apply Hfuel; reflexivity.
              ** rewrite (stack_walk_notpkg f' h pn' sc' dp (S i) _ setv Hi2).
                 destruct setv; reflexivity.
    + (* hash walker *)
      intros h id dp i ret setv Hi Hn Hfuel.
      rewrite hash_walk_S in *.
      destruct dp as [|a0 dp0] eqn:Edp; [simpl in Hi; lia|]. rewrite <- Edp in *.
      destruct (nth_error dp i) as [cur|] eqn:Ecur;
        [|apply nth_error_None in Ecur; lia].
      pose proof (skipn_nth_cons _ dp i cur Ecur) as Hsk.
      rewrite Hsk in *.
      pose proof (last_flag _ dp i Hi) as Hlast.
      replace (i + 1)%nat with (S i) in * by lia.
      rewrite Edp in Hfuel |- *. rewrite <- Edp in Hfuel |- *.
      cbv zeta in *.
      cbn [visible PkgSpec.visible].
      rewrite Hlast in *.
      destruct (skipn (S i) dp) as [|n2 rest2] eqn:Erest.
      * destruct setv as [nv|]; [reflexivity|].
        destruct (hash_get h id cur); reflexivity.
      * assert (Hi2 : (S i < length dp)%nat) by (eapply skipn_length_pos; eauto).
        assert (Hstep : verdict_of
                  match hash_get h id cur with
                  | None => Err ENotFoundHash
                  | Some ret0 =>
                    match ret0 with
                    | VHash x => hash_walk f h x dp (S i) ret0 setv
                    | VStack b pn sc => stack_walk f h b pn sc (n2 :: rest2) 0 VNull setv
                    | _ => Err ENotRec
                    end
                  end
                = match hash_get h id cur with
                  | None => NotFound
                  | Some (VHash id') => visible h (CHash id') (n2 :: rest2) setv
                  | Some (VStack true pn sc) => visible h (CPkg pn sc) (n2 :: rest2) setv
                  | Some _ => NotRecord
                  end).
        { destruct (hash_get h id cur) as [v|] eqn:Eg; [|reflexivity].
          destruct v as [| z | fn ps bd cl | x | b' pn' sc']; try reflexivity.
          - (* hash in hash *)
            rewrite <- Erest.
            apply (IHh h x dp (S i) (VHash x) setv Hi2 Hn).
            destruct setv; exact Hfuel.
          - (* a stack held by a hash: dotpaths[i+1:] is the rest of the path *)
            assert (Hn1 : names_ok (n2 :: rest2)).
            { rewrite <- Erest. apply names_ok_skipn; exact Hn. }
            assert (Hl1 : (0 < length (n2 :: rest2))%nat) by (simpl; lia).
            destruct b'.
            + apply (IHs h pn' sc' (n2 :: rest2) 0%nat VNull setv Hl1 Hn1).
              destruct setv; exact Hfuel.
            + destruct f as [|f'].
              * exfalso. destruct setv; apply Hfuel; reflexivity.
              * rewrite (stack_walk_notpkg f' h pn' sc' (n2 :: rest2) 0 VNull setv Hl1).
                reflexivity. }
        destruct setv; exact Hstep.
Qed.


(* ---------- the fuel given by dot_get_set is always enough ---------- *)
Lemma skipn_length_le : forall (A : Type) (l : list A) k, length (skipn k l) = (length l - k)%nat.
Proof. intros. apply skipn_length. Qed.

Lemma eip_not_fuel : forall cur pn e, err_if_private cur pn = Some e -> @Err (heap * val) e <> Err EFuel.
Proof.
  intros cur pn e H. unfold Pkg.err_if_private in H.
  destruct cur as [|r cur]; [inversion H; discriminate|].
  destruct (is_upper r); inversion H; discriminate.
Qed.

Lemma fuel_enough : forall fuel,
  (forall h b pn sc dp i ret setv,
     (i < length dp)%nat -> (length dp * S (length dp) - i < fuel)%nat ->
     stack_walk fuel h b pn sc dp i ret setv <> Err EFuel)
  /\
  (forall h id dp i ret setv,
     (i < length dp)%nat -> (length dp * S (length dp) - i < fuel)%nat ->
     hash_walk fuel h id dp i ret setv <> Err EFuel).
Proof.
  induction fuel as [|f [IHs IHh]].
  - split; intros; lia.
  - split.
    + intros h b pn sc dp i ret setv Hi Hf.
      rewrite stack_walk_S.
      destruct dp as [|a0 dp0] eqn:Edp; [simpl in Hi; lia|]. rewrite <- Edp in *.
      destruct (nth_error dp i) as [cur|] eqn:Ecur; [|discriminate].
      destruct (negb b); [discriminate|].
      destruct (stack_lookup h sc cur) as [[v scop]|]; [|discriminate].
      cbv zeta. rewrite (last_flag _ dp i Hi).
      destruct (skipn (S i) dp) as [|n2 rest2] eqn:Erest.
      * destruct setv.
        -- destruct (err_if_private cur pn) eqn:Ee; [eapply eip_not_fuel; eauto|discriminate].
        -- destruct v; try discriminate;
             (destruct (err_if_private cur pn) eqn:Ee; [eapply eip_not_fuel; eauto|discriminate]).
      * assert (Hi2 : (S i < length dp)%nat) by (eapply skipn_length_pos; eauto).
        assert (Hgoal : (match v with
                | VHash x => match err_if_private cur pn with
                             | Some e => Err e
                             | None => hash_walk f h x (skipn (i + 1) dp) 0 VNull setv end
                | VStack b' pn' sc' => stack_walk f h b' pn' sc' dp (i + 1) v setv
                | _ => Err ENotRec end) <> Err EFuel).
        { replace (i + 1)%nat with (S i) by lia.
          destruct v as [| z | fn ps bd cl | x | b' pn' sc']; try discriminate.
          - destruct (err_if_private cur pn) as [e|] eqn:Ee.
            + eapply eip_not_fuel; eauto.
            + apply IHh.
              * rewrite Erest. simpl. lia.
              * rewrite skipn_length_le. nia.
          - apply IHs; [exact Hi2|nia]. }
        destruct setv; exact Hgoal.
    + intros h id dp i ret setv Hi Hf.
      rewrite hash_walk_S.
      destruct dp as [|a0 dp0] eqn:Edp; [simpl in Hi; lia|]. rewrite <- Edp in *.
      destruct (nth_error dp i) as [cur|] eqn:Ecur; [|discriminate].
      cbv zeta. rewrite (last_flag _ dp i Hi).
      destruct (skipn (S i) dp) as [|n2 rest2] eqn:Erest.
      * destruct setv; [discriminate|]. destruct (hash_get h id cur); discriminate.
      * assert (Hi2 : (S i < length dp)%nat) by (eapply skipn_length_pos; eauto).
        assert (Hgoal : (match hash_get h id cur with
                | None => Err ENotFoundHash
                | Some ret0 =>
                  match ret0 with
                  | VHash x => hash_walk f h x dp (i + 1) ret0 setv
                  | VStack b pn sc => stack_walk f h b pn sc (skipn (i + 1) dp) 0 VNull setv
                  | _ => Err ENotRec end end) <> Err EFuel).
        { replace (i + 1)%nat with (S i) by lia.
          destruct (hash_get h id cur) as [v|]; [|discriminate].
          destruct v as [| z | fn ps bd cl | x | b' pn' sc']; try discriminate.
          - apply IHh; [exact Hi2|nia].
          - apply IHs.
            + rewrite Erest. simpl. lia.
            + rewrite skipn_length_le. nia. }
        destruct setv; exact Hgoal.
Qed.

(* ---------- theorems at the entry points ---------- *)
Theorem path_walk_is_visible : forall fuel h pn sc path ret setv,
  path <> [] -> names_ok path ->
  stack_walk fuel h true pn sc path 0 ret setv <> Err EFuel ->
  verdict_of (stack_walk fuel h true pn sc path 0 ret setv) = visible h (CPkg pn sc) path setv.
Proof.
  intros fuel h pn sc path ret setv Hne Hn Hf.
  destruct (walk_refines fuel) as [Hs _].
  apply (Hs h pn sc path 0%nat ret setv); try assumption.
  destruct path; [congruence|simpl; lia].
Qed.

Theorem hash_walk_is_visible : forall fuel h id path ret setv,
  path <> [] -> names_ok path ->
  hash_walk fuel h id path 0 ret setv <> Err EFuel ->
  verdict_of (hash_walk fuel h id path 0 ret setv) = visible h (CHash id) path setv.
Proof.
  intros fuel h id path ret setv Hne Hn Hf.
  destruct (walk_refines fuel) as [_ Hh].
  apply (Hh h id path 0%nat ret setv); try assumption.
  destruct path; [congruence|simpl; lia].
Qed.

Theorem walk_fuel_enough : forall h b pn sc path ret setv id,
  path <> [] ->
  stack_walk (walk_fuel path) h b pn sc path 0 ret setv <> Err EFuel /\
  hash_walk (walk_fuel path) h id path 0 ret setv <> Err EFuel.
Proof.
  intros h b pn sc path ret setv id Hne.
  assert (Hl : (0 < length path)%nat) by (destruct path; [congruence|simpl; lia]).
  destruct (fuel_enough (walk_fuel path)) as [Hs Hh].
  unfold walk_fuel in *.
  split; [apply Hs|apply Hh]; try exact Hl; lia.
Qed.

(* functions.go dotGetSetHelper against the specification, for every heap, lexical context, path, read and write *)
Theorem dot_path_is_visible : forall h frame stack path setv,
  names_ok path ->
  verdict_of (dot_get_set h frame stack path setv) = PkgSpec.spec_path is_upper h frame stack path setv.
Proof.
  intros h frame stack path setv Hn.
  destruct path as [|key rest]; [reflexivity|].
  unfold Pkg.dot_get_set, spec_path.
  destruct rest as [|n2 rest2].
  - destruct setv as [v|].
    + destruct frame; destruct stack; reflexivity.
    + destruct (lexical_lookup h frame stack key) as [[ret o]|]; reflexivity.
  - assert (Hrest : names_ok (n2 :: rest2)) by (inversion Hn; assumption).
    assert (Hne : n2 :: rest2 <> []) by discriminate.
    assert (Hstep : verdict_of
       match lexical_lookup h frame stack key with
       | None => Err ENotFoundSym
       | Some (ret, _) =>
         match ret with
         | VStack true pn sc => stack_walk (walk_fuel (n2 :: rest2)) h true pn sc (n2 :: rest2) 0 VNull setv
         | VHash id => hash_walk (walk_fuel (n2 :: rest2)) h id (n2 :: rest2) 0 VNull setv
         | _ => Err ENotRec
         end
       end
     = match lexical_lookup h frame stack key with
       | None => NotFound
       | Some (ret, _) =>
         match ret with
         | VStack true pn sc => visible h (CPkg pn sc) (n2 :: rest2) setv
         | VHash id => visible h (CHash id) (n2 :: rest2) setv
         | _ => NotRecord
         end
       end).
    { destruct (lexical_lookup h frame stack key) as [[ret o]|]; [|reflexivity].
      destruct ret as [| z | fn ps bd cl | x | b' pn' sc']; try reflexivity.
      - apply hash_walk_is_visible; try assumption.
        apply (walk_fuel_enough h true [] [] (n2 :: rest2) VNull setv x Hne).
      - destruct b'; [|reflexivity].
        apply path_walk_is_visible; try assumption.
        apply (walk_fuel_enough h true pn' sc' (n2 :: rest2) VNull setv 0%nat Hne). }
    destruct setv; exact Hstep.
Qed.

(* ---------- aliases ---------- *)
Theorem alias_same : forall h frame stack a b rest setv,
  rest <> [] ->
  lexical_lookup h frame stack a = lexical_lookup h frame stack b ->
  dot_get_set h frame stack (a :: rest) setv = dot_get_set h frame stack (b :: rest) setv.
Proof.
  intros h frame stack a b rest setv Hne Heq.
  destruct rest as [|n2 rest2]; [congruence|].
  unfold Pkg.dot_get_set. rewrite Heq. reflexivity.
Qed.

(* a failed access leaves the world as it was: an error result carries no heap, and a read returns the heap it got *)
Lemma read_keeps_heap : forall fuel,
  (forall h b pn sc dp i ret h' v, stack_walk fuel h b pn sc dp i ret None = Ok (h', v) -> h' = h) /\
  (forall h id dp i ret h' v, hash_walk fuel h id dp i ret None = Ok (h', v) -> h' = h).
Proof.
  induction fuel as [|f [IHs IHh]].
  - split; intros; simpl in *; discriminate.
  - split.
    + intros h b pn sc dp i ret h' v H.
      rewrite stack_walk_S in H.
      destruct dp as [|a0 dp0] eqn:Edp; [discriminate|]. rewrite <- Edp in *.
      destruct (nth_error dp i) as [cur|]; [|inversion H; reflexivity].
      destruct (negb b); [discriminate|].
      destruct (stack_lookup h sc cur) as [[r scop]|]; [|discriminate].
      cbv zeta in H.
      destruct (Nat.eqb i (length dp - 1)).
      * destruct r; try (destruct (err_if_private cur pn); [discriminate|]); inversion H; reflexivity.
      * destruct r; try discriminate.
        -- destruct (err_if_private cur pn); [discriminate|]. eapply IHh; eauto.
        -- eapply IHs; eauto.
    + intros h id dp i ret h' v H.
      rewrite hash_walk_S in H.
      destruct dp as [|a0 dp0] eqn:Edp; [discriminate|]. rewrite <- Edp in *.
      destruct (nth_error dp i) as [cur|]; [|inversion H; reflexivity].
      cbv zeta in H.
      destruct (hash_get h id cur) as [r|].
      * destruct (Nat.eqb i (length dp - 1)).
        -- inversion H; reflexivity.
        -- destruct r; try discriminate.
           ++ eapply IHh; eauto.
           ++ eapply IHs; eauto.
      * destruct (Nat.eqb i (length dp - 1)); discriminate.
Qed.

Theorem read_does_not_change_world : forall h frame stack path h' v,
  dot_get_set h frame stack path None = Ok (h', v) -> h' = h.
Proof.
  intros h frame stack path h' v H.
  destruct path as [|key rest]; [discriminate|].
  unfold Pkg.dot_get_set in H.
  destruct rest as [|n2 rest2].
  - destruct (lexical_lookup h frame stack key) as [[r o]|]; [|discriminate]. inversion H; reflexivity.
  - destruct (lexical_lookup h frame stack key) as [[r o]|]; [|discriminate].
    destruct r; try discriminate.
    + destruct (read_keeps_heap (walk_fuel (n2 :: rest2))) as [_ Hh]. eapply Hh; eauto.
    + destruct ispkg; [|discriminate].
      destruct (read_keeps_heap (walk_fuel (n2 :: rest2))) as [Hs _]. eapply Hs; eauto.
Qed.

(* ---------- code defined inside the package ---------- *)
(* a function defined in a package body captures the package's scope stack *)
Theorem closure_is_package_stack : forall h stack self params body,
  build_val is_upper h stack self (DFun params body) = Ok (h, VFun self params body stack).
Proof. reflexivity. Qed.

Lemma run_body_simple_eq : forall fuel h ps b cl args,
  (forall p c, b <> BDotCall p c) ->
  run_body is_upper fuel h ps b cl args = run_body_simple is_upper h ps b cl args.
Proof.
  intros fuel h ps b cl args H.
  destruct fuel; destruct b; try reflexivity; exfalso; eapply H; reflexivity.
Qed.

(* full access: a member of the package's own scope, whatever its case, is read by a plain symbol
   from a function whose captured stack starts with that scope (unless a parameter shadows it) *)
Theorem inside_full_access : forall fuel h params args own outer m n v,
  scope_map h own = Some m -> assoc m n = Some v ->
  assoc (zip_params params args) n = None ->
  run_body is_upper fuel h params (BGet n) (own :: outer) args = Ok (h, v).
Proof.
  intros fuel h params args own outer m n v Hm Ha Hp.
  rewrite run_body_simple_eq by discriminate.
  unfold run_body_simple, lexical_lookup. rewrite Hp. simpl. rewrite Hm, Ha. reflexivity.
Qed.

Theorem inside_full_access_set : forall fuel h params a args own outer m n old,
  scope_map h own = Some m -> assoc m n = Some old ->
  assoc (zip_params params (a :: args)) n = None ->
  run_body is_upper fuel h params (BSet n) (own :: outer) (a :: args) = Ok (scope_set h own n a, a).
Proof.
  intros fuel h params a args own outer m n old Hm Ha Hp.
  rewrite run_body_simple_eq by discriminate.
  unfold run_body_simple, lexical_set, lexical_lookup. rewrite Hp. simpl. rewrite Hm, Ha. reflexivity.
Qed.

(* members of enclosing packages are reached the same way (lexical chain), first binding wins *)
Theorem inside_sees_enclosing : forall fuel h params args clos n v s,
  assoc (zip_params params args) n = None ->
  stack_lookup h clos n = Some (v, s) ->
  run_body is_upper fuel h params (BGet n) clos args = Ok (h, v).
Proof.
  intros fuel h params args clos n v s Hp Hl.
  rewrite run_body_simple_eq by discriminate.
  unfold run_body_simple, lexical_lookup. rewrite Hp, Hl. reflexivity.
Qed.

(* ---------- dot paths written inside a package: lexical head, never the caller's bindings ---------- *)
(* a dot path read inside a function body is the specification's verdict in the function's own
   lexical context (parameters, then captured scopes) *)
Theorem inside_dot_read_is_visible : forall fuel h params clos args p,
  names_ok p ->
  verdict_of (run_body is_upper fuel h params (BDot p) clos args)
    = PkgSpec.spec_path is_upper h (zip_params params args) clos p None.
Proof. intros. rewrite run_body_simple_eq by discriminate. unfold run_body_simple. apply dot_path_is_visible; assumption. Qed.

Theorem inside_dot_write_is_visible : forall fuel h params clos a args p,
  names_ok p ->
  verdict_of (run_body is_upper fuel h params (BDotSet p) clos (a :: args))
    = PkgSpec.spec_path is_upper h (zip_params params (a :: args)) clos p (Some a).
Proof. intros. rewrite run_body_simple_eq by discriminate. unfold run_body_simple. apply dot_path_is_visible; assumption. Qed.

(* the head of the path resolves to the member of the package's own scope (whatever its case),
   so the walk starts from the package's own hash / nested package *)
Theorem inside_dot_head_is_own_member : forall h params args own outer m key v,
  scope_map h own = Some m -> assoc m key = Some v ->
  assoc (zip_params params args) key = None ->
  lexical_lookup h (zip_params params args) (own :: outer) key = Some (v, Some own).
Proof.
  intros h params args own outer m key v Hm Ha Hp.
  unfold lexical_lookup. rewrite Hp. simpl. rewrite Hm, Ha. reflexivity.
Qed.

(* bindings of the CALLER (its parameters / locals) never reach the callee: a call made from a
   context whose frame does not bind the head of the call path gives the same result and effects
   as the call made at top level; the callee's body has no access to the caller's frame at all *)
Lemma lexical_lookup_frame_irrelevant : forall h frame stack key,
  assoc frame key = None -> lexical_lookup h frame stack key = lexical_lookup h [] stack key.
Proof. intros. unfold lexical_lookup. rewrite H. reflexivity. Qed.

Theorem caller_bindings_do_not_leak : forall h frame stack key rest args,
  assoc frame key = None ->
  call_path is_upper h frame stack (key :: rest) args = call_path is_upper h [] stack (key :: rest) args.
Proof.
  intros h frame stack key rest args Hf.
  unfold call_path, Pkg.dot_get_set.
  rewrite (lexical_lookup_frame_irrelevant h frame stack key Hf).
  destruct rest; reflexivity.
Qed.

(* ---------- assignment whose right-hand side is itself a dot path ---------- *)
(* {target = source}, (set target source), (= target source): the right-hand side must be readable
   (a private source is refused and nothing is stored); then the VALUE is assigned under the rule *)
Theorem assign_from_path_is_visible : forall h target source,
  names_ok target -> names_ok source ->
  verdict_of (run_op is_upper h (OpSetFrom target source)) = spec_op is_upper h (OpSetFrom target source).
Proof.
  intros h target source Ht Hs.
  unfold run_op, spec_op.
  rewrite <- (dot_path_is_visible h [] [0%nat] source None Hs).
  destruct (dot_get_set h [] [0%nat] source None) as [[h' v]|e] eqn:E.
  - simpl. apply dot_path_is_visible; assumption.
  - destruct e; reflexivity.
Qed.

Theorem assign_from_private_source_stores_nothing : forall h target source e,
  dot_get_set h [] [0%nat] source None = Err e ->
  run_op is_upper h (OpSetFrom target source) = Err e.
Proof. intros h target source e H. unfold run_op. rewrite H. reflexivity. Qed.

(* ---------- calls through dot paths made inside functions (facades) ---------- *)
Definition body_ok (b : fbody) : Prop :=
  match b with
  | BDot p | BDotSet p | BDotCall p _ => names_ok p
  | _ => True
  end.

(* every function value a dot path can yield has non-empty path parts in its body *)
Definition funs_ok (h : heap) : Prop :=
  forall frame stack p h' fn ps b cl,
    dot_get_set h frame stack p None = Ok (h', VFun fn ps b cl) -> body_ok b.

Lemma simple_body_is_spec : forall h params body clos args,
  body_ok body -> (forall p c, body <> BDotCall p c) ->
  verdict_of (run_body_simple is_upper h params body clos args)
    = spec_body_simple is_upper h params body clos args.
Proof.
  intros h params body clos args Hb Hn.
  destruct body as [n|n|p|p|p c|n]; unfold run_body_simple, spec_body_simple.
  - destruct (lexical_lookup h (zip_params params args) clos n) as [[v o]|]; reflexivity.
  - reflexivity.
  - apply dot_path_is_visible; exact Hb.
  - apply dot_path_is_visible; exact Hb.
  - exfalso. eapply Hn. reflexivity.
  - reflexivity.
Qed.

(* the callee of (a.b.F args) written inside a function is the member the path yields under the
   visibility rule -- whatever the calling function itself is called -- to any nesting depth *)
Theorem inside_call_is_spec : forall fuel h params body clos args,
  funs_ok h -> body_ok body ->
  verdict_of (run_body is_upper fuel h params body clos args)
    = spec_body is_upper fuel h params body clos args.
Proof.
  induction fuel as [|f IH]; intros h params body clos args Hf Hb.
  - destruct body as [n|n|p|p|p c|n]; try (apply simple_body_is_spec; [exact Hb|discriminate]).
    reflexivity.
  - destruct body as [n|n|p|p|p c|n]; try (apply simple_body_is_spec; [exact Hb|discriminate]).
    cbn [run_body Pkg.run_body spec_body PkgSpec.spec_body].
    rewrite <- (dot_path_is_visible h (zip_params params args) clos p None Hb).
    destruct (dot_get_set h (zip_params params args) clos p None) as [[h' v]|e] eqn:E.
    + simpl verdict_of at 2.
      destruct v as [| z | fn ps bd cl | x | b' pn' sc']; try (destruct c; reflexivity).
      destruct (Nat.eqb (length ps) (length c)); [|reflexivity].
      apply IH; [exact Hf|]. eapply Hf. exact E.
    + destruct e; reflexivity.
Qed.

End WithUpper.

(* ---------- concrete worlds: non-vacuity ---------- *)
Definition ascii_upper (z : Z) : bool := (65 <=? z) && (z <=? 90).

Definition n_pk : name := [112; 107].        (* pk *)
Definition n_Pub : name := [80; 117; 98].    (* Pub *)
Definition n_priv : name := [112; 114; 105; 118]. (* priv *)
Definition n_P : name := [80].
Definition n_N : name := [78].
Definition n_h2 : name := [104; 50].         (* h2 *)
Definition n_al : name := [97; 108].         (* al *)
Definition n_Get : name := [71; 101; 116].   (* Get *)
Definition n_inner : name := [105; 110].     (* in *)
Definition n_b : name := [98].

(* (def pk (package "pk" { (def Pub 1); (def priv 2); (def P 77); (defn Get [] priv);
                            (def in (package "in" { (def P 3); (def b 4) })) }))
   (def h2 (hash N:(hash P:pk)))   (def al pk) *)
Definition demo_defs : list (name * decl) :=
  [ (n_pk, DPkg n_pk [ (n_Pub, DInt 1); (n_priv, DInt 2); (n_P, DInt 77); (n_Get, DFun [] (BGet n_priv));
                       (n_inner, DPkg n_inner [ (n_P, DInt 3); (n_b, DInt 4) ]) ]);
    (n_h2, DHash [ (n_N, DHash [ (n_P, DRef [n_pk]) ]) ]);
    (n_al, DRef [n_pk]) ].

Definition demo_heap : heap :=
  match build_world ascii_upper heap0 demo_defs with Ok h => h | Err _ => [] end.

(* a package held by a nested hash is walked with the remaining path (repaired defect f8495e7) *)
Lemma ex_package_in_nested_hash :
  run_op ascii_upper demo_heap (OpGet [n_h2; n_N; n_P; n_Pub]) = Ok (demo_heap, VInt 1) /\
  run_op ascii_upper demo_heap (OpGet [n_h2; n_N; n_P; n_priv]) = Err (EPriv n_priv n_pk).
Proof. split; vm_compute; reflexivity. Qed.

Lemma ex_read_public :
  run_op ascii_upper demo_heap (OpGet [n_pk; n_Pub]) = Ok (demo_heap, VInt 1).
Proof. vm_compute. reflexivity. Qed.

Lemma ex_read_private_denied :
  run_op ascii_upper demo_heap (OpGet [n_pk; n_priv]) = Err (EPriv n_priv n_pk) /\
  run_op ascii_upper demo_heap (OpGet [n_al; n_priv]) = Err (EPriv n_priv n_pk) /\
  run_op ascii_upper demo_heap (OpGet [n_pk; n_inner; n_b]) = Err (EPriv n_b n_inner) /\
  run_op ascii_upper demo_heap (OpGet [n_h2; n_N; n_P]) <> Err ENotRec.
Proof. repeat split; vm_compute; try reflexivity; discriminate. Qed.

Lemma ex_nested_traversable_any_case :
  run_op ascii_upper demo_heap (OpGet [n_pk; n_inner; n_P]) = Ok (demo_heap, VInt 3).
Proof. vm_compute. reflexivity. Qed.

Lemma ex_write_private_denied_public_allowed :
  run_op ascii_upper demo_heap (OpSet [n_pk; n_priv] 9) = Err (EPriv n_priv n_pk) /\
  match run_op ascii_upper demo_heap (OpSet [n_pk; n_Pub] 9) with
  | Ok (h', VInt 9) => run_op ascii_upper h' (OpGet [n_al; n_Pub]) = Ok (h', VInt 9)
  | _ => False
  end.
Proof. split; vm_compute; reflexivity. Qed.

Lemma ex_inside_reads_private :
  run_op ascii_upper demo_heap (OpCall [n_pk; n_Get] []) = Ok (demo_heap, VInt 2).
Proof. vm_compute. reflexivity. Qed.

(* second concrete world: nil-valued members, a facade with the callee's own name, path-to-path assignment
   (def pk (package "pk" { (def Pub 1); (def priv 2); (def Nn nil); (def nn nil);
       (def in (package "in" { (defn Scale [x] x) })); (defn Scale [x] (in.Scale 7)) })) *)
Definition n_Nn : name := [78; 110].
Definition n_nn : name := [110; 110].
Definition n_Scale : name := [83; 99; 97; 108; 101].
Definition n_x : name := [120].
Definition demo2_defs : list (name * decl) :=
  [ (n_pk, DPkg n_pk [ (n_Pub, DInt 1); (n_priv, DInt 2); (n_Nn, DNil); (n_nn, DNil);
                       (n_inner, DPkg n_inner [ (n_Scale, DFun [n_x] (BGet n_x)) ]);
                       (n_Scale, DFun [n_x] (BDotCall [n_inner; n_Scale] [7])) ]) ].
Definition demo2_heap : heap :=
  match build_world ascii_upper heap0 demo2_defs with Ok h => h | Err _ => [] end.

Lemma ex_nil_member_obeys_the_rule :
  run_op ascii_upper demo2_heap (OpGet [n_pk; n_nn]) = Err (EPriv n_nn n_pk) /\
  run_op ascii_upper demo2_heap (OpSet [n_pk; n_nn] 5) = Err (EPriv n_nn n_pk) /\
  run_op ascii_upper demo2_heap (OpGet [n_pk; n_Nn]) = Ok (demo2_heap, VNull) /\
  match run_op ascii_upper demo2_heap (OpSet [n_pk; n_Nn] 5) with
  | Ok (h', _) => run_op ascii_upper h' (OpGet [n_pk; n_Nn]) = Ok (h', VInt 5)
  | _ => False
  end.
Proof. repeat split; vm_compute; reflexivity. Qed.

Lemma ex_assign_from_path :
  run_op ascii_upper demo2_heap (OpSetFrom [n_pk; n_Pub] [n_pk; n_priv]) = Err (EPriv n_priv n_pk) /\
  match run_op ascii_upper demo2_heap (OpSetFrom [n_pk; n_Nn] [n_pk; n_Pub]) with
  | Ok (h', VInt 1) => run_op ascii_upper h' (OpGet [n_pk; n_Nn]) = Ok (h', VInt 1)
  | _ => False
  end.
Proof. split; vm_compute; reflexivity. Qed.

Lemma ex_facade_with_the_callees_name :
  run_op ascii_upper demo2_heap (OpCall [n_pk; n_Scale] [3]) = Ok (demo2_heap, VInt 7) /\
  match run_op ascii_upper demo2_heap (OpCallVia n_Scale n_x n_pk [n_pk; n_Scale] [3]) with
  | Ok (_, VInt 7) => True
  | _ => False
  end.
Proof. split; vm_compute; [reflexivity|exact I]. Qed.
