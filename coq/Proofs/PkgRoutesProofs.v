(* C18 proofs, part 2: every route into the dot-path resolution code obeys the one visibility
   specification (Model/PkgSpec.v), and the census of routes generated from the source is the
   set of routes modelled. *)
From Coq Require Import ZArith List Bool Lia Arith.
Import ListNotations.
Require Import ZV.Model.Pkg ZV.Model.PkgSpec ZV.Generated.PkgRoutes ZV.Model.PkgRoutes ZV.Proofs.PkgProofs.
Open Scope Z_scope.

(* ---------- tie to the source: the generated census is what the model covers ---------- *)
Lemma census_is_modelled : census_ok helper_sites = true.
Proof. vm_compute. reflexivity. Qed.

Lemma walkers_as_modelled : shape_eqb (walker_shape walker_sites) expected_walkers = true.
Proof. vm_compute. reflexivity. Qed.

Lemma privacy_checked_only_in_package_walker : private_ok private_sites = true.
Proof. vm_compute. reflexivity. Qed.

Section WithUpper.
Variable is_upper : Z -> bool.

Notation dot_get_set := (dot_get_set is_upper).
Notation spec_path := (spec_path is_upper).
Notation visible := (visible is_upper).
Notation route_run := (route_run is_upper).
Notation route_spec := (route_spec is_upper).
Notation site_run := (site_run is_upper).

(* ---------- every call site of the helper: one specification, hence the same hop ---------- *)
Theorem all_sites_check_the_same_hop : forall s h frame stack path v,
  names_ok path ->
  verdict_of (site_run s h frame stack path v)
    = spec_path h frame stack path (match site_access s with AGet => None | _ => Some v end).
Proof. intros. unfold PkgRoutes.site_run. apply dot_path_is_visible. assumption. Qed.

Theorem read_sites_agree : forall s1 s2 h frame stack path v1 v2,
  site_access s1 = AGet -> site_access s2 = AGet ->
  site_run s1 h frame stack path v1 = site_run s2 h frame stack path v2.
Proof. intros s1 s2 h frame stack path v1 v2 H1 H2. unfold PkgRoutes.site_run. rewrite H1, H2. reflexivity. Qed.

Theorem write_sites_agree : forall s1 s2 h frame stack path v,
  site_access s1 = ASet -> site_access s2 = ASet ->
  site_run s1 h frame stack path v = site_run s2 h frame stack path v.
Proof. intros s1 s2 h frame stack path v H1 H2. unfold PkgRoutes.site_run. rewrite H1, H2. reflexivity. Qed.

(* ---------- calls ---------- *)
Lemma call_path_is_spec_call : forall h frame p args,
  funs_ok is_upper h -> names_ok p ->
  verdict_of (call_path is_upper h frame [0%nat] p (map VInt args)) = spec_call is_upper h frame p args.
Proof.
  intros h frame p args Hf Hp. unfold call_path, spec_call.
  rewrite <- (dot_path_is_visible is_upper h frame [0%nat] p None Hp).
  destruct (dot_get_set h frame [0%nat] p None) as [[h' v]|e] eqn:E.
  - simpl verdict_of at 2.
    destruct v as [| z | fn ps bd cl | x | b' pn' sc']; try (destruct args; reflexivity).
    rewrite map_length.
    destruct (Nat.eqb (length ps) (length args)); [|reflexivity].
    apply inside_call_is_spec; [exact Hf|]. eapply Hf. exact E.
  - destruct e; reflexivity.
Qed.

(* ---------- routes ---------- *)
Definition route_ok (h : heap) (r : rop) : Prop :=
  match r with
  | RBase (OpGet p) | RBase (OpSet p _) => names_ok p
  | RBase (OpSetFrom t s) => names_ok t /\ names_ok s
  | RBase (OpCall p _) => names_ok p /\ funs_ok is_upper h
  | RBase (OpCallVia w param a p args) =>
    names_ok p /\ funs_ok is_upper (scope_set h 0 w (VFun w [param] (BDotCall p args) [0%nat]))
  | RDeref p | RArg p | RCompound p => names_ok p
  | RCallExpr p _ | RIndirect p _ => names_ok p /\ funs_ok is_upper h
  | RHget root rest => names_ok root /\ names_ok rest /\ rest <> []
  | RDefDot p _ => True
  end.

Theorem every_route_is_visible : forall h r,
  route_ok h r -> verdict_of (route_run h r) = route_spec h r.
Proof.
  intros h r Hok. destruct r as [o|p|p|p args|p args|root rest|p|p z]; cbn [PkgRoutes.route_run PkgRoutes.route_spec].
  - destruct o as [p|p z|p args|w param a p args|t s]; cbn [route_ok] in Hok; cbn [run_op spec_op].
    + apply dot_path_is_visible; assumption.
    + apply dot_path_is_visible; assumption.
    + destruct Hok as [Hp Hf]. apply call_path_is_spec_call; assumption.
    + destruct Hok as [Hp Hf].
      destruct (stack_lookup _ [0%nat] a) as [[v s]|]; [|reflexivity].
      apply call_path_is_spec_call; assumption.
    + destruct Hok as [Ht Hs]. apply (assign_from_path_is_visible is_upper h t s Ht Hs).
  - apply (all_sites_check_the_same_hop SDeref). exact Hok.
  - apply (all_sites_check_the_same_hop SSymRHS). exact Hok.
  - destruct Hok as [Hp Hf]. apply call_path_is_spec_call; assumption.
  - destruct Hok as [Hp Hf]. apply call_path_is_spec_call; assumption.
  - destruct Hok as [Hr [Hs Hne]].
    pose proof (all_sites_check_the_same_hop SSymRHS h [] top root VNull Hr) as A.
    cbn [site_access] in A. rewrite <- A. clear A.
    destruct (site_run SSymRHS h [] top root VNull) as [[h' v]|e] eqn:E.
    + simpl verdict_of at 2.
      destruct v as [| z | fn ps bd cl | x | b' pn' sc']; try reflexivity.
      apply hash_walk_is_visible; [exact Hne|exact Hs|].
      apply (walk_fuel_enough is_upper h true [] [] rest VNull None x Hne).
    + destruct e; reflexivity.
  - pose proof (all_sites_check_the_same_hop SSymRHS h [] top p VNull Hok) as A.
    cbn [site_access] in A. rewrite <- A. clear A.
    destruct (site_run SSymRHS h [] top p VNull) as [[h' v]|e]; [reflexivity|destruct e; reflexivity].
  - destruct p as [|a [|b p']]; reflexivity.
Qed.

(* ---------- whatever the route: a path the rule denies is denied, with the same member named ---------- *)
Lemma verdict_denied_inv : forall r m pk, verdict_of r = Denied m pk -> r = Err (EPriv m pk).
Proof.
  intros r m pk H. destruct r as [[h v]|e]; [discriminate|].
  destruct e; try discriminate. simpl in H. inversion H. reflexivity.
Qed.

Theorem every_read_route_denies_private : forall h r p m pk,
  route_reads r = Some p -> names_ok p ->
  spec_path h [] top p None = Denied m pk ->
  route_run h r = Err (EPriv m pk).
Proof.
  intros h r p m pk Hr Hp Hd.
  assert (E : dot_get_set h [] top p None = Err (EPriv m pk)).
  { apply verdict_denied_inv. rewrite dot_path_is_visible by exact Hp. exact Hd. }
  destruct r as [o|q|q|q args|q args|root rest|q|q z]; cbn [route_reads] in Hr.
  - destruct o as [q|q z|q args|w param a q args|t s]; inversion Hr; subst; unfold PkgRoutes.route_run, run_op.
    + exact E.
    + unfold call_path. unfold top in E. rewrite E. reflexivity.
    + unfold top in E. rewrite E. reflexivity.
  - inversion Hr; subst. exact E.
  - inversion Hr; subst. exact E.
  - inversion Hr; subst. cbn [PkgRoutes.route_run]. unfold call_path. rewrite E. reflexivity.
  - inversion Hr; subst. cbn [PkgRoutes.route_run]. unfold call_path. rewrite E. reflexivity.
  - inversion Hr; subst. cbn [PkgRoutes.route_run]. unfold PkgRoutes.site_run. cbn [site_access]. rewrite E. reflexivity.
  - inversion Hr; subst. cbn [PkgRoutes.route_run]. unfold PkgRoutes.site_run. cbn [site_access]. rewrite E. reflexivity.
  - discriminate.
Qed.

Theorem every_write_site_denies_private : forall s h frame stack p v m pk,
  site_access s = ASet -> names_ok p ->
  spec_path h frame stack p (Some v) = Denied m pk ->
  site_run s h frame stack p v = Err (EPriv m pk).
Proof.
  intros s h frame stack p v m pk Hs Hp Hd.
  apply verdict_denied_inv. rewrite all_sites_check_the_same_hop by exact Hp. rewrite Hs. exact Hd.
Qed.

Theorem every_write_route_denies_private : forall h r p v m pk,
  route_writes r = Some (p, v) -> names_ok p ->
  spec_path h [] top p (Some v) = Denied m pk ->
  route_run h r = Err (EPriv m pk) /\ route_spec h r = Denied m pk.
Proof.
  intros h r p v m pk Hr Hp Hd.
  destruct r as [o|q|q|q args|q args|root rest|q|q z]; try discriminate.
  destruct o as [q|q z|q args|w param a q args|t s]; try discriminate.
  cbn [route_writes] in Hr. inversion Hr; subst.
  split.
  - unfold PkgRoutes.route_run, run_op. apply verdict_denied_inv.
    rewrite dot_path_is_visible by exact Hp. exact Hd.
  - exact Hd.
Qed.

(* ---------- hget with a dot key is the dot path root.rest ---------- *)
Lemma visible_step : forall h c n n2 p setv,
  visible h c (n :: n2 :: p) setv =
  match c with
  | CPkg pn sc =>
    match stack_lookup h sc n with
    | None => NotFound
    | Some (v, _) =>
      match v with
      | VStack true pn' sc' => visible h (CPkg pn' sc') (n2 :: p) setv
      | VStack false _ _ => NotRecord
      | VHash id => if public is_upper n then visible h (CHash id) (n2 :: p) setv else Denied n pn
      | _ => NotRecord
      end
    end
  | CHash id =>
    match hash_get h id n with
    | None => NotFound
    | Some (VHash id') => visible h (CHash id') (n2 :: p) setv
    | Some (VStack true pn sc) => visible h (CPkg pn sc) (n2 :: p) setv
    | Some _ => NotRecord
    end
  end.
Proof. intros. destruct c; reflexivity. Qed.

Lemma visible_app_hash : forall h p c rest h' id,
  rest <> [] ->
  visible h c p None = Allowed h' (VHash id) ->
  visible h c (p ++ rest) None = visible h (CHash id) rest None.
Proof.
  intros h p. induction p as [|n p IH]; intros c rest h' id Hne H.
  - simpl in H. discriminate.
  - destruct p as [|n2 p'].
    + (* final part *)
      destruct rest as [|r0 rest']; [contradiction|].
      cbn [app]. cbn [PkgSpec.visible] in H |- *.
      destruct c as [pn sc|hid].
      * destruct (stack_lookup h sc n) as [[v scop]|]; [|discriminate].
        destruct (is_stack v || public is_upper n) eqn:Ev; [|discriminate].
        inversion H; subst. simpl in Ev. rewrite Ev. reflexivity.
      * destruct (hash_get h hid n) as [v|]; [|discriminate].
        inversion H; subst. reflexivity.
    + change ((n :: n2 :: p') ++ rest) with (n :: n2 :: (p' ++ rest)).
      rewrite visible_step. rewrite visible_step in H.
      change (n2 :: p' ++ rest) with ((n2 :: p') ++ rest).
      destruct c as [pn sc|hid].
      * destruct (stack_lookup h sc n) as [[v scop]|]; [|discriminate].
        destruct v as [| z | fn ps bd cl | x | b' pn' sc']; try discriminate.
        -- destruct (public is_upper n); [|discriminate]. eapply IH; eassumption.
        -- destruct b'; [|discriminate]. eapply IH; eassumption.
      * destruct (hash_get h hid n) as [v|]; [|discriminate].
        destruct v as [| z | fn ps bd cl | x | b' pn' sc']; try discriminate.
        -- eapply IH; eassumption.
        -- destruct b'; [|discriminate]. eapply IH; eassumption.
Qed.

Theorem hget_route_is_the_dot_path : forall h root rest h' id,
  rest <> [] ->
  spec_path h [] top root None = Allowed h' (VHash id) ->
  route_spec h (RHget root rest) = spec_path h [] top (root ++ rest) None.
Proof.
  intros h root rest h' id Hne H. cbn [PkgRoutes.route_spec]. rewrite H.
  destruct root as [|key r0]; [discriminate|].
  destruct rest as [|q rest']; [contradiction|].
  unfold PkgSpec.spec_path in H |- *.
  destruct r0 as [|n r0'].
  - cbn [app].
    destruct (lexical_lookup h [] top key) as [[ret o]|]; [|discriminate].
    inversion H; subst. reflexivity.
  - change ((key :: n :: r0') ++ q :: rest') with (key :: n :: (r0' ++ q :: rest')).
    cbv beta iota in H |- *.
    destruct (lexical_lookup h [] top key) as [[ret o]|] eqn:EL; [|discriminate].
    change (n :: r0' ++ q :: rest') with ((n :: r0') ++ q :: rest').
    destruct ret as [| z | fn ps bd cl | x | b' pn' sc']; try discriminate.
    + symmetry. eapply visible_app_hash; [discriminate|eassumption].
    + destruct b'; [|discriminate]. symmetry. eapply visible_app_hash; [discriminate|eassumption].
Qed.

End WithUpper.

(* ---------- non-vacuity on the concrete world of PkgProofs ---------- *)
Lemma ex_routes_deny_private :
  route_run ascii_upper demo_heap (RDeref [n_pk; n_priv]) = Err (EPriv n_priv n_pk) /\
  route_run ascii_upper demo_heap (RArg [n_pk; n_priv]) = Err (EPriv n_priv n_pk) /\
  route_run ascii_upper demo_heap (RCallExpr [n_pk; n_priv] []) = Err (EPriv n_priv n_pk) /\
  route_run ascii_upper demo_heap (RIndirect [n_pk; n_priv] []) = Err (EPriv n_priv n_pk) /\
  route_run ascii_upper demo_heap (RCompound [n_pk; n_priv]) = Err (EPriv n_priv n_pk) /\
  route_run ascii_upper demo_heap (RHget [n_h2] [n_N; n_P; n_priv]) = Err (EPriv n_priv n_pk).
Proof. vm_compute. repeat split; reflexivity. Qed.

Lemma ex_routes_allow_public :
  route_run ascii_upper demo_heap (RDeref [n_pk; n_Pub]) = Ok (demo_heap, VInt 1) /\
  route_run ascii_upper demo_heap (RCallExpr [n_pk; n_Get] []) = Ok (demo_heap, VInt 2) /\
  route_run ascii_upper demo_heap (RHget [n_h2] [n_N; n_P; n_Pub]) = Ok (demo_heap, VInt 1) /\
  route_run ascii_upper demo_heap (RCompound [n_pk; n_Pub]) = Err ENotFun /\
  route_run ascii_upper demo_heap (RDefDot [n_pk; n_priv] 5) = Ok (demo_heap, VInt 5).
Proof. vm_compute. repeat split; reflexivity. Qed.
