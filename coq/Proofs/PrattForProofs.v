(* C06 — go-style for headers: the index and slice sites of lowerRangeFor are guarded
   (no RCrash of their own), and a three-clause header lowers to (for [init test post] body). *)
From Coq Require Import ZArith String List Bool Lia Arith.
Import ListNotations.
Require Import ZV.Model.PrattTypes ZV.Model.Pratt ZV.Model.PrattFor.
Open Scope Z_scope.

Definition for_consts_ok (C : forconsts) : bool :=
  fc_guard_le C && Nat.leb (fc_index_off C) (fc_guard_off C)
  && Nat.leb (fc_source_off C) (S (fc_guard_off C)) && Nat.eqb (fc_nsemi C) 2.

Section ForProofs.
  Variable entries : list entry.
  Variable K : lbpconsts.
  Variable C : forconsts.
  Variable led_err : tok -> bool.
  Variables is_body body_empty : tok -> bool.
  Hypothesis OK : for_consts_ok C = true.

  Notation parse_clause := (parse_clause entries K led_err).
  Notation lower_range := (lower_range entries K C led_err body_empty).
  Notation lower_go_for := (lower_go_for entries K C led_err body_empty).

  Lemma ok_parts : fc_guard_le C = true /\ (fc_index_off C <= fc_guard_off C)%nat /\
                   (fc_source_off C <= S (fc_guard_off C))%nat /\ fc_nsemi C = 2%nat.
  Proof.
    unfold for_consts_ok in OK.
    apply andb_prop in OK. destruct OK as (H & H4). apply andb_prop in H. destruct H as (H & H3).
    apply andb_prop in H. destruct H as (H1 & H2).
    apply Nat.leb_le in H2, H3. apply Nat.eqb_eq in H4. auto.
  Qed.

  (* the only way lowerRangeFor can crash is a crash inside Expression on the range expression:
     header[assignPos+1] and header[assignPos+2:] are never out of range *)
  Theorem lower_range_index_safe : forall label header body,
    lower_range label header body = RangeIs RCrash ->
    exists src, parse_clause src = RCrash.
  Proof.
    intros label header body H. unfold PrattFor.lower_range in H.
    destruct ok_parts as (G1 & G2 & G3 & _). rewrite G1 in H.
    destruct (find_assign header 0) as [[pos define]|].
    2:{ destruct (has_range header); discriminate. }
    destruct (Nat.leb (length header) (pos + fc_guard_off C)) eqn:El.
    { destruct (has_range header); discriminate. }
    apply Nat.leb_gt in El.
    destruct (nth_error header (pos + fc_index_off C)) as [t|] eqn:En.
    2:{ apply nth_error_None in En. lia. }
    destruct (negb (sym_named "range" t)).
    { destruct (has_range header); discriminate. }
    destruct (range_targets (firstn pos header)) as [targets| | | |]; try discriminate.
    destruct (Nat.ltb (length header) (pos + fc_source_off C)) eqn:Es.
    { apply Nat.ltb_lt in Es. lia. }
    destruct (skipn (pos + fc_source_off C) header) as [|s0 sr] eqn:Esk; [discriminate|].
    destruct (parse_clause (s0 :: sr)) as [[x|]| | | |] eqn:Ep; try discriminate.
    eauto.
  Qed.

  Theorem lower_go_for_index_safe : forall label header body,
    lower_go_for label header body = RCrash -> exists src, parse_clause src = RCrash.
  Proof.
    intros label header body H. unfold PrattFor.lower_go_for in H.
    destruct (length (filter is_semi header)) as [|n].
    - destruct (lower_range label header body) as [|r] eqn:Er.
      + destruct (parse_clause header) eqn:Ep; cbn in H; try discriminate. eauto.
      + subst r. eapply lower_range_index_safe; eauto.
    - destruct (negb (Nat.eqb (S n) (fc_nsemi C))); [discriminate|].
      destruct (split_semis header) as [|s0 [|s1 [|s2 [|s3 r]]]]; try discriminate.
      destruct (parse_clause s0) eqn:E0; cbn in H; try discriminate; eauto.
      destruct (parse_clause s1) eqn:E1; cbn in H; try discriminate; eauto.
      destruct (parse_clause s2) eqn:E2; cbn in H; try discriminate; eauto.
  Qed.

  (* ---- three-clause header: init ; test ; post ---- *)
  Definition no_semi (ts : list tok) : Prop := Forall (fun t => is_semi t = false) ts.

  Lemma split_semis_nosemi : forall ts, no_semi ts -> split_semis ts = [ts].
  Proof.
    induction ts as [|t r IH]; intros H; cbn [split_semis]; auto.
    inversion H; subst. rewrite H2, IH; auto.
  Qed.

  Lemma split_semis_app : forall s0 rest, no_semi s0 ->
    split_semis (s0 ++ TSemi :: rest) = s0 :: split_semis rest.
  Proof.
    induction s0 as [|t r IH]; intros rest H; cbn [app split_semis].
    - reflexivity.
    - inversion H; subst. rewrite H2, IH; auto.
  Qed.

  Lemma count_nosemi : forall ts, no_semi ts -> filter is_semi ts = [].
  Proof.
    induction ts as [|t r IH]; intros H; cbn [filter]; auto. inversion H; subst. rewrite H2. auto.
  Qed.

  Theorem three_clause : forall label s0 s1 s2 body,
    no_semi s0 -> no_semi s1 -> no_semi s2 ->
    lower_go_for label (s0 ++ TSemi :: s1 ++ TSemi :: s2) body =
      bind_res (parse_clause s0) (fun init =>
      bind_res (parse_clause s1) (fun test =>
      bind_res (parse_clause s2) (fun post =>
        ROk (FThree label init test post (body_of body_empty body))))).
  Proof.
    intros label s0 s1 s2 body H0 H1 H2. unfold PrattFor.lower_go_for.
    destruct ok_parts as (_ & _ & _ & Hn).
    assert (Hc : length (filter is_semi (s0 ++ TSemi :: s1 ++ TSemi :: s2)) = 2%nat).
    { rewrite !filter_app. cbn [filter is_semi]. rewrite !filter_app. cbn [filter is_semi].
      rewrite (count_nosemi _ H0), (count_nosemi _ H1), (count_nosemi _ H2). reflexivity. }
    rewrite Hc, Hn. cbn [Nat.eqb negb].
    rewrite (split_semis_app s0 _ H0), (split_semis_app s1 _ H1), (split_semis_nosemi s2 H2).
    reflexivity.
  Qed.
End ForProofs.
