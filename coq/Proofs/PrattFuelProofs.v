(* C01 - the crash-level Pratt model (Model/PrattShape.v) terminates: with fuel linear in the weight of
   the token list no function of the model answers PFuel, so together with pratt_total every token list
   yields POk or PErr - InfixExpandArray returns a value or an error. *)
From Coq Require Import ZArith String List Bool Arith Lia.
Import ListNotations.
Require Import ZV.Model.PrattTypes ZV.Model.Pratt ZV.Model.PrattShape ZV.Proofs.PrattShapeProofs.
Require Import ZV.Generated.InfixTable.
Open Scope nat_scope.

Lemma pws_cons : forall x l, pws (x :: l) = pw x + pws l.
Proof. reflexivity. Qed.
Lemma pws_nil : pws [] = 0.
Proof. reflexivity. Qed.
Arguments pws : simpl never.
Lemma pws_app : forall a b, pws (a ++ b) = pws a + pws b.
Proof. induction a as [|x a IH]; intros b; [reflexivity|]. rewrite <- app_comm_cons, !pws_cons, IH. lia. Qed.
Lemma pw_pos : forall p, 1 <= pw p.
Proof. destruct p as [t| | | |]; simpl; try lia. destruct t; try lia. destruct colon; lia. Qed.
Lemma pw_arr : forall c, pw (PArr c) = S (pws c).
Proof. reflexivity. Qed.

Lemma split_colon_tail_w : forall c, pws (p_split_colon_tail c) = pws c.
Proof.
  induction c as [|x c IH]; [reflexivity|].
  unfold p_split_colon_tail in *. simpl flat_map. rewrite pws_app, IH, pws_cons.
  destruct x as [t|l|e| |e]; try (rewrite ?pws_cons, ?pws_nil; simpl; lia).
  destruct t; try (rewrite ?pws_cons, ?pws_nil; simpl; lia). destruct colon; rewrite ?pws_cons, ?pws_nil; simpl; lia.
Qed.

Lemma split_at_colon_w : forall ts, pws (fst (p_split_at_colon ts)) + pws (snd (p_split_at_colon ts)) <= pws ts.
Proof.
  induction ts as [|t r IH]; [simpl; lia|]. rewrite pws_cons. simpl p_split_at_colon.
  destruct (p_named ":" t); cbn [fst snd]; rewrite ?pws_cons, ?pws_nil; lia.
Qed.

Lemma find_body_w : forall ts h b r, p_find_body ts = Some (h, b, r) -> pws h + pw b + pws r = pws ts.
Proof.
  induction ts as [|t ts IH]; intros h b r H; simpl in H; [discriminate|].
  destruct (p_is_body t).
  - inversion H; subst. rewrite pws_cons. simpl. lia.
  - destruct (p_find_body ts) as [[[h' b'] r']|]; [|discriminate]. inversion H; subst.
    rewrite !pws_cons. specialize (IH _ _ _ eq_refl). lia.
Qed.

Definition sumw (ss : list (list ptok)) : nat := fold_right (fun s a => pws s + a) 0 ss.
Lemma split_semis_w : forall h, sumw (p_split_semis h) <= pws h.
Proof.
  induction h as [|t r IH]; [unfold sumw; simpl; lia|]. rewrite pws_cons. simpl p_split_semis. destruct (p_is_semi t).
  - unfold sumw in *. simpl. rewrite ?pws_nil. lia.
  - destruct (p_split_semis r) as [|s ss]; unfold sumw in *; simpl in *; rewrite ?pws_cons, ?pws_nil; lia.
Qed.

Lemma tl_w : forall ts, pws (tl ts) <= pws ts.
Proof. destruct ts as [|t r]; [simpl; lia|]. simpl tl. rewrite pws_cons. lia. Qed.

Lemma skipn_w : forall n h, pws (skipn n h) <= pws h.
Proof. induction n as [|n IH]; intros h; [simpl; lia|]. destruct h as [|x h]; [simpl; lia|]. simpl skipn. rewrite pws_cons. specialize (IH h). lia. Qed.

Lemma drop_semis_w : forall ts, pws (drop_semis ptok p_is_semi ts) <= pws ts.
Proof. induction ts as [|t r IH]; [simpl; lia|]. simpl. destruct (p_is_semi t); [rewrite pws_cons; lia|lia]. Qed.

Lemma skip_one_semi_w : forall ts, pws (skip_one_semi ts) <= pws ts.
Proof. destruct ts as [|t r]; [simpl; lia|]. simpl. destruct (p_is_semi t); [rewrite pws_cons; lia|lia]. Qed.

Definition nofuel {A} (r : pres A) : Prop := r <> PFuel.
Lemma nofuel_bind : forall A B (r : pres A) (g : A -> pres B),
  nofuel r -> (forall a, r = POk a -> nofuel (g a)) -> nofuel (pbind r g).
Proof.
  intros A B r g Hr Hg. destruct r as [a| |s'|]; simpl; try (intro; discriminate).
  - apply Hg. reflexivity.
  - exfalso. apply Hr. reflexivity.
Qed.

Section Fuel.
  Variable E : list entry.
  Variable K : lbpconsts.
  Variable C : forconsts.

  Notation expr := (expr E K C).
  Notation loop := (loop E K C).
  Notation norm_sel := (norm_sel E K C).
  Notation clause := (clause E K C).
  Notation for_munch := (for_munch E K C).
  Notation lower_go_for := (lower_go_for E K C).
  Notation lower_range := (lower_range E K C).

  Lemma for_munch_shrinks : forall f ts r, for_munch f ts = POk r -> pws r <= pws ts.
  Proof.
    intros f ts r H. destruct f as [|f]; [discriminate|]. rewrite for_munch_S in H.
    destruct (p_find_body ts) as [[[h b] r']|] eqn:Hb; [|discriminate].
    apply find_body_w in Hb. destruct (lower_go_for f h b); simpl in H; try discriminate.
    inversion H; subst. lia.
  Qed.

  (* what Expression leaves is a part of what it was given *)
  Lemma shrinks : forall f,
    (forall rbp ts d r d', expr f rbp ts d = POk (r, d') -> pws r <= pws (tl ts))
    /\ (forall rbp ts d r d', loop f rbp ts d = POk (r, d') -> pws r <= pws ts).
  Proof.
    induction f as [|f [IHe IHl]]; [split; intros; discriminate|].
    assert (He : forall rbp ts d q, expr f rbp ts d = POk q -> pws (fst q) <= pws ts).
    { intros rbp ts d [r d'] H. simpl. pose proof (tl_w ts). apply IHe in H. lia. }
    assert (Hl : forall rbp ts d q, loop f rbp ts d = POk q -> pws (fst q) <= pws ts).
    { intros rbp ts d [r d'] H. simpl. eapply IHl; eassumption. }
    split.
    - intros rbp ts d r d' H. simpl in H. destruct ts as [|t rest]; [inversion H; simpl; lia|].
      simpl tl.
      match type of H with pbind ?N _ = _ => destruct N as [q| |s|] eqn:HN end; simpl in H; try discriminate.
      apply Hl in H. simpl in H.
      assert (HQ : pws (fst q) <= pws rest).
      { destruct (nud_of E (cls t)) as [|r0 h|r1 r2 r3| |nm].
        - inversion HN; subst. simpl. lia.
        - eapply He; eassumption.
        - destruct (expr f r1 rest (S d)) as [qc| | |] eqn:H1; simpl in HN; try discriminate.
          apply He in H1.
          destruct (expr f r2 (fst qc) (snd qc)) as [qt| | |] eqn:H2; simpl in HN; try discriminate.
          apply He in H2.
          destruct (fst qt) as [|e rest3] eqn:Hqt.
          + inversion HN; subst. rewrite Hqt. simpl. lia.
          + destruct (p_named "else" e).
            * apply He in HN. rewrite pws_cons in H2. lia.
            * inversion HN; subst. rewrite Hqt. lia.
        - destruct (for_munch f rest) as [r'| | |] eqn:Hf; simpl in HN; try discriminate.
          apply for_munch_shrinks in Hf. inversion HN; subst. simpl. lia.
        - inversion HN; subst. simpl. destruct rest as [|l r']; [simpl; lia|].
          destruct (p_is_symbol l); rewrite ?pws_cons; lia. }
      lia.
    - intros rbp ts d r d' H. simpl in H. destruct ts as [|t rest].
      + unfold pop in H. destruct d; [discriminate|]. inversion H. simpl. lia.
      + rewrite pws_cons.
        destruct (lbp_of E K (cls t)) as [l|]; [|discriminate].
        destruct (rbp >=? l)%Z.
        * unfold pop in H. destruct d; [discriminate|]. inversion H. rewrite pws_cons. lia.
        * destruct (led_of E K (cls t)) as [k|]; [|discriminate].
          destruct d as [|d0]; [discriminate|].
          destruct k as [r0 h|h| | |].
          -- destruct (expr f r0 rest (S d0)) as [q| | |] eqn:H1; simpl in H; try discriminate.
             apply He in H1. apply Hl in H. simpl in H. lia.
          -- apply Hl in H. simpl in H. lia.
          -- destruct (norm_sel f t); simpl in H; try discriminate. apply Hl in H. simpl in H. lia.
          -- apply Hl in H. simpl in H. lia.
          -- apply Hl in H. simpl in H. lia.
  Qed.

  Definition fuel_inv (f : nat) : Prop :=
    (forall rbp ts d, 5 * pws ts + 1 <= f -> nofuel (expr f rbp ts d))
    /\ (forall rbp ts d, 5 * pws ts + 1 <= f -> nofuel (loop f rbp ts d))
    /\ (forall t, 5 * pw t <= f -> nofuel (norm_sel f t))
    /\ (forall ts, 5 * pws ts + 2 <= f -> nofuel (clause f ts))
    /\ (forall ts, 5 * pws ts + 1 <= f -> nofuel (for_munch f ts))
    /\ (forall h b, 5 * pws h + 4 <= f -> nofuel (lower_go_for f h b))
    /\ (forall h r, 5 * pws h + 3 <= f -> lower_range f h = Some r -> nofuel r).

  Lemma fuel_all : forall f, fuel_inv f.
  Proof.
    induction f as [|f IH].
    - unfold fuel_inv. repeat split; intros; try lia.
      pose proof (pw_pos t). lia.
    - destruct IH as (IHe & IHl & IHn & IHc & IHf & IHg & IHr).
      destruct (shrinks f) as (She & Shl).
      assert (He : forall rbp ts d q, expr f rbp ts d = POk q -> pws (fst q) <= pws ts).
      { intros rbp ts d [r d'] H. simpl. pose proof (tl_w ts). apply She in H. lia. }
      unfold fuel_inv. split; [|split; [|split; [|split; [|split; [|split]]]]].
      + (* expr *)
        intros rbp ts d Hf. simpl. destruct ts as [|t rest]; [intro; discriminate|].
        rewrite pws_cons in Hf. pose proof (pw_pos t) as Hp.
        apply nofuel_bind.
        * destruct (nud_of E (cls t)) as [|r h|r1 r2 r3| |nm].
          -- intro; discriminate.
          -- apply IHe. lia.
          -- apply nofuel_bind; [apply IHe; lia|]. intros qc Hqc. apply He in Hqc.
             apply nofuel_bind; [apply IHe; lia|]. intros qt Hqt. apply He in Hqt.
             destruct (fst qt) as [|e rest3] eqn:Hq; [intro; discriminate|].
             destruct (p_named "else" e); [|intro; discriminate].
             apply IHe. rewrite pws_cons in Hqt. lia.
          -- apply nofuel_bind; [apply IHf; lia|]. intros a _. intro; discriminate.
          -- intro; discriminate.
        * intros q Hq.
          assert (HQ : pws (fst q) <= pws rest).
          { destruct (nud_of E (cls t)) as [|r h|r1 r2 r3| |nm].
            - inversion Hq; subst. simpl. lia.
            - eapply He; eassumption.
            - destruct (expr f r1 rest (S d)) as [qc| | |] eqn:H1; simpl in Hq; try discriminate.
              apply He in H1.
              destruct (expr f r2 (fst qc) (snd qc)) as [qt| | |] eqn:H2; simpl in Hq; try discriminate.
              apply He in H2.
              destruct (fst qt) as [|e rest3] eqn:Hqt.
              + inversion Hq; subst. rewrite Hqt. simpl. lia.
              + destruct (p_named "else" e).
                * apply He in Hq. rewrite pws_cons in H2. lia.
                * inversion Hq; subst. rewrite Hqt. lia.
            - destruct (for_munch f rest) as [r'| | |] eqn:Hfm; simpl in Hq; try discriminate.
              apply for_munch_shrinks in Hfm. inversion Hq; subst. simpl. lia.
            - inversion Hq; subst. simpl. destruct rest as [|l r']; [simpl; lia|].
              destruct (p_is_symbol l); rewrite ?pws_cons; lia. }
          apply IHl. lia.
      + (* loop *)
        intros rbp ts d Hf. simpl. destruct ts as [|t rest].
        * unfold pop. destruct d; intro; discriminate.
        * rewrite pws_cons in Hf. pose proof (pw_pos t) as Hp.
          destruct (lbp_of E K (cls t)) as [l|]; [|intro; discriminate].
          destruct (rbp >=? l)%Z; [unfold pop; destruct d; intro; discriminate|].
          destruct (led_of E K (cls t)) as [k|]; [|intro; discriminate].
          destruct d as [|d0]; [intro; discriminate|].
          destruct k as [r0 h|h| | |].
          -- apply nofuel_bind; [apply IHe; lia|]. intros q Hq. apply He in Hq. apply IHl. lia.
          -- apply IHl. lia.
          -- apply nofuel_bind; [apply IHn; lia|]. intros a _. apply IHl. lia.
          -- apply IHl. lia.
          -- apply IHl. lia.
      + (* norm_sel *)
        intros t Hf. rewrite norm_sel_S. destruct t as [t0|content|e| |e]; try (intro; discriminate).
        cbv zeta. rewrite pw_arr in Hf.
        pose proof (split_colon_tail_w content) as Hw.
        destruct (length (filter (p_named ":") (p_split_colon_tail content))) as [|[|n]].
        * match goal with |- context [if ?b then _ else _] => destruct b end; [intro; discriminate|].
          apply nofuel_bind; [apply IHe; lia|]. intros a _. intro; discriminate.
        * pose proof (split_at_colon_w (p_split_colon_tail content)) as Hs.
          apply nofuel_bind; [apply IHc; lia|]. intros a _. apply IHc. lia.
        * intro; discriminate.
      + (* clause *)
        intros ts Hf. rewrite clause_S. destruct ts as [|t r]; [intro; discriminate|].
        apply nofuel_bind; [apply IHe; lia|]. intros q _. destruct (fst q); intro; discriminate.
      + (* for_munch *)
        intros ts Hf. rewrite for_munch_S. destruct (p_find_body ts) as [[[h b] rest]|] eqn:Hb; [|intro; discriminate].
        apply find_body_w in Hb. pose proof (pw_pos b).
        apply nofuel_bind; [apply IHg; lia|]. intros a _. intro; discriminate.
      + (* lower_go_for *)
        intros h b Hf. rewrite lower_go_for_S. cbv zeta. destruct (negb (p_is_body b)); [intro; discriminate|].
        destruct (length (filter p_is_semi h)) as [|n].
        * destruct (lower_range f h) as [r|] eqn:Hlr; [apply (IHr h r); [lia|exact Hlr]|apply IHc; lia].
        * match goal with |- context [if ?b then _ else _] => destruct b end; [intro; discriminate|].
          pose proof (split_semis_w h) as Hs.
          destruct (p_split_semis h) as [|s0 [|s1 [|s2 [|s3 r]]]]; try (intro; discriminate).
          unfold sumw in Hs. simpl in Hs.
          apply nofuel_bind; [apply IHc; lia|]. intros a _.
          apply nofuel_bind; [apply IHc; lia|]. intros a' _. apply IHc. lia.
      + (* lower_range *)
        intros h r Hf H. rewrite lower_range_S in H. cbv zeta in H.
        assert (NR : forall r0 : pres unit, (if p_has_range h then Some PErr else None) = Some r0 -> nofuel r0).
        { intros r0 H0. destruct (p_has_range h); inversion H0. intro; discriminate. }
        destruct (p_find_assign h 0) as [[pos def]|]; [|apply NR; exact H].
        match type of H with (if ?b then _ else _) = _ => destruct b end; [apply NR; exact H|].
        destruct (nth_error h (pos + fc_index_off C)) as [t|]; [|inversion H; intro; discriminate].
        destruct (negb (p_named "range" t)); [apply NR; exact H|].
        destruct (p_range_targets (firstn pos h)) as [n|]; [|inversion H; intro; discriminate].
        match type of H with (if ?b then _ else _) = _ => destruct b end; [inversion H; intro; discriminate|].
        pose proof (skipn_w (pos + fc_source_off C) h) as Hs.
        destruct (skipn (pos + fc_source_off C) h) as [|x src]; inversion H; [intro; discriminate|].
        apply nofuel_bind; [apply IHc; lia|]. intros a _.
        unfold p_range_binding. destruct (n =? 1); [intro; discriminate|]. destruct (2 <=? n); intro; discriminate.
  Qed.

  Theorem expr_enough_fuel : forall f rbp ts d, 5 * pws ts + 1 <= f -> expr f rbp ts d <> PFuel.
  Proof. intros f rbp ts d H. destruct (fuel_all f) as (He & _). apply He. exact H. Qed.

  Theorem stmts_enough_fuel : forall ef f ts,
    5 * pws ts + 1 <= ef -> pws ts < f -> stmts E K C ef f ts <> PFuel.
  Proof.
    intros ef f. induction f as [|f IH]; intros ts He Hf; [lia|]. simpl.
    pose proof (drop_semis_w ts) as Hd.
    destruct (drop_semis ptok p_is_semi ts) as [|t1 r1] eqn:Hds; [discriminate|].
    rewrite pws_cons in Hd. pose proof (pw_pos t1) as Hp1.
    destruct (fuel_all ef) as (Fe & _ & _ & _ & Ff & _).
    destruct (shrinks ef) as (She & _).
    assert (HX : nofuel (pbind (expr ef 0 (t1 :: r1) 0) (fun q => POk (fst q)))).
    { apply nofuel_bind; [apply Fe; rewrite pws_cons; lia|]. intros a _. intro; discriminate. }
    assert (HY : forall rest, pbind (expr ef 0 (t1 :: r1) 0) (fun q => POk (fst q)) = POk rest -> pws rest <= pws r1).
    { intros rest H. destruct (expr ef 0 (t1 :: r1) 0) as [[r d']| | |] eqn:Hx; simpl in H; try discriminate.
      inversion H; subst. apply She in Hx. exact Hx. }
    apply nofuel_bind.
    - destruct r1 as [|f0 after_for]; [exact HX|].
      destruct (p_is_label t1 && p_named "for" f0); [|exact HX].
      destruct after_for as [|x y]; [intro; discriminate|].
      apply Ff. rewrite !pws_cons in *. lia.
    - intros rest Hrest.
      assert (HR : pws rest <= pws r1).
      { destruct r1 as [|f0 after_for]; [apply HY; exact Hrest|].
        destruct (p_is_label t1 && p_named "for" f0); [|apply HY; exact Hrest].
        destruct after_for as [|x y]; [discriminate|].
        apply for_munch_shrinks in Hrest. rewrite !pws_cons in *. lia. }
      pose proof (skip_one_semi_w rest) as Hk.
      apply nofuel_bind; [apply IH; lia|]. intros n _. intro; discriminate.
  Qed.
End Fuel.

(* every token list: with the fuel the runner passes, InfixExpandArray's model returns statements or an error *)
Theorem expand_returns : forall ts, expand_auto ts = PErr \/ exists n, expand_auto ts = POk n.
Proof.
  intros ts. unfold expand_auto. destruct (expand_gen (5 * pws ts + 1) (S (pws ts)) ts) as [n| |s|] eqn:Hr.
  - right. exists n. reflexivity.
  - left. reflexivity.
  - exfalso. revert Hr. apply expand_gen_no_crash.
  - exfalso. revert Hr. unfold expand_gen. apply stmts_enough_fuel; lia.
Qed.

Theorem expand_any_table_returns : forall E K C, table_safe E K = true -> guards_ok C = true -> forall ts,
  stmts E K C (5 * pws ts + 1) (S (pws ts)) ts = PErr \/ exists n, stmts E K C (5 * pws ts + 1) (S (pws ts)) ts = POk n.
Proof.
  intros E K C H1 H2 ts. destruct (stmts E K C (5 * pws ts + 1) (S (pws ts)) ts) as [n| |s|] eqn:Hr.
  - right. exists n. reflexivity.
  - left. reflexivity.
  - exfalso. revert Hr. apply stmts_no_crash; assumption.
  - exfalso. revert Hr. apply stmts_enough_fuel; lia.
Qed.

(* GenerateInfix on every argument list returns expressions to generate or an error *)
Theorem infix_form_returns : forall args,
  infix_form_auto false args = PErr \/ exists n, infix_form_auto false args = POk n.
Proof.
  intros args. unfold infix_form_auto.
  set (w := fold_right (fun a acc => argk_weight a + acc) 0 args).
  destruct (infix_form_gen false (5 * w + 1) (S w) args) as [n| |s|] eqn:Hr.
  - right. exists n. reflexivity.
  - left. reflexivity.
  - exfalso. revert Hr. apply infix_form_no_crash.
  - exfalso. revert Hr. unfold infix_form_gen, infix_form.
    apply nofuel_bind.
    + unfold infix_args. destruct args as [|a [|b r]]; simpl; try (intro; discriminate).
      destruct a; intro; discriminate.
    + intros o Ho. destruct o as [c|]; [|intro; discriminate].
      assert (Hc : pws c <= w).
      { unfold infix_args in Ho. destruct args as [|a [|b r]]; simpl in Ho; try discriminate.
        subst w. simpl. destruct a; simpl in Ho; inversion Ho; subst; simpl; lia. }
      apply stmts_enough_fuel; lia.
Qed.
