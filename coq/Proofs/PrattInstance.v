(* C06 — the generic theorem of PrattProofs instantiated with a translator-generated table and
   the documented specification (PrattSpec.Doc): a boolean well-formedness / documentation check
   `table_ok E K` implies every hypothesis of the generic theorem. *)
From Coq Require Import ZArith String List Bool Lia Arith.
Import ListNotations.
Require Import ZV.Model.PrattTypes ZV.Model.Pratt ZV.Model.PrattSpec ZV.Proofs.PrattProofs.
Open Scope Z_scope.

Section Inst.
  Variable E : list entry.
  Variable K : lbpconsts.

  Definition L_of (t : tok) : Z := match lbp_of E K t with Some l => l | None => 0 end.
  Definition R_of (t : tok) : Z :=
    match led_of E K t with
    | Some (LBin r _) => r
    | _ => match nud_of E t with NPrefix r _ => r | _ => 0 end
    end.

  Definition doc_binop_names : list string := concat (map fst Doc.levels).
  Definition binop_toks : list tok := TComma :: map (fun n => TSym n false) doc_binop_names.
  Definition prefix_toks : list tok := map (fun n => TSym n false) Doc.prefix_names.
  Definition maxl : Z := fold_right Z.max 0 (map L_of binop_toks).
  Definition maxr : Z := fold_right Z.max 0 (map R_of (binop_toks ++ prefix_toks)).

  Definition chk_binop (t : tok) : bool :=
    match led_of E K t, lbp_of E K t with
    | Some (LBin r _), Some l =>
      (l - 1 <=? r) && (r <=? l) && (l <=? maxl) && (0 <=? r) && (r <=? maxr)
      && Bool.eqb (Doc.rassoc t) (r <? l) && (0 <? l)
    | _, _ => false
    end.
  Definition chk_prefix (t : tok) : bool :=
    match nud_of E t, led_of E K t with
    | NPrefix r _, Some (LBin _ _) => false
    | NPrefix r _, _ => (maxl <=? r) && (r <=? maxr)
    | _, _ => false
    end.
  Definition chk_order (a b : tok) : bool :=
    Bool.eqb (Doc.prec a <? Doc.prec b) (L_of a <? L_of b)
    && Bool.eqb (Doc.prec a =? Doc.prec b) (L_of a =? L_of b)
    && (negb (L_of a =? L_of b) || Bool.eqb (Doc.rassoc a) (Doc.rassoc b)).
  (* every name of the table (and every name LeftBindingPower special-cases) is reserved in the
     documentation: documented operator, `not`, or one of the listed undocumented operators;
     so a new operator in InitInfixOps makes the check fail *)
  Definition chk_names : bool :=
    forallb (fun e => Doc.is_reserved (e_name e)) E && forallb Doc.is_reserved (lbp_zero_syms K).
  Definition chk_struct : bool :=
    (maxr <? lbp_array K) && (maxr <? lbp_dotsym K)
    && match array_led K with LIndex => true | _ => false end
    && match led_of_key E (key_dot K) with LDotIdx => true | _ => false end.

  (* tokens that start a statement do not bind to the left: literals, calls, plain symbols,
     semicolons and the prefix operator `not` have left binding power <= 0 *)
  Definition chk_stop : bool :=
    (lbp_int K <=? 0) && (lbp_float K <=? 0) && (lbp_bool K <=? 0) && (lbp_str K <=? 0)
    && (lbp_pair K <=? 0) && (lbp_hash K <=? 0) && (lbp_semicolon K <=? 0) && (lbp_sym_default K <=? 0)
    && match lbp_other K with Some l => l <=? 0 | None => false end
    && forallb (fun t => match lbp_of E K t with Some l => l <=? 0 | None => false end) prefix_toks.

  Definition core_ok : bool :=
    forallb chk_binop binop_toks && forallb chk_prefix prefix_toks
    && forallb (fun a => forallb (chk_order a) binop_toks) binop_toks
    && chk_names && chk_struct && chk_stop.

  (* ++ and -- : led builds (op left) without recursion; they bind weaker than every binary
     operator (lbp <= right binding power) except the assignment operators (rbp < lbp) *)
  Definition lowpost_toks : list tok := map (fun n => TSym n false) Doc.lowpost_names.
  Definition chk_lowpost : bool :=
    forallb (fun q =>
      match led_of E K q, lbp_of E K q with
      | Some (LPostfix _), Some l =>
        (0 <? l) && (l <=? maxl)
        && forallb (fun o => if Doc.prec o <=? Doc.assign_level then R_of o <? l else l <=? R_of o) binop_toks
      | _, _ => false
      end) lowpost_toks.

  (* if: Expression(r1) for the condition with r1 below every operator, Expression(0) for the
     branches; `if` and `else` do not bind to the left *)
  Definition if_cond_level : Z := match nud_of E Doc.if_tok with NIf r1 _ _ => r1 | _ => 0 end.
  Definition chk_if : bool :=
    match nud_of E Doc.if_tok with
    | NIf r1 r2 r3 =>
      (0 <=? r1) && (r1 <=? maxr) && (r2 =? 0) && (r3 =? 0)
      && forallb (fun o => r1 <? L_of o) binop_toks
    | _ => false
    end
    && match lbp_of E K Doc.else_tok with Some l => l <=? 0 | None => false end
    && match lbp_of E K Doc.if_tok with Some l => l <=? 0 | None => false end.

  Definition table_ok0 : bool := core_ok && chk_lowpost && chk_if.
  (* normalizeArraySelector leaves exactly the empty and the one-token index unparsed *)
  Definition chk_sel : bool := Nat.eqb (sel_raw_max K) 1.
  Definition table_ok : bool := table_ok0 && chk_sel.

  Hypothesis OK : table_ok = true.

  Lemma OK0 : table_ok0 = true.
  Proof. pose proof OK as H. unfold table_ok in H. apply andb_prop in H. tauto. Qed.
  Lemma I_selmax : sel_raw_max K = 1%nat.
  Proof. pose proof OK as H. unfold table_ok in H. apply andb_prop in H. destruct H as (_ & H). now apply Nat.eqb_eq in H. Qed.

  Lemma ok_parts :
    forallb chk_binop binop_toks = true /\ forallb chk_prefix prefix_toks = true /\
    forallb (fun a => forallb (chk_order a) binop_toks) binop_toks = true /\
    chk_names = true /\ chk_struct = true.
  Proof.
    pose proof OK0 as H. unfold table_ok0 in H.
    apply andb_prop in H. destruct H as (H & _).
    apply andb_prop in H. destruct H as (H & _). unfold core_ok in H.
    apply andb_prop in H. destruct H as (H & _).
    apply andb_prop in H. destruct H as (H & H5).
    apply andb_prop in H. destruct H as (H & H4).
    apply andb_prop in H. destruct H as (H & H3).
    apply andb_prop in H. destruct H as (H1 & H2).
    repeat split; assumption.
  Qed.

  Lemma ok_stop : chk_stop = true.
  Proof.
    pose proof OK0 as H. unfold table_ok0 in H.
    apply andb_prop in H. destruct H as (H & _).
    apply andb_prop in H. destruct H as (H & _). unfold core_ok in H.
    apply andb_prop in H. tauto.
  Qed.

  Lemma ok_lowpost : chk_lowpost = true.
  Proof.
    pose proof OK0 as H. unfold table_ok0 in H.
    apply andb_prop in H. destruct H as (H & _). apply andb_prop in H. tauto.
  Qed.

  Lemma ok_if : chk_if = true.
  Proof. pose proof OK0 as H. unfold table_ok0 in H. apply andb_prop in H. tauto. Qed.

  Lemma level_of_in : forall n ls i x, Doc.level_of n ls i = Some x -> In n (concat (map fst ls)).
  Proof.
    induction ls as [|[names r] ls IH]; cbn [Doc.level_of]; intros; [discriminate|].
    cbn [map fst concat]. apply in_or_app.
    destruct (existsb (String.eqb n) names) eqn:Ex.
    - left. apply existsb_exists in Ex. destruct Ex as (m & Hm & He). apply String.eqb_eq in He. now subst.
    - right. eapply IH; eauto.
  Qed.

  Lemma binop_in : forall t, Doc.is_binop t = true -> In t binop_toks.
  Proof.
    intros t H; destruct t as [n c|n|i|i|i|i|i|i|i| | |i|i]; try destruct c;
      cbv beta iota delta [Doc.is_binop] in H; try discriminate.
    - destruct (Doc.level n) as [x|] eqn:El; [|discriminate].
      right. apply (in_map (fun m => TSym m false)). unfold Doc.level in El. eapply level_of_in; eauto.
    - left; reflexivity.
  Qed.

  Lemma prefix_in : forall t, Doc.is_prefix t = true -> In t prefix_toks.
  Proof.
    intros t H; destruct t as [n c|n|i|i|i|i|i|i|i| | |i|i]; try destruct c;
      cbv beta iota delta [Doc.is_prefix] in H; try discriminate.
    apply existsb_exists in H. destruct H as (m & Hm & He).
    apply String.eqb_eq in He. subst. now apply (in_map (fun m => TSym m false)).
  Qed.

  Lemma lookup_reserved : forall n e, lookup E n = Some e -> Doc.is_reserved n = true.
  Proof.
    intros. unfold lookup in H. apply find_some in H. destruct H as (Hin & He).
    apply String.eqb_eq in He. subst n.
    destruct ok_parts as (_ & _ & _ & Hn & _). unfold chk_names in Hn.
    apply andb_prop in Hn. destruct Hn as (Hn & _). rewrite forallb_forall in Hn. now apply Hn.
  Qed.

  Lemma unreserved_lookup : forall n, Doc.is_reserved n = false -> lookup E n = None.
  Proof.
    intros. destruct (lookup E n) eqn:El; auto. apply lookup_reserved in El. congruence.
  Qed.

  Lemma unreserved_zero : forall n, Doc.is_reserved n = false -> in_names n (lbp_zero_syms K) = false.
  Proof.
    intros. destruct (in_names n (lbp_zero_syms K)) eqn:Ez; auto.
    unfold in_names in Ez. apply existsb_exists in Ez. destruct Ez as (m & Hm & He).
    apply String.eqb_eq in He. subst m.
    destruct ok_parts as (_ & _ & _ & Hn & _). unfold chk_names in Hn.
    apply andb_prop in Hn. destruct Hn as (_ & Hn). rewrite forallb_forall in Hn.
    rewrite (Hn _ Hm) in H. discriminate.
  Qed.

  Lemma fold_max_ge0 : forall l, 0 <= fold_right Z.max 0 l.
  Proof. induction l; cbn; lia. Qed.

  Lemma I_operand : forall t, Doc.is_operand t = true -> nud_of E t = NAtom.
  Proof.
    intros t H; destruct t as [n c|n|i|i|i|i|i|i|i| | |i|i]; try destruct c;
      cbv beta iota delta [Doc.is_operand nud_of] in *; try reflexivity; try discriminate.
    - apply negb_true_iff in H. now rewrite (unreserved_lookup _ H).
    - apply negb_true_iff in H. now rewrite (unreserved_lookup _ H).
  Qed.

  Lemma I_prefix : forall t, Doc.is_prefix t = true ->
    (exists h, nud_of E t = NPrefix (R_of t) h) /\ maxl <= R_of t /\ R_of t <= maxr.
  Proof.
    intros t H. apply prefix_in in H.
    destruct ok_parts as (_ & Hp & _). rewrite forallb_forall in Hp. specialize (Hp _ H).
    unfold chk_prefix in Hp. unfold R_of.
    destruct (nud_of E t) as [|r h| | |]; try discriminate.
    destruct (led_of E K t) as [[r' h'|h'| | |]|]; try discriminate;
      apply andb_prop in Hp; destruct Hp as (H1 & H2); apply Z.leb_le in H1; apply Z.leb_le in H2;
      (split; [eexists; reflexivity|split; assumption]).
  Qed.

  Lemma I_binop : forall t, Doc.is_binop t = true ->
    (exists h, led_of E K t = Some (LBin (R_of t) h)) /\ lbp_of E K t = Some (L_of t) /\
    L_of t - 1 <= R_of t /\ R_of t <= L_of t /\ L_of t <= maxl /\ 0 <= R_of t /\ R_of t <= maxr /\
    Doc.rassoc t = (R_of t <? L_of t).
  Proof.
    intros t H. apply binop_in in H.
    destruct ok_parts as (Hb & _). rewrite forallb_forall in Hb. specialize (Hb _ H).
    unfold chk_binop in Hb. unfold R_of, L_of.
    destruct (led_of E K t) as [[r h|h| | |]|]; try discriminate.
    destruct (lbp_of E K t) as [l|]; try discriminate.
    apply andb_prop in Hb; destruct Hb as (Hb & C7).
    apply andb_prop in Hb; destruct Hb as (Hb & C6).
    apply andb_prop in Hb; destruct Hb as (Hb & C5).
    apply andb_prop in Hb; destruct Hb as (Hb & C4).
    apply andb_prop in Hb; destruct Hb as (Hb & C3).
    apply andb_prop in Hb; destruct Hb as (C1 & C2).
    apply Z.leb_le in C1, C2, C3, C4, C5. apply Bool.eqb_prop in C6.
    split; [eexists; reflexivity|]. repeat split; auto.
  Qed.

  Lemma I_binop_pos : forall t, Doc.is_binop t = true -> 0 < L_of t.
  Proof.
    intros t H. apply binop_in in H.
    destruct ok_parts as (Hb & _). rewrite forallb_forall in Hb. specialize (Hb _ H).
    unfold chk_binop in Hb. unfold L_of.
    destruct (led_of E K t) as [[r h|h| | |]|]; try discriminate.
    destruct (lbp_of E K t) as [l|]; try discriminate.
    apply andb_prop in Hb. destruct Hb as (_ & Hb). now apply Z.ltb_lt in Hb.
  Qed.

  Lemma I_order : forall a b, Doc.is_binop a = true -> Doc.is_binop b = true ->
    (Doc.prec a <? Doc.prec b) = (L_of a <? L_of b) /\ (Doc.prec a =? Doc.prec b) = (L_of a =? L_of b).
  Proof.
    intros a b Ha Hb. apply binop_in in Ha. apply binop_in in Hb.
    destruct ok_parts as (_ & _ & Ho & _). rewrite forallb_forall in Ho. specialize (Ho _ Ha).
    rewrite forallb_forall in Ho. specialize (Ho _ Hb). unfold chk_order in Ho.
    apply andb_prop in Ho. destruct Ho as (Ho & _). apply andb_prop in Ho. destruct Ho as (H1 & H2).
    apply Bool.eqb_prop in H1. apply Bool.eqb_prop in H2. auto.
  Qed.

  Lemma I_uniform : forall a b, Doc.is_binop a = true -> Doc.is_binop b = true ->
    L_of a = L_of b -> Doc.rassoc a = Doc.rassoc b.
  Proof.
    intros a b Ha Hb HL. apply binop_in in Ha. apply binop_in in Hb.
    destruct ok_parts as (_ & _ & Ho & _). rewrite forallb_forall in Ho. specialize (Ho _ Ha).
    rewrite forallb_forall in Ho. specialize (Ho _ Hb). unfold chk_order in Ho.
    apply andb_prop in Ho. destruct Ho as (_ & Ho). rewrite HL, Z.eqb_refl in Ho. cbn in Ho.
    now apply Bool.eqb_prop in Ho.
  Qed.

  Lemma I_postfix : forall t, Doc.is_postfix t = true ->
    lbp_of E K t = Some (L_of t) /\ maxr < L_of t /\ (fun _ : tok => false) t = false /\
    (led_of E K t = Some LIndex \/ led_of E K t = Some LDotIdx \/ exists h, led_of E K t = Some (LPostfix h)).
  Proof.
    destruct ok_parts as (_ & _ & _ & _ & Hs). unfold chk_struct in Hs.
    repeat (apply andb_prop in Hs; destruct Hs as [Hs ?]).
    apply Z.ltb_lt in Hs. apply Z.ltb_lt in H1.
    intros t Hp; destruct t as [n c|n|i|i|i|i|i|i|i| | |i|i];
      cbv beta iota delta [Doc.is_postfix] in Hp; try discriminate.
    - apply negb_true_iff in Hp. unfold L_of. cbn [lbp_of led_of].
      rewrite (unreserved_zero _ Hp), (unreserved_lookup _ Hp).
      repeat split; auto. right; left.
      destruct (led_of_key E (key_dot K)); try discriminate. reflexivity.
    - unfold L_of. cbn [lbp_of led_of]. repeat split; auto. left.
      destruct (array_led K); try discriminate. reflexivity.
  Qed.

  Lemma I_max : 0 <= maxl /\ 0 <= maxr.
  Proof. split; apply fold_max_ge0. Qed.

  (* the Pratt model over table (E, K) returns, for every token list of any length that the
     documented grammar recognises as ONE expression, the split-at-weakest tree of the documented
     table *)
  Theorem instance_correct : forall eof ts a,
    classify tok Doc.is_operand Doc.is_prefix Doc.is_binop Doc.is_postfix ts = Some a ->
    m_expr E K (fun _ => false) eof (fuel_for tok ts) 0 ts
    = ROk (split_alt tok Doc.prec Doc.rassoc a, []).
  Proof.
    intros. unfold m_expr.
    exact (pratt_is_the_oracle tok (lbp_of E K) (nud_of E) (led_of E K) is_else (fun _ => false) eof
              Doc.is_operand Doc.is_prefix Doc.is_binop Doc.is_postfix Doc.prec Doc.rassoc L_of R_of maxl maxr
              I_operand I_prefix I_binop I_postfix I_order I_uniform I_max I_binop_pos ts a H).
  Qed.

  Theorem instance_stmt : forall eof a tail,
    take_expr tok Doc.is_operand Doc.is_prefix Doc.is_binop Doc.is_postfix (alt_tokens tok a ++ tail) = Some (a, tail) ->
    match tail with [] => True | t :: _ => exists l, lbp_of E K t = Some l /\ l <= 0 end ->
    m_expr E K (fun _ => false) eof (fuel_for tok (alt_tokens tok a)) 0 (alt_tokens tok a ++ tail)
    = ROk (split_alt tok Doc.prec Doc.rassoc a, tail).
  Proof.
    intros. unfold m_expr.
    apply take_expr_spec in H. destruct H as (H1 & H2 & _).
    apply (expr_prefix_correct tok (lbp_of E K) (nud_of E) (led_of E K) is_else (fun _ => false) eof
              Doc.is_operand Doc.is_prefix Doc.is_binop Doc.is_postfix Doc.prec Doc.rassoc L_of R_of maxl maxr
              I_operand I_prefix I_binop I_postfix I_order I_uniform I_max I_binop_pos a tail _ H1 H2); [|apply le_n].
    destruct tail as [|t tl]; [exact I|]. destruct H0 as (l & Hl & Hle).
    exists l. split; [exact Hl|]. destruct I_max. split; lia.
  Qed.

  Lemma I_start : forall t, (fun _ : tok => true) t = true ->
    Doc.is_semi t || Doc.is_operand t || Doc.is_prefix t = true -> Doc.is_postfix t = false ->
    exists l, lbp_of E K t = Some l /\ l <= 0.
  Proof.
    pose proof ok_stop as Hs. unfold chk_stop in Hs.
    apply andb_prop in Hs; destruct Hs as (Hs & S9).
    apply andb_prop in Hs; destruct Hs as (Hs & S10).
    apply andb_prop in Hs; destruct Hs as (Hs & S8).
    apply andb_prop in Hs; destruct Hs as (Hs & S7).
    apply andb_prop in Hs; destruct Hs as (Hs & S6).
    apply andb_prop in Hs; destruct Hs as (Hs & S5).
    apply andb_prop in Hs; destruct Hs as (Hs & S4).
    apply andb_prop in Hs; destruct Hs as (Hs & S3).
    apply andb_prop in Hs; destruct Hs as (S1 & S2).
    apply Z.leb_le in S1, S2, S3, S4, S5, S6, S7, S8.
    intros t _ H Hp; destruct t as [n c|n|i|i|i|i|i|i|i| | |i|i]; try destruct c;
      cbv beta iota delta [Doc.is_semi Doc.is_operand Doc.is_prefix Doc.is_postfix orb] in H, Hp;
      try discriminate; cbn [lbp_of]; eauto.
    3:{ destruct (lbp_other K) as [l|]; [|discriminate]. exists l. split; auto. now apply Z.leb_le. }
    - (* plain symbol: operand or `not` *)
      destruct (existsb (String.eqb n) Doc.prefix_names) eqn:Ep.
      + assert (Hin : In (TSym n false) prefix_toks).
        { apply existsb_exists in Ep. destruct Ep as (m & Hm & He). apply String.eqb_eq in He. subst.
          now apply (in_map (fun m => TSym m false)). }
        rewrite forallb_forall in S9. specialize (S9 _ Hin). cbn [lbp_of] in S9.
        destruct (if in_names n (lbp_zero_syms K) then Some (lbp_zero_val K)
                  else match lookup E n with Some e => Some (found_bp K e) | None => Some (lbp_sym_default K) end) as [l|];
          [|discriminate]. exists l. split; auto. now apply Z.leb_le.
      + destruct (negb (Doc.is_reserved n)) eqn:En; [|discriminate]. apply negb_true_iff in En.
        rewrite (unreserved_zero _ En), (unreserved_lookup _ En). eauto.
    - (* dot symbol: an operand dot symbol is also a postfix *)
      destruct (negb (Doc.is_reserved n)); discriminate.
  Qed.

  Lemma I_semi : forall t, Doc.is_semi t = true -> Doc.is_operand t = false /\ Doc.is_prefix t = false.
  Proof. intros t H; destruct t; try discriminate. split; reflexivity. Qed.

  Lemma I_label : forall ts, is_label_for ts = true ->
    take_unit tok Doc.is_operand Doc.is_prefix Doc.is_postfix ts = None.
  Proof.
    intros ts H. destruct ts as [|t r]; [discriminate|].
    destruct t as [n c|n|i|i|i|i|i|i|i| | |i|i]; try discriminate.
    destruct c; [|discriminate]. reflexivity.
  Qed.

  (* statements in order, whole blocks: every block the documented grammar recognises
     (statements separated by semicolons or merely juxtaposed, stray semicolons allowed,
     a statement may start with `not`) is expanded by the model of InfixExpandArray to exactly
     the specification's statement list *)
  Theorem instance_block : forall ts xs,
    Doc.block ts = Some xs ->
    m_parse_block E K (fun _ => false) ts = ROk xs.
  Proof.
    intros ts xs H. assert (Hk : Forall (fun t : tok => (fun _ : tok => true) t = true) ts) by (apply Forall_forall; reflexivity). unfold m_parse_block, parse_block. unfold Doc.block, spec_block in H.
    apply (block_is_the_oracle tok (lbp_of E K) (nud_of E) (led_of E K) is_else (fun _ => false) _
              Doc.is_operand Doc.is_prefix Doc.is_binop Doc.is_postfix Doc.prec Doc.rassoc L_of R_of maxl maxr
              I_operand I_prefix I_binop I_postfix I_order I_uniform I_max I_binop_pos
              is_semi is_label_for (fun _ => true) I_start I_semi I_label _ ts xs H Hk). lia.
  Qed.

  (* ====================================================================================== *)
  (* extensions: ++ / --, if / else, selectors                                               *)
  Notation nf := (fun _ : tok => false).

  Lemma lowpost_in : forall q, Doc.is_lowpost q = true -> In q lowpost_toks.
  Proof.
    intros t H; destruct t as [n c|n|i|i|i|i|i|i|i| | |i|i]; try destruct c;
      cbv beta iota delta [Doc.is_lowpost] in H; try discriminate.
    apply existsb_exists in H. destruct H as (m & Hm & He).
    apply String.eqb_eq in He. subst. now apply (in_map (fun m => TSym m false)).
  Qed.

  Lemma I_lowpost_all : forall q, Doc.is_lowpost q = true ->
    (lbp_of E K q = Some (L_of q) /\ (exists h, led_of E K q = Some (LPostfix h)) /\ 0 < L_of q /\ L_of q <= maxl)
    /\ (forall o, Doc.is_binop o = true ->
          (Doc.prec o <= Doc.assign_level -> R_of o < L_of q) /\ (Doc.assign_level < Doc.prec o -> L_of q <= R_of o)).
  Proof.
    intros q Hq. apply lowpost_in in Hq.
    pose proof ok_lowpost as H. unfold chk_lowpost in H. rewrite forallb_forall in H. specialize (H _ Hq).
    unfold L_of.
    destruct (led_of E K q) as [[r h|h| | |]|]; try discriminate.
    destruct (lbp_of E K q) as [l|]; try discriminate.
    apply andb_prop in H. destruct H as (H & H3). apply andb_prop in H. destruct H as (H1 & H2).
    apply Z.ltb_lt in H1. apply Z.leb_le in H2. split.
    - repeat split; eauto.
    - intros o Ho. apply binop_in in Ho. rewrite forallb_forall in H3. specialize (H3 _ Ho).
      destruct (Doc.prec o <=? Doc.assign_level) eqn:E1.
      + apply Z.leb_le in E1. apply Z.ltb_lt in H3. split; intros; lia.
      + apply Z.leb_gt in E1. apply Z.leb_le in H3. split; intros; lia.
  Qed.

  Lemma I_lowpost : forall q, Doc.is_lowpost q = true ->
    lbp_of E K q = Some (L_of q) /\ (exists h, led_of E K q = Some (LPostfix h)) /\ 0 < L_of q /\ L_of q <= maxl.
  Proof. intros q Hq. apply (I_lowpost_all q Hq). Qed.

  Lemma classify_parts : forall ts a,
    classify tok Doc.is_operand Doc.is_prefix Doc.is_binop Doc.is_postfix ts = Some a ->
    unit_ok tok Doc.is_operand Doc.is_prefix Doc.is_postfix (fst a) /\
    tail_ok tok Doc.is_operand Doc.is_prefix Doc.is_binop Doc.is_postfix (snd a) /\ ts = alt_tokens tok a.
  Proof.
    unfold classify; intros.
    destruct (take_expr tok Doc.is_operand Doc.is_prefix Doc.is_binop Doc.is_postfix ts) as [[a' r]|] eqn:Et; [|discriminate].
    destruct r; [|discriminate]. inversion H; subst.
    apply take_expr_spec in Et. destruct Et as (E1 & E2 & E3). rewrite app_nil_r in E3. auto.
  Qed.

  Lemma no_assign_ops : forall (a : alt tok) o,
    tail_ok tok Doc.is_operand Doc.is_prefix Doc.is_binop Doc.is_postfix (snd a) ->
    Doc.no_assign a = true -> In o (ops tok (snd a)) ->
    Doc.is_binop o = true /\ Doc.assign_level < Doc.prec o.
  Proof.
    intros a o Hl Hn Ho. unfold ops in Ho. apply in_map_iff in Ho. destruct Ho as ([o' uo] & E1 & E2).
    cbn in E1. subst o'. split.
    - unfold tail_ok in Hl. rewrite Forall_forall in Hl. apply (Hl _ E2).
    - unfold Doc.no_assign in Hn. rewrite forallb_forall in Hn. specialize (Hn _ E2). cbn in Hn.
      now apply Z.ltb_lt in Hn.
  Qed.

  (* E ++  (E without a top-level assignment operator): the whole of E is the operand *)
  Theorem inst_postfix : forall eof ts a q,
    classify tok Doc.is_operand Doc.is_prefix Doc.is_binop Doc.is_postfix ts = Some a ->
    Doc.no_assign a = true -> Doc.is_lowpost q = true ->
    m_expr E K nf eof (fuel_for tok (ts ++ [q])) 0 (ts ++ [q])
    = ROk (Post q (split_alt tok Doc.prec Doc.rassoc a), []).
  Proof.
    intros eof ts a q Hc Hn Hq. apply classify_parts in Hc. destruct Hc as (Hu & Hl & Hts). subst ts.
    destruct (I_lowpost_all q Hq) as ((_ & _ & Hpos & _) & Hrel).
    unfold m_expr.
    apply (expr_postfix tok (lbp_of E K) (nud_of E) (led_of E K) is_else nf eof
             Doc.is_operand Doc.is_prefix Doc.is_binop Doc.is_postfix Doc.prec Doc.rassoc L_of R_of maxl maxr
             I_operand I_prefix I_binop I_postfix I_order I_uniform Doc.is_lowpost I_lowpost a q 0 [] _ Hu Hl Hq).
    - destruct I_max. lia.
    - exact Hpos.
    - intros o Ho. destruct (no_assign_ops a o Hl Hn Ho) as (Hb & Hp). split.
      + apply I_binop_pos; auto.
      + apply (Hrel o Hb); auto.
    - exact I.
    - apply le_n.
  Qed.

  (* lhs = E ++ : the postfix operator applies inside the right operand of the assignment *)
  Theorem inst_assign_postfix : forall eof us u asg ts a q,
    take_unit tok Doc.is_operand Doc.is_prefix Doc.is_postfix us = Some (u, []) ->
    Doc.is_binop asg = true -> Doc.prec asg <= Doc.assign_level ->
    classify tok Doc.is_operand Doc.is_prefix Doc.is_binop Doc.is_postfix ts = Some a ->
    Doc.no_assign a = true -> Doc.is_lowpost q = true ->
    m_expr E K nf eof (fuel_for tok (us ++ asg :: ts ++ [q])) 0 (us ++ asg :: ts ++ [q])
    = ROk (Bin asg (unit_tree tok u) (Post q (split_alt tok Doc.prec Doc.rassoc a)), []).
  Proof.
    intros eof us u asg ts a q Hus Hasg Hpa Hc Hn Hq.
    apply take_unit_spec in Hus. destruct Hus as (Hu0 & Hus). rewrite app_nil_r in Hus. subst us.
    apply classify_parts in Hc. destruct Hc as (Hu & Hl & Hts). subst ts.
    destruct (I_lowpost_all q Hq) as (_ & Hrel).
    destruct (Hrel asg Hasg) as (Hra & _). specialize (Hra Hpa).
    unfold m_expr.
    apply (assign_postfix tok (lbp_of E K) (nud_of E) (led_of E K) is_else nf eof
             Doc.is_operand Doc.is_prefix Doc.is_binop Doc.is_postfix Doc.prec Doc.rassoc L_of R_of maxl maxr
             I_operand I_prefix I_binop I_postfix I_order I_uniform I_max I_binop_pos Doc.is_lowpost I_lowpost
             u asg a q [] _ Hu0 Hasg Hra Hu Hl Hq).
    - intros o Ho. destruct (no_assign_ops a o Hl Hn Ho) as (Hb & Hp).
      destruct (Hrel o Hb) as (_ & H2). specialize (H2 Hp).
      destruct (I_binop o Hb) as (_ & _ & _ & Hr2 & _). split; lia.
    - exact I.
    - apply le_n.
  Qed.

  (* ---- if / else ---- *)
  Definition Parses (eof : option tok) (P : list tok -> Prop) (r : Z) (ts : list tok) (x : tree tok) : Prop :=
    PA tok (lbp_of E K) (nud_of E) (led_of E K) is_else nf eof P r ts x.
  Definition AnyTail : list tok -> Prop := Any tok.
  Definition NoElse (eof : option tok) : list tok -> Prop := no_else tok is_else eof.
  (* the first token does not bind to the left *)
  Definition starts_stmt (ts : list tok) : bool :=
    match ts with
    | t :: _ => match lbp_of E K t with Some l => l <=? 0 | None => false end
    | [] => false
    end.

  Lemma starts_stops0 : forall ts, starts_stmt ts = true -> stops0 tok (lbp_of E K) ts /\ ts <> [].
  Proof.
    intros [|t r] H; [discriminate|]. unfold starts_stmt in H. split; [|discriminate].
    unfold stops0. destruct (lbp_of E K t) as [l|]; [|discriminate]. exists l. split; auto. now apply Z.leb_le.
  Qed.

  Lemma I_if : nud_of E Doc.if_tok = NIf if_cond_level 0 0 /\ 0 <= if_cond_level <= maxr /\
               (forall o, Doc.is_binop o = true -> if_cond_level < L_of o) /\
               stops0 tok (lbp_of E K) [Doc.else_tok].
  Proof.
    pose proof ok_if as H. unfold chk_if in H. unfold if_cond_level.
    apply andb_prop in H. destruct H as (H & _). apply andb_prop in H. destruct H as (H & He).
    destruct (nud_of E Doc.if_tok) as [|? ?|r1 r2 r3| |?]; try discriminate.
    apply andb_prop in H. destruct H as (H & H5). apply andb_prop in H. destruct H as (H & H4).
    apply andb_prop in H. destruct H as (H & H3). apply andb_prop in H. destruct H as (H1 & H2).
    apply Z.leb_le in H1, H2. apply Z.eqb_eq in H3, H4. subst. repeat split; auto.
    - intros o Ho. apply binop_in in Ho. rewrite forallb_forall in H5. specialize (H5 _ Ho). now apply Z.ltb_lt in H5.
    - unfold stops0. destruct (lbp_of E K Doc.else_tok) as [l|]; [|discriminate]. exists l. split; auto. now apply Z.leb_le.
  Qed.

  (* every expression of the documented grammar parses, at the level of an if condition too *)
  Theorem inst_doc_parses : forall eof P r ts a,
    classify tok Doc.is_operand Doc.is_prefix Doc.is_binop Doc.is_postfix ts = Some a ->
    0 <= r <= if_cond_level -> Parses eof P r ts (split_alt tok Doc.prec Doc.rassoc a).
  Proof.
    intros eof P r ts a Hc Hr. apply classify_parts in Hc. destruct Hc as (Hu & Hl & Hts). subst ts.
    destruct I_if as (_ & Hlev & Hlt & _).
    apply (doc_PA tok (lbp_of E K) (nud_of E) (led_of E K) is_else nf eof
             Doc.is_operand Doc.is_prefix Doc.is_binop Doc.is_postfix Doc.prec Doc.rassoc L_of R_of maxl maxr
             I_operand I_prefix I_binop I_postfix I_order I_uniform I_max a r P Hu Hl).
    - lia.
    - intros o Ho. assert (Hb := ops_binop _ _ _ _ _ _ _ Hl Ho). specialize (Hlt o Hb). lia.
  Qed.

  Lemma inst_doc_parses_eq : forall eof P r ts a x,
    classify tok Doc.is_operand Doc.is_prefix Doc.is_binop Doc.is_postfix ts = Some a ->
    split_alt tok Doc.prec Doc.rassoc a = x ->
    0 <= r <= if_cond_level -> Parses eof P r ts x.
  Proof. intros; subst; apply inst_doc_parses; auto. Qed.

  (* if C T else X : for all nestings (X may be another if form: else-if chains) *)
  Theorem inst_if_else : forall eof P C c T t X x rbp,
    0 <= rbp ->
    Parses eof AnyTail if_cond_level C c -> Parses eof AnyTail 0 T t -> Parses eof P 0 X x ->
    starts_stmt T = true ->
    Parses eof P rbp (Doc.if_tok :: C ++ T ++ Doc.else_tok :: X)
           (Cond Doc.if_tok c t (Some (Doc.else_tok, x))).
  Proof.
    intros eof P C c T t X x rbp Hr HC HT HX HsT.
    destruct I_if as (Hn & _ & _ & Hse). destruct (starts_stops0 T HsT) as (Hs0 & Hne).
    apply (if_else_PA tok (lbp_of E K) (nud_of E) (led_of E K) is_else nf eof maxl maxr I_max
             P Doc.if_tok if_cond_level 0 0 C c T t Doc.else_tok X x rbp Hn Hr HC HT HX); auto.
  Qed.

  Theorem inst_if_noelse : forall eof C c T t rbp,
    0 <= rbp ->
    Parses eof AnyTail if_cond_level C c -> Parses eof (NoElse eof) 0 T t ->
    starts_stmt T = true ->
    Parses eof (NoElse eof) rbp (Doc.if_tok :: C ++ T) (Cond Doc.if_tok c t None).
  Proof.
    intros eof C c T t rbp Hr HC HT HsT.
    destruct I_if as (Hn & _ & _ & _). destruct (starts_stops0 T HsT) as (Hs0 & Hne).
    apply (if_noelse_PA tok (lbp_of E K) (nud_of E) (led_of E K) is_else nf eof maxl maxr I_max
             Doc.if_tok if_cond_level 0 0 C c T t rbp Hn Hr HC HT); auto.
  Qed.

  (* lhs op Y  where Y parses at every level (an if form): x = if a b else c *)
  Theorem inst_binop_then : forall eof P us u o Y y,
    take_unit tok Doc.is_operand Doc.is_prefix Doc.is_postfix us = Some (u, []) ->
    Doc.is_binop o = true -> (forall r, 0 <= r -> Parses eof P r Y y) ->
    Parses eof P 0 (us ++ o :: Y) (Bin o (unit_tree tok u) y).
  Proof.
    intros eof P us u o Y y Hus Ho HY.
    apply take_unit_spec in Hus. destruct Hus as (Hu0 & Hus). rewrite app_nil_r in Hus. subst us.
    destruct (I_binop o Ho) as (_ & _ & _ & _ & _ & Hr0 & _).
    apply (binop_then_PA tok (lbp_of E K) (nud_of E) (led_of E K) is_else nf eof
             Doc.is_operand Doc.is_prefix Doc.is_binop Doc.is_postfix Doc.rassoc L_of R_of maxl maxr
             I_operand I_prefix I_binop I_postfix I_max I_binop_pos P u o Y y Hu0 Ho (HY _ Hr0)).
  Qed.

  (* a Parses fact is a statement about the model run with the runner's fuel *)
  Lemma Parses_run : forall eof P r ts x,
    Parses eof P r ts x -> P [] ->
    m_expr E K nf eof (fuel_for tok ts) r ts = ROk (x, []).
  Proof.
    intros eof P r ts x H HP. specialize (H [] I HP (fuel_for tok ts) (le_n _)).
    rewrite app_nil_r in H. exact H.
  Qed.

  (* ---- normalizeArraySelector ---- *)
  Definition sel_conv (s : Doc.sselector) : selector :=
    match s with
    | Doc.SSRaw l => SelRaw l
    | Doc.SSIdx x => SelIdx x
    | Doc.SSSlice a b => SelSlice a b
    end.

  Lemma parse_one_doc : forall ts x, Doc.parse ts = Some x -> m_parse_one E K nf ts = ROk (x, []).
  Proof.
    intros ts x H. unfold Doc.parse, spec_parse in H.
    destruct (classify tok Doc.is_operand Doc.is_prefix Doc.is_binop Doc.is_postfix ts) as [a|] eqn:Ec; [|discriminate].
    inversion H; subst. unfold m_parse_one, parse_one.
    exact (instance_correct _ ts a Ec).
  Qed.

  Lemma parse_one_ext : forall ts x, Doc.parse_ext ts = Some x -> m_parse_one E K nf ts = ROk (x, []).
  Proof.
    intros ts x H. unfold Doc.parse_ext in H.
    destruct (Doc.parse ts) as [y|] eqn:Ep.
    - inversion H; subst. now apply parse_one_doc.
    - destruct (rev ts) as [|q re] eqn:Er; [discriminate|].
      destruct (Doc.is_lowpost q) eqn:Eq; [|discriminate].
      destruct (classify tok Doc.is_operand Doc.is_prefix Doc.is_binop Doc.is_postfix (rev re)) as [a|] eqn:Ec; [|discriminate].
      destruct (Doc.no_assign a) eqn:En; [|discriminate]. inversion H; subst.
      assert (Hts : ts = (rev re ++ [q])%list).
      { rewrite <- (rev_involutive ts), Er. reflexivity. }
      rewrite Hts. unfold m_parse_one, parse_one.
      exact (inst_postfix _ (rev re) a q Ec En Eq).
  Qed.

  Lemma seg_doc : forall ts o, Doc.seg ts = Some o -> parse_segment E K nf ts = ROk o.
  Proof.
    intros ts o H. unfold Doc.seg in H. unfold parse_segment. destruct ts as [|t r].
    - now inversion H.
    - destruct (Doc.parse (t :: r)) as [x|] eqn:Ep; [|discriminate]. inversion H; subst.
      now rewrite (parse_one_doc _ _ Ep).
  Qed.

  Lemma block_two_rest : forall ts x1 x2 xs,
    Doc.block ts = Some (x1 :: x2 :: xs) -> forallb Doc.is_operand ts = true ->
    exists y t rest, m_parse_one E K nf ts = ROk (y, t :: rest).
  Proof.
    intros ts x1 x2 xs Hb Hop. apply instance_block in Hb.
    unfold m_parse_block, parse_block in Hb. unfold m_parse_one, parse_one.
    destruct ts as [|t r]; [discriminate|].
    cbn [forallb] in Hop. apply andb_prop in Hop. destruct Hop as (Ht & _).
    assert (Hs : is_semi t = false).
    { destruct (is_semi t) eqn:Es; auto. destruct (I_semi t Es). congruence. }
    change (S (length (t :: r))) with (S (S (length r))) in Hb.
    rewrite (stmts_S tok (lbp_of E K) (nud_of E) (led_of E K) is_else nf _ is_semi is_label_for) in Hb.
    cbn [drop_semis] in Hb. rewrite Hs in Hb.
    destruct (is_label_for (t :: r)); [discriminate|].
    destruct (expr tok (lbp_of E K) (nud_of E) (led_of E K) is_else nf (last (map Some (t :: r)) None)
                (fuel_for tok (t :: r)) 0 (t :: r)) as [[y rest]| | | |]; try discriminate.
    destruct rest as [|t' rest']; [|eauto].
    exfalso. cbn [bind fst snd] in Hb.
    rewrite (stmts_S tok (lbp_of E K) (nud_of E) (led_of E K) is_else nf _ is_semi is_label_for) in Hb.
    cbn [drop_semis bind] in Hb.
    destruct (match y with Leaf t0 => negb (is_semi t0) | _ => true end); inversion Hb.
  Qed.

  (* the index / slice selector the model of normalizeArraySelector builds is the documented one:
     [i] with the oracle tree of i, [a : b] / [: b] / [a :] / [:] with the oracle trees of the
     bounds, the raw tokens for a single token or several juxtaposed operands (hash multi-key) *)
  Theorem inst_selector : forall content s,
    Doc.selector content = Some s ->
    norm_selector E K nf content = ROk (sel_conv s).
  Proof.
    intros content s H. unfold Doc.selector in H. unfold norm_selector.
    destruct (length (filter is_colon (split_colon_tail content))) as [|[|n]].
    - rewrite I_selmax. destruct (split_colon_tail content) as [|t1 [|t2 r]].
      + now inversion H.
      + now inversion H.
      + cbn [length Nat.leb].
        destruct (Doc.parse_ext (t1 :: t2 :: r)) as [x|] eqn:Ep.
        * inversion H; subst. now rewrite (parse_one_ext _ _ Ep).
        * destruct (Doc.block (t1 :: t2 :: r)) as [[|x1 [|x2 xs]]|] eqn:Eb; try discriminate.
          destruct (forallb Doc.is_operand (t1 :: t2 :: r)) eqn:Eo; [|discriminate].
          inversion H; subst.
          destruct (block_two_rest _ _ _ _ Eb Eo) as (y & t' & rest & Hy). now rewrite Hy.
    - destruct (Doc.seg (fst (split_at_colon (split_colon_tail content)))) as [a|] eqn:Ea; [|discriminate].
      destruct (Doc.seg (snd (split_at_colon (split_colon_tail content)))) as [b|] eqn:Eb; [|discriminate].
      inversion H; subst. rewrite (seg_doc _ _ Ea), (seg_doc _ _ Eb). reflexivity.
    - discriminate.
  Qed.
End Inst.
