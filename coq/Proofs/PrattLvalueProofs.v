(* C06 — assignment through a path: read-after-write and frame. *)
From Coq Require Import ZArith String List Bool Lia.
Import ListNotations.
Require Import ZV.Model.PrattLvalue.
Open Scope Z_scope.

Lemma rec_get_set_same : forall l k v l', rec_set l k v = Some l' -> rec_get l' k = Some v.
Proof.
  induction l as [|[k' v'] r IH]; cbn; intros; [discriminate|].
  destruct (String.eqb k' k) eqn:E.
  - inversion H; subst. cbn. now rewrite E.
  - destruct (rec_set r k v) eqn:Er; [|discriminate]. inversion H; subst. cbn. rewrite E. eauto.
Qed.

Lemma rec_get_set_other : forall l k v l' k2, rec_set l k v = Some l' -> k2 <> k -> rec_get l' k2 = rec_get l k2.
Proof.
  induction l as [|[k' v'] r IH]; cbn; intros; [discriminate|].
  destruct (String.eqb k' k) eqn:E.
  - inversion H; subst. cbn. apply String.eqb_eq in E. subst.
    destruct (String.eqb k k2) eqn:E2; auto. apply String.eqb_eq in E2. congruence.
  - destruct (rec_set r k v) eqn:Er; [|discriminate]. inversion H; subst. cbn.
    destruct (String.eqb k' k2); eauto.
Qed.

Lemma rec_set_length : forall l k v l', rec_set l k v = Some l' -> length l' = length l /\ map fst l' = map fst l.
Proof.
  induction l as [|[k' v'] r IH]; cbn; intros; [discriminate|].
  destruct (String.eqb k' k).
  - inversion H; subst. auto.
  - destruct (rec_set r k v) eqn:Er; [|discriminate]. inversion H; subst. cbn.
    destruct (IH _ _ _ Er). split; congruence.
Qed.

Lemma arr_get_set_same : forall l i v l', arr_set l i v = Some l' -> nth_error l' i = Some v.
Proof.
  induction l as [|x r IH]; intros [|j] v l' H; cbn in *; try discriminate.
  - now inversion H.
  - destruct (arr_set r j v) eqn:Er; [|discriminate]. inversion H; subst. cbn. eauto.
Qed.

Lemma arr_get_set_other : forall l i v l' j, arr_set l i v = Some l' -> j <> i -> nth_error l' j = nth_error l j.
Proof.
  induction l as [|x r IH]; intros [|i] v l' j H Hne; cbn in *; try discriminate.
  - inversion H; subst. destruct j; [congruence|reflexivity].
  - destruct (arr_set r i v) eqn:Er; [|discriminate]. inversion H; subst.
    destruct j; cbn; auto. eapply IH; eauto.
Qed.

Lemma arr_set_length : forall l i v l', arr_set l i v = Some l' -> length l' = length l.
Proof.
  induction l as [|x r IH]; intros [|j] v l' H; cbn in *; try discriminate.
  - now inversion H.
  - destruct (arr_set r j v) eqn:Er; [|discriminate]. inversion H; subst. cbn. f_equal. eauto.
Qed.

(* read after write *)
Theorem dget_dset_same : forall p v d d', dset p v d = Some d' -> dget p d' = Some v.
Proof.
  induction p as [|[i|k] p IH]; cbn; intros v d d' H.
  - congruence.
  - destruct d as [|l|]; try discriminate.
    destruct (nth_error l i) as [x|]; [|discriminate].
    destruct (dset p v x) as [x'|] eqn:Ex; [|discriminate].
    destruct (arr_set l i x') as [l'|] eqn:El; [|discriminate]. inversion H; subst.
    rewrite (arr_get_set_same _ _ _ _ El). eauto.
  - destruct d as [| |l]; try discriminate.
    destruct (rec_get l k) as [x|]; [|discriminate].
    destruct (dset p v x) as [x'|] eqn:Ex; [|discriminate].
    destruct (rec_set l k x') as [l'|] eqn:El; [|discriminate]. inversion H; subst.
    rewrite (rec_get_set_same _ _ _ _ El). eauto.
Qed.

(* two paths diverge: at some depth they take a different index / a different field *)
Inductive diverge : list step -> list step -> Prop :=
| div_idx : forall i j p q, i <> j -> diverge (SIdx i :: p) (SIdx j :: q)
| div_fld : forall a b p q, a <> b -> diverge (SFld a :: p) (SFld b :: q)
| div_cons : forall s p q, diverge p q -> diverge (s :: p) (s :: q).

(* frame: everything on a diverging path is untouched *)
Theorem dget_dset_other : forall p q v d d', dset p v d = Some d' -> diverge q p -> dget q d' = dget q d.
Proof.
  induction p as [|[i|k] p IH]; intros q v d d' H Hd; [inversion Hd| |]; cbn in H.
  - destruct d as [|l|]; try discriminate.
    destruct (nth_error l i) as [x|] eqn:En; [|discriminate].
    destruct (dset p v x) as [x'|] eqn:Ex; [|discriminate].
    destruct (arr_set l i x') as [l'|] eqn:El; [|discriminate]. inversion H; subst.
    inversion Hd; subst; cbn.
    + now rewrite (arr_get_set_other _ _ _ _ _ El H2).
    + rewrite (arr_get_set_same _ _ _ _ El), En. eauto.
  - destruct d as [| |l]; try discriminate.
    destruct (rec_get l k) as [x|] eqn:En; [|discriminate].
    destruct (dset p v x) as [x'|] eqn:Ex; [|discriminate].
    destruct (rec_set l k x') as [l'|] eqn:El; [|discriminate]. inversion H; subst.
    inversion Hd; subst; cbn.
    + now rewrite (rec_get_set_other _ _ _ _ _ El H2).
    + rewrite (rec_get_set_same _ _ _ _ El), En. eauto.
Qed.

