(* C06 — proofs about the Pratt model (Model/Pratt.v) and the split-at-weakest oracle
   (Model/PrattSpec.v). *)
From Coq Require Import ZArith String List Bool Lia Arith.
Import ListNotations.
Require Import ZV.Model.PrattTypes ZV.Model.Pratt ZV.Model.PrattSpec.
Open Scope Z_scope.

(* ========================================================================================== *)
(* 1. yield: whatever the table, the in-order yield of the tree plus the unread rest is the    *)
(*    token list (nothing is lost, duplicated or reordered)                                    *)
Section Yield.
  Variable tok : Type.
  Variables (lbp : tok -> option Z) (nud : tok -> nudk) (led : tok -> option ledk)
            (is_else led_err : tok -> bool) (eof_tok : option tok).
  Notation expr := (expr tok lbp nud led is_else led_err eof_tok).
  Notation loop := (loop tok lbp nud led is_else led_err eof_tok).
  Notation yield := (yield tok).

  Lemma expr_S : forall f rbp ts,
    expr (S f) rbp ts =
      match ts with
      | [] => ROk (Eof, [])
      | t :: rest =>
        bind
          (match nud t with
           | NAtom => ROk (Leaf t, rest)
           | NPrefix r _ => bind (expr f r rest) (fun p => ROk (Pre t (fst p), snd p))
           | NIf r1 r2 r3 =>
             bind (expr f r1 rest) (fun pc =>
             bind (expr f r2 (snd pc)) (fun pt =>
               match snd pt with
               | e :: rest3 =>
                 if is_else e
                 then bind (expr f r3 rest3) (fun pe => ROk (Cond t (fst pc) (fst pt) (Some (e, fst pe)), snd pe))
                 else ROk (Cond t (fst pc) (fst pt) None, snd pt)
               | [] =>
                 match eof_tok with
                 | Some e => if is_else e then ROk (CondStale t (fst pc) (fst pt), [])
                             else ROk (Cond t (fst pc) (fst pt) None, [])
                 | None => ROk (Cond t (fst pc) (fst pt) None, [])
                 end
               end))
           | NFor => RUnsup
           | NCtl _ => RUnsup
           end)
          (fun p => loop f rbp (fst p) (snd p))
      end.
  Proof. reflexivity. Qed.

  Lemma loop_S : forall f rbp left ts,
    loop (S f) rbp left ts =
      match ts with
      | [] => ROk (left, [])
      | t :: rest =>
        match lbp t with
        | None => RErr
        | Some l =>
          if rbp >=? l then ROk (left, ts)
          else
            match led t with
            | None => RCrash
            | Some (LBin r _) => bind (expr f r rest) (fun p => loop f rbp (Bin t left (fst p)) (snd p))
            | Some (LPostfix _) => loop f rbp (Post t left) rest
            | Some LIndex => if led_err t then RErr else loop f rbp (Post t left) rest
            | Some LDotIdx => loop f rbp (Post t left) rest
            | Some LDrop => loop f rbp (Drop t left) rest
            end
        end
      end.
  Proof. reflexivity. Qed.

  Ltac dres E :=
    match goal with
    | H : context [bind (expr ?f ?r ?ts) _] |- _ =>
      destruct (expr f r ts) as [[? ?]| | | |] eqn:E; cbn [bind fst snd] in H; try discriminate
    end.

  Ltac fin :=
    subst; cbn [Pratt.yield fst snd]; rewrite <- ?app_assoc; cbn [app];
    rewrite <- ?app_assoc, ?app_nil_r; cbn [app]; rewrite <- ?app_assoc; try reflexivity.

  Lemma expr_loop_yield : forall fuel,
    (forall rbp ts x rest, expr fuel rbp ts = ROk (x, rest) -> yield x ++ rest = ts) /\
    (forall rbp left ts x rest, loop fuel rbp left ts = ROk (x, rest) -> yield x ++ rest = yield left ++ ts).
  Proof.
    induction fuel as [|f [IHe IHl]]; split; intros; try discriminate.
    - (* expr *)
      rewrite expr_S in H. destruct ts as [|t rest0].
      + inversion H; subst. reflexivity.
      + destruct (nud t) eqn:Hn.
        * cbn [bind fst snd] in H. apply IHl in H. exact H.
        * dres E1. apply IHe in E1. apply IHl in H. rewrite H. fin.
        * dres E1. dres E2. apply IHe in E1. apply IHe in E2.
          destruct l0 as [|e rest3].
          -- assert (HH : loop f rbp (Cond t t0 t1 None) [] = ROk (x, rest)
                          \/ loop f rbp (CondStale t t0 t1) [] = ROk (x, rest)).
             { cbn [snd fst] in H. destruct eof_tok as [e|]; [destruct (is_else e)|]; auto. }
             destruct HH as [HH|HH]; apply IHl in HH; rewrite HH; fin.
          -- cbn [snd fst] in H. destruct (is_else e) eqn:He.
             ++ dres E3. apply IHe in E3. apply IHl in H. rewrite H. fin.
             ++ apply IHl in H. rewrite H. fin.
        * discriminate.
        * discriminate.
    - (* loop *)
      rewrite loop_S in H. destruct ts as [|t rest0].
      + inversion H; subst. now rewrite !app_nil_r.
      + destruct (lbp t) as [l|]; [|discriminate].
        destruct (rbp >=? l).
        * inversion H; subst. reflexivity.
        * destruct (led t) as [[r h|h| | |]|]; try discriminate.
          -- dres E1. apply IHe in E1. apply IHl in H. rewrite H. fin.
          -- apply IHl in H. rewrite H. fin.
          -- destruct (led_err t); [discriminate|].
             apply IHl in H. rewrite H. fin.
          -- apply IHl in H. rewrite H. fin.
          -- apply IHl in H. rewrite H. fin.
  Qed.

  Theorem expr_yield : forall fuel rbp ts x rest,
    expr fuel rbp ts = ROk (x, rest) -> yield x ++ rest = ts.
  Proof. intros. eapply (proj1 (expr_loop_yield fuel)); eauto. Qed.
End Yield.

(* ========================================================================================== *)
(* 2. the Pratt loop returns the split-at-weakest tree, for lists of any length                *)
Section Correct.
  Variable tok : Type.
  Variables (lbp : tok -> option Z) (nud : tok -> nudk) (led : tok -> option ledk)
            (is_else led_err : tok -> bool) (eof_tok : option tok).
  Variables (is_operand is_prefix is_binop is_postfix : tok -> bool) (prec : tok -> Z) (rassoc : tok -> bool).
  (* numeric view of the table: L = left binding power, R = the right binding power the
     operator passes to Expression *)
  Variables (L R : tok -> Z) (maxl maxr : Z).

  Hypothesis H_operand : forall t, is_operand t = true -> nud t = NAtom.
  Hypothesis H_prefix : forall t, is_prefix t = true ->
    (exists h, nud t = NPrefix (R t) h) /\ maxl <= R t /\ R t <= maxr.
  Hypothesis H_binop : forall t, is_binop t = true ->
    (exists h, led t = Some (LBin (R t) h)) /\ lbp t = Some (L t) /\
    L t - 1 <= R t /\ R t <= L t /\ L t <= maxl /\ 0 <= R t /\ R t <= maxr /\ rassoc t = (R t <? L t).
  Hypothesis H_postfix : forall t, is_postfix t = true ->
    lbp t = Some (L t) /\ maxr < L t /\ led_err t = false /\
    (led t = Some LIndex \/ led t = Some LDotIdx \/ exists h, led t = Some (LPostfix h)).
  Hypothesis H_order : forall a b, is_binop a = true -> is_binop b = true ->
    (prec a <? prec b) = (L a <? L b) /\ (prec a =? prec b) = (L a =? L b).
  Hypothesis H_uniform : forall a b, is_binop a = true -> is_binop b = true ->
    L a = L b -> rassoc a = rassoc b.
  Hypothesis H_max : 0 <= maxl /\ 0 <= maxr.

  Notation expr := (expr tok lbp nud led is_else led_err eof_tok).
  Notation loop := (loop tok lbp nud led is_else led_err eof_tok).
  Notation unit_ := (unit_ tok).
  Notation unit_tokens := (unit_tokens tok).
  Notation tail_tokens := (tail_tokens tok).
  Notation unit_tree := (unit_tree tok).
  Notation split := (split tok prec rassoc).
  Notation split_alt := (split_alt tok prec rassoc).
  Notation weakest := (weakest tok prec rassoc).
  Notation root_index := (root_index tok prec rassoc).

  (* big-step view with an explicit fuel bound *)
  Definition Expr rbp ts res (n : nat) := forall f, (f >= n)%nat -> expr f rbp ts = ROk res.
  Definition Loop rbp left ts res (n : nat) := forall f, (f >= n)%nat -> loop f rbp left ts = ROk res.

  Lemma Expr_weaken : forall rbp ts res n m, Expr rbp ts res n -> (n <= m)%nat -> Expr rbp ts res m.
  Proof. unfold Expr; intros. apply H. lia. Qed.
  Lemma Loop_weaken : forall rbp l ts res n m, Loop rbp l ts res n -> (n <= m)%nat -> Loop rbp l ts res m.
  Proof. unfold Loop; intros. apply H. lia. Qed.

  Lemma Expr_atom : forall rbp t rest res n,
    nud t = NAtom -> Loop rbp (Leaf t) rest res n -> Expr rbp (t :: rest) res (S n).
  Proof.
    unfold Expr, Loop; intros. destruct f; [lia|].
    rewrite (expr_S tok lbp nud led is_else led_err eof_tok). rewrite H. cbn [bind fst snd]. apply H0. lia.
  Qed.

  Lemma Expr_pre : forall rbp t r h rest x rest' res n1 n2,
    nud t = NPrefix r h -> Expr r rest (x, rest') n1 -> Loop rbp (Pre t x) rest' res n2 ->
    Expr rbp (t :: rest) res (S (Nat.max n1 n2)).
  Proof.
    unfold Expr, Loop; intros. destruct f; [lia|].
    rewrite (expr_S tok lbp nud led is_else led_err eof_tok). rewrite H.
    rewrite H0 by lia. cbn [bind fst snd]. apply H1. lia.
  Qed.

  Lemma Loop_nil : forall rbp left, Loop rbp left [] (left, []) 1.
  Proof. unfold Loop; intros. destruct f; [lia|]. reflexivity. Qed.

  Lemma Loop_stop : forall rbp left t rest l,
    lbp t = Some l -> l <= rbp -> Loop rbp left (t :: rest) (left, t :: rest) 1.
  Proof.
    unfold Loop; intros. destruct f; [lia|].
    rewrite (loop_S tok lbp nud led is_else led_err eof_tok). rewrite H.
    replace (rbp >=? l) with true by (rewrite Z.geb_leb; symmetry; apply Z.leb_le; lia). reflexivity.
  Qed.

  Lemma Loop_bin : forall rbp left t rest l r h x rest' res n1 n2,
    lbp t = Some l -> rbp < l -> led t = Some (LBin r h) ->
    Expr r rest (x, rest') n1 -> Loop rbp (Bin t left x) rest' res n2 ->
    Loop rbp left (t :: rest) res (S (Nat.max n1 n2)).
  Proof.
    unfold Expr, Loop; intros. destruct f; [lia|].
    rewrite (loop_S tok lbp nud led is_else led_err eof_tok). rewrite H.
    replace (rbp >=? l) with false by (rewrite Z.geb_leb; symmetry; apply Z.leb_gt; lia).
    rewrite H1. rewrite H2 by lia. cbn [bind fst snd]. apply H3. lia.
  Qed.

  Lemma Loop_post : forall rbp left t rest res n,
    is_postfix t = true -> rbp <= maxr ->
    Loop rbp (Post t left) rest res n -> Loop rbp left (t :: rest) res (S n).
  Proof.
    unfold Loop; intros. destruct f; [lia|].
    destruct (H_postfix t H) as (Hl & Hm & He & Hk).
    rewrite (loop_S tok lbp nud led is_else led_err eof_tok). rewrite Hl.
    replace (rbp >=? L t) with false by (rewrite Z.geb_leb; symmetry; apply Z.leb_gt; lia).
    destruct Hk as [Hk|[Hk|[h Hk]]]; rewrite Hk; try rewrite He; apply H1; lia.
  Qed.

  Definition unit_ok (u : unit_) : Prop :=
    Forall (fun t => is_prefix t = true) (u_pre u) /\ is_operand (u_atom u) = true /\
    Forall (fun t => is_postfix t = true) (u_post u).
  Definition tail_ok (l : list (tok * unit_)) : Prop :=
    Forall (fun p => is_binop (fst p) = true /\ unit_ok (snd p)) l.

  (* the next token ends the operand (it does not bind tighter than any binary operator) *)
  Definition headok (ts : list tok) : Prop :=
    match ts with [] => True | t :: _ => exists l, lbp t = Some l /\ l <= maxl end.
  Definition stops (rbp : Z) (ts : list tok) : Prop :=
    match ts with [] => True | t :: _ => exists l, lbp t = Some l /\ l <= maxl /\ l <= rbp end.

  Lemma Loop_end : forall rbp left ts, stops rbp ts -> Loop rbp left ts (left, ts) 1.
  Proof.
    intros. destruct ts as [|t r]. apply Loop_nil.
    destruct H as (l & Hl & _ & Hle). eapply Loop_stop; eauto.
  Qed.

  Lemma loop_posts : forall qs rbp left rest res n,
    Forall (fun t => is_postfix t = true) qs -> rbp <= maxr ->
    Loop rbp (fold_left (fun x q => Post q x) qs left) rest res n ->
    Loop rbp left (qs ++ rest) res (length qs + n).
  Proof.
    induction qs as [|q qs IH]; intros; cbn [app length fold_left] in *.
    - exact H1.
    - inversion H; subst. apply Loop_post; auto.
  Qed.

  Definition unit_tree' (ps : list tok) (a : tok) (qs : list tok) : tree tok :=
    unit_tree (mkUnit ps a qs).

  Lemma unit_U1 : forall ps a qs rbp tail,
    Forall (fun t => is_prefix t = true) ps -> is_operand a = true ->
    Forall (fun t => is_postfix t = true) qs ->
    rbp <= maxr -> stops rbp tail ->
    Expr rbp (ps ++ a :: qs ++ tail) (unit_tree' ps a qs, tail) (2 * (length ps + 1 + length qs) + 1).
  Proof.
    induction ps as [|p ps IH]; intros.
    - cbn [app]. eapply Expr_weaken.
      + apply Expr_atom. apply H_operand; auto.
        apply loop_posts; auto. apply Loop_end. exact H3.
      + cbn [length]. lia.
    - inversion H; subst. destruct (H_prefix p H6) as ((h & Hn) & Hlo & Hhi).
      cbn [app]. eapply Expr_weaken.
      + eapply Expr_pre. exact Hn.
        * apply (IH a qs (R p) tail); auto.
          destruct tail as [|t r]; cbn; auto. destruct H3 as (l & Hl & Hm & _).
          exists l. repeat split; auto. lia.
        * apply Loop_end. exact H3.
      + cbn [length]. lia.
  Qed.

  Lemma unit_U2 : forall ps a qs rbp more res n,
    Forall (fun t => is_prefix t = true) ps -> is_operand a = true ->
    Forall (fun t => is_postfix t = true) qs ->
    rbp <= maxr -> headok more ->
    Loop rbp (unit_tree' ps a qs) more res n ->
    Expr rbp (ps ++ a :: qs ++ more) res (2 * (length ps + 1 + length qs) + n + 1).
  Proof.
    intros. destruct ps as [|p ps].
    - cbn [app]. eapply Expr_weaken.
      + apply Expr_atom. apply H_operand; auto. apply loop_posts; auto. exact H4.
      + cbn [length]. lia.
    - inversion H; subst. destruct (H_prefix p H7) as ((h & Hn) & Hlo & Hhi).
      cbn [app]. eapply Expr_weaken.
      + eapply Expr_pre. exact Hn.
        * apply (unit_U1 ps a qs (R p) more); auto.
          destruct more as [|t r]; cbn; auto. destruct H3 as (l & Hl & Hm).
          exists l. repeat split; auto. lia.
        * exact H4.
      + cbn [length]. lia.
  Qed.

  (* ---- the root chosen by the oracle ---- *)
  Definition replaces (o bo : tok) : bool :=
    (prec o <? prec bo) || ((prec o =? prec bo) && negb (rassoc o)).

  Lemma weakest_skip : forall ys best bo i,
    (forall y, In y ys -> replaces y bo = false) -> weakest best bo i ys = best.
  Proof.
    induction ys as [|y ys IH]; intros; cbn [PrattSpec.weakest]; auto.
    assert (Hy := H y (or_introl eq_refl)). unfold replaces in Hy. rewrite Hy.
    apply IH. intros; apply H; right; auto.
  Qed.

  Lemma weakest_mid : forall o ys xs best bo i,
    replaces o bo = true -> (forall z, In z xs -> replaces o z = true) ->
    (forall y, In y ys -> replaces y o = false) ->
    weakest best bo i (xs ++ o :: ys) = (i + length xs)%nat.
  Proof.
    induction xs as [|z xs IH]; intros; cbn [app PrattSpec.weakest length].
    - unfold replaces in H. rewrite H. rewrite weakest_skip; auto; lia.
    - destruct ((prec z <? prec bo) || (prec z =? prec bo) && negb (rassoc z)).
      + rewrite IH; auto; try lia. apply H0; left; auto. intros; apply H0; right; auto.
      + rewrite IH; auto; try lia. intros; apply H0; right; auto.
  Qed.

  Lemma root_index_mid : forall o xs ys,
    (forall z, In z xs -> replaces o z = true) ->
    (forall y, In y ys -> replaces y o = false) ->
    root_index (xs ++ o :: ys) = length xs.
  Proof.
    intros. destruct xs as [|z xs]; cbn [app PrattSpec.root_index length].
    - apply weakest_skip; auto.
    - rewrite weakest_mid; auto. apply H; left; auto. intros; apply H; right; auto.
  Qed.

  Lemma split_fuel : forall f1 f2 u rest,
    (length rest <= f1)%nat -> (length rest <= f2)%nat -> split f1 u rest = split f2 u rest.
  Proof.
    induction f1 as [|f1 IH]; intros.
    - destruct rest; [|cbn in H; lia]. destruct f2; reflexivity.
    - destruct f2 as [|f2].
      + destruct rest; [|cbn in H0; lia]. reflexivity.
      + cbn [PrattSpec.split]. destruct rest as [|p rest]; auto.
        set (i := root_index (map fst (p :: rest))).
        destruct (skipn i (p :: rest)) as [|[o u'] after] eqn:Hs; auto.
        assert (Hlen : (length (skipn i (p :: rest)) <= length (p :: rest))%nat)
          by (rewrite skipn_length; lia).
        rewrite Hs in Hlen. cbn [length] in Hlen, H, H0.
        assert (Hf : (length (firstn i (p :: rest)) <= length rest)%nat).
        { assert (length (firstn i (p :: rest)) + length (skipn i (p :: rest)) = length (p :: rest))%nat
            by (rewrite <- app_length, firstn_skipn; reflexivity).
          rewrite Hs in H1. cbn [length] in H1. lia. }
        f_equal; apply IH; lia.
  Qed.

  Definition ops (l : list (tok * unit_)) : list tok := map fst l.

  Lemma split_root : forall u0 done o u1 x,
    (forall z, In z (ops done) -> replaces o z = true) ->
    (forall y, In y (ops x) -> replaces y o = false) ->
    split_alt (u0, done ++ (o, u1) :: x) = Bin o (split_alt (u0, done)) (split_alt (u1, x)).
  Proof.
    intros. unfold PrattSpec.split_alt. cbn [fst snd].
    rewrite app_length. cbn [length]. rewrite Nat.add_succ_r. cbn [PrattSpec.split].
    destruct (done ++ (o, u1) :: x) as [|p l] eqn:Hd.
    { destruct done; discriminate. }
    rewrite <- Hd. rewrite map_app. cbn [map fst].
    rewrite (root_index_mid o (map fst done) (map fst x)); auto.
    rewrite map_length.
    replace (skipn (length done) (done ++ (o, u1) :: x)) with ((o, u1) :: x)
      by (rewrite skipn_app, skipn_all, Nat.sub_diag; reflexivity).
    replace (firstn (length done) (done ++ (o, u1) :: x)) with done
      by (rewrite firstn_app, firstn_all, Nat.sub_diag; cbn; now rewrite app_nil_r).
    f_equal; apply split_fuel; lia.
  Qed.

  (* longest prefix of the tail whose operators all bind tighter than r *)
  Fixpoint span_gt (r : Z) (l : list (tok * unit_)) : list (tok * unit_) * list (tok * unit_) :=
    match l with
    | [] => ([], [])
    | p :: l' => if r <? L (fst p) then let q := span_gt r l' in (p :: fst q, snd q) else ([], l)
    end.

  Lemma span_gt_spec : forall r l,
    l = fst (span_gt r l) ++ snd (span_gt r l) /\
    (forall o, In o (ops (fst (span_gt r l))) -> r < L o) /\
    (match snd (span_gt r l) with [] => True | p :: _ => L (fst p) <= r end).
  Proof.
    induction l as [|p l IH]; cbn [span_gt].
    - cbn. repeat split; auto. intros o [].
    - destruct (r <? L (fst p)) eqn:E.
      + destruct IH as (I1 & I2 & I3). cbn [fst snd app]. repeat split; auto.
        * now rewrite <- I1.
        * intros o [Ho|Ho]. subst. apply Z.ltb_lt; auto. apply I2; auto.
      + cbn [fst snd app]. repeat split; auto. intros o []. apply Z.ltb_ge; auto.
  Qed.

  Lemma tail_tokens_app : forall a b, tail_tokens (a ++ b) = tail_tokens a ++ tail_tokens b.
  Proof. intros. unfold PrattSpec.tail_tokens. apply flat_map_app. Qed.

  Lemma tail_ok_app : forall a b, tail_ok (a ++ b) <-> tail_ok a /\ tail_ok b.
  Proof. intros. unfold tail_ok. apply Forall_app. Qed.

  Lemma headok_tail : forall rest tail rbp, tail_ok rest -> stops rbp tail -> headok (tail_tokens rest ++ tail).
  Proof.
    intros. destruct rest as [|[o u] rest]; cbn.
    - destruct tail; cbn; auto. destruct H0 as (l & ? & ? & ?). eauto.
    - inversion H; subst. destruct H3 as (Hb & _). cbn in Hb.
      destruct (H_binop o Hb) as (_ & Hl & _ & _ & Hm & _). eauto.
  Qed.

  Lemma headok_tail' : forall rest tail, tail_ok rest -> headok tail -> headok (tail_tokens rest ++ tail).
  Proof.
    intros. destruct rest as [|[o u] rest]; cbn; auto.
    inversion H; subst. destruct H3 as (Hb & _). cbn in Hb.
    destruct (H_binop o Hb) as (_ & Hl & _ & _ & Hm & _). eauto.
  Qed.

  (* the led loop over a tail of (operator, unit) pairs, in continuation form: whatever the loop
     does with the tokens `tail` once the tree of everything read so far is the oracle's tree *)
  Lemma Qc : forall n rest, (length rest <= n)%nat -> forall u0 done rbp B tail res m,
    unit_ok u0 -> tail_ok done -> tail_ok rest ->
    (forall o, In o (ops rest) -> rbp < L o) ->
    (forall o, In o (ops done) -> B < L o \/ (L o = B /\ rassoc o = false)) ->
    (match rest with p :: _ => L (fst p) <= B | [] => True end) ->
    0 <= rbp <= maxr ->
    (forall o, In o (ops rest) -> stops (R o) tail) -> headok tail -> (1 <= m)%nat ->
    Loop rbp (split_alt (u0, done ++ rest)) tail res m ->
    Loop rbp (split_alt (u0, done)) (tail_tokens rest ++ tail) res (2 * length (tail_tokens rest) + m).
  Proof.
    induction n as [|n IH]; intros rest Hlen u0 done rbp B tail res m Hu0 Hdone Hrest Hall Hinv Hfirst Hrbp Hmore Hhead Hm Hk.
    - destruct rest; [|cbn in Hlen; lia]. cbn [PrattSpec.tail_tokens flat_map app length].
      rewrite app_nil_r in Hk. eapply Loop_weaken. exact Hk. lia.
    - destruct rest as [|[o u1] rest'].
      { cbn [PrattSpec.tail_tokens flat_map app length].
        rewrite app_nil_r in Hk. eapply Loop_weaken. exact Hk. lia. }
      cbn [length] in Hlen.
      inversion Hrest as [|? ? Ho Hrest']; subst. destruct Ho as (Hb & Hu1). cbn [fst snd] in Hb, Hu1.
      destruct (H_binop o Hb) as ((h & Hled) & Hlbp & Hr1 & Hr2 & Hlm & Hr0 & Hrm & Hras).
      destruct (span_gt_spec (R o) rest') as (Hsplit & Hgt & Hnext).
      destruct (span_gt (R o) rest') as [x rest'']. cbn [fst snd] in Hsplit, Hgt, Hnext.
      assert (Hx : tail_ok x /\ tail_ok rest'') by (apply tail_ok_app; rewrite <- Hsplit; auto).
      destruct Hx as (Hxok & Hr''ok).
      assert (Hlenx : (length x + length rest'' = length rest')%nat)
        by (rewrite <- app_length, <- Hsplit; reflexivity).
      assert (Hrbp_o : rbp < L o) by (apply Hall; left; auto).
      assert (Hstop' : stops (R o) (tail_tokens rest'' ++ tail)).
      { destruct rest'' as [|[o2 u2] r2] eqn:Er.
        - cbn. apply Hmore. left; reflexivity.
        - cbn. inversion Hr''ok; subst. destruct H1 as (Hb2 & _). cbn in Hb2.
          destruct (H_binop o2 Hb2) as (_ & Hl2 & _ & _ & Hm2 & _). cbn in Hnext.
          exists (L o2). repeat split; auto. }
      destruct u1 as [ps a qs]. destruct Hu1 as (Hps & Ha & Hqs). cbn [u_pre u_atom u_post] in *.
      assert (Htoks : tail_tokens ((o, mkUnit ps a qs) :: rest') ++ tail
                      = o :: ps ++ a :: qs ++ (tail_tokens x ++ (tail_tokens rest'' ++ tail))).
      { rewrite Hsplit at 1. cbn [PrattSpec.tail_tokens flat_map fst snd].
        unfold PrattSpec.unit_tokens. cbn [u_pre u_atom u_post].
        change (flat_map (fun p => fst p :: u_pre (snd p) ++ u_atom (snd p) :: u_post (snd p)) (x ++ rest''))
          with (tail_tokens (x ++ rest'')).
        rewrite tail_tokens_app. cbn [app]. repeat rewrite <- app_assoc. cbn [app]. repeat rewrite <- app_assoc. reflexivity. }
      assert (Hlt : length (tail_tokens ((o, mkUnit ps a qs) :: rest'))
                    = (1 + (length ps + 1 + length qs) + length (tail_tokens x) + length (tail_tokens rest''))%nat).
      { pose proof (f_equal (@length tok) Htoks) as Hl.
        cbn [length] in Hl. repeat (rewrite app_length in Hl; cbn [length] in Hl). lia. }
      (* the right operand: the loop at level R o over x, ending in front of rest'' *)
      assert (HallX : forall z, In z (ops x) -> R o < L z) by exact Hgt.
      assert (HfirstX : match x with p :: _ => L (fst p) <= maxl | [] => True end).
      { destruct x as [|[ox ux] x']; auto. inversion Hxok; subst. destruct H1 as (Hbx & _).
        cbn in Hbx. destruct (H_binop ox Hbx) as (_ & _ & _ & _ & Hmx & _). exact Hmx. }
      assert (HmoreX : forall z, In z (ops x) -> stops (R z) (tail_tokens rest'' ++ tail)).
      { intros z Hz. assert (Hzl := Hgt z Hz).
        assert (Hbz : is_binop z = true).
        { unfold ops in Hz. apply in_map_iff in Hz. destruct Hz as ([z' uz] & Hz1 & Hz2). cbn in Hz1. subst z'.
          unfold tail_ok in Hxok. rewrite Forall_forall in Hxok. apply (Hxok _ Hz2). }
        destruct (H_binop z Hbz) as (_ & _ & Hz1 & _).
        destruct rest'' as [|[o2 u2] r2] eqn:Er.
        - cbn. apply Hmore. right. rewrite Hsplit. unfold ops. rewrite map_app. apply in_or_app. left. exact Hz.
        - destruct Hstop' as (l & Hl & Hlm' & Hle). exists l. repeat split; auto. lia. }
      assert (HheadX : headok (tail_tokens rest'' ++ tail)) by (apply headok_tail'; auto).
      assert (HQx : Loop (R o) (split_alt (mkUnit ps a qs, [])) (tail_tokens x ++ (tail_tokens rest'' ++ tail))
                         (split_alt (mkUnit ps a qs, [] ++ x), tail_tokens rest'' ++ tail)
                         (2 * length (tail_tokens x) + 1)).
      { apply (IH x ltac:(lia) (mkUnit ps a qs) [] (R o) maxl (tail_tokens rest'' ++ tail) _ 1%nat); auto.
        - repeat split; auto.
        - constructor.
        - intros z [].
        - apply Loop_end. exact Hstop'. }
      cbn [app] in HQx.
      assert (Hroot : split_alt (u0, done ++ (o, mkUnit ps a qs) :: x)
                          = Bin o (split_alt (u0, done)) (split_alt (mkUnit ps a qs, x))).
          { apply split_root.
            - intros z Hz. unfold ops in Hz. apply in_map_iff in Hz. destruct Hz as ([z' uz] & Hz1 & Hz2).
              cbn in Hz1. subst z'.
              assert (Hbz : is_binop z = true).
              { unfold tail_ok in Hdone. rewrite Forall_forall in Hdone. apply (Hdone _ Hz2). }
              destruct (H_order o z Hb Hbz) as (O1 & O2). unfold replaces. rewrite O1, O2.
              assert (Hi : B < L z \/ L z = B /\ rassoc z = false).
              { apply Hinv. unfold ops. apply in_map_iff. exists (z, uz). auto. }
              cbn [fst] in Hfirst.
              destruct Hi as [Hi|(Hi1 & Hi2)].
              + replace (L o <? L z) with true by (symmetry; apply Z.ltb_lt; lia). reflexivity.
              + destruct (Z.eq_dec (L o) B) as [E|E].
                * assert (rassoc o = false) by (rewrite (H_uniform o z Hb Hbz); auto; lia).
                  rewrite H. replace (L o =? L z) with true by (symmetry; apply Z.eqb_eq; lia).
                  cbn. apply orb_true_r.
                * replace (L o <? L z) with true by (symmetry; apply Z.ltb_lt; lia). reflexivity.
            - intros y Hy. assert (Hy' := Hgt y Hy). unfold ops in Hy. apply in_map_iff in Hy.
              destruct Hy as ([y' uy] & Hy1 & Hy2). cbn in Hy1. subst y'.
              assert (Hby : is_binop y = true).
              { unfold tail_ok in Hxok. rewrite Forall_forall in Hxok. apply (Hxok _ Hy2). }
              destruct (H_order y o Hby Hb) as (O1 & O2). unfold replaces. rewrite O1, O2.
              replace (L y <? L o) with false by (symmetry; apply Z.ltb_ge; lia).
              destruct (Z.eq_dec (L y) (L o)) as [E|E].
              + assert (rassoc y = true).
                { rewrite (H_uniform y o Hby Hb E). rewrite Hras. apply Z.ltb_lt. lia. }
                rewrite H. cbn. apply andb_false_r.
              + replace (L y =? L o) with false by (symmetry; apply Z.eqb_neq; auto). reflexivity. }
      (* the rest of the loop at this level *)
      assert (HinvR : forall z, In z (ops (done ++ (o, mkUnit ps a qs) :: x)) ->
                R o < L z \/ (L z = R o /\ rassoc z = false)).
      {
        intros z Hz. unfold ops in Hz. rewrite map_app in Hz. apply in_app_or in Hz. cbn [map fst] in Hz.
             destruct Hz as [Hz|[Hz|Hz]].
             ++ assert (Hi := Hinv z Hz). cbn [fst] in Hfirst.
                destruct Hi as [Hi|(Hi1 & Hi2)]; [left; lia|].
                destruct (Z.eq_dec (L o) B) as [E|E]; [|left; lia].
                apply in_map_iff in Hz. destruct Hz as ([z' uz] & Hz1 & Hz2). cbn in Hz1. subst z'.
                assert (Hbz : is_binop z = true).
                { unfold tail_ok in Hdone. rewrite Forall_forall in Hdone. apply (Hdone _ Hz2). }
                assert (Hro : rassoc o = false) by (rewrite (H_uniform o z Hb Hbz); auto; lia).
                rewrite Hras in Hro. apply Z.ltb_ge in Hro. right. split; auto. lia.
             ++ subst z. destruct (Z.eq_dec (R o) (L o)) as [E|E].
                ** right. split; auto. rewrite Hras. apply Z.ltb_ge. lia.
                ** left. lia.
             ++ left. apply Hgt. exact Hz.
      }
      assert (HQr : Loop rbp (split_alt (u0, done ++ (o, mkUnit ps a qs) :: x)) (tail_tokens rest'' ++ tail) res
                         (2 * length (tail_tokens rest'') + m)).
      { apply (IH rest'' ltac:(lia) u0 (done ++ (o, mkUnit ps a qs) :: x) rbp (R o) tail res m); auto.
        - apply tail_ok_app. split; auto. constructor; auto. split; auto. repeat split; auto.
        - intros z Hz. apply Hall. right. rewrite Hsplit. unfold ops. rewrite map_app. apply in_or_app. right. exact Hz.
        - intros z Hz. apply Hmore. right. rewrite Hsplit. unfold ops. rewrite map_app. apply in_or_app. right. exact Hz.
        - replace ((done ++ (o, mkUnit ps a qs) :: x) ++ rest'') with (done ++ (o, mkUnit ps a qs) :: rest')
            by (rewrite <- app_assoc; cbn [app]; rewrite <- Hsplit; reflexivity).
          exact Hk. }
      rewrite Htoks, Hlt.
      eapply Loop_weaken.
      + eapply Loop_bin with (x := split_alt (mkUnit ps a qs, x)) (rest' := tail_tokens rest'' ++ tail).
        * exact Hlbp.
        * exact Hrbp_o.
        * exact Hled.
        * apply unit_U2; auto.
          -- rewrite app_assoc, <- tail_tokens_app. apply headok_tail'; auto. apply tail_ok_app; auto.
          -- exact HQx.
        * rewrite <- Hroot. exact HQr.
      + lia.
  Qed.

  Lemma Q : forall n rest, (length rest <= n)%nat -> forall u0 done rbp B tail,
    unit_ok u0 -> tail_ok done -> tail_ok rest ->
    (forall o, In o (ops rest) -> rbp < L o) ->
    (forall o, In o (ops done) -> B < L o \/ (L o = B /\ rassoc o = false)) ->
    (match rest with p :: _ => L (fst p) <= B | [] => True end) ->
    0 <= rbp <= maxr -> stops rbp tail ->
    Loop rbp (split_alt (u0, done)) (tail_tokens rest ++ tail) (split_alt (u0, done ++ rest), tail)
         (2 * length (tail_tokens rest) + 1).
  Proof.
    intros. eapply (Qc n rest H u0 done rbp B tail _ 1%nat); eauto.
    - intros o Ho. assert (Hlo := H3 o Ho).
      assert (Hbo : is_binop o = true).
      { unfold ops in Ho. apply in_map_iff in Ho. destruct Ho as ([o' uo] & E1 & E2). cbn in E1. subst o'.
        unfold tail_ok in H2. rewrite Forall_forall in H2. apply (H2 _ E2). }
      destruct (H_binop o Hbo) as (_ & _ & Hr1 & _).
      destruct tail as [|t tl]; cbn; auto. destruct H7 as (l & Hl & Hm & Hle). exists l. repeat split; auto. lia.
    - destruct tail as [|t tl]; cbn; auto. destruct H7 as (l & Hl & Hm & Hle). eauto.
    - apply Loop_end. exact H7.
  Qed.

  Hypothesis H_binop_pos : forall t, is_binop t = true -> 0 < L t.

  Notation take_while := (take_while tok).
  Notation take_unit := (take_unit tok is_operand is_prefix is_postfix).
  Notation take_tail := (take_tail tok is_operand is_prefix is_binop is_postfix).
  Notation take_expr := (take_expr tok is_operand is_prefix is_binop is_postfix).
  Notation classify := (classify tok is_operand is_prefix is_binop is_postfix).

  Lemma take_while_spec : forall p ts,
    ts = fst (take_while p ts) ++ snd (take_while p ts) /\
    Forall (fun t => p t = true) (fst (take_while p ts)).
  Proof.
    induction ts as [|t r IH]; cbn [PrattSpec.take_while].
    - cbn. auto.
    - destruct (p t) eqn:E; cbn [fst snd app].
      + destruct IH as (I1 & I2). split. now rewrite <- I1. constructor; auto.
      + auto.
  Qed.

  Lemma take_unit_spec : forall ts u r,
    take_unit ts = Some (u, r) -> unit_ok u /\ ts = unit_tokens u ++ r.
  Proof.
    unfold PrattSpec.take_unit; intros.
    destruct (take_while_spec is_prefix ts) as (P1 & P2).
    destruct (snd (take_while is_prefix ts)) as [|a r2] eqn:E; [discriminate|].
    destruct (is_operand a) eqn:Ea; [|discriminate].
    destruct (take_while_spec is_postfix r2) as (Q1 & Q2).
    inversion H; subst. unfold unit_ok, PrattSpec.unit_tokens. cbn [u_pre u_atom u_post].
    repeat split; auto. rewrite <- app_assoc. cbn [app]. rewrite <- Q1. exact P1.
  Qed.

  Lemma take_tail_spec : forall f ts l r,
    take_tail f ts = Some (l, r) -> tail_ok l /\ ts = tail_tokens l ++ r.
  Proof.
    induction f as [|f IH]; intros; cbn [PrattSpec.take_tail] in H; [discriminate|].
    destruct ts as [|o ts'].
    - inversion H; subst. split; [constructor|reflexivity].
    - destruct (is_binop o) eqn:Eo.
      + destruct (take_unit ts') as [[u r']|] eqn:Eu; [|discriminate].
        destruct (take_tail f r') as [[l' r'']|] eqn:Et; [|discriminate].
        inversion H; subst. apply take_unit_spec in Eu. destruct Eu as (U1 & U2).
        apply IH in Et. destruct Et as (T1 & T2). split.
        * constructor; auto.
        * cbn [PrattSpec.tail_tokens flat_map fst snd]. rewrite U2, T2.
          cbn [app]. rewrite <- app_assoc. reflexivity.
      + inversion H; subst. split; [constructor|reflexivity].
  Qed.

  Lemma take_expr_spec : forall ts a r,
    take_expr ts = Some (a, r) ->
    unit_ok (fst a) /\ tail_ok (snd a) /\ ts = alt_tokens tok a ++ r.
  Proof.
    unfold PrattSpec.take_expr; intros.
    destruct (take_unit ts) as [[u r1]|] eqn:Eu; [|discriminate].
    destruct (take_tail (S (length r1)) r1) as [[l r2]|] eqn:Et; [|discriminate].
    inversion H; subst. apply take_unit_spec in Eu. apply take_tail_spec in Et.
    destruct Eu as (U1 & U2). destruct Et as (T1 & T2). cbn [fst snd]. split; [exact U1|split; [exact T1|]].
    unfold alt_tokens. cbn [fst snd]. rewrite <- app_assoc, <- T2. exact U2.
  Qed.

  (* an expression followed by anything that does not continue it: the Pratt loop returns the
     oracle's tree and stops exactly there *)
  Lemma expr_prefix_correct : forall a tail f,
    unit_ok (fst a) -> tail_ok (snd a) -> stops 0 tail ->
    (f >= fuel_for tok (alt_tokens tok a))%nat ->
    expr f 0 (alt_tokens tok a ++ tail) = ROk (split_alt a, tail).
  Proof.
    intros [u l] tail f Hu Hl Hst Hf. cbn [fst snd] in *.
    destruct u as [ps x qs]. destruct Hu as (Hps & Hx & Hqs). cbn [u_pre u_atom u_post] in *.
    assert (HQ := Q (length l) l (le_n _) (mkUnit ps x qs) [] 0 maxl tail).
    assert (Hloop : Loop 0 (unit_tree' ps x qs) (tail_tokens l ++ tail) (split_alt (mkUnit ps x qs, l), tail)
                         (2 * length (tail_tokens l) + 1)).
    { apply HQ; auto.
      - repeat split; auto.
      - constructor.
      - intros o Ho. unfold ops in Ho. apply in_map_iff in Ho. destruct Ho as ([o' uo] & E1 & E2).
        cbn in E1. subst o'. unfold tail_ok in Hl. rewrite Forall_forall in Hl.
        apply H_binop_pos. apply (Hl _ E2).
      - intros o [].
      - destruct l as [|[o uo] l']; auto. inversion Hl; subst. destruct H1 as (Hb & _). cbn in Hb.
        destruct (H_binop o Hb) as (_ & _ & _ & _ & Hm & _). exact Hm.
      - lia. }
    assert (HE := unit_U2 ps x qs 0 (tail_tokens l ++ tail) _ _ Hps Hx Hqs ltac:(lia)
                    (headok_tail l tail 0 Hl Hst) Hloop).
    unfold alt_tokens, PrattSpec.unit_tokens. cbn [fst snd u_pre u_atom u_post].
    replace ((ps ++ x :: qs) ++ tail_tokens l) with (ps ++ x :: qs ++ tail_tokens l)
      by (rewrite <- app_assoc; reflexivity).
    replace ((ps ++ x :: qs ++ tail_tokens l) ++ tail) with (ps ++ x :: qs ++ tail_tokens l ++ tail)
      by (rewrite <- !app_assoc; cbn [app]; rewrite <- !app_assoc; reflexivity).
    apply HE. unfold fuel_for, alt_tokens, PrattSpec.unit_tokens in Hf. cbn [fst snd u_pre u_atom u_post] in Hf.
    rewrite !app_length in Hf. cbn [length] in Hf. lia.
  Qed.

  Theorem pratt_is_the_oracle : forall ts a,
    classify ts = Some a ->
    expr (fuel_for tok ts) 0 ts = ROk (split_alt a, []).
  Proof.
    unfold PrattSpec.classify; intros.
    destruct (take_expr ts) as [[a' r]|] eqn:E; [|discriminate].
    destruct r; [|discriminate]. inversion H; subst.
    apply take_expr_spec in E. destruct E as (E1 & E2 & E3).
    rewrite app_nil_r in E3. subst ts.
    rewrite <- (app_nil_r (alt_tokens tok a)) at 2.
    apply expr_prefix_correct; auto. exact I.
  Qed.

  (* ---- whole blocks: statements in order ---- *)
  Variables (is_semi : tok -> bool) (is_label_for : list tok -> bool).
  Variable ok_tok : tok -> bool.   (* tokens LeftBindingPower knows (it errs on nil / char / uint64 literals) *)
  Hypothesis H_start : forall t, ok_tok t = true ->
    is_semi t || is_operand t || is_prefix t = true -> is_postfix t = false ->
    exists l, lbp t = Some l /\ l <= 0.
  Hypothesis H_semi : forall t, is_semi t = true -> is_operand t = false /\ is_prefix t = false.
  Hypothesis H_label : forall ts, is_label_for ts = true -> take_unit ts = None.

  Notation stmts := (stmts tok lbp nud led is_else led_err eof_tok is_semi is_label_for).
  Notation spec_stmts := (spec_stmts tok is_operand is_prefix is_binop is_postfix is_semi prec rassoc).
  Notation drop_semis := (drop_semis tok is_semi).

  Definition nohead (p : tok -> bool) (ts : list tok) : Prop :=
    match ts with t :: _ => p t = false | [] => True end.

  Lemma take_while_head : forall p ts, nohead p (snd (take_while p ts)).
  Proof.
    induction ts as [|t r IH]; cbn [PrattSpec.take_while]; [exact I|].
    destruct (p t) eqn:E; cbn [snd]; auto; try (cbn; exact E).
  Qed.

  Lemma take_unit_head : forall ts u r, take_unit ts = Some (u, r) -> nohead is_postfix r.
  Proof.
    unfold PrattSpec.take_unit; intros.
    destruct (snd (take_while is_prefix ts)) as [|a r2]; [discriminate|].
    destruct (is_operand a); [|discriminate]. inversion H; subst. apply take_while_head.
  Qed.

  Lemma take_tail_head : forall f ts l r,
    take_tail f ts = Some (l, r) -> nohead is_postfix ts -> nohead is_postfix r /\ nohead is_binop r.
  Proof.
    induction f as [|f IH]; intros; cbn [PrattSpec.take_tail] in H; [discriminate|].
    destruct ts as [|o ts'].
    - inversion H; subst. split; exact I.
    - destruct (is_binop o) eqn:Eo.
      + destruct (take_unit ts') as [[u r']|] eqn:Eu; [|discriminate].
        destruct (take_tail f r') as [[l' r'']|] eqn:Et; [|discriminate].
        inversion H; subst. eapply IH; eauto. eapply take_unit_head; eauto.
      + inversion H; subst. split; auto; exact Eo.
  Qed.

  Lemma take_expr_head : forall ts a r,
    take_expr ts = Some (a, r) -> nohead is_postfix r /\ nohead is_binop r.
  Proof.
    unfold PrattSpec.take_expr; intros.
    destruct (take_unit ts) as [[u r1]|] eqn:Eu; [|discriminate].
    destruct (take_tail (S (length r1)) r1) as [[l r2]|] eqn:Et; [|discriminate].
    inversion H; subst. eapply take_tail_head; eauto. eapply take_unit_head; eauto.
  Qed.

  Lemma posts_not_leaf : forall qs (x : tree tok),
    (forall t, x <> Leaf t) -> forall t, fold_left (fun x q => Post q x) qs x <> Leaf t.
  Proof.
    induction qs as [|q qs IH]; intros; cbn [fold_left]; auto.
    apply IH. intros t' E; discriminate.
  Qed.

  Lemma unit_tree_leaf : forall u t, unit_tree u = Leaf t -> t = u_atom u.
  Proof.
    intros [ps a qs] t. unfold PrattSpec.unit_tree. cbn [u_pre u_atom u_post].
    destruct ps as [|p ps]; cbn [fold_right]; [|discriminate].
    destruct qs as [|q qs]; cbn [fold_left].
    - intros E; inversion E; reflexivity.
    - intros E. exfalso. eapply posts_not_leaf; [|exact E]. intros t' E'; discriminate.
  Qed.

  Lemma split_shape : forall f u rest,
    (exists o l r, split f u rest = Bin o l r) \/ split f u rest = unit_tree u.
  Proof.
    intros. destruct f; cbn [PrattSpec.split]; auto.
    destruct rest as [|p rest]; auto.
    destruct (skipn _ (p :: rest)) as [|[o u'] after]; auto.
    left. eauto.
  Qed.

  Lemma split_alt_leaf : forall a t, unit_ok (fst a) -> split_alt a = Leaf t -> is_operand t = true.
  Proof.
    intros [u l] t Hu E. unfold PrattSpec.split_alt in E. cbn [fst snd] in *.
    destruct (split_shape (length l) u l) as [(o & x & y & Hs)|Hs]; rewrite Hs in E; [discriminate|].
    apply unit_tree_leaf in E. subst. apply Hu.
  Qed.

  Lemma stmts_S : forall f ts,
    stmts (S f) ts =
      match drop_semis ts with
      | [] => ROk []
      | t1 :: r1 =>
        if is_label_for (t1 :: r1) then RUnsup else
        bind (expr (fuel_for tok (t1 :: r1)) 0 (t1 :: r1)) (fun p =>
          let x := fst p in
          let keep := match x with Leaf t => negb (is_semi t) | _ => true end in
          let rest := match snd p with
                      | t :: rest' => if is_semi t then rest' else snd p
                      | [] => []
                      end in
          bind (stmts f rest) (fun xs => ROk (if keep then x :: xs else xs)))
      end.
  Proof. reflexivity. Qed.

  Lemma stmts_semi : forall f t r, is_semi t = true -> stmts (S f) (t :: r) = stmts (S f) r.
  Proof. intros. rewrite !stmts_S. cbn [Pratt.drop_semis]. now rewrite H. Qed.

  (* every block the documented grammar recognises (statements separated by semicolons or merely
     juxtaposed, stray semicolons allowed) is expanded by InfixExpandArray to exactly the
     specification's statement list, in order *)
  Theorem block_is_the_oracle : forall fs ts xs,
    spec_stmts fs ts = Some xs -> Forall (fun t => ok_tok t = true) ts ->
    forall fm, (fm > length ts)%nat -> stmts fm ts = ROk xs.
  Proof.
    induction fs as [|fs IH]; intros ts xs H Hok fm Hfm; [discriminate|].
    cbn [PrattSpec.spec_stmts] in H.
    destruct fm as [|fm]; [lia|].
    destruct ts as [|t r].
    - inversion H; subst. reflexivity.
    - destruct (is_semi t) eqn:Es.
      + rewrite stmts_semi by exact Es. apply IH; auto. now inversion Hok. cbn [length] in Hfm. lia.
      + destruct (take_expr (t :: r)) as [[a rest]|] eqn:Et; [|discriminate].
        destruct (take_expr_head _ _ _ Et) as (Hnp & Hnb).
        pose proof (take_expr_spec _ _ _ Et) as (Hu & Hl & Heq).
        assert (Hokr : Forall (fun t0 => ok_tok t0 = true) rest).
        { rewrite Heq in Hok. apply Forall_app in Hok. tauto. }
        rewrite stmts_S. cbn [Pratt.drop_semis]. rewrite Es.
        destruct (is_label_for (t :: r)) eqn:Elab.
        { apply H_label in Elab. unfold PrattSpec.take_expr in Et. rewrite Elab in Et. discriminate. }
        assert (Hlen : length (t :: r) = (length (alt_tokens tok a) + length rest)%nat)
          by (rewrite Heq at 1; apply app_length).
        assert (Hstop : stops 0 rest /\ (rest <> [] -> spec_stmts fs rest = Some (tl xs) /\ xs = split_alt a :: tl xs)
                        /\ (rest = [] -> xs = [split_alt a])).
        { destruct rest as [|t' r'].
          - split; [exact I|]. split; [intros C; congruence|]. intros _. now inversion H.
          - destruct (is_semi t' || is_operand t' || is_prefix t') eqn:Est; [|discriminate].
            destruct (spec_stmts fs (t' :: r')) as [xs'|] eqn:Ers; [|discriminate].
            inversion H; subst. split.
            + assert (Hok' : ok_tok t' = true) by (now inversion Hokr).
              destruct (H_start t' Hok' Est Hnp) as (l0 & Hl0 & Hle). exists l0. destruct H_max. repeat split; auto; lia.
            + split; [intros _; cbn [tl]; auto|intros C; discriminate]. }
        destruct Hstop as (Hstop & Hne & Hnil).
        rewrite Heq at 2.
        rewrite (expr_prefix_correct a rest (fuel_for tok (t :: r)) Hu Hl Hstop)
          by (unfold fuel_for; rewrite Hlen; lia).
        cbn [bind fst snd].
        assert (Hkeep : match split_alt a with Leaf t0 => negb (is_semi t0) | _ => true end = true).
        { destruct (split_alt a) eqn:Esa; auto.
          apply split_alt_leaf in Esa; auto.
          destruct (is_semi t0) eqn:Es0; auto. destruct (H_semi _ Es0). congruence. }
        rewrite Hkeep.
        destruct rest as [|t' r'].
        * rewrite (Hnil eq_refl). destruct fm as [|fm]; [cbn [length] in Hfm; lia|]. reflexivity.
        * destruct (Hne ltac:(discriminate)) as (Hs' & Hxs). rewrite Hxs.
          assert (Hrec : stmts fm (t' :: r') = ROk (tl xs)).
          { apply (IH _ _ Hs' Hokr). rewrite Hlen in Hfm. cbn [length] in *.
            assert (length (alt_tokens tok a) >= 1)%nat.
            { unfold alt_tokens, PrattSpec.unit_tokens. rewrite !app_length. cbn [length]. lia. }
            lia. }
          destruct (is_semi t') eqn:Es'.
          -- destruct fm as [|fm]; [discriminate|]. rewrite stmts_semi in Hrec by exact Es'.
             rewrite Hrec. reflexivity.
          -- rewrite Hrec. reflexivity.
  Qed.

  (* ====================================================================================== *)
  (* extensions: an expression in continuation form, low postfix operators (++ --), if/else  *)

  Lemma ops_binop : forall l o, tail_ok l -> In o (ops l) -> is_binop o = true.
  Proof.
    intros l o Hl Ho. unfold ops in Ho. apply in_map_iff in Ho. destruct Ho as ([o' uo] & E1 & E2).
    cbn in E1. subst o'. unfold tail_ok in Hl. rewrite Forall_forall in Hl. apply (Hl _ E2).
  Qed.

  (* an expression behaves like a unit: after it the led loop of the SAME level goes on *)
  Lemma alt_cps : forall (a : alt tok) rbp more res m,
    unit_ok (fst a) -> tail_ok (snd a) -> 0 <= rbp <= maxr ->
    (forall o, In o (ops (snd a)) -> rbp < L o) ->
    (forall o, In o (ops (snd a)) -> stops (R o) more) -> headok more -> (1 <= m)%nat ->
    Loop rbp (split_alt a) more res m ->
    Expr rbp (alt_tokens tok a ++ more) res (2 * length (alt_tokens tok a) + m + 1).
  Proof.
    intros [u l] rbp more res m Hu Hl Hrbp Hall Hmore Hhead Hm Hk. cbn [fst snd] in *.
    destruct u as [ps x qs]. destruct Hu as (Hps & Hx & Hqs). cbn [u_pre u_atom u_post] in *.
    assert (Hloop : Loop rbp (unit_tree' ps x qs) (tail_tokens l ++ more) res (2 * length (tail_tokens l) + m)).
    { apply (Qc (length l) l (le_n _) (mkUnit ps x qs) [] rbp maxl more res m); auto.
      - repeat split; auto.
      - constructor.
      - intros o [].
      - destruct l as [|[o uo] l']; auto. inversion Hl; subst. destruct H1 as (Hb & _). cbn in Hb.
        destruct (H_binop o Hb) as (_ & _ & _ & _ & Hmx & _). exact Hmx. }
    assert (HE := unit_U2 ps x qs rbp (tail_tokens l ++ more) _ _ Hps Hx Hqs ltac:(lia)
                    (headok_tail' l more Hl Hhead) Hloop).
    unfold alt_tokens, PrattSpec.unit_tokens. cbn [fst snd u_pre u_atom u_post].
    replace (((ps ++ x :: qs) ++ tail_tokens l) ++ more) with (ps ++ x :: qs ++ tail_tokens l ++ more)
      by (repeat rewrite <- app_assoc; cbn [app]; repeat rewrite <- app_assoc; reflexivity).
    eapply Expr_weaken. exact HE. repeat (rewrite app_length; cbn [length]). lia.
  Qed.

  Lemma stops_of_level : forall (a : alt tok) rbp tail, tail_ok (snd a) ->
    (forall o, In o (ops (snd a)) -> rbp < L o) -> stops rbp tail ->
    forall o, In o (ops (snd a)) -> stops (R o) tail.
  Proof.
    intros a rbp tail Hl Hall Hst o Ho. assert (Hlo := Hall o Ho).
    destruct (H_binop o (ops_binop _ _ Hl Ho)) as (_ & _ & Hr1 & _).
    destruct tail as [|t tl]; cbn; auto. destruct Hst as (l & Hl' & Hm & Hle). exists l. repeat split; auto. lia.
  Qed.

  Lemma stops_headok : forall rbp tail, stops rbp tail -> headok tail.
  Proof. intros rbp [|t tl]; cbn; auto. intros (l & ? & ? & ?). eauto. Qed.

  (* an expression at ANY level rbp below all of its operators *)
  Theorem expr_level_correct : forall (a : alt tok) rbp tail f,
    unit_ok (fst a) -> tail_ok (snd a) -> 0 <= rbp <= maxr ->
    (forall o, In o (ops (snd a)) -> rbp < L o) -> stops rbp tail ->
    (f >= fuel_for tok (alt_tokens tok a))%nat ->
    expr f rbp (alt_tokens tok a ++ tail) = ROk (split_alt a, tail).
  Proof.
    intros a rbp tail f Hu Hl Hrbp Hall Hst Hf.
    apply (alt_cps a rbp tail (split_alt a, tail) 1%nat); auto.
    - eapply stops_of_level; eauto.
    - eapply stops_headok; eauto.
    - apply Loop_end; auto.
    - unfold fuel_for in Hf. lia.
  Qed.

  (* ---- low postfix operators: ++ and -- ---- *)
  Variable is_lowpost : tok -> bool.
  Hypothesis H_lowpost : forall q, is_lowpost q = true ->
    lbp q = Some (L q) /\ (exists h, led q = Some (LPostfix h)) /\ 0 < L q /\ L q <= maxl.

  Lemma Loop_lowpost : forall rbp left q rest res n,
    is_lowpost q = true -> rbp < L q ->
    Loop rbp (Post q left) rest res n -> Loop rbp left (q :: rest) res (S n).
  Proof.
    unfold Loop; intros. destruct f; [lia|].
    destruct (H_lowpost q H) as (Hl & (h & Hh) & _).
    rewrite (loop_S tok lbp nud led is_else led_err eof_tok). rewrite Hl.
    replace (rbp >=? L q) with false by (rewrite Z.geb_leb; symmetry; apply Z.leb_gt; lia).
    rewrite Hh. apply H1. lia.
  Qed.

  (* E q : the postfix operator applies to the whole expression E when every operator of E binds
     tighter than q (L q <= R o) and the level it is read at is below q *)
  Theorem expr_postfix : forall (a : alt tok) q rbp tail f,
    unit_ok (fst a) -> tail_ok (snd a) -> is_lowpost q = true ->
    0 <= rbp <= maxr -> rbp < L q ->
    (forall o, In o (ops (snd a)) -> rbp < L o /\ L q <= R o) -> stops rbp tail ->
    (f >= fuel_for tok (alt_tokens tok a ++ [q]))%nat ->
    expr f rbp (alt_tokens tok a ++ q :: tail) = ROk (Post q (split_alt a), tail).
  Proof.
    intros a q rbp tail f Hu Hl Hq Hrbp Hlq Hall Hst Hf.
    destruct (H_lowpost q Hq) as (Hlbp & _ & Hpos & Hmx).
    apply (alt_cps a rbp (q :: tail) (Post q (split_alt a), tail) 2%nat); auto.
    - intros o Ho. apply Hall; auto.
    - intros o Ho. cbn. exists (L q). repeat split; auto. apply Hall; auto.
    - cbn. eauto.
    - apply Loop_lowpost; auto. apply Loop_end; auto.
    - unfold fuel_for in Hf. repeat (rewrite app_length in Hf; cbn [length] in Hf). lia.
  Qed.

  (* lhs = E q : inside the right operand of an operator that binds weaker than q *)
  Theorem assign_postfix : forall u asg (a : alt tok) q tail f,
    unit_ok u -> is_binop asg = true -> R asg < L q ->
    unit_ok (fst a) -> tail_ok (snd a) -> is_lowpost q = true ->
    (forall o, In o (ops (snd a)) -> R asg < L o /\ L q <= R o) -> stops 0 tail ->
    (f >= fuel_for tok (unit_tokens u ++ asg :: alt_tokens tok a ++ [q]))%nat ->
    expr f 0 (unit_tokens u ++ asg :: alt_tokens tok a ++ q :: tail)
    = ROk (Bin asg (unit_tree u) (Post q (split_alt a)), tail).
  Proof.
    intros u asg a q tail f Hu Hasg Hrq Hua Hla Hq Hall Hst Hf.
    destruct (H_binop asg Hasg) as ((h & Hled) & Hlbp & Hr1 & Hr2 & Hlm & Hr0 & Hrm & Hras).
    destruct (H_lowpost q Hq) as (Hqlbp & _ & Hqpos & Hqmx).
    destruct u as [ps x qs]. destruct Hu as (Hps & Hx & Hqs).
    unfold PrattSpec.unit_tokens in *. cbn [u_pre u_atom u_post] in *.
    assert (Hst9 : stops (R asg) tail).
    { destruct tail as [|t tl]; cbn; auto. destruct Hst as (l & Hl' & Hm & Hle). exists l. repeat split; auto. lia. }
    assert (HE : Expr (R asg) (alt_tokens tok a ++ q :: tail) (Post q (split_alt a), tail)
                      (fuel_for tok (alt_tokens tok a ++ [q]))).
    { intros f' Hf'. apply expr_postfix; auto; lia. }
    assert (HL : Loop 0 (unit_tree' ps x qs) (asg :: alt_tokens tok a ++ q :: tail)
                      (Bin asg (unit_tree' ps x qs) (Post q (split_alt a)), tail)
                      (S (Nat.max (fuel_for tok (alt_tokens tok a ++ [q])) 1))).
    { eapply Loop_bin with (l := L asg) (r := R asg) (h := h) (x := Post q (split_alt a)) (rest' := tail);
        [exact Hlbp | apply H_binop_pos; auto | exact Hled | exact HE | apply Loop_end; auto ]. }
    assert (HU := unit_U2 ps x qs 0 (asg :: alt_tokens tok a ++ q :: tail) _ _ Hps Hx Hqs ltac:(lia)
                    ltac:(cbn; eauto) HL).
    replace ((ps ++ x :: qs) ++ asg :: alt_tokens tok a ++ q :: tail)
      with (ps ++ x :: qs ++ asg :: alt_tokens tok a ++ q :: tail)
      by (rewrite <- app_assoc; reflexivity).
    apply HU. unfold fuel_for in *. repeat (rewrite app_length in *; cbn [length] in *). lia.
  Qed.

  (* ---- if / else ---- *)
  Definition stops0 (ts : list tok) : Prop :=
    match ts with [] => True | t :: _ => exists l, lbp t = Some l /\ l <= 0 end.
  Definition no_else (ts : list tok) : Prop :=
    match ts with
    | t :: _ => is_else t = false
    | [] => match eof_tok with Some e => is_else e = false | None => True end
    end.
  (* "ts parses to x at level r": followed by any statement boundary satisfying P *)
  Definition PA (P : list tok -> Prop) (r : Z) (ts : list tok) (x : tree tok) : Prop :=
    forall tail, stops0 tail -> P tail -> Expr r (ts ++ tail) (x, tail) (fuel_for tok ts).
  Definition Any (ts : list tok) : Prop := True.

  Lemma stops0_stops : forall rbp tail, 0 <= rbp -> stops0 tail -> stops rbp tail.
  Proof.
    intros rbp [|t tl] Hr; cbn; auto. intros (l & Hl & Hle). exists l. destruct H_max. repeat split; auto; lia.
  Qed.

  Lemma Expr_ifelse : forall rbp i r1 r2 r3 rest c rest1 t e rest3 x rest4 res n1 n2 n3 n4,
    nud i = NIf r1 r2 r3 ->
    Expr r1 rest (c, rest1) n1 -> Expr r2 rest1 (t, e :: rest3) n2 -> is_else e = true ->
    Expr r3 rest3 (x, rest4) n3 -> Loop rbp (Cond i c t (Some (e, x))) rest4 res n4 ->
    Expr rbp (i :: rest) res (S (Nat.max (Nat.max n1 n2) (Nat.max n3 n4))).
  Proof.
    unfold Expr, Loop; intros. destruct f; [lia|].
    rewrite (expr_S tok lbp nud led is_else led_err eof_tok). rewrite H.
    rewrite H0 by lia. cbn [bind fst snd]. rewrite H1 by lia. cbn [bind fst snd].
    rewrite H2. rewrite H3 by lia. cbn [bind fst snd]. apply H4. lia.
  Qed.

  Lemma Expr_if_noelse : forall rbp i r1 r2 r3 rest c rest1 t rest2 res n1 n2 n4,
    nud i = NIf r1 r2 r3 ->
    Expr r1 rest (c, rest1) n1 -> Expr r2 rest1 (t, rest2) n2 -> no_else rest2 ->
    Loop rbp (Cond i c t None) rest2 res n4 ->
    Expr rbp (i :: rest) res (S (Nat.max (Nat.max n1 n2) n4)).
  Proof.
    unfold Expr, Loop; intros. destruct f; [lia|].
    rewrite (expr_S tok lbp nud led is_else led_err eof_tok). rewrite H.
    rewrite H0 by lia. cbn [bind fst snd]. rewrite H1 by lia. cbn [bind fst snd].
    unfold no_else in H2. destruct rest2 as [|e r].
    - destruct eof_tok as [e|]; [rewrite H2|]; cbn [bind fst snd]; apply H3; lia.
    - rewrite H2. cbn [bind fst snd]. apply H3. lia.
  Qed.

  (* if C T else E, for ALL nestings: whatever C, T, E are, as long as they parse (to c, t, x) in
     front of a statement boundary, the if form parses to (cond c t x); E may itself be an if
     form (else-if chains), P is the condition E puts on what follows *)
  Theorem if_else_PA : forall P i r1 r2 r3 C c T t e E x rbp,
    nud i = NIf r1 r2 r3 -> 0 <= rbp ->
    PA Any r1 C c -> PA Any r2 T t -> PA P r3 E x ->
    is_else e = true -> stops0 (e :: E) -> stops0 T -> T <> [] ->
    PA P rbp (i :: C ++ T ++ e :: E) (Cond i c t (Some (e, x))).
  Proof.
    intros P i r1 r2 r3 C c T t e E x rbp Hn Hr HC HT HE He Hse HsT HTne tail Hst HP.
    assert (H1 : Expr r1 (C ++ (T ++ e :: E ++ tail)) (c, T ++ e :: E ++ tail) (fuel_for tok C)).
    { apply HC; [|exact I]. destruct T as [|th T']; [congruence|]. exact HsT. }
    assert (H2 : Expr r2 (T ++ (e :: E ++ tail)) (t, e :: E ++ tail) (fuel_for tok T)).
    { apply HT; [|exact I]. exact Hse. }
    assert (H3 : Expr r3 (E ++ tail) (x, tail) (fuel_for tok E)) by (apply HE; auto).
    replace ((i :: C ++ T ++ e :: E) ++ tail) with (i :: C ++ (T ++ e :: E ++ tail))
      by (cbn [app]; repeat rewrite <- app_assoc; cbn [app]; repeat rewrite <- app_assoc; reflexivity).
    eapply Expr_weaken.
    - eapply Expr_ifelse; eauto. apply Loop_end. apply stops0_stops; auto.
    - unfold fuel_for. cbn [length]. repeat (rewrite app_length; cbn [length]). lia.
  Qed.

  Theorem if_noelse_PA : forall i r1 r2 r3 C c T t rbp,
    nud i = NIf r1 r2 r3 -> 0 <= rbp ->
    PA Any r1 C c -> PA no_else r2 T t -> stops0 T -> T <> [] ->
    PA no_else rbp (i :: C ++ T) (Cond i c t None).
  Proof.
    intros i r1 r2 r3 C c T t rbp Hn Hr HC HT HsT HTne tail Hst HP.
    assert (H1 : Expr r1 (C ++ (T ++ tail)) (c, T ++ tail) (fuel_for tok C)).
    { apply HC; [|exact I]. destruct T as [|th T']; [congruence|]. exact HsT. }
    assert (H2 : Expr r2 (T ++ tail) (t, tail) (fuel_for tok T)) by (apply HT; auto).
    replace ((i :: C ++ T) ++ tail) with (i :: C ++ (T ++ tail))
      by (cbn [app]; repeat rewrite <- app_assoc; reflexivity).
    eapply Expr_weaken.
    - eapply Expr_if_noelse; eauto. apply Loop_end. apply stops0_stops; auto.
    - unfold fuel_for. cbn [length]. repeat (rewrite app_length; cbn [length]). lia.
  Qed.

  (* every expression of the documented grammar parses (at any level below its operators) *)
  Theorem doc_PA : forall (a : alt tok) rbp P,
    unit_ok (fst a) -> tail_ok (snd a) -> 0 <= rbp <= maxr ->
    (forall o, In o (ops (snd a)) -> rbp < L o) ->
    PA P rbp (alt_tokens tok a) (split_alt a).
  Proof.
    intros a rbp P Hu Hl Hrbp Hall tail Hst _ f Hf.
    apply expr_level_correct; auto. apply stops0_stops; auto. lia.
  Qed.

  (* o U  where U is anything that parses at level R o (an if form, ...):  x = if a b else c *)
  Theorem binop_then_PA : forall P u o Y y,
    unit_ok u -> is_binop o = true -> PA P (R o) Y y ->
    PA P 0 (unit_tokens u ++ o :: Y) (Bin o (unit_tree u) y).
  Proof.
    intros P u o Y y Hu Ho HY tail Hst HP.
    destruct (H_binop o Ho) as ((h & Hled) & Hlbp & Hr1 & Hr2 & Hlm & Hr0 & Hrm & Hras).
    destruct u as [ps x qs]. destruct Hu as (Hps & Hx & Hqs).
    unfold PrattSpec.unit_tokens in *. cbn [u_pre u_atom u_post] in *.
    assert (HL : Loop 0 (unit_tree' ps x qs) (o :: Y ++ tail) (Bin o (unit_tree' ps x qs) y, tail)
                      (S (Nat.max (fuel_for tok Y) 1))).
    { eapply Loop_bin with (l := L o) (r := R o) (h := h) (x := y) (rest' := tail);
        [exact Hlbp | apply H_binop_pos; auto | exact Hled | apply HY; auto | apply Loop_end; apply stops0_stops; auto; lia ]. }
    assert (HU := unit_U2 ps x qs 0 (o :: Y ++ tail) _ _ Hps Hx Hqs ltac:(destruct H_max; lia)
                    ltac:(cbn; eauto) HL).
    replace (((ps ++ x :: qs) ++ o :: Y) ++ tail) with (ps ++ x :: qs ++ o :: Y ++ tail)
      by (repeat rewrite <- app_assoc; cbn [app]; repeat rewrite <- app_assoc; reflexivity).
    eapply Expr_weaken. exact HU.
    unfold fuel_for. repeat (rewrite app_length; cbn [length]). lia.
  Qed.

  (* a chain of right-associative operators of one level nests to the right:
     a = b = c  is  (= a (= b c)) *)
  Lemma right_chain : forall u0 o u1 rest,
    (forall y, In y (ops rest) -> prec y = prec o /\ rassoc y = true) ->
    split_alt (u0, (o, u1) :: rest) = Bin o (unit_tree u0) (split_alt (u1, rest)).
  Proof.
    intros. change ((o, u1) :: rest) with ([] ++ (o, u1) :: rest).
    rewrite (split_root u0 [] o u1 rest).
    - reflexivity.
    - intros z [].
    - intros y Hy. destruct (H y Hy) as (E1 & E2). unfold replaces. rewrite E1, E2.
      rewrite Z.ltb_irrefl, Z.eqb_refl. reflexivity.
  Qed.
End Correct.
