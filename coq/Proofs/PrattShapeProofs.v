(* C01 - totality of the crash-level model of zygo/pratt.go (Model/PrattShape.v):
   for every operator table whose right binding powers are non-negative and whose operand tokens
   (those the led dispatch has no case for) do not bind to the left, and for guards of lowerRangeFor
   that cover the index and the slice behind them, no token list reaches a panic site; the depth of
   CnodeStack after Expression returns is the depth before the call. *)
From Coq Require Import ZArith String List Bool Arith Lia.
Import ListNotations.
Require Import ZV.Model.PrattTypes ZV.Model.Pratt ZV.Model.PrattShape.
Require Import ZV.Generated.InfixTable.
Open Scope Z_scope.

Definition nud_ok (n : nudk) : bool :=
  match n with
  | NPrefix r _ => 0 <=? r
  | NIf a b c => (0 <=? a) && (0 <=? b) && (0 <=? c)
  | _ => true
  end.
Definition led_ok (l : ledk) : bool := match l with LBin r _ => 0 <=? r | _ => true end.
Definition nonpos (z : Z) : bool := z <=? 0.

(* what the table must satisfy: every argument of pr.Expression is >= 0, and every token type the
   led dispatch of Expression has no case for has a left binding power <= 0 *)
Definition table_safe (E : list entry) (K : lbpconsts) : bool :=
  forallb (fun e => nud_ok (e_nud e) && led_ok (e_led e)) E && led_ok (array_led K)
  && nonpos (lbp_int K) && nonpos (lbp_float K) && nonpos (lbp_bool K) && nonpos (lbp_str K)
  && nonpos (lbp_semicolon K) && nonpos (lbp_comment K) && nonpos (lbp_hash K)
  && match lbp_other K with None => true | Some z => nonpos z end.

(* the guard `len(header) <= assignPos+g` covers header[assignPos+i] and header[assignPos+s:] *)
Definition guards_ok (C : forconsts) : bool :=
  fc_guard_le C && Nat.leb (fc_index_off C) (fc_guard_off C) && Nat.leb (fc_source_off C) (S (fc_guard_off C)).

Definition nocrash {A} (r : pres A) : Prop := forall s, r <> PCrash s.
Definition good (d : nat) (r : pres (list ptok * nat)) : Prop :=
  nocrash r /\ forall q, r = POk q -> snd q = d.

Lemma nocrash_bind : forall A B (r : pres A) (g : A -> pres B),
  nocrash r -> (forall a, r = POk a -> nocrash (g a)) -> nocrash (pbind r g).
Proof.
  intros A B r g Hr Hg s. destruct r as [a| |s'|]; simpl; try discriminate.
  - apply Hg. reflexivity.
  - intro H. apply (Hr s'). reflexivity.
Qed.

Lemma good_bind : forall d1 d2 r g,
  good d1 r -> (forall q, r = POk q -> snd q = d1 -> good d2 (g q)) -> good d2 (pbind r g).
Proof.
  intros d1 d2 r g [Hn Hk] Hg. destruct r as [a| |s'|]; simpl.
  - apply Hg; auto.
  - split; [intro s; discriminate | intros q H; discriminate].
  - exfalso. apply (Hn s'). reflexivity.
  - split; [intro s; discriminate | intros q H; discriminate].
Qed.

Lemma good_bind_u : forall A d (r : pres A) g,
  nocrash r -> (forall a, r = POk a -> good d (g a)) -> good d (pbind r g).
Proof.
  intros A d r g Hn Hg. destruct r as [a| |s'|]; simpl.
  - apply Hg; auto.
  - split; [intro s; discriminate | intros q H; discriminate].
  - exfalso. apply (Hn s'). reflexivity.
  - split; [intro s; discriminate | intros q H; discriminate].
Qed.

Lemma good_ok : forall d ts, good d (POk (ts, d)).
Proof. intros d ts. split; [intro s; discriminate | intros q H; inversion H; reflexivity]. Qed.
Lemma good_err : forall d, good d PErr.
Proof. intros d. split; [intro s; discriminate | intros q H; discriminate]. Qed.
Lemma good_fuel : forall d, good d PFuel.
Proof. intros d. split; [intro s; discriminate | intros q H; discriminate]. Qed.
Lemma nocrash_ok : forall A (a : A), nocrash (POk a).
Proof. intros A a s. discriminate. Qed.
Lemma nocrash_err : forall A, nocrash (@PErr A).
Proof. intros A s. discriminate. Qed.
Lemma nocrash_fuel : forall A, nocrash (@PFuel A).
Proof. intros A s. discriminate. Qed.

Lemma range_targets_count : forall ts n, p_range_targets ts = Some n -> n = 1%nat \/ n = 2%nat.
Proof.
  intros ts n H. unfold p_range_targets in H.
  destruct ts as [|a [|c [|b [|x r]]]]; try discriminate.
  - destruct (p_is_symbol a); inversion H; auto.
  - destruct (p_is_symbol a && p_is_comma c && p_is_symbol b); inversion H; auto.
Qed.

Lemma range_binding_nocrash : forall n, n = 1%nat \/ n = 2%nat -> nocrash (p_range_binding n).
Proof. intros n [H|H]; subst; intro s; vm_compute; discriminate. Qed.

Section Total.
  Variable E : list entry.
  Variable K : lbpconsts.
  Variable C : forconsts.
  Hypothesis TS : table_safe E K = true.
  Hypothesis GO : guards_ok C = true.

  Lemma ts_parts :
    (forall e, In e E -> nud_ok (e_nud e) = true /\ led_ok (e_led e) = true) /\ led_ok (array_led K) = true
    /\ lbp_int K <= 0 /\ lbp_float K <= 0 /\ lbp_bool K <= 0 /\ lbp_str K <= 0
    /\ lbp_semicolon K <= 0 /\ lbp_comment K <= 0 /\ lbp_hash K <= 0
    /\ (forall z, lbp_other K = Some z -> z <= 0).
  Proof.
    unfold table_safe in TS. repeat rewrite andb_true_iff in TS.
    destruct TS as (((((((((H1 & H2) & H3) & H4) & H5) & H6) & H7) & H8) & H9) & H10).
    unfold nonpos in *. rewrite ?Z.leb_le in *.
    repeat split; auto.
    - rewrite forallb_forall in H1. apply H1 in H. apply andb_true_iff in H. tauto.
    - rewrite forallb_forall in H1. apply H1 in H. apply andb_true_iff in H. tauto.
    - intros z Hz. rewrite Hz in H10. apply Z.leb_le in H10. exact H10.
  Qed.

  Lemma lookup_in : forall n e, lookup E n = Some e -> In e E.
  Proof. intros n e H. unfold lookup in H. apply find_some in H. tauto. Qed.

  Lemma nud_of_ok : forall t, nud_ok (nud_of E t) = true.
  Proof.
    destruct ts_parts as (HE & _).
    intros t. destruct t; simpl; try reflexivity;
      (destruct (lookup E name) as [e|] eqn:L; [apply lookup_in in L; apply HE in L; tauto | reflexivity]).
  Qed.

  Lemma led_of_key_ok : forall k, led_ok (led_of_key E k) = true.
  Proof.
    destruct ts_parts as (HE & _).
    intros k. unfold led_of_key. destruct (lookup E k) as [e|] eqn:L; [apply lookup_in in L; apply HE in L; tauto | reflexivity].
  Qed.

  Lemma led_of_ok : forall t k, led_of E K t = Some k -> led_ok k = true.
  Proof.
    destruct ts_parts as (HE & HA & _).
    intros t k H. destruct t; simpl in H; inversion H; subst; clear H; try reflexivity.
    - destruct (lookup E name) as [e|] eqn:L; [apply lookup_in in L; apply HE in L; tauto | reflexivity].
    - destruct (lookup E name) as [e|] eqn:L; [apply lookup_in in L; apply HE in L; tauto | apply led_of_key_ok].
    - exact HA.
    - apply led_of_key_ok.
  Qed.

  Lemma operand_lbp : forall t l, led_of E K t = None -> lbp_of E K t = Some l -> l <= 0.
  Proof.
    destruct ts_parts as (_ & _ & H3 & H4 & H5 & H6 & H7 & H8 & H9 & H10).
    intros t l Hl Hb. destruct t; simpl in Hl; try discriminate; simpl in Hb;
      try (inversion Hb; subst; assumption).
    apply H10. exact Hb.
  Qed.

  Lemma go_parts : fc_guard_le C = true /\ (fc_index_off C <= fc_guard_off C)%nat /\
                   (fc_source_off C <= S (fc_guard_off C))%nat.
  Proof.
    unfold guards_ok in GO. repeat rewrite andb_true_iff in GO. destruct GO as ((H1 & H2) & H3).
    apply Nat.leb_le in H2, H3. auto.
  Qed.

  Notation expr := (expr E K C).
  Notation loop := (loop E K C).
  Notation norm_sel := (norm_sel E K C).
  Notation clause := (clause E K C).
  Notation for_munch := (for_munch E K C).
  Notation lower_go_for := (lower_go_for E K C).
  Notation lower_range := (lower_range E K C).

  (* unfolding equations of the mutual fixpoint (all by computation) *)
  Lemma norm_sel_S : forall f t, norm_sel (S f) t =
      match t with
      | PArr content =>
        let ts := p_split_colon_tail content in
        match length (filter (p_named ":") ts) with
        | O => if Nat.leb (length ts) (sel_raw_max K) then POk tt
               else pbind (expr f 0 ts O) (fun _ => POk tt)
        | S O => let p := p_split_at_colon ts in pbind (clause f (fst p)) (fun _ => clause f (snd p))
        | _ => PErr
        end
      | _ => POk tt
      end.
  Proof. reflexivity. Qed.
  Lemma clause_S : forall f ts, clause (S f) ts =
      match ts with
      | [] => POk tt
      | _ => pbind (expr f 0 ts O) (fun q => match fst q with [] => POk tt | _ :: _ => PErr end)
      end.
  Proof. reflexivity. Qed.
  Lemma for_munch_S : forall f ts, for_munch (S f) ts =
      match p_find_body ts with
      | None => PErr
      | Some (header, body, rest) => pbind (lower_go_for f header body) (fun _ => POk rest)
      end.
  Proof. reflexivity. Qed.
  Lemma lower_go_for_S : forall f header body, lower_go_for (S f) header body =
      if negb (p_is_body body) then PErr
      else
        let nsemi := length (filter p_is_semi header) in
        match nsemi with
        | O => match lower_range f header with Some r => r | None => clause f header end
        | _ =>
          if negb (Nat.eqb nsemi (fc_nsemi C)) then PErr
          else match p_split_semis header with
               | [s0; s1; s2] => pbind (clause f s0) (fun _ => pbind (clause f s1) (fun _ => clause f s2))
               | _ => PErr
               end
        end.
  Proof. reflexivity. Qed.
  Lemma lower_range_S : forall f header, lower_range (S f) header =
      let notrange := if p_has_range header then Some PErr else None in
      match p_find_assign header O with
      | None => notrange
      | Some (pos, _) =>
        let short := if fc_guard_le C then Nat.leb (length header) (pos + fc_guard_off C)
                     else Nat.ltb (length header) (pos + fc_guard_off C) in
        if short then notrange
        else
          match nth_error header (pos + fc_index_off C) with
          | None => Some (PCrash SHeaderIndex)
          | Some t =>
            if negb (p_named "range" t) then notrange
            else
              match p_range_targets (firstn pos header) with
              | None => Some PErr
              | Some n =>
                if Nat.ltb (length header) (pos + fc_source_off C) then Some (PCrash SHeaderSlice)
                else
                  match skipn (pos + fc_source_off C) header with
                  | [] => Some PErr
                  | src => Some (pbind (clause f src) (fun _ => p_range_binding n))
                  end
              end
          end
      end.
  Proof. reflexivity. Qed.

  Definition inv (f : nat) : Prop :=
    (forall rbp ts d, 0 <= rbp -> good d (expr f rbp ts d))
    /\ (forall rbp ts d, 0 <= rbp -> good d (loop f rbp ts (S d)))
    /\ (forall t, nocrash (norm_sel f t))
    /\ (forall ts, nocrash (clause f ts))
    /\ (forall ts, nocrash (for_munch f ts))
    /\ (forall h b, nocrash (lower_go_for f h b))
    /\ (forall h r, lower_range f h = Some r -> nocrash r).

  Lemma inv_all : forall f, inv f.
  Proof.
    induction f as [|f IH].
    - unfold inv. repeat split; intros; simpl; try discriminate.
      simpl in H. inversion H; subst. discriminate.
    - destruct IH as (IHe & IHl & IHn & IHc & IHf & IHg & IHr).
      unfold inv. split; [|split; [|split; [|split; [|split; [|split]]]]].
      + (* expr *)
        intros rbp ts d Hr. simpl. destruct ts as [|t rest]; [apply good_ok|].
        apply good_bind with (d1 := S d).
        * pose proof (nud_of_ok (cls t)) as Hn.
          destruct (nud_of E (cls t)) as [|r h|r1 r2 r3| |nm]; simpl in Hn.
          -- apply good_ok.
          -- apply IHe. apply Z.leb_le. exact Hn.
          -- repeat rewrite andb_true_iff in Hn. destruct Hn as ((H1 & H2) & H3).
             apply Z.leb_le in H1, H2, H3.
             apply good_bind with (d1 := S d); [apply IHe; exact H1|].
             intros qc _ Hqc. rewrite Hqc.
             apply good_bind with (d1 := S d); [apply IHe; exact H2|].
             intros qt _ Hqt. destruct qt as [r' d']. simpl in Hqt. subst d'. simpl.
             destruct r' as [|e rest3]; [apply good_ok|].
             destruct (p_named "else" e); [apply IHe; exact H3 | apply good_ok].
          -- apply good_bind_u; [apply IHf|]. intros a _. apply good_ok.
          -- apply good_ok.
        * intros q _ Hq. rewrite Hq. apply IHl. exact Hr.
      + (* loop *)
        intros rbp ts d Hr. simpl. destruct ts as [|t rest]; [apply good_ok|].
        destruct (lbp_of E K (cls t)) as [l|] eqn:Hl; [|apply good_err].
        destruct (rbp >=? l) eqn:Hc; [apply good_ok|].
        destruct (led_of E K (cls t)) as [k|] eqn:Hk.
        * pose proof (led_of_ok _ _ Hk) as Hok.
          destruct k as [r h|h| | |]; simpl in Hok.
          -- apply Z.leb_le in Hok.
             apply good_bind with (d1 := S d); [apply IHe; exact Hok|].
             intros q _ Hq. rewrite Hq. apply IHl. exact Hr.
          -- apply IHl. exact Hr.
          -- apply good_bind_u; [apply IHn|]. intros a _. apply IHl. exact Hr.
          -- apply IHl. exact Hr.
          -- apply IHl. exact Hr.
        * exfalso. pose proof (operand_lbp _ _ Hk Hl) as Hle.
          rewrite Z.geb_leb in Hc. apply Z.leb_gt in Hc. lia.
      + (* norm_sel *)
        intros t. simpl. destruct t as [t0|content|e| |e]; try apply nocrash_ok.
        rewrite norm_sel_S. cbv zeta.
        destruct (length (filter (p_named ":") (p_split_colon_tail content))) as [|[|n]].
        * match goal with |- context [if ?b then _ else _] => destruct b end; [apply nocrash_ok|].
          apply nocrash_bind; [apply IHe; lia|]. intros a _. apply nocrash_ok.
        * apply nocrash_bind; [apply IHc|]. intros a _. apply IHc.
        * apply nocrash_err.
      + (* clause *)
        intros ts. rewrite clause_S. destruct ts as [|t r]; [apply nocrash_ok|].
        apply nocrash_bind; [apply IHe; lia|]. intros q _. destruct (fst q); [apply nocrash_ok|apply nocrash_err].
      + (* for_munch *)
        intros ts. rewrite for_munch_S. destruct (p_find_body ts) as [[[h b] rest]|]; [|apply nocrash_err].
        apply nocrash_bind; [apply IHg|]. intros a _. apply nocrash_ok.
      + (* lower_go_for *)
        intros h b. rewrite lower_go_for_S. cbv zeta. destruct (negb (p_is_body b)); [apply nocrash_err|].
        destruct (length (filter p_is_semi h)) as [|n].
        * destruct (lower_range f h) as [r|] eqn:Hlr; [apply (IHr _ _ Hlr)|apply IHc].
        * match goal with |- context [if ?b then _ else _] => destruct b end; [apply nocrash_err|].
          destruct (p_split_semis h) as [|s0 [|s1 [|s2 [|s3 r]]]]; try apply nocrash_err.
          apply nocrash_bind; [apply IHc|]. intros a _.
          apply nocrash_bind; [apply IHc|]. intros a' _. apply IHc.
      + (* lower_range *)
        destruct go_parts as (G1 & G2 & G3).
        intros h r H. rewrite lower_range_S in H. cbv zeta in H.
        assert (NR : forall r0 : pres unit, (if p_has_range h then Some PErr else None) = Some r0 -> nocrash r0).
        { intros r0 H0. destruct (p_has_range h); inversion H0. apply nocrash_err. }
        destruct (p_find_assign h 0) as [[pos def]|]; [|apply NR; exact H].
        rewrite G1 in H.
        destruct (Nat.leb (length h) (pos + fc_guard_off C)) eqn:Hs; [apply NR; exact H|].
        apply Nat.leb_gt in Hs.
        destruct (nth_error h (pos + fc_index_off C)) as [t|] eqn:Hn.
        * destruct (negb (p_named "range" t)); [apply NR; exact H|].
          destruct (p_range_targets (firstn pos h)) as [n|] eqn:Ht; [|inversion H; apply nocrash_err].
          destruct (Nat.ltb (length h) (pos + fc_source_off C)) eqn:Hsl.
          { apply Nat.ltb_lt in Hsl. lia. }
          destruct (skipn (pos + fc_source_off C) h) as [|x src]; inversion H; [apply nocrash_err|].
          apply nocrash_bind; [apply IHc|]. intros a _.
          apply range_binding_nocrash. apply (range_targets_count _ _ Ht).
        * apply nth_error_None in Hn. lia.
  Qed.

  Theorem expr_no_crash : forall f rbp ts d s, 0 <= rbp -> expr f rbp ts d <> PCrash s.
  Proof. intros f rbp ts d s Hr. destruct (inv_all f) as (He & _). destruct (He rbp ts d Hr) as (Hn & _). apply Hn. Qed.

  Theorem expr_stack_balanced : forall f rbp ts d ts' d', 0 <= rbp -> expr f rbp ts d = POk (ts', d') -> d' = d.
  Proof.
    intros f rbp ts d ts' d' Hr H. destruct (inv_all f) as (He & _). destruct (He rbp ts d Hr) as (_ & Hk).
    apply (Hk _ H).
  Qed.

  Theorem for_munch_no_crash : forall f ts s, for_munch f ts <> PCrash s.
  Proof. intros f ts s. destruct (inv_all f) as (_ & _ & _ & _ & Hf & _). apply Hf. Qed.

  Theorem norm_sel_no_crash : forall f t s, norm_sel f t <> PCrash s.
  Proof. intros f t s. destruct (inv_all f) as (_ & _ & Hn & _). apply Hn. Qed.

  Theorem stmts_no_crash : forall ef f ts s, stmts E K C ef f ts <> PCrash s.
  Proof.
    intros ef f. induction f as [|f IH]; intros ts s; simpl; [discriminate|].
    destruct (drop_semis ptok p_is_semi ts) as [|t1 r1]; [discriminate|].
    apply nocrash_bind.
    - assert (HX : nocrash (pbind (expr ef 0 (t1 :: r1) 0) (fun q => POk (fst q)))).
      { apply nocrash_bind; [intro s'; apply expr_no_crash; lia|]. intros a _. apply nocrash_ok. }
      destruct r1 as [|f0 after_for]; [exact HX|].
      destruct (p_is_label t1 && p_named "for" f0); [|exact HX].
      destruct after_for; [apply nocrash_err|]. intro s'. apply for_munch_no_crash.
    - intros rest _. apply nocrash_bind; [intro s'; apply IH|]. intros n _. apply nocrash_ok.
  Qed.
End Total.

(* the table and the constants the translator reads from zygo/pratt.go satisfy both conditions *)
Lemma generated_table_safe : table_safe infix_entries infix_lbp = true.
Proof. vm_compute. reflexivity. Qed.
Lemma generated_guards_ok : guards_ok for_consts = true.
Proof. vm_compute. reflexivity. Qed.

Theorem expand_gen_no_crash : forall ef f ts s, expand_gen ef f ts <> PCrash s.
Proof. intros. apply stmts_no_crash; [exact generated_table_safe | exact generated_guards_ok]. Qed.

(* GenerateInfix: InfixArgsToArray("infix", args) never indexes an empty argument list, for any number and
   kind of arguments; the infixExpand builder does (args[0] with no argument) - that panic is the one
   CallUserFunction recovers *)
Lemma infix_args_infix_no_crash : forall args s, infix_args false args <> PCrash s.
Proof.
  intros args s. unfold infix_args. destruct args as [|a [|b r]]; simpl; try discriminate.
  destruct a; discriminate.
Qed.

Theorem infix_form_no_crash : forall efuel fuel args s, infix_form_gen false efuel fuel args <> PCrash s.
Proof.
  intros efuel fuel args s. unfold infix_form_gen, infix_form. apply nocrash_bind.
  - intro s'. apply infix_args_infix_no_crash.
  - intros o _. destruct o as [c|]; [|apply nocrash_ok].
    intro s'. apply stmts_no_crash; [exact generated_table_safe | exact generated_guards_ok].
Qed.

Theorem infix_expand_crashes_only_without_argument : forall efuel fuel args s,
  infix_form_gen true efuel fuel args = PCrash s -> args = [] /\ s = SArgsIndex.
Proof.
  intros efuel fuel args s H. unfold infix_form_gen, infix_form in H.
  destruct args as [|a r].
  - simpl in H. inversion H. auto.
  - exfalso. revert H. apply nocrash_bind.
    + intro s'. simpl. destruct a; try discriminate.
    + intros o _. destruct o as [c|]; [|apply nocrash_ok].
      intro s'. apply stmts_no_crash; [exact generated_table_safe | exact generated_guards_ok].
Qed.

(* the conditions are needed: a table with a negative right binding power crashes on `a op 1 2`-like
   input at the led dispatch (an operand token is looked up as an operator) *)
Definition bad_entries : list entry := [mkEntry "!" 5 "Infixr" NAtom (LBin (-1) "!")].
Definition bad_lbp : lbpconsts := mkLbp 0 0 0 0 80 15 0 0 0 0 80 0 [] 0 0 "comma" "." 80 LIndex 1 (Some 0).
Lemma unsafe_table_crashes :
  stmts bad_entries bad_lbp for_consts 10 10 [PT (TInt 1); PT (TSym "!" false); PT (TInt 2); PT (TInt 3)] = PCrash SLedDispatch.
Proof. vm_compute. reflexivity. Qed.

(* token lists of the Examples in Properties/C01.v *)
Definition toks_int_bang_int_int : list ptok := [mk_tok 3 ""; mk_tok 0 "!"; mk_tok 3 ""; mk_tok 3 ""].        (* 1 ! 2 3 *)
Definition toks_for_i_assign_body : list ptok := [mk_tok 0 "for"; mk_tok 0 "i"; mk_tok 0 "="; mk_tok 14 ""].   (* for i = { } *)
Definition toks_range_and_slice : list ptok :=                                   (* for k, v := range h { .. } ; a[1:2] = 3 *)
  [mk_tok 0 "for"; mk_tok 0 "k"; mk_tok 7 ""; mk_tok 0 "v"; mk_tok 0 ":="; mk_tok 0 "range"; mk_tok 0 "h"; mk_tok 13 ""; mk_tok 8 "";
   mk_tok 0 "a"; PArr [mk_tok 3 ""; mk_tok 0 ":"; mk_tok 3 ""]; mk_tok 0 "="; mk_tok 3 ""].
Definition toks_range_no_source : list ptok := [mk_tok 0 "for"; mk_tok 0 "i"; mk_tok 0 ":="; mk_tok 0 "range"; mk_tok 14 ""].  (* for i := range { } *)
Definition toks_two_colons : list ptok :=                                        (* a[1:2:3] *)
  [mk_tok 0 "a"; PArr [mk_tok 3 ""; mk_tok 0 ":"; mk_tok 3 ""; mk_tok 0 ":"; mk_tok 3 ""]].
