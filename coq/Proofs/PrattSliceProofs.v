(* C06 — the model of SexpArraySelector.RHS selects exactly what Go slicing / indexing selects. *)
From Coq Require Import ZArith List Bool Lia.
Import ListNotations.
Require Import ZV.Model.PrattSlice.
Open Scope Z_scope.

Theorem select_exact : forall (A : Type) (l : list A) sel sh,
  shape_of sel = Some sh -> select_model A l sel = select_spec A l sh.
Proof.
  intros A l sel sh H.
  assert (Hn : 0 <= Z.of_nat (length l)) by lia.
  set (n := Z.of_nat (length l)) in *.
  destruct sel as [|e1 [|e2 [|e3 [|e4 r]]]]; cbn in H; try discriminate;
    repeat match goal with
           | e : selem |- _ => destruct e; cbn in H; try discriminate
           end;
    inversion H; subst; clear H;
    unfold select_model, select_spec, slice_bounds; cbn; fold n;
    repeat match goal with
           | |- context [?a <? ?b] => destruct (Z.ltb_spec a b)
           | |- context [?a <=? ?b] => destruct (Z.leb_spec a b)
           end; cbn; try reflexivity; try lia.
  (* an index that passed the range test selects an element *)
  all: destruct (nth_error l (Z.to_nat z)) eqn:En; auto;
    try (apply nth_error_None in En; unfold n in *; lia);
    try (assert (Hlt : (Z.to_nat z < length l)%nat) by (apply nth_error_Some; congruence); unfold n in *; lia).
Qed.
