(* The CnodeStack discipline of Pratt.Expression: at every nesting depth the top of the stack is the
   token the led loop is working on, and Expression leaves the stack as it found it. *)
From Coq Require Import ZArith String List Bool Lia.
Import ListNotations.
Require Import ZV.Model.PrattTypes ZV.Model.Pratt ZV.Model.PrattStack.
Open Scope Z_scope.

Section S.
  Variable tok : Type.
  Variable lbp : tok -> option Z.
  Variable nud : tok -> nudk.
  Variable led : tok -> option ledk.
  Variable is_else : tok -> bool.
  Variable led_err : tok -> bool.
  Variable eof_tok : option tok.

  Notation expr := (expr tok lbp nud led is_else led_err eof_tok).
  Notation loop := (loop tok lbp nud led is_else led_err eof_tok).
  Notation exprS := (exprS tok lbp nud led is_else led_err eof_tok).
  Notation loopS := (loopS tok lbp nud led is_else led_err eof_tok).

  Definition with_stack (st : list tok) (r : res (tree tok * list tok)) : res (out tok) :=
    match r with ROk p => ROk (fst p, snd p, st) | RFuel => RFuel | RUnsup => RUnsup | RErr => RErr | RCrash => RCrash end.

  Lemma bind_with_stack : forall (A : res (out tok)) (B : res (tree tok * list tok)) s0 st
      (K : out tok -> res (out tok)) (K' : tree tok * list tok -> res (tree tok * list tok)),
    A = with_stack s0 B -> (forall x r', K (x, r', s0) = with_stack st (K' (x, r'))) ->
    bind A K = with_stack st (bind B K').
  Proof.
    intros A B s0 st K K' -> HK. destruct B as [[x r]| | | |]; cbn [bind with_stack fst snd]; try reflexivity. apply HK.
  Qed.

  Lemma stack_refines : forall fuel,
    (forall rbp st ts, exprS fuel rbp st ts = with_stack st (expr fuel rbp ts)) /\
    (forall rbp c st left ts, loopS fuel rbp (c :: st) left ts = with_stack st (loop fuel rbp left ts)).
  Proof.
    induction fuel as [|f [IHe IHl]]; [split; intros; reflexivity|].
    assert (BL : forall rbp c st A B, A = with_stack (c :: st) B ->
      bind A (fun p => loopS f rbp (snd p) (fst (fst p)) (snd (fst p)))
      = with_stack st (bind B (fun p => loop f rbp (fst p) (snd p)))).
    { intros rbp c st A B ->. destruct B as [[x r]| | | |]; cbn [bind with_stack fst snd]; try reflexivity. apply IHl. }
    split.
    - intros rbp st ts. destruct ts as [|t rest]; [reflexivity|]. cbn [PrattStack.exprS Pratt.expr].
      apply (BL rbp t st). clear BL.
      destruct (nud t) as [|r h|r1 r2 r3| |n]; cbn [bind with_stack fst snd]; try reflexivity.
      + rewrite IHe. destruct (expr f r rest) as [[x r']| | | |]; reflexivity.
      + rewrite IHe. destruct (expr f r1 rest) as [[xc rc]| | | |]; cbn [bind with_stack fst snd]; try reflexivity.
        rewrite IHe. destruct (expr f r2 rc) as [[xt rt]| | | |]; cbn [bind with_stack fst snd]; try reflexivity.
        destruct rt as [|e rest3]; cbn [bind with_stack fst snd].
        * clear IHe IHl. destruct eof_tok as [e|]; [destruct (is_else e)|]; reflexivity.
        * destruct (is_else e); cbn [bind with_stack fst snd]; [|reflexivity].
          rewrite IHe. destruct (expr f r3 rest3) as [[xe re]| | | |]; reflexivity.
    - intros rbp c st left ts. destruct ts as [|t rest]; [reflexivity|]. cbn [PrattStack.loopS Pratt.loop tl].
      destruct (lbp t) as [l|]; [|reflexivity]. destruct (rbp >=? l); [reflexivity|].
      destruct (led t) as [[r h|h| | |]|]; cbn [bind top with_stack fst snd]; try reflexivity.
      + apply (bind_with_stack _ _ (t :: st) st); [apply IHe|]. intros x r'. cbn [fst snd]. apply IHl.
      + apply IHl.
      + destruct (led_err t); [reflexivity|apply IHl].
      + apply IHl.
      + apply IHl.
  Qed.

  (* Expression with the CnodeStack = the stack-free Expression of Model/Pratt.v: the postfix nodes carry
     their own operator token at every depth, whatever the stack holds at entry, and the stack is restored *)
  Theorem cnode_stack_top_is_operator_lemma : forall fuel rbp st ts,
    exprS fuel rbp st ts = with_stack st (expr fuel rbp ts).
  Proof. intros fuel. apply (proj1 (stack_refines fuel)). Qed.
End S.
