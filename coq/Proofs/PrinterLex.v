(* C12: how the lexer model (Model/Lexer.v, owner C13) reads the pieces the printers emit.
   Part 1: the look-back ring, runs of plain runes, delimiters, negative numbers, string and
   char literals.  Part 2: the regex facts (derivative automata of the generated regexes). *)
From Coq Require Import ZArith List Bool Lia.
From ZV Require Import Model.Regex Generated.LexTables Model.Lexer Model.Reader Model.Printer Proofs.LexerProofs.
Import ListNotations.
Open Scope Z_scope.

(* ---- the look-back ring ---- *)

Definition ring_ok (s : lstate) : Prop := length (l_ring s) = 20%nat /\ (l_priori s < 20)%nat.
Definition last_pushed (s : lstate) : Z := nth ((l_priori s + 19) mod 20)%nat (l_ring s) 0.

Lemma nth_upd_nth_neq : forall l n m v, n <> m -> nth n (upd_nth m v l) 0 = nth n l 0.
Proof.
  induction l as [|x l IH]; intros n m v H; simpl.
  - destruct m; reflexivity.
  - destruct m; destruct n; simpl; try reflexivity; try congruence. apply IH; congruence.
Qed.

Lemma nth_upd_nth_eq : forall l n v, (n < length l)%nat -> nth n (upd_nth n v l) 0 = v.
Proof.
  induction l as [|x l IH]; intros n v H; simpl in *.
  - lia.
  - destruct n; simpl; [reflexivity|apply IH; lia].
Qed.

Lemma upd_nth_length : forall l n v, length (upd_nth n v l) = length l.
Proof. induction l; intros; destruct n; simpl; auto. Qed.

Lemma mod20_a : forall p, (p < 20)%nat -> (((p + 1) mod 20 + 18) mod 20 = (p + 19) mod 20)%nat.
Proof. intros p H. do 20 (destruct p as [|p]; [reflexivity|]). lia. Qed.
Lemma mod20_b : forall p, (p < 20)%nat -> (((p + 1) mod 20 + 19) mod 20 = p)%nat.
Proof. intros p H. do 20 (destruct p as [|p]; [reflexivity|]). lia. Qed.
Lemma mod20_c : forall p, (p < 20)%nat -> ((p + 19) mod 20 <> p)%nat.
Proof. intros p H. do 20 (destruct p as [|p]; [vm_compute; congruence|]). lia. Qed.
Lemma mod20_d : forall p, (p < 20)%nat -> ((p + 1) mod 20 < 20)%nat.
Proof. intros p H. apply Nat.mod_upper_bound. lia. Qed.

Lemma ring_push_ok : forall r s, ring_ok s ->
  ring_ok (ring_push r s) /\ last_pushed (ring_push r s) = r /\ twoback (ring_push r s) = last_pushed s.
Proof.
  intros r s [Hl Hp]. destruct s as [st pr toks bf pt ppt pb ln pi rg]; simpl in *.
  unfold ring_ok, last_pushed, twoback, ring_push, ring_size, set_priori, set_ring;
    cbn [l_ring l_priori l_state l_prevrune l_tokens l_buffer l_prevtok l_prevprevtok l_prebuiltin l_linenum].
  rewrite upd_nth_length. repeat split; auto using mod20_d.
  - rewrite mod20_b by assumption. apply nth_upd_nth_eq. lia.
  - change (20 - 2)%nat with 18%nat. rewrite mod20_a by assumption.
    apply nth_upd_nth_neq. apply mod20_c; assumption.
Qed.

Lemma init_ring_ok : ring_ok init_lstate /\ last_pushed init_lstate = 0.
Proof. split; [split; vm_compute; [reflexivity|lia]|reflexivity]. Qed.

(* ---- views of a lexer state ---- *)

Ltac dst s := destruct s as [st pr toks bf pt ppt pb ln pi rg].
Ltac prj := cbn [l_ring l_priori l_state l_prevrune l_tokens l_buffer l_prevtok l_prevprevtok l_prebuiltin l_linenum] in *.

(* between runes: mode, pending atom, queued tokens, the rune read last *)
Record view (s : lstate) (m : lmode) (buf : list Z) (toks : list token) (last : Z) : Prop := mkView {
  v_state : l_state s = m; v_buf : l_buffer s = buf; v_toks : l_tokens s = toks;
  v_ring : ring_ok s; v_last : last_pushed s = last }.

(* inside LexNextRune after the ring was advanced: cur = the rune being read, prev = the one before *)
Record pview (s : lstate) (m : lmode) (buf : list Z) (toks : list token) (cur prev : Z) : Prop := mkPView {
  p_state : l_state s = m; p_buf : l_buffer s = buf; p_toks : l_tokens s = toks;
  p_ring : ring_ok s; p_last : last_pushed s = cur; p_two : twoback s = prev }.

Lemma push_view : forall s m b t p r, view s m b t p -> pview (ring_push r s) m b t r p.
Proof.
  intros s m b t p r [H1 H2 H3 H4 H5]. destruct (ring_push_ok r s H4) as [Ha [Hb Hc]].
  dst s; prj. split; auto; try (unfold ring_push, set_priori, set_ring; prj; assumption). congruence.
Qed.

Definition special_runes : list Z :=
  [43; 45; 42; 60; 62; 61; 33; 38; 124; 47; 96; 34; 39; 59; 44; 58; 37; 94; 126; 40; 41; 91; 93; 123; 125; 10; 32; 9; 13].
Definition plain (r : Z) : Prop := mem_z r special_runes = false.

Ltac kill_eqb r := repeat match goal with |- context [r =? ?k] => rewrite (proj2 (Z.eqb_neq r k)) by lia end.

Lemma plain_neq : forall r, plain r ->
  r <> 43 /\ r <> 45 /\ r <> 42 /\ r <> 60 /\ r <> 62 /\ r <> 61 /\ r <> 33 /\ r <> 38 /\ r <> 124 /\ r <> 47 /\ r <> 96 /\
  r <> 34 /\ r <> 39 /\ r <> 59 /\ r <> 44 /\ r <> 58 /\ r <> 37 /\ r <> 94 /\ r <> 126 /\ r <> 40 /\ r <> 41 /\ r <> 91 /\
  r <> 93 /\ r <> 123 /\ r <> 125 /\ r <> 10 /\ r <> 32 /\ r <> 9 /\ r <> 13.
Proof.
  unfold plain, special_runes, mem_z. intros r H.
  repeat (apply orb_false_iff in H; destruct H as [?H H]).
  repeat match goal with H : (_ =? _) = false |- _ => apply Z.eqb_neq in H end.
  repeat split; congruence.
Qed.

Lemma lex_normal_plain : forall s r, plain r -> lex_normal s r = LOk (write_rune r s).
Proof.
  intros s r H. apply plain_neq in H. unfold lex_normal. kill_eqb r. reflexivity.
Qed.

Lemma lex_rune_normal : forall s r, l_state s = LNormal -> lex_rune s r = lex_normal (ring_push r s) r.
Proof. intros s r H. dst s; prj. subst st. reflexivity. Qed.


Lemma pview_view : forall s m b t c p, pview s m b t c p -> view s m b t c.
Proof. intros s m b t c p []. split; assumption. Qed.

Ltac setter_tac := intros s; intros; match goal with H : view _ _ _ _ _ |- _ => destruct H as [H1 H2 H3 H4 H5] end;
  dst s; unfold ring_ok, last_pushed in *; prj; split; unfold ring_ok, last_pushed; prj; try assumption; try reflexivity; subst; reflexivity.

Lemma view_append_token : forall s m b t p tok, view s m b t p -> view (append_token tok s) m b (t ++ [tok]) p.
Proof. unfold append_token, set_prevtok, set_prevprevtok, set_tokens. setter_tac. Qed.
Lemma view_set_buffer : forall s m b t p b', view s m b t p -> view (set_buffer b' s) m b' t p.
Proof. unfold set_buffer. setter_tac. Qed.
Lemma view_set_state : forall s m b t p m', view s m b t p -> view (set_state m' s) m' b t p.
Proof. unfold set_state. setter_tac. Qed.
Lemma view_set_linenum : forall s m b t p n, view s m b t p -> view (set_linenum n s) m b t p.
Proof. unfold set_linenum. setter_tac. Qed.
Lemma view_set_prevrune : forall s m b t p n, view s m b t p -> view (set_prevrune n s) m b t p.
Proof. unfold set_prevrune. setter_tac. Qed.
Lemma view_set_prebuiltin : forall s m b t p n, view s m b t p -> view (set_prebuiltin n s) m b t p.
Proof. unfold set_prebuiltin. setter_tac. Qed.
Lemma view_write_rune : forall s m b t p r, view s m b t p -> view (write_rune r s) m (b ++ [r]) t p.
Proof. unfold write_rune, set_buffer. setter_tac. Qed.
Lemma view_write_runes : forall s m b t p rs, view s m b t p -> view (write_runes rs s) m (b ++ rs) t p.
Proof. unfold write_runes, set_buffer. setter_tac. Qed.
Lemma view_dump_as : forall s m b t p k, view s m b t p -> view (dump_as k s) m [] (t ++ [mkTok k b]) p.
Proof. intros. unfold dump_as. destruct H as [H1 H2 H3 H4 H5]. rewrite H2.
  apply view_append_token. apply view_set_buffer with (b := b). split; assumption. Qed.


Lemma step_plain : forall s b t p r, plain r -> view s LNormal b t p ->
  exists s', lex_rune s r = LOk s' /\ view s' LNormal (b ++ [r]) t r.
Proof.
  intros s b t p r Hp V. rewrite lex_rune_normal by apply V.
  apply (push_view _ _ _ _ _ r) in V. set (s1 := ring_push r s) in *. clearbody s1.
  rewrite lex_normal_plain by assumption. eexists; split; [reflexivity|].
  apply view_write_rune. eapply pview_view; eassumption.
Qed.

Lemma last_cons_dflt : forall (cs : list Z) c p, last cs c = last (c :: cs) p.
Proof.
  induction cs as [|a cs IH]; intros c p; [reflexivity|].
  destruct cs as [|z cs]; [reflexivity|].
  change (last (z :: cs) c = last (z :: cs) p).
  exact (IH c p).
Qed.

Lemma run_plain : forall cs s b t p, Forall plain cs -> view s LNormal b t p ->
  exists s', lex_all s cs = LOk s' /\ view s' LNormal (b ++ cs) t (last cs p).
Proof.
  induction cs as [|c cs IH]; intros s b t p F V.
  - exists s; split; [reflexivity|]. rewrite app_nil_r. exact V.
  - inversion F; subst. destruct (step_plain s b t p c H1 V) as [s1 [E V1]].
    destruct (IH s1 (b ++ [c]) t c H2 V1) as [s2 [E2 V2]].
    exists s2. split; [simpl; rewrite E; exact E2|].
    rewrite <- app_assoc in V2. simpl in V2.
    replace (last (c :: cs) p) with (last cs c); [exact V2|].
    apply last_cons_dflt.
Qed.

(* ---- delimiters: blank, newline, closing parenthesis / bracket ---- *)

Definition delim (d : Z) : Prop := d = 32 \/ d = 10 \/ d = 41 \/ d = 93 \/ d = 125.
Definition dtok (d : Z) : list token :=
  if d =? 41 then [mkTok TRParen []] else if d =? 93 then [mkTok TRSquare []]
  else if d =? 125 then [mkTok TRCurly []] else [].

(* what LexNextRune does with a delimiter in normal mode, after dumpBuffer *)
Definition after_delim (d : Z) (s : lstate) : lstate :=
  if d =? 41 then append_token (mkTok TRParen []) s
  else if d =? 93 then append_token (mkTok TRSquare []) s
  else if d =? 125 then append_token (mkTok TRCurly []) s else s.

Lemma view_after_delim : forall d s m b t p, view s m b t p -> view (after_delim d s) m b (t ++ dtok d) p.
Proof.
  intros. unfold after_delim, dtok. destruct (d =? 41); [apply view_append_token; assumption|].
  destruct (d =? 93); [apply view_append_token; assumption|].
  destruct (d =? 125); [apply view_append_token; assumption|]. rewrite app_nil_r; assumption.
Qed.

Lemma lex_normal_delim : forall d s, delim d ->
  lex_normal s d = with_dump (if d =? 10 then set_linenum (l_linenum s + 1) s else s) (fun s1 => LOk (after_delim d s1)).
Proof.
  intros d s [H|[H|[H|[H|H]]]]; subst d; reflexivity.
Qed.

Lemma step_delim : forall s b t p d tok, delim d -> b <> [] -> decode_atom b = Some tok -> view s LNormal b t p ->
  exists s', lex_rune s d = LOk s' /\ view s' LNormal [] (t ++ tok :: dtok d) d.
Proof.
  intros s b t p d tok Hd Hb Hdec V. rewrite lex_rune_normal by apply V.
  apply (push_view _ _ _ _ _ d) in V. apply pview_view in V. set (s1 := ring_push d s) in *. clearbody s1.
  rewrite lex_normal_delim by assumption.
  set (s2 := if d =? 10 then set_linenum (l_linenum s1 + 1) s1 else s1).
  assert (view s2 LNormal b t d) as V2 by (unfold s2; destruct (d =? 10); [apply view_set_linenum|]; assumption).
  clearbody s2. unfold with_dump, dump_buffer. rewrite (v_buf _ _ _ _ _ V2).
  destruct b as [|x b]; [congruence|]. rewrite Hdec.
  eexists; split; [reflexivity|].
  replace (t ++ tok :: dtok d) with ((t ++ [tok]) ++ dtok d) by (rewrite <- app_assoc; reflexivity).
  apply view_after_delim, view_append_token. eapply view_set_buffer. eassumption.
Qed.

Lemma step_delim0 : forall s t p d, delim d -> view s LNormal [] t p ->
  exists s', lex_rune s d = LOk s' /\ view s' LNormal [] (t ++ dtok d) d.
Proof.
  intros s t p d Hd V. rewrite lex_rune_normal by apply V.
  apply (push_view _ _ _ _ _ d) in V. apply pview_view in V. set (s1 := ring_push d s) in *. clearbody s1.
  rewrite lex_normal_delim by assumption.
  set (s2 := if d =? 10 then set_linenum (l_linenum s1 + 1) s1 else s1).
  assert (view s2 LNormal [] t d) as V2 by (unfold s2; destruct (d =? 10); [apply view_set_linenum|]; assumption).
  clearbody s2. unfold with_dump, dump_buffer. rewrite (v_buf _ _ _ _ _ V2).
  eexists; split; [reflexivity|]. apply view_after_delim. assumption.
Qed.

(* an atom made of plain runes, followed by a delimiter *)
Lemma lex_plain_atom : forall a s t p d tok, Forall plain a -> a <> [] -> decode_atom a = Some tok -> delim d ->
  view s LNormal [] t p ->
  exists s', lex_all s (a ++ [d]) = LOk s' /\ view s' LNormal [] (t ++ tok :: dtok d) d.
Proof.
  intros a s t p d tok F Ha Hdec Hd V.
  destruct (run_plain a s [] t p F V) as [s1 [E1 V1]]. simpl in V1.
  destruct (step_delim s1 a t _ d tok Hd Ha Hdec V1) as [s2 [E2 V2]].
  exists s2. split; [|exact V2]. rewrite lex_all_app, E1. simpl. rewrite E2. reflexivity.
Qed.

(* ---- a negative number: '-' then a digit ---- *)

Lemma sci_prefix_nil : sci_prefix_ok [] = false. Proof. reflexivity. Qed.

Lemma step_minus : forall s t p, view s LNormal [] t p ->
  exists s1, lex_rune s 45 = LOk s1 /\ view s1 LBuiltinOperator [] t 45 /\ l_prevrune s1 = 45 /\ l_prebuiltin s1 = p.
Proof.
  intros s t p V. rewrite lex_rune_normal by apply V.
  apply (push_view _ _ _ _ _ 45) in V. set (s1 := ring_push 45 s) in *. clearbody s1.
  unfold lex_normal. change ((45 =? 43) || (45 =? 45)) with true. cbv iota.
  rewrite (p_buf _ _ _ _ _ _ V), sci_prefix_nil, andb_false_r.
  unfold with_dump, dump_buffer. rewrite (p_buf _ _ _ _ _ _ V).
  eexists; split; [reflexivity|]. split; [|split].
  - apply view_set_prevrune, view_set_prebuiltin. eapply view_set_state. eapply pview_view; eassumption.
  - dst s1; reflexivity.
  - rewrite <- (p_two _ _ _ _ _ _ V). dst s1; reflexivity.
Qed.

Lemma lex_rune_builtin : forall s r, l_state s = LBuiltinOperator -> lex_rune s r = lex_builtin (ring_push r s) r.
Proof. intros s r H. dst s; prj. subst st. reflexivity. Qed.

Lemma step_minus_digit : forall s t c pbv,
  view s LBuiltinOperator [] t 45 -> l_prevrune s = 45 -> l_prebuiltin s = pbv -> can_start_signed_after pbv = true ->
  re_match re_DecimalRegex [45; c] = true ->
  exists s1, lex_rune s c = LOk s1 /\ view s1 LNormal [45; c] t c.
Proof.
  intros s t c pbv V Hpr Hpb Hcan Hre. rewrite lex_rune_builtin by apply V.
  apply (push_view _ _ _ _ _ c) in V. apply pview_view in V.
  assert (l_prevrune (ring_push c s) = 45) as Hpr1 by (dst s; exact Hpr).
  assert (l_prebuiltin (ring_push c s) = pbv) as Hpb1 by (dst s; exact Hpb).
  set (s1 := ring_push c s) in *. clearbody s1.
  unfold lex_builtin.
  assert (l_prevrune (set_state LNormal s1) = 45) as E1 by (dst s1; exact Hpr1).
  assert (l_prebuiltin (set_state LNormal s1) = pbv) as E2 by (dst s1; exact Hpb1).
  rewrite E1, E2, Hcan, Hre, orb_true_r. change ((45 =? 45) && true && true) with true. cbv iota.
  eexists; split; [reflexivity|].
  apply (view_write_runes _ _ [] _ _ [45; c]). eapply view_set_state. eassumption.
Qed.

(* ---- string literals ---- *)

Lemma lex_rune_strlit : forall s r, l_state s = LStrLit ->
  lex_rune s r = let s1 := ring_push r s in
                 if r =? 92 then LOk (set_state LStrEscaped s1)
                 else if r =? 34 then LOk (set_state LNormal (dump_as TString s1))
                 else LOk (write_rune r s1).
Proof. intros s r H. dst s; prj. subst st. reflexivity. Qed.

Lemma lex_rune_stresc : forall s r, l_state s = LStrEscaped ->
  lex_rune s r = let s1 := ring_push r s in
                 match escape_char r with Some c => LOk (set_state LStrLit (write_rune c s1)) | None => LErr s1 end.
Proof. intros s r H. dst s; prj. subst st. reflexivity. Qed.

Lemma step_str_open : forall s t p, view s LNormal [] t p ->
  exists s1, lex_rune s 34 = LOk s1 /\ view s1 LStrLit [] t 34.
Proof.
  intros s t p V. rewrite lex_rune_normal by apply V.
  apply (push_view _ _ _ _ _ 34) in V. apply pview_view in V. set (s1 := ring_push 34 s) in *. clearbody s1.
  unfold lex_normal. cbn [Z.eqb Pos.eqb orb andb]. rewrite (v_buf _ _ _ _ _ V).
  eexists; split; [reflexivity|]. eapply view_set_state; eassumption.
Qed.

Lemma step_str_raw : forall s b t p r, r <> 92 -> r <> 34 -> view s LStrLit b t p ->
  exists s1, lex_rune s r = LOk s1 /\ view s1 LStrLit (b ++ [r]) t r.
Proof.
  intros s b t p r H1 H2 V. rewrite lex_rune_strlit by apply V. cbv zeta.
  apply (push_view _ _ _ _ _ r) in V. apply pview_view in V.
  kill_eqb r. eexists; split; [reflexivity|]. apply view_write_rune; assumption.
Qed.

Lemma step_str_esc : forall s b t p x c, escape_char x = Some c -> view s LStrLit b t p ->
  exists s1, lex_all s [92; x] = LOk s1 /\ view s1 LStrLit (b ++ [c]) t x.
Proof.
  intros s b t p x c He V. simpl. rewrite lex_rune_strlit by apply V. cbv zeta.
  change (92 =? 92) with true. cbv iota.
  apply (push_view _ _ _ _ _ 92) in V. apply pview_view in V. apply (view_set_state _ _ _ _ _ LStrEscaped) in V.
  set (s1 := set_state LStrEscaped (ring_push 92 s)) in *. clearbody s1.
  rewrite lex_rune_stresc by apply V. cbv zeta. rewrite He.
  eexists; split; [reflexivity|].
  apply (push_view _ _ _ _ _ x) in V. apply pview_view in V.
  eapply view_set_state. apply view_write_rune. eassumption.
Qed.

Lemma step_str_close : forall s b t p, view s LStrLit b t p ->
  exists s1, lex_rune s 34 = LOk s1 /\ view s1 LNormal [] (t ++ [mkTok TString b]) 34.
Proof.
  intros s b t p V. rewrite lex_rune_strlit by apply V. cbv zeta.
  change (34 =? 92) with false. change (34 =? 34) with true. cbv iota.
  apply (push_view _ _ _ _ _ 34) in V. apply pview_view in V.
  eexists; split; [reflexivity|]. eapply view_set_state. apply view_dump_as. eassumption.
Qed.

(* ---- char literals ---- *)

Lemma lex_rune_runelit : forall s r, l_state s = LRuneLit ->
  lex_rune s r = let s0 := ring_push r s in
                 if r =? 92 then LOk (set_state LRuneEscaped s0)
                 else if r =? 39 then
                   let s1 := write_rune r s0 in
                   match dump_buffer s1 with
                   | Some s2 => LOk (set_state LNormal s2)
                   | None => LOk (set_state LNormal s1)
                   end
                 else LOk (write_rune r s0).
Proof. intros s r H. dst s; prj. subst st. reflexivity. Qed.

Lemma lex_rune_runeesc : forall s r, l_state s = LRuneEscaped ->
  lex_rune s r = let s1 := ring_push r s in
                 match escape_char r with Some c => LOk (set_state LRuneLit (write_rune c s1)) | None => LErr s1 end.
Proof. intros s r H. dst s; prj. subst st. reflexivity. Qed.

Lemma step_rune_open : forall s t p, view s LNormal [] t p ->
  exists s1, lex_rune s 39 = LOk s1 /\ view s1 LRuneLit [39] t 39.
Proof.
  intros s t p V. rewrite lex_rune_normal by apply V.
  apply (push_view _ _ _ _ _ 39) in V. apply pview_view in V. set (s1 := ring_push 39 s) in *. clearbody s1.
  unfold lex_normal. cbn [Z.eqb Pos.eqb orb andb]. rewrite (v_buf _ _ _ _ _ V).
  eexists; split; [reflexivity|]. eapply view_set_state. apply (view_write_rune _ _ [] _ _ 39). eassumption.
Qed.

Lemma step_rune_raw : forall s b t p r, r <> 92 -> r <> 39 -> view s LRuneLit b t p ->
  exists s1, lex_rune s r = LOk s1 /\ view s1 LRuneLit (b ++ [r]) t r.
Proof.
  intros s b t p r H1 H2 V. rewrite lex_rune_runelit by apply V. cbv zeta.
  apply (push_view _ _ _ _ _ r) in V. apply pview_view in V.
  kill_eqb r. eexists; split; [reflexivity|]. apply view_write_rune; assumption.
Qed.

Lemma step_rune_esc : forall s b t p x c, escape_char x = Some c -> view s LRuneLit b t p ->
  exists s1, lex_all s [92; x] = LOk s1 /\ view s1 LRuneLit (b ++ [c]) t x.
Proof.
  intros s b t p x c He V. simpl. rewrite lex_rune_runelit by apply V. cbv zeta.
  change (92 =? 92) with true. cbv iota.
  apply (push_view _ _ _ _ _ 92) in V. apply pview_view in V. apply (view_set_state _ _ _ _ _ LRuneEscaped) in V.
  set (s1 := set_state LRuneEscaped (ring_push 92 s)) in *. clearbody s1.
  rewrite lex_rune_runeesc by apply V. cbv zeta. rewrite He.
  eexists; split; [reflexivity|].
  apply (push_view _ _ _ _ _ x) in V. apply pview_view in V.
  eapply view_set_state. apply view_write_rune. eassumption.
Qed.

Lemma step_rune_close : forall s b t p tok, decode_atom (b ++ [39]) = Some tok -> view s LRuneLit b t p ->
  exists s1, lex_rune s 39 = LOk s1 /\ view s1 LNormal [] (t ++ [tok]) 39.
Proof.
  intros s b t p tok Hd V. rewrite lex_rune_runelit by apply V. cbv zeta.
  change (39 =? 92) with false. change (39 =? 39) with true. cbv iota.
  apply (push_view _ _ _ _ _ 39) in V. apply pview_view in V.
  apply (view_write_rune _ _ _ _ _ 39) in V.
  set (s1 := write_rune 39 (ring_push 39 s)) in *. clearbody s1.
  unfold dump_buffer. rewrite (v_buf _ _ _ _ _ V).
  destruct (b ++ [39]) as [|x l] eqn:E; [destruct b; discriminate|]. rewrite Hd.
  eexists; split; [reflexivity|]. eapply view_set_state. apply view_append_token. eapply view_set_buffer; eassumption.
Qed.

(* the sign of an exponent: '+' or '-' right after 'e' / 'E' with a decimal / float mantissa in the buffer *)
Lemma step_exp_sign : forall s b t r e, (r = 43 \/ r = 45) -> (e = 101 \/ e = 69) -> sci_prefix_ok b = true -> view s LNormal b t e ->
  exists s1, lex_rune s r = LOk s1 /\ view s1 LNormal (b ++ [r]) t r.
Proof.
  intros s b t r e Hr He Hs V. rewrite lex_rune_normal by apply V.
  apply (push_view _ _ _ _ _ r) in V. set (s1 := ring_push r s) in *. clearbody s1.
  unfold lex_normal.
  replace ((r =? 43) || (r =? 45)) with true by (destruct Hr; subst r; reflexivity). cbv iota.
  rewrite (p_two _ _ _ _ _ _ V), (p_buf _ _ _ _ _ _ V), Hs.
  replace ((e =? 101) || (e =? 69)) with true by (destruct He; subst e; reflexivity). cbv iota. cbn [andb].
  eexists; split; [reflexivity|]. apply view_write_rune. eapply pview_view; eassumption.
Qed.

(* a sign in operator position: '+' or '-' with an empty buffer *)
Lemma step_sign : forall s t p r, (r = 43 \/ r = 45) -> view s LNormal [] t p ->
  exists s1, lex_rune s r = LOk s1 /\ view s1 LBuiltinOperator [] t r /\ l_prevrune s1 = r /\ l_prebuiltin s1 = p.
Proof.
  intros s t p r Hr V. rewrite lex_rune_normal by apply V.
  apply (push_view _ _ _ _ _ r) in V. set (s1 := ring_push r s) in *. clearbody s1.
  unfold lex_normal. replace ((r =? 43) || (r =? 45)) with true by (destruct Hr; subst r; reflexivity). cbv iota.
  rewrite (p_buf _ _ _ _ _ _ V), sci_prefix_nil, andb_false_r.
  unfold with_dump, dump_buffer. rewrite (p_buf _ _ _ _ _ _ V).
  eexists; split; [reflexivity|]. split; [|split].
  - apply view_set_prevrune, view_set_prebuiltin. eapply view_set_state. eapply pview_view; eassumption.
  - dst s1; reflexivity.
  - rewrite <- (p_two _ _ _ _ _ _ V). dst s1; reflexivity.
Qed.

(* the sign operator followed by a plain rune that starts neither a number nor a two-rune operator:
   the symbol + / - is emitted and the rune starts a new atom *)
Lemma step_sign_plain : forall s t r c,
  view s LBuiltinOperator [] t r -> l_prevrune s = r -> (r = 43 \/ r = 45) -> plain c ->
  re_match re_FloatRegex [r; c] = false -> re_match re_DecimalRegex [r; c] = false -> re_match re_BuiltinOpRegex [r; c] = false ->
  exists s1, lex_rune s c = LOk s1 /\ view s1 LNormal [c] (t ++ [mkTok TSymbol [r]]) c.
Proof.
  intros s t r c V Hpr Hr Hp H1 H2 H3. rewrite lex_rune_builtin by apply V.
  apply (push_view _ _ _ _ _ c) in V. apply pview_view in V.
  assert (l_prevrune (ring_push c s) = r) as Hpr1 by (dst s; exact Hpr).
  set (s1 := ring_push c s) in *. clearbody s1.
  unfold lex_builtin.
  assert (l_prevrune (set_state LNormal s1) = r) as E1 by (dst s1; exact Hpr1).
  rewrite E1, H1, H2, H3. rewrite andb_false_r. cbv iota.
  rewrite lex_normal_plain by assumption.
  eexists; split; [reflexivity|].
  apply (view_write_rune _ _ [] _ _ c). apply view_append_token. eapply view_set_state. eassumption.
Qed.

(* ---- the colon after a hash key: k:v and "s":v ---- *)

Lemma step_colon : forall s b t p, view s LNormal b t p ->
  exists s1, lex_rune s 58 = LOk s1 /\ view s1 LFreshAssignOrColon b t 58.
Proof.
  intros s b t p V. rewrite lex_rune_normal by apply V.
  apply (push_view _ _ _ _ _ 58) in V. apply pview_view in V.
  eexists; split; [reflexivity|]. eapply view_set_state. eassumption.
Qed.

Lemma lex_rune_fresh : forall s r, l_state s = LFreshAssignOrColon -> lex_rune s r = lex_freshassign (ring_push r s) r.
Proof. intros s r H. dst s; prj. subst st. reflexivity. Qed.

(* the rune after the colon is not '=': the key (with its colon) is dumped as one atom and the rune is then
   lexed as if the lexer stood between tokens right after the colon *)
Lemma colon_then : forall s b t r tok, view s LFreshAssignOrColon b t 58 -> r <> 61 ->
  slice_bound b = false -> decode_atom (b ++ [58]) = Some tok ->
  exists s', view s' LNormal [] (t ++ [tok]) 58 /\ lex_rune s r = lex_rune s' r.
Proof.
  intros s b t r tok V Hr Hsb Hdec.
  exists (append_token tok (set_buffer [] (set_state LNormal s))). split.
  - apply view_append_token. eapply view_set_buffer. eapply view_set_state. eassumption.
  - rewrite lex_rune_fresh by apply V. unfold lex_freshassign.
    replace (r =? 61) with false by (symmetry; apply Z.eqb_neq; assumption).
    assert (l_buffer (set_state LNormal (ring_push r s)) = b) as Eb by (destruct V as [_ V2 _ _ _]; dst s; exact V2).
    rewrite Eb, Hsb. unfold with_dump, dump_buffer.
    assert (l_buffer (write_rune 58 (set_state LNormal (ring_push r s))) = b ++ [58]) as Eb2
      by (destruct V as [_ V2 _ _ _]; dst s; prj; simpl in V2; subst; reflexivity).
    rewrite Eb2. destruct (b ++ [58]) as [|x l] eqn:E; [destruct b; discriminate|]. rewrite Hdec.
    rewrite lex_rune_normal by (dst s; reflexivity).
    reflexivity.
Qed.

(* ---- backtick strings: verbatim between backticks ---- *)

Lemma lex_rune_btick : forall s r, l_state s = LBacktickString ->
  lex_rune s r = let s1 := ring_push r s in
                 if r =? 96 then LOk (set_state LNormal (dump_as TBacktickString s1)) else LOk (write_rune r s1).
Proof. intros s r H. dst s; prj. subst st. reflexivity. Qed.

Lemma step_bt_open : forall s t p, view s LNormal [] t p ->
  exists s1, lex_rune s 96 = LOk s1 /\ view s1 LBacktickString [] (t ++ [mkTok TBeginBacktickString []]) 96.
Proof.
  intros s t p V. rewrite lex_rune_normal by apply V.
  apply (push_view _ _ _ _ _ 96) in V. apply pview_view in V. set (s1 := ring_push 96 s) in *. clearbody s1.
  unfold lex_normal. cbn [Z.eqb Pos.eqb orb andb]. rewrite (v_buf _ _ _ _ _ V).
  eexists; split; [reflexivity|]. apply view_append_token. eapply view_set_state. eassumption.
Qed.

Lemma run_bt : forall cs s b t p, Forall (fun c => c <> 96) cs -> view s LBacktickString b t p ->
  exists s1 q, lex_all s cs = LOk s1 /\ view s1 LBacktickString (b ++ cs) t q.
Proof.
  induction cs as [|c cs IH]; intros s b t p F V.
  - exists s, p. split; [reflexivity|]. rewrite app_nil_r. exact V.
  - inversion F; subst.
    assert (exists s1, lex_rune s c = LOk s1 /\ view s1 LBacktickString (b ++ [c]) t c) as [s1 [E1 V1]].
    { rewrite lex_rune_btick by apply V. cbv zeta. apply (push_view _ _ _ _ _ c) in V. apply pview_view in V.
      kill_eqb c. eexists; split; [reflexivity|]. apply view_write_rune; assumption. }
    destruct (IH s1 (b ++ [c]) t c H2 V1) as [s2 [q [E2 V2]]].
    exists s2, q. split; [simpl; rewrite E1; exact E2|]. rewrite <- app_assoc in V2. exact V2.
Qed.

Lemma step_bt_close : forall s b t p, view s LBacktickString b t p ->
  exists s1, lex_rune s 96 = LOk s1 /\ view s1 LNormal [] (t ++ [mkTok TBacktickString b]) 96.
Proof.
  intros s b t p V. rewrite lex_rune_btick by apply V. cbv zeta. change (96 =? 96) with true. cbv iota.
  apply (push_view _ _ _ _ _ 96) in V. apply pview_view in V.
  eexists; split; [reflexivity|]. eapply view_set_state. apply view_dump_as. eassumption.
Qed.

(* ======== Part 2: regex facts ======== *)

Lemma matches_Empty : forall s b, matches_from b Empty s = false.
Proof. induction s as [|c s IH]; intros b; [reflexivity|]. simpl. apply IH. Qed.

Lemma matches_cons : forall b R c s, matches_from b R (c :: s) = matches_from false (deriv b c R) s.
Proof. reflexivity. Qed.
Lemma re_match_cons : forall R c s, re_match R (c :: s) = matches_from false (deriv true c R) s.
Proof. reflexivity. Qed.
Lemma matches_nil : forall b R, matches_from b R [] = nullable b R.
Proof. reflexivity. Qed.

Definition digit (c : Z) : Prop := 48 <= c <= 57.

Ltac digit_cases c H :=
  let HH := fresh "HH" in
  assert (c = 48 \/ c = 49 \/ c = 50 \/ c = 51 \/ c = 52 \/ c = 53 \/ c = 54 \/ c = 55 \/ c = 56 \/ c = 57) as HH
    by (unfold digit in H; lia);
  repeat (destruct HH as [HH|HH]); subst c.

Lemma run_stable : forall (P : Z -> Prop) R, (forall c, P c -> deriv false c R = R) ->
  forall ds s, Forall P ds -> matches_from false R (ds ++ s) = matches_from false R s.
Proof.
  intros P R H ds s F. induction F as [|c ds Hc F IH]; [reflexivity|]. rewrite <- app_comm_cons, matches_cons. rewrite H by assumption. exact IH.
Qed.

Lemma run_stable0 : forall (P : Z -> Prop) R, (forall c, P c -> deriv false c R = R) ->
  forall ds, Forall P ds -> matches_from false R ds = nullable false R.
Proof. intros P R H ds F. rewrite <- (app_nil_r ds). rewrite (run_stable P R H ds [] F). reflexivity. Qed.

(* -- BoolRegex: nothing that starts with a digit or '-' -- *)
Lemma bool_first : forall c, (digit c \/ c = 45 \/ c = 39) -> deriv true c re_BoolRegex = Empty.
Proof. intros c [H|[H|H]]; [digit_cases c H|subst c|subst c]; vm_compute; reflexivity. Qed.

Lemma bool_no : forall c s, (digit c \/ c = 45 \/ c = 39) -> re_match re_BoolRegex (c :: s) = false.
Proof. intros. rewrite re_match_cons. rewrite bool_first by assumption. apply matches_Empty. Qed.

(* -- DecimalRegex -- *)
Definition D1 : re := Eval vm_compute in deriv true 48 re_DecimalRegex.
Definition Dm : re := Eval vm_compute in deriv true 45 re_DecimalRegex.

Lemma dec_first : forall c, digit c -> deriv true c re_DecimalRegex = D1.
Proof. intros c H. digit_cases c H; vm_compute; reflexivity. Qed.
Lemma dec_stable : forall c, digit c -> deriv false c D1 = D1.
Proof. intros c H. digit_cases c H; vm_compute; reflexivity. Qed.
Lemma dec_minus : forall c, digit c -> deriv false c Dm = D1.
Proof. intros c H. digit_cases c H; vm_compute; reflexivity. Qed.

Lemma dec_yes : forall c ds, digit c -> Forall digit ds -> re_match re_DecimalRegex (c :: ds) = true.
Proof.
  intros c ds Hc F. rewrite re_match_cons. rewrite dec_first by assumption.
  rewrite (run_stable0 digit D1 dec_stable ds F). reflexivity.
Qed.

Lemma dec_yes_neg : forall c ds, digit c -> Forall digit ds -> re_match re_DecimalRegex (45 :: c :: ds) = true.
Proof.
  intros c ds Hc F. rewrite re_match_cons. change (deriv true 45 re_DecimalRegex) with Dm. rewrite matches_cons, dec_minus by assumption.
  rewrite (run_stable0 digit D1 dec_stable ds F). reflexivity.
Qed.

(* -- Uint64Regex -- *)
Definition U10 : re := Eval vm_compute in deriv true 48 re_Uint64Regex.
Definition U2 : re := Eval vm_compute in deriv true 49 re_Uint64Regex.

Lemma u_first : forall c, digit c -> deriv true c re_Uint64Regex = if c =? 48 then U10 else U2.
Proof. intros c H. digit_cases c H; vm_compute; reflexivity. Qed.
Lemma u10_digit : forall c, digit c -> deriv false c U10 = U2.
Proof. intros c H. digit_cases c H; vm_compute; reflexivity. Qed.
Lemma u2_stable : forall c, digit c -> deriv false c U2 = U2.
Proof. intros c H. digit_cases c H; vm_compute; reflexivity. Qed.

Lemma u_digits_tail : forall c ds s, digit c -> Forall digit ds -> s <> [] ->
  (forall R, R = U10 \/ R = U2 -> matches_from false R s = matches_from false U2 s) ->
  re_match re_Uint64Regex (c :: ds ++ s) = matches_from false U2 s.
Proof.
  intros c ds s Hc F Hs HR. rewrite re_match_cons. rewrite u_first by assumption.
  destruct ds as [|d ds].
  - cbn [app]. destruct (c =? 48); apply HR; auto.
  - inversion F; subst. rewrite <- app_comm_cons, matches_cons.
    replace (deriv false d (if c =? 48 then U10 else U2)) with U2
      by (destruct (c =? 48); [rewrite u10_digit|rewrite u2_stable]; auto).
    apply (run_stable digit U2 u2_stable); assumption.
Qed.

Lemma u_no_digits : forall c ds, digit c -> Forall digit ds -> re_match re_Uint64Regex (c :: ds) = false.
Proof.
  intros c ds Hc F. rewrite re_match_cons. rewrite u_first by assumption.
  destruct ds as [|d ds].
  - destruct (c =? 48); reflexivity.
  - inversion F; subst. rewrite matches_cons.
    replace (deriv false d (if c =? 48 then U10 else U2)) with U2
      by (destruct (c =? 48); [rewrite u10_digit|rewrite u2_stable]; auto).
    rewrite (run_stable0 digit U2 u2_stable); [reflexivity|assumption].
Qed.

Lemma u_no_minus : forall s, re_match re_Uint64Regex (45 :: s) = false.
Proof. intros. rewrite re_match_cons. change (deriv true 45 re_Uint64Regex) with Empty. apply matches_Empty. Qed.

Lemma u_yes : forall c ds, digit c -> Forall digit ds -> re_match re_Uint64Regex (c :: ds ++ str_ULL) = true.
Proof.
  intros c ds Hc F. rewrite u_digits_tail; auto.
  - discriminate.
  - intros R [H|H]; subst R; reflexivity.
Qed.

(* ======== Part 3: DecodeAtom on the atoms the printers emit ======== *)

Lemma Forall_last : forall (P : Z -> Prop) l d, Forall P l -> l <> [] -> P (last l d).
Proof.
  intros P l d F. induction F as [|x l Hx F IH]; intros Hne; [congruence|].
  destruct l as [|y l]; [exact Hx|]. apply IH. discriminate.
Qed.

Lemma decode_dec : forall c ds, digit c -> Forall digit ds -> decode_atom (c :: ds) = Some (mkTok TDecimal (c :: ds)).
Proof.
  intros c ds Hc F. unfold decode_atom.
  assert (last_rune (c :: ds) =? 58 = false) as Hl.
  { apply Z.eqb_neq. assert (digit (last (c :: ds) 0)) by (apply Forall_last; [constructor; assumption|discriminate]).
    unfold last_rune, digit in *. lia. }
  rewrite Hl. cbv beta zeta iota. cbn [list_eqb].
  assert (c =? 38 = false) as E1 by (apply Z.eqb_neq; unfold digit in Hc; lia).
  assert (c =? 92 = false) as E2 by (apply Z.eqb_neq; unfold digit in Hc; lia).
  rewrite E1, E2. cbn [andb]. rewrite bool_no by auto. rewrite u_no_digits by assumption. rewrite dec_yes by assumption.
  reflexivity.
Qed.

Lemma decode_dec_neg : forall c ds, digit c -> Forall digit ds -> decode_atom (45 :: c :: ds) = Some (mkTok TDecimal (45 :: c :: ds)).
Proof.
  intros c ds Hc F. unfold decode_atom.
  assert (last_rune (45 :: c :: ds) =? 58 = false) as Hl.
  { apply Z.eqb_neq. assert (digit (last (c :: ds) 0)) by (apply Forall_last; [constructor; assumption|discriminate]).
    unfold last_rune, digit in *. change (last (45 :: c :: ds) 0) with (last (c :: ds) 0). lia. }
  rewrite Hl. cbv beta zeta iota. cbn [list_eqb]. change (45 =? 38) with false. change (45 =? 92) with false. cbn [andb].
  rewrite bool_no by auto. rewrite u_no_minus. rewrite dec_yes_neg by assumption. reflexivity.
Qed.

Lemma last_app3 : forall (l : list Z) a b c d, last (l ++ [a; b; c]) d = c.
Proof. induction l as [|x l IH]; intros; [reflexivity|]. rewrite <- app_comm_cons.
  change (last (x :: l ++ [a; b; c]) d) with (match l ++ [a; b; c] with [] => x | _ => last (l ++ [a; b; c]) d end).
  destruct (l ++ [a; b; c]) eqn:E; [destruct l; discriminate|]. rewrite <- E. apply IH. Qed.

Lemma decode_uint : forall c ds, digit c -> Forall digit ds ->
  decode_atom (c :: ds ++ str_ULL) = Some (mkTok TUint64 (c :: ds ++ str_ULL)).
Proof.
  intros c ds Hc F. unfold decode_atom.
  assert (last_rune (c :: ds ++ str_ULL) =? 58 = false) as Hl.
  { unfold last_rune. rewrite app_comm_cons. unfold str_ULL. rewrite last_app3. reflexivity. }
  rewrite Hl. cbv beta zeta iota. cbn [list_eqb].
  assert (c =? 38 = false) as E1 by (apply Z.eqb_neq; unfold digit in Hc; lia).
  assert (c =? 92 = false) as E2 by (apply Z.eqb_neq; unfold digit in Hc; lia).
  rewrite E1, E2. cbn [andb]. rewrite bool_no by auto. rewrite u_yes by assumption. reflexivity.
Qed.

(* -- char literals: 'x' with x the decoded rune -- *)
Definition C1 : re := Eval vm_compute in deriv true 39 re_CharRegex.

Lemma first_empty : forall R s, deriv true 39 R = Empty -> re_match R (39 :: s) = false.
Proof. intros R s H. rewrite re_match_cons, H. apply matches_Empty. Qed.

Lemma char_yes : forall x, 0 <= x <= 1114111 -> re_match re_CharRegex [39; x; 39] = true.
Proof.
  intros x Hx. rewrite re_match_cons. change (deriv true 39 re_CharRegex) with C1.
  destruct (Z.eq_dec x 92) as [E|N1]; [subst; vm_compute; reflexivity|].
  destruct (Z.eq_dec x 10) as [E|N2]; [subst; vm_compute; reflexivity|].
  assert (in_cls x [(92, 92)] = false) as H1 by (unfold in_cls; rewrite orb_false_r; apply andb_false_iff; lia).
  assert (in_cls x [(10, 10)] = false) as H2 by (unfold in_cls; rewrite orb_false_r; apply andb_false_iff; lia).
  assert (in_cls x [(0, 9); (11, 1114111)] = true) as H3.
  { unfold in_cls. rewrite orb_false_r. apply orb_true_iff.
    destruct (Z_le_gt_dec x 9); [left|right]; apply andb_true_iff; split; apply Z.leb_le; lia. }
  rewrite matches_cons. unfold C1.
  Opaque in_cls. cbn [deriv nullable_mid]. rewrite H1, H2, H3. Transparent in_cls.
  vm_compute. reflexivity.
Qed.

Lemma decode_char_atom : forall x, 0 <= x <= 1114111 -> decode_atom [39; x; 39] = Some (mkTok TChar [x]).
Proof.
  intros x Hx. unfold decode_atom. change (last_rune [39; x; 39] =? 58) with false. cbv beta zeta iota.
  cbn [list_eqb]. change (39 =? 38) with false. change (39 =? 92) with false. change (39 =? 78) with false.
  change (39 =? 110) with false. change (39 =? 58) with false. cbn [andb orb].
  rewrite bool_no by auto.
  rewrite (first_empty re_Uint64Regex) by (vm_compute; reflexivity).
  rewrite (first_empty re_DecimalRegex) by (vm_compute; reflexivity).
  rewrite (first_empty re_HexRegex) by (vm_compute; reflexivity).
  rewrite (first_empty re_OctRegex) by (vm_compute; reflexivity).
  rewrite (first_empty re_BinaryRegex) by (vm_compute; reflexivity).
  rewrite (first_empty re_FloatRegex) by (vm_compute; reflexivity).
  rewrite (first_empty re_InfRegex) by (vm_compute; reflexivity).
  rewrite (first_empty re_DotSymbolRegex) by (vm_compute; reflexivity).
  rewrite (first_empty re_BuiltinOpRegex) by (vm_compute; reflexivity).
  rewrite (first_empty re_SymbolRegex) by (vm_compute; reflexivity).
  rewrite char_yes by assumption. reflexivity.
Qed.
