(* C12: the PRETTY mode of the printers (Model/PrinterPretty.v) — proofs.
   A: blanks and newlines between tokens (lexing of concatenation with any run of white space).
   B: the plain printer is the pretty printer with the flag off.
   C: the token stream of a pretty-printed value is the token stream of the plainly printed one.
   D: the reader (whole text, pieces, REPL lines) and the evaluated route on a pretty-printed value. *)
From Coq Require Import ZArith List Bool Lia.
From ZV Require Import Model.Regex Generated.LexTables Model.Lexer Model.Reader Model.Printer Model.PrinterPretty
  Proofs.LexerProofs Proofs.ReaderProofs Proofs.PrinterLex Proofs.RegexSem Proofs.Classify Proofs.PrinterProofs
  Proofs.EvalJson.
Import ListNotations.
Open Scope Z_scope.

(* ======== A: white space ======== *)

Definition blank (c : Z) : Prop := c = 32 \/ c = 10.

Lemma blank_delim : forall c, blank c -> delim c.
Proof. intros c [H|H]; subst; [apply delim_32|apply delim_10]. Qed.
Lemma blank_can_start : forall c, blank c -> can_start c.
Proof. intros c [H|H]; subst; reflexivity. Qed.
Lemma blank_dtok : forall c, blank c -> dtok c = [].
Proof. intros c [H|H]; subst; reflexivity. Qed.
Lemma blank_32 : blank 32. Proof. left; reflexivity. Qed.
Lemma blank_10 : blank 10. Proof. right; reflexivity. Qed.

(* white space before a text *)
Lemma lead_blank : forall c x y, blank c -> lexes_to x y -> lexes_to (c :: x) y.
Proof.
  intros c x y Hb Hx s t p d Hd Hcan V.
  destruct (step_delim0 s t p c (blank_delim c Hb) V) as [s1 [E1 V1]].
  rewrite (blank_dtok c Hb), app_nil_r in V1.
  destruct (Hx s1 t c d Hd (blank_can_start c Hb) V1) as [s2 [E2 V2]].
  exists s2. split; [cbn [app lex_all]; rewrite E1; exact E2|exact V2].
Qed.

Lemma lead_ws : forall w x y, Forall blank w -> lexes_to x y -> lexes_to (w ++ x) y.
Proof.
  intros w x y F Hx. induction F as [|c w Hc F IH]; [exact Hx|]. cbn [app]. apply lead_blank; assumption.
Qed.

(* white space after a text *)
Lemma trail_blank : forall c a tks, blank c -> lexes_to a tks -> lexes_to (a ++ [c]) tks.
Proof.
  intros c a tks Hb Ha s t p d Hd Hcan V.
  destruct (Ha s t p c (blank_delim c Hb) Hcan V) as [s1 [E1 V1]].
  rewrite (blank_dtok c Hb), app_nil_r in V1.
  destruct (step_delim0 s1 _ c d Hd V1) as [s2 [E2 V2]].
  exists s2. split.
  - rewrite lex_all_app, E1. cbn [lex_all]. rewrite E2. reflexivity.
  - rewrite <- app_assoc in V2. exact V2.
Qed.

(* two texts separated by a blank or a newline *)
Lemma seq_blank : forall c a tks x y, blank c -> lexes_to a tks -> lexes_to x y -> lexes_to (a ++ c :: x) (tks ++ y).
Proof.
  intros c a tks x y Hb Ha Hx s t p d Hd Hc V.
  destruct (Ha s t p c (blank_delim c Hb) Hc V) as [s1 [E1 V1]].
  rewrite (blank_dtok c Hb), app_nil_r in V1.
  destruct (Hx s1 (t ++ tks) c d Hd (blank_can_start c Hb) V1) as [s2 [E2 V2]].
  exists s2. split.
  - replace ((a ++ c :: x) ++ [d]) with ((a ++ [c]) ++ (x ++ [d])) by (rewrite <- !app_assoc; reflexivity).
    rewrite lex_all_app, E1. exact E2.
  - rewrite <- !app_assoc in V2. rewrite <- app_assoc. exact V2.
Qed.

Lemma spaces_blank : forall n, Forall blank (spaces n).
Proof. induction n; cbn; constructor; [apply blank_32|assumption]. Qed.

(* ======== induction over decorated values ======== *)

Section PvInd.
Variable P : pv -> Prop.
Hypothesis Hleaf : forall v, P (PLeaf v).
Hypothesis Hpair : forall h t, P h -> P t -> P (PPair h t).
Hypothesis Harr : forall e l, Forall P l -> P (PArr e l).
Hypothesis Hhash : forall kvs, Forall (fun kv => P (snd kv)) kvs -> P (PHash kvs).

Fixpoint pv_ind2 (p : pv) : P p :=
  match p with
  | PLeaf v => Hleaf v
  | PPair h t => Hpair h t (pv_ind2 h) (pv_ind2 t)
  | PArr e l => Harr e l ((fix go (l : list pv) : Forall P l :=
                             match l with [] => Forall_nil P | x :: r => Forall_cons x (pv_ind2 x) (go r) end) l)
  | PHash kvs => Hhash kvs ((fix go (l : list (value * pv)) : Forall (fun kv => P (snd kv)) l :=
                               match l with
                               | [] => Forall_nil _
                               | (k, x) :: r => Forall_cons (k, x) (pv_ind2 x) (go r)
                               end) kvs)
  end.
End PvInd.

(* ======== B: flag off = the plain printer of Model/Printer.v ======== *)

Section Plain.
Variable ip : Z -> bool.

Lemma pr_arr : forall l, pr ip false (VArr l) = 91 :: plain_elems value (pr ip false) l.
Proof.
  intros l. cbn [pr]. apply (f_equal (cons 91)). induction l as [|x r IH]; [reflexivity|].
  destruct r as [|y r']; [reflexivity|]. cbn [plain_elems] in *. rewrite <- IH. reflexivity.
Qed.

Lemma pr_hash : forall kvs, pr ip false (VHash kvs) = 123 :: plain_pairs value (pr ip false) (key_text ip) kvs.
Proof.
  intros l. cbn [pr]. apply (f_equal (cons 123)). induction l as [|[k x] r IH]; [reflexivity|].
  cbn [plain_pairs]. destruct r as [|kv r'].
  - destruct k; reflexivity.
  - rewrite <- IH. destruct k; reflexivity.
Qed.

Lemma plain_elems_map : forall (f : pv -> list Z) (g : value -> list Z) l,
  Forall (fun x => f x = g (erase x)) l -> plain_elems pv f l = plain_elems value g (map erase l).
Proof.
  intros f g l F. induction F as [|x r Hx F IH]; [reflexivity|].
  cbn [plain_elems map]. rewrite Hx. destruct r as [|y r']; [reflexivity|].
  cbn [map] in *. rewrite IH. reflexivity.
Qed.

Lemma plain_pairs_map : forall (f : pv -> list Z) (g : value -> list Z) key l,
  Forall (fun kv => f (snd kv) = g (erase (snd kv))) l ->
  plain_pairs pv f key l = plain_pairs value g key (map (fun kv => (fst kv, erase (snd kv))) l).
Proof.
  intros f g key l F. induction F as [|[k x] r Hx F IH]; [reflexivity|].
  cbn [plain_pairs map fst snd] in *. rewrite Hx. destruct r as [|y r']; [reflexivity|].
  cbn [map] in *. rewrite IH. reflexivity.
Qed.

(* a leaf is printed by Printer.v, also in tail position *)
Lemma ppr_leaf : forall pretty ind tail v, atomic v = true -> ppr ip pretty ind tail (PLeaf v) = pr ip tail v.
Proof. intros pretty ind tail v A. destruct tail; destruct v; try discriminate A; reflexivity. Qed.

Lemma pr_tail_body : forall v, (match v with VPair _ _ | VNil => False | _ => True end) ->
  pr ip true v = [32; 92; 32] ++ pr ip false v ++ [41].
Proof. intros v H. destruct v; try contradiction; reflexivity. Qed.

Theorem pretty_off_is_plain : forall p, pwf p = true -> forall ind tail, ppr ip false ind tail p = pr ip tail (erase p).
Proof.
  apply (pv_ind2 (fun p => pwf p = true -> forall ind tail, ppr ip false ind tail p = pr ip tail (erase p))).
  - intros v W ind tail. apply ppr_leaf. exact W.
  - intros h t Hh Ht W ind tail. cbn [pwf] in W. apply andb_prop in W. destruct W as [Wh Wt].
    destruct tail; cbn [ppr erase pr]; rewrite (Hh Wh), (Ht Wt); reflexivity.
  - intros e l F W ind tail. cbn [pwf] in W.
    assert (ppr ip false ind false (PArr e l) = pr ip false (VArr (map erase l))) as Hb.
    { rewrite pr_arr. cbn [ppr andb]. f_equal. apply plain_elems_map.
      rewrite forallb_forall in W. rewrite Forall_forall in *. intros x Hx. apply F; [exact Hx|apply W; exact Hx]. }
    destruct tail; [|exact Hb].
    cbn [erase]. rewrite pr_tail_body by exact I. rewrite <- Hb. reflexivity.
  - intros kvs F W ind tail. cbn [pwf] in W.
    assert (ppr ip false ind false (PHash kvs) = pr ip false (VHash (map (fun kv => (fst kv, erase (snd kv))) kvs))) as Hb.
    { rewrite pr_hash. cbn [ppr]. f_equal. apply plain_pairs_map.
      rewrite forallb_forall in W. rewrite Forall_forall in *. intros x Hx. apply F; [exact Hx|apply W; exact Hx]. }
    destruct tail; [|exact Hb].
    cbn [erase]. rewrite pr_tail_body by exact I. rewrite <- Hb. reflexivity.
Qed.

Lemma pwf_decorate : forall e v, pwf (decorate e v) = true.
Proof.
  intros e. apply value_ind2; try reflexivity.
  - intros h t Hh Ht. cbn [decorate pwf]. rewrite Hh, Ht. reflexivity.
  - intros l F. cbn [decorate pwf]. rewrite forallb_forall. intros x Hx. apply in_map_iff in Hx.
    destruct Hx as [y [Ey Hy]]. subst x. rewrite Forall_forall in F. apply F. exact Hy.
  - intros kvs F. cbn [decorate pwf]. rewrite forallb_forall. intros x Hx. apply in_map_iff in Hx.
    destruct Hx as [y [Ey Hy]]. subst x. rewrite Forall_forall in F. apply (F y Hy).
Qed.

Lemma erase_decorate : forall e v, erase (decorate e v) = v.
Proof.
  intros e. apply value_ind2; try reflexivity.
  - intros h t Hh Ht. cbn [decorate erase]. rewrite Hh, Ht. reflexivity.
  - intros l F. cbn [decorate erase]. f_equal. rewrite map_map.
    induction F as [|x r Hx F IH]; [reflexivity|]. cbn [map]. rewrite Hx, IH. reflexivity.
  - intros kvs F. cbn [decorate erase]. f_equal. rewrite map_map.
    induction F as [|[k x] r [_ Hx] F IH]; [reflexivity|]. cbn [map fst snd] in *. rewrite Hx, IH. reflexivity.
Qed.

(* ======== C: the tokens of a pretty-printed value ======== *)

Notation dat := (dat ip).

Lemma tk_arr_nil : tl (tk false (VArr [])) = [mkTok TRSquare []].
Proof. reflexivity. Qed.
Lemma tk_arr_cons : forall x r, tl (tk false (VArr (x :: r))) = tk false x ++ tl (tk false (VArr r)).
Proof. intros. cbn [tk tl]. rewrite <- app_assoc. reflexivity. Qed.
Lemma tk_arr_head : forall l, tk false (VArr l) = mkTok TLSquare [] :: tl (tk false (VArr l)).
Proof. reflexivity. Qed.

Definition key_toks (k : value) : list token :=
  match k with
  | VSym n => [mkTok TSymbolColon n]
  | VStr s => [mkTok TString (map item_rune s); mkTok TColonOperator [58]]
  | _ => []
  end.

Lemma tk_hash_nil : tl (tk false (VHash [])) = [mkTok TRCurly []].
Proof. reflexivity. Qed.
Lemma tk_hash_cons : forall k x r, tl (tk false (VHash ((k, x) :: r))) = key_toks k ++ tk false x ++ tl (tk false (VHash r)).
Proof. intros. cbn [tk tl]. rewrite <- !app_assoc. destruct k; reflexivity. Qed.
Lemma tk_hash_head : forall l, tk false (VHash l) = mkTok TLCurly [] :: tl (tk false (VHash l)).
Proof. reflexivity. Qed.

Lemma dat_arr_cons : forall x r, dat false (VArr (x :: r)) -> dat false x /\ dat false (VArr r).
Proof. intros x r D. exact D. Qed.

Lemma dat_hash_cons : forall k x r, dat false (VHash ((k, x) :: r)) ->
  (match k with VSym n => symkey_ok n | VStr s => Forall (item_ok ip) s | _ => False end) /\
  dat false x /\ dat false (VHash r).
Proof. intros k x r D. destruct D as [Dk [Dx [_ Dr]]]. split; [exact Dk|]. split; [exact Dx|exact Dr]. Qed.

Section Elems.
Variable f : pv -> list Z.

Definition elem_claim (x : pv) : Prop :=
  dat false (erase x) -> lexes_to (f x) (tk false (erase x)) /\ starts_ok (f x).

Lemma pretty_elems_lexes : forall sp l, Forall blank sp -> Forall elem_claim l -> dat false (VArr (map erase l)) ->
  lexes_to (pretty_elems pv f sp l) (tl (tk false (VArr (map erase l)))).
Proof.
  intros sp l Hsp F. induction F as [|x r Hx F IH]; intros D; cbn [pretty_elems map].
  - rewrite tk_arr_nil. apply lead_ws; [exact Hsp|exact empty_array_lexes].
  - apply dat_arr_cons in D. destruct D as [Dx Dr]. rewrite tk_arr_cons.
    apply lead_ws; [exact Hsp|]. apply seq_blank; [apply blank_10|apply Hx; exact Dx|apply IH; exact Dr].
Qed.

Lemma plain_elems_lexes : forall l, Forall elem_claim l -> dat false (VArr (map erase l)) ->
  lexes_to (plain_elems pv f l) (tl (tk false (VArr (map erase l)))).
Proof.
  intros l F. induction F as [|x r Hx F IH]; intros D; cbn [plain_elems map].
  - rewrite tk_arr_nil. exact empty_array_lexes.
  - apply dat_arr_cons in D. destruct D as [Dx Dr]. rewrite tk_arr_cons.
    destruct r as [|y r'].
    + cbn [map]. rewrite tk_arr_nil. apply (close_with 93); [right; reflexivity|]. apply Hx; exact Dx.
    + apply seq_blank; [apply blank_32|apply Hx; exact Dx|apply IH; exact Dr].
Qed.

Lemma pretty_pairs_lexes : forall sp osp l, Forall blank sp -> Forall blank osp ->
  Forall (fun kv => elem_claim (snd kv)) l ->
  dat false (VHash (map (fun kv => (fst kv, erase (snd kv))) l)) ->
  lexes_to (pretty_pairs pv f (key_text ip) sp osp l) (tl (tk false (VHash (map (fun kv => (fst kv, erase (snd kv))) l)))).
Proof.
  intros sp osp l Hsp Hosp F. induction F as [|[k x] r Hx F IH]; intros D; cbn [pretty_pairs map fst snd] in *.
  - rewrite tk_hash_nil. apply lead_ws; [exact Hosp|exact empty_hash_body_lexes].
  - apply dat_hash_cons in D. destruct D as [Dk [Dx Dr]]. rewrite tk_hash_cons.
    apply lead_ws; [exact Hsp|]. destruct (Hx Dx) as [Lx Sx]. specialize (IH Dr).
    set (X := f x ++ 32 :: 10 :: pretty_pairs pv f (key_text ip) sp osp r).
    set (TX := tk false (erase x) ++ tl (tk false (VHash (map (fun kv => (fst kv, erase (snd kv))) r)))).
    assert (lexes_to X TX) as HX.
    { unfold X, TX. apply seq_blank; [apply blank_32|exact Lx|]. apply lead_blank; [apply blank_10|exact IH]. }
    assert (starts_ok X) as HS by (unfold X; apply starts_ok_app; exact Sx).
    destruct k; try contradiction; cbn [key_text key_toks].
    + replace ((quote_str ip s ++ [58]) ++ X) with (quote_str ip s ++ 58 :: X) by (rewrite <- app_assoc; reflexivity).
      cbn [app]. apply strkey_lexes; assumption.
    + replace ((name ++ [58]) ++ X) with (name ++ 58 :: X) by (rewrite <- app_assoc; reflexivity).
      cbn [app]. apply symkey_lexes; assumption.
Qed.

End Elems.

Lemma ppr_first : forall pretty ind p, pwf p = true -> dat false (erase p) -> starts_ok (ppr ip pretty ind false p).
Proof.
  intros pretty ind p W D. destruct p as [v|h t|e l|kvs].
  - rewrite ppr_leaf by exact W. apply (pr_first ip). exact D.
  - cbn [ppr]. eexists; eexists; split; [reflexivity|discriminate].
  - cbn [ppr]. destruct (pretty && e); [destruct l|]; eexists; eexists; split; try reflexivity; discriminate.
  - cbn [ppr]. destruct pretty; [destruct kvs|]; eexists; eexists; split; try reflexivity; discriminate.
Qed.

Definition plex_claim (p : pv) : Prop :=
  pwf p = true -> forall ind,
  (dat false (erase p) -> lexes_to (ppr ip true ind false p) (tk false (erase p))) /\
  (dat true (erase p) -> forall a tks, lexes_to a tks -> lexes_to (a ++ ppr ip true ind true p) (tks ++ tk true (erase p))).

Lemma claims_of : forall (l : list pv) ind, Forall plex_claim l -> forallb pwf l = true ->
  Forall (elem_claim (ppr ip true ind false)) l.
Proof.
  intros l ind F W. rewrite forallb_forall in W. rewrite Forall_forall in *. intros x Hx Dx.
  split; [apply (F x Hx (W x Hx) ind); exact Dx|apply ppr_first; [apply W; exact Hx|exact Dx]].
Qed.

Lemma plex_claim_all : forall p, plex_claim p.
Proof.
  apply pv_ind2.
  - intros v W ind. cbn [pwf] in W. rewrite !ppr_leaf by exact W. cbn [erase]. exact (lex_claim_all ip v).
  - intros h t Hh Ht W ind. cbn [pwf] in W. apply andb_prop in W. destruct W as [Wh Wt].
    destruct (Hh Wh ind) as [Hh1 _]. destruct (Ht Wt ind) as [_ Ht2].
    assert (dat false (erase h) /\ dat true (erase t) ->
            lexes_to (ppr ip true ind false (PPair h t)) (tk false (erase (PPair h t)))) as Hp.
    { intros [D1 D2]. cbn [ppr erase tk]. apply (open_with 40); [left; reflexivity|]. apply Ht2; [exact D2|]. apply Hh1; exact D1. }
    split; [exact Hp|].
    intros [D1 D2] a tks Ha. cbn [ppr erase tk].
    change (a ++ 32 :: ppr ip true ind false h ++ ppr ip true ind true t)
      with (a ++ 32 :: (ppr ip true ind false h ++ ppr ip true ind true t)).
    apply seq_space; [exact Ha|]. apply Ht2; [exact D2|]. apply Hh1; exact D1.
  - intros e l F W ind. cbn [pwf] in W.
    assert (dat false (VArr (map erase l)) -> lexes_to (ppr ip true ind false (PArr e l)) (tk false (VArr (map erase l)))) as Hp.
    { intros D. rewrite tk_arr_head. cbn [ppr andb]. destruct e.
      - destruct l as [|x0 r0].
        + apply (open_with 91); [right; reflexivity|]. apply lead_blank; [apply blank_10|]. exact empty_array_lexes.
        + apply (open_with 91); [right; reflexivity|]. apply lead_blank; [apply blank_10|].
          apply pretty_elems_lexes; [apply spaces_blank|apply claims_of; assumption|exact D].
      - apply (open_with 91); [right; reflexivity|].
        apply plain_elems_lexes; [apply claims_of; assumption|exact D]. }
    split; [exact Hp|].
    intros D a tks Ha. cbn [erase].
    change (ppr ip true ind true (PArr e l)) with ([32; 92; 32] ++ ppr ip true ind false (PArr e l) ++ [41]).
    apply dotted_tail; [apply Hp; exact D|exact Ha].
  - intros kvs F W ind. cbn [pwf] in W.
    assert (dat false (VHash (map (fun kv => (fst kv, erase (snd kv))) kvs)) ->
            lexes_to (ppr ip true ind false (PHash kvs)) (tk false (VHash (map (fun kv => (fst kv, erase (snd kv))) kvs)))) as Hp.
    { intros D. rewrite tk_hash_head. cbn [ppr]. destruct kvs as [|kv0 r0].
      - apply open_curly. apply lead_blank; [apply blank_10|]. apply lead_blank; [apply blank_10|].
        apply lead_ws; [apply spaces_blank|]. exact empty_hash_body_lexes.
      - apply open_curly. apply lead_blank; [apply blank_10|].
        apply pretty_pairs_lexes; [apply spaces_blank|apply spaces_blank| |exact D].
        rewrite forallb_forall in W. rewrite Forall_forall in *. intros x Hx Dx.
        split; [apply (F x Hx (W x Hx) (ind + 4)%nat); exact Dx|apply ppr_first; [apply W; exact Hx|exact Dx]]. }
    split; [exact Hp|].
    intros D a tks Ha. cbn [erase].
    change (ppr ip true ind true (PHash kvs)) with ([32; 92; 32] ++ ppr ip true ind false (PHash kvs) ++ [41]).
    apply dotted_tail; [apply Hp; exact D|exact Ha].
Qed.

(* the token stream does not depend on the mode, the indentation, the environment flags *)
Theorem pretty_lexes : forall pretty ind p, pwf p = true -> dat false (erase p) ->
  lexes_to (ppr ip pretty ind false p) (tk false (erase p)).
Proof.
  intros pretty ind p W D. destruct pretty.
  - apply (proj1 (plex_claim_all p W ind)). exact D.
  - rewrite pretty_off_is_plain by exact W. apply (data_lexes ip). exact D.
Qed.

End Plain.

(* ======== D: the reader on any text with the token stream of a value ======== *)

Lemma init_view : view init_lstate LNormal [] [] 0.
Proof. destruct init_ring_ok as [R1 R2]. split; try reflexivity; assumption. Qed.

Lemma parse_of_lexes : forall ip v fuel text, dat ip false v -> (vsize v + 3 <= fuel)%nat ->
  lexes_to text (tk false v) ->
  observe (parse_whole true false fuel text) = (StDone, [to_sexp v]).
Proof.
  intros ip v fuel text D Hf HL.
  destruct (HL init_lstate [] 0 10 delim_10 can_start_0 init_view) as [s' [El V]].
  unfold parse_whole, parse_after, p_deliver, p_reset, p_init. cbn [ps_lex ps_out].
  rewrite reset_is_init. unfold nl. rewrite El. cbn [lres_state lres_ok negb].
  destruct V as [V1 V2 V3 V4 V5]. rewrite V3. unfold in_string_or_rune. rewrite V1.
  change (dtok 10) with (@nil token). rewrite app_nil_r. cbn [app].
  destruct fuel as [|[|[|f3]]]; try lia. cbn [resume].
  change (ptop true false (S (S (S f3))) [] (mkQ (tk false v) false false))
    with (pexpr true false (S (S f3)) [] true (mkQ (tk false v) false false)
            (fun e q' => if is_send e then (if q_instr q' then OMoreTop [] (S (S (S f3))) else ODone [] (S (S (S f3))))
                         else ptop true false (S (S f3)) ([] ++ [e]) q')).
  rewrite <- (app_nil_r (tk false v)).
  rewrite (proj1 (parse_claim ip v) D (S (S f3)) [] true [] false false) by lia.
  rewrite (to_sexp_not_end ip v D). reflexivity.
Qed.

Lemma pieces_of_lexes : forall ip v fuel text pieces, dat ip false v -> (vsize v + 3 <= fuel)%nat ->
  lexes_to text (tk false v) -> concat pieces = text ->
  observe (parse_pieces true false fuel pieces) = (StDone, [to_sexp v]).
Proof.
  intros ip v fuel text pieces D Hf HL Hc.
  rewrite ReaderProofs.pieces_is_whole.
  - rewrite Hc. apply (parse_of_lexes ip); assumption.
  - destruct (HL init_lstate [] 0 10 delim_10 can_start_0 init_view) as [s' [El _]].
    assert (lres_ok (lex_all init_lstate (concat (mark_last pieces))) = true) as Hok
      by (rewrite ReaderProofs.concat_mark_last, Hc; unfold nl; rewrite El; reflexivity).
    destruct (mark_last pieces) as [|first rest]; [exact I|].
    apply pieces_ok_of_whole. exact Hok.
Qed.

(* read_print_pretty: whatever the mode, the indentation the printer starts with, and the environment flags of
   the arrays, the reader returns the value *)
Theorem read_print_pretty : forall ip pretty ind p fuel, pwf p = true -> dat ip false (erase p) ->
  (vsize (erase p) + 3 <= fuel)%nat ->
  observe (parse_whole true false fuel (ppr ip pretty ind false p)) = (StDone, [to_sexp (erase p)]).
Proof.
  intros ip pretty ind p fuel W D Hf. apply (parse_of_lexes ip); [exact D|exact Hf|]. apply pretty_lexes; assumption.
Qed.

(* ... also when the (multi-line) text is delivered in pieces: the REPL reader's lines, cuts anywhere *)
Theorem read_print_pretty_pieces : forall ip pretty ind p fuel pieces, pwf p = true -> dat ip false (erase p) ->
  (vsize (erase p) + 3 <= fuel)%nat -> concat pieces = ppr ip pretty ind false p ->
  observe (parse_pieces true false fuel pieces) = (StDone, [to_sexp (erase p)]).
Proof.
  intros ip pretty ind p fuel pieces W D Hf Hc.
  apply (pieces_of_lexes ip _ _ (ppr ip pretty ind false p)); [exact D|exact Hf| |exact Hc]. apply pretty_lexes; assumption.
Qed.

Theorem read_print_pretty_repl : forall ip pretty p fuel, pwf p = true -> dat ip false (erase p) ->
  (vsize (erase p) + 3 <= fuel)%nat ->
  observe (parse_pieces true false fuel (split_lines (pprint ip pretty p))) = (StDone, [to_sexp (erase p)]).
Proof. intros. apply (read_print_pretty_pieces ip pretty 0%nat p); auto. apply split_lines_concat. Qed.

Theorem read_print_pretty_cut : forall ip pretty p fuel cuts, pwf p = true -> dat ip false (erase p) ->
  (vsize (erase p) + 3 <= fuel)%nat ->
  observe (parse_pieces true false fuel (cut_pieces cuts 0 (pprint ip pretty p))) = (StDone, [to_sexp (erase p)]).
Proof. intros. apply (read_print_pretty_pieces ip pretty 0%nat p); auto. apply cut_pieces_concat. Qed.

(* the evaluated route: evaluating what the reader returns for the pretty text of a JSON-like value gives it back *)
Theorem eval_read_print_pretty : forall pf ip pretty ind p fuel, pwf p = true -> dat ip false (erase p) -> jl pf (erase p) ->
  (vsize (erase p) + 3 <= fuel)%nat ->
  match observe (parse_whole true false fuel (ppr ip pretty ind false p)) with
  | (StDone, [e]) => eval_json_like pf e
  | _ => None
  end = Some (jv_of (erase p)).
Proof.
  intros pf ip pretty ind p fuel W D J Hf. rewrite (read_print_pretty ip pretty ind p fuel W D Hf).
  apply eval_to_sexp_all. exact J.
Qed.

(* for a plain value: every array with (e = true) or without (e = false) its environment *)
Corollary read_print_pretty_value : forall ip pretty e v fuel, dat ip false v -> (vsize v + 3 <= fuel)%nat ->
  observe (parse_whole true false fuel (pprint ip pretty (decorate e v))) = (StDone, [to_sexp v]).
Proof.
  intros ip pretty e v fuel D Hf.
  pose proof (read_print_pretty ip pretty 0%nat (decorate e v) fuel (pwf_decorate e v)) as H.
  rewrite erase_decorate in H. apply H; assumption.
Qed.
