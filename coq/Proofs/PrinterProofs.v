(* C12: printed data reads back as the same data — proofs.
   A: decimal printing and parsing of integers.  B: atoms re-lex to one token.  C: the token stream of
   a printed value (lexing of concatenation).  D: the parser rebuilds the value.  E: literals denote
   their mathematical value.  F: where the code refutes the property. *)
From Coq Require Import ZArith List Bool Lia.
From ZV Require Import Model.Regex Generated.LexTables Model.Lexer Model.Reader Model.Printer
  Proofs.LexerProofs Proofs.ReaderProofs Proofs.PrinterLex Proofs.RegexSem Proofs.Classify.
Import ListNotations.
Open Scope Z_scope.

(* ======== A: digits ======== *)

Lemma digits_val_app : forall base a b acc,
  digits_val base (a ++ b) acc = match digits_val base a acc with Some v => digits_val base b v | None => None end.
Proof.
  intros base a. induction a as [|c a IH]; intros b acc; [reflexivity|].
  simpl. destruct (digit_val c) as [d|]; [|reflexivity]. destruct (d <? base); [apply IH|reflexivity].
Qed.

Lemma digit_val_digit : forall d, 0 <= d <= 9 -> digit_val (48 + d) = Some d.
Proof.
  intros d H. unfold digit_val.
  replace ((48 <=? 48 + d) && (48 + d <=? 57)) with true by (symmetry; apply andb_true_iff; split; apply Z.leb_le; lia).
  f_equal. lia.
Qed.

Lemma digits_val_single : forall d acc, 0 <= d <= 9 -> digits_val 10 [48 + d] acc = Some (acc * 10 + d).
Proof.
  intros d acc H. cbn [digits_val]. rewrite digit_val_digit by assumption.
  replace (d <? 10) with true by (symmetry; apply Z.ltb_lt; lia). reflexivity.
Qed.

Lemma dec_fuel_spec : forall f n, 0 <= n < 10 ^ (Z.of_nat f + 1) ->
  Forall digit (dec_fuel f n) /\ dec_fuel f n <> [] /\ digits_val 10 (dec_fuel f n) 0 = Some n.
Proof.
  induction f as [|f IH]; intros n Hn.
  - change (10 ^ (Z.of_nat 0 + 1)) with 10 in Hn. cbn [dec_fuel]. rewrite Z.mod_small by lia.
    split; [constructor; [unfold digit; lia|constructor]|]. split; [discriminate|].
    rewrite digits_val_single by lia. f_equal; lia.
  - cbn [dec_fuel]. destruct (Z.ltb_spec n 10) as [Hlt|Hge].
    + split; [constructor; [unfold digit; lia|constructor]|]. split; [discriminate|].
      rewrite digits_val_single by lia. f_equal; lia.
    + assert (0 <= n / 10 < 10 ^ (Z.of_nat f + 1)) as Hq.
      { split; [apply Z.div_pos; lia|]. apply Z.div_lt_upper_bound; [lia|].
        replace (Z.of_nat (S f) + 1) with (Z.succ (Z.of_nat f + 1)) in Hn by lia.
        rewrite Z.pow_succ_r in Hn by lia. lia. }
      destruct (IH (n / 10) Hq) as [F [Hne Hv]].
      assert (0 <= n mod 10 < 10) as Hm by (apply Z.mod_pos_bound; lia).
      split; [apply Forall_app; split; [exact F|constructor; [unfold digit; lia|constructor]]|].
      split; [destruct (dec_fuel f (n / 10)); discriminate|].
      rewrite digits_val_app, Hv. rewrite digits_val_single by lia.
      f_equal. rewrite (Z.div_mod n 10) at 3 by lia. lia.
Qed.

Lemma pow10_21 : 2 ^ 64 < 10 ^ (Z.of_nat 20 + 1). Proof. vm_compute. reflexivity. Qed.

Lemma dec_spec : forall n, 0 <= n <= 2 ^ 64 ->
  Forall digit (dec n) /\ dec n <> [] /\ digits_val 10 (dec n) 0 = Some n.
Proof. intros n H. apply dec_fuel_spec. pose proof pow10_21. lia. Qed.

Lemma remove_digits : forall ds, Forall digit ds -> remove_z 95 ds = ds.
Proof.
  intros ds F. induction F as [|c ds Hc F IH]; [reflexivity|]. simpl.
  replace (c =? 95) with false by (symmetry; apply Z.eqb_neq; unfold digit in Hc; lia). rewrite IH. reflexivity.
Qed.

Lemma dec_cons : forall n, 0 <= n <= 2 ^ 64 -> exists c ds, dec n = c :: ds /\ digit c /\ Forall digit ds.
Proof.
  intros n H. destruct (dec_spec n H) as [F [Hne _]]. destruct (dec n) as [|c ds]; [congruence|].
  inversion F; subst. eauto.
Qed.

(* parser.go case TokenDecimal on the printed text of an int64 *)
Lemma parse_int_itoa : forall z, - 2 ^ 63 <= z < 2 ^ 63 -> parse_int 10 (remove_z 95 (itoa z)) = Some z.
Proof.
  intros z Hz. unfold itoa. destruct (Z.ltb_spec z 0) as [Hn|Hp].
  - assert (0 <= - z <= 2 ^ 64) as Hr by lia. destruct (dec_spec (- z) Hr) as [F [Hne Hv]].
    cbn [remove_z]. change (45 =? 95) with false. cbv iota. rewrite remove_digits by assumption.
    unfold parse_int. destruct (dec (- z)) as [|c ds] eqn:E; [congruence|]. rewrite Hv.
    replace (- z <=? 2 ^ 63) with true by (symmetry; apply Z.leb_le; lia). f_equal; lia.
  - assert (0 <= z <= 2 ^ 64) as Hr by lia. destruct (dec_spec z Hr) as [F [Hne Hv]].
    rewrite remove_digits by assumption. unfold parse_int.
    destruct (dec z) as [|c ds] eqn:E; [congruence|]. inversion F; subst.
    assert (c <> 45 /\ c <> 43) as [N1 N2] by (unfold digit in *; lia).
    destruct (Z.eq_dec c 45); [congruence|]. destruct (Z.eq_dec c 43); [congruence|].
    replace (match c :: ds with 45 :: t => (true, t) | 43 :: t => (false, t) | _ => (false, c :: ds) end) with (false, c :: ds).
    2:{ destruct c as [|q|q]; try reflexivity. do 6 (destruct q as [q|q|]; try reflexivity); congruence. }
    rewrite Hv. replace (z <? 2 ^ 63) with true by (symmetry; apply Z.ltb_lt; lia). reflexivity.
Qed.

Lemma firstn_app_len : forall (a b : list Z), firstn (length (a ++ b) - length b) (a ++ b) = a.
Proof.
  intros a b. rewrite app_length. replace (length a + length b - length b)%nat with (length a + 0)%nat by lia.
  rewrite firstn_app_2. simpl. apply app_nil_r.
Qed.

(* parser.go case TokenUint64 on the printed text of a uint64 *)
Lemma conv_uint64_utoa : forall z, 0 <= z < 2 ^ 64 -> conv_uint64 (utoa z) = Some z.
Proof.
  intros z Hz. unfold conv_uint64, utoa.
  change 3%nat with (length str_ULL). rewrite firstn_app_len.
  assert (0 <= z <= 2 ^ 64) as Hr by lia. destruct (dec_spec z Hr) as [F [Hne Hv]].
  assert (forall x, starts_with [48; x] (dec z) = true -> digit x) as Hsw.
  { intros x H. destruct (dec z) as [|a [|b l]]; cbn [starts_with] in H; try discriminate H.
    - rewrite andb_false_r in H. discriminate H.
    - apply andb_true_iff in H. destruct H as [_ H]. apply andb_true_iff in H. destruct H as [H _]. apply Z.eqb_eq in H. subst.
      apply Forall_inv_tail in F. apply Forall_inv in F. exact F. }
  destruct (starts_with [48; 111] (dec z)) eqn:E1; [apply Hsw in E1; unfold digit in E1; lia|].
  destruct (starts_with [48; 120] (dec z)) eqn:E2; [apply Hsw in E2; unfold digit in E2; lia|].
  rewrite !andb_false_r. unfold parse_uint. destruct (dec z) eqn:E; [congruence|]. rewrite Hv.
  replace (z <? 2 ^ 64) with true by (symmetry; apply Z.ltb_lt; lia). reflexivity.
Qed.

(* ======== B: each printed atom re-lexes to exactly one token ======== *)

Definition can_start (p : Z) : Prop := can_start_signed_after p = true.

(* the text a, followed by a delimiter, adds exactly the tokens tks (and the delimiter's own token) *)
Definition lexes_to (a : list Z) (tks : list token) : Prop :=
  forall s t p d, delim d -> can_start p -> view s LNormal [] t p ->
  exists s', lex_all s (a ++ [d]) = LOk s' /\ view s' LNormal [] (t ++ tks ++ dtok d) d.

Lemma digit_plain : forall c, digit c -> plain c.
Proof.
  intros c H. unfold digit in H. unfold plain, special_runes, mem_z.
  repeat match goal with |- context [?k =? c] => rewrite (proj2 (Z.eqb_neq k c)) by lia end. reflexivity.
Qed.

Lemma plain_atom_lexes : forall a tok, Forall plain a -> a <> [] -> decode_atom a = Some tok -> lexes_to a [tok].
Proof.
  intros a tok F Ha Hd s t p d Hdl _ V. destruct (lex_plain_atom a s t p d tok F Ha Hd Hdl V) as [s' [E V']].
  exists s'. split; [exact E|]. exact V'.
Qed.

Lemma Forall_digit_plain : forall ds, Forall digit ds -> Forall plain ds.
Proof. intros ds F. eapply Forall_impl; [|exact F]. apply digit_plain. Qed.

Lemma neg_number_lexes : forall c ds tok, digit c -> Forall plain ds ->
  decode_atom (45 :: c :: ds) = Some tok -> lexes_to (45 :: c :: ds) [tok].
Proof.
  intros c ds tok Hc F Hd s t p d Hdl Hcan V.
  destruct (step_minus s t p V) as [s1 [E1 [V1 [P1 P2]]]].
  destruct (step_minus_digit s1 t c p V1 P1 P2 Hcan (dec_yes_neg c [] Hc (Forall_nil _))) as [s2 [E2 V2]].
  destruct (run_plain ds s2 [45; c] t c F V2) as [s3 [E3 V3]].
  assert ([45; c] ++ ds <> []) as Hne by discriminate.
  destruct (step_delim s3 ([45; c] ++ ds) t (last ds c) d tok Hdl Hne Hd V3) as [s4 [E4 V4]].
  exists s4. split; [|exact V4].
  change ((45 :: c :: ds) ++ [d]) with (45 :: c :: (ds ++ [d])). cbn [lex_all]. rewrite E1, E2.
  rewrite lex_all_app, E3. cbn [lex_all]. rewrite E4. reflexivity.
Qed.

Theorem int_lexes : forall z, - 2 ^ 63 <= z < 2 ^ 63 -> lexes_to (itoa z) [mkTok TDecimal (itoa z)].
Proof.
  intros z Hz. unfold itoa. destruct (Z.ltb_spec z 0) as [Hn|Hp].
  - destruct (dec_cons (- z) ltac:(lia)) as [c [ds [E [Hc F]]]]. rewrite E.
    apply neg_number_lexes; auto using Forall_digit_plain. apply decode_dec_neg; assumption.
  - destruct (dec_cons z ltac:(lia)) as [c [ds [E [Hc F]]]]. rewrite E.
    apply plain_atom_lexes; [apply Forall_digit_plain; constructor; assumption|discriminate|apply decode_dec; assumption].
Qed.

Theorem uint_lexes : forall z, 0 <= z < 2 ^ 64 -> lexes_to (utoa z) [mkTok TUint64 (utoa z)].
Proof.
  intros z Hz. unfold utoa. destruct (dec_cons z ltac:(lia)) as [c [ds [E [Hc F]]]]. rewrite E.
  apply plain_atom_lexes.
  - rewrite <- app_comm_cons. constructor; [apply digit_plain; assumption|]. apply Forall_app. split; [apply Forall_digit_plain; assumption|].
    repeat constructor.
  - discriminate.
  - rewrite <- app_comm_cons. apply decode_uint; assumption.
Qed.

Lemma word_lexes : forall a tok, (forallb (fun c => negb (mem_z c special_runes)) a = true) -> a <> [] ->
  decode_atom a = Some tok -> lexes_to a [tok].
Proof.
  intros a tok H Ha Hd. apply plain_atom_lexes; auto.
  apply Forall_forall. intros x Hx. rewrite forallb_forall in H. specialize (H x Hx).
  unfold plain. destruct (mem_z x special_runes); [discriminate|reflexivity].
Qed.

Theorem bool_lexes : forall b : bool, lexes_to (if b then str_true else str_false) [mkTok TBool (if b then str_true else str_false)].
Proof. intros [|]; apply word_lexes; try discriminate; vm_compute; reflexivity. Qed.

Theorem nil_lexes : lexes_to str_nil [mkTok TSymbol str_nil].
Proof. apply word_lexes; try discriminate; vm_compute; reflexivity. Qed.

Theorem backslash_lexes : lexes_to [92] [mkTok TBackslash []].
Proof. apply word_lexes; try discriminate; vm_compute; reflexivity. Qed.

(* symbols: the names that DecodeAtom classifies as one symbol and that contain no rune the
   lexer treats specially (operators, quotes, brackets, blanks) *)
Definition sym_ok (n : list Z) : Prop :=
  n <> [] /\ Forall plain n /\ decode_atom n = Some (mkTok TSymbol n) /\ n <> str_nil.

Theorem sym_lexes : forall n, sym_ok n -> lexes_to n [mkTok TSymbol n].
Proof. intros n [H1 [H2 [H3 _]]]. apply plain_atom_lexes; assumption. Qed.

Section WithIsPrint.
Variable is_print : Z -> bool.

(* the runes whose quoted form uses only escapes the reader knows *)
Definition rune_ok (q : Z) (c : Z) : Prop :=
  0 <= c <= 1114111 /\ (c = q \/ c = 92 \/ is_print c = true \/ c = 7 \/ c = 10 \/ c = 13 \/ c = 9).

Lemma esc_in_rune : forall c s b t p, rune_ok 39 c -> view s LRuneLit b t p ->
  exists s1 q, lex_all s (escaped_rune is_print 39 c) = LOk s1 /\ view s1 LRuneLit (b ++ [c]) t q.
Proof.
  intros c s b t p [Hr Hc] V. unfold escaped_rune.
  destruct (Z.eq_dec c 39) as [E|N1]; [subst c|].
  { destruct (step_rune_esc s b t p 39 39 eq_refl V) as [s1 [E1 V1]]. exists s1, 39. split; assumption. }
  destruct (Z.eq_dec c 92) as [E|N2]; [subst c|].
  { destruct (step_rune_esc s b t p 92 92 eq_refl V) as [s1 [E1 V1]]. exists s1, 92. split; assumption. }
  replace ((c =? 39) || (c =? 92)) with false by (symmetry; apply orb_false_iff; split; apply Z.eqb_neq; assumption).
  destruct (is_print c) eqn:Ep.
  { destruct (step_rune_raw s b t p c N2 N1 V) as [s1 [E1 V1]]. exists s1, c. split; [cbn [lex_all]; rewrite E1; reflexivity|assumption]. }
  destruct Hc as [H|[H|[H|[H|[H|[H|H]]]]]]; try congruence; subst c; cbn [Z.eqb Pos.eqb orb].
  - destruct (step_rune_esc s b t p 97 7 eq_refl V) as [s1 [E1 V1]]. exists s1, 97. split; assumption.
  - destruct (step_rune_esc s b t p 110 10 eq_refl V) as [s1 [E1 V1]]. exists s1, 110. split; assumption.
  - destruct (step_rune_esc s b t p 114 13 eq_refl V) as [s1 [E1 V1]]. exists s1, 114. split; assumption.
  - destruct (step_rune_esc s b t p 116 9 eq_refl V) as [s1 [E1 V1]]. exists s1, 116. split; assumption.
Qed.

Theorem char_lexes : forall c, rune_ok 39 c -> lexes_to (quote_rune is_print c) [mkTok TChar [c]].
Proof.
  intros c Hc s t p d Hdl _ V. unfold quote_rune.
  destruct (step_rune_open s t p V) as [s1 [E1 V1]].
  destruct (esc_in_rune c s1 [39] t 39 Hc V1) as [s2 [q [E2 V2]]].
  destruct (step_rune_close s2 ([39] ++ [c]) t q (mkTok TChar [c]) (decode_char_atom c (proj1 Hc)) V2) as [s3 [E3 V3]].
  destruct (step_delim0 s3 _ 39 d Hdl V3) as [s4 [E4 V4]].
  exists s4. split; [|rewrite <- app_assoc in V4; exact V4].
  cbn [app lex_all]. rewrite E1. rewrite <- app_assoc. rewrite lex_all_app, E2. cbn [app lex_all]. rewrite E3, E4. reflexivity.
Qed.

Lemma esc_in_str : forall c s b t p, rune_ok 34 c -> view s LStrLit b t p ->
  exists s1 q, lex_all s (escaped_rune is_print 34 c) = LOk s1 /\ view s1 LStrLit (b ++ [c]) t q.
Proof.
  intros c s b t p [Hr Hc] V. unfold escaped_rune.
  destruct (Z.eq_dec c 34) as [E|N1]; [subst c|].
  { destruct (step_str_esc s b t p 34 34 eq_refl V) as [s1 [E1 V1]]. exists s1, 34. split; assumption. }
  destruct (Z.eq_dec c 92) as [E|N2]; [subst c|].
  { destruct (step_str_esc s b t p 92 92 eq_refl V) as [s1 [E1 V1]]. exists s1, 92. split; assumption. }
  replace ((c =? 34) || (c =? 92)) with false by (symmetry; apply orb_false_iff; split; apply Z.eqb_neq; assumption).
  destruct (is_print c) eqn:Ep.
  { destruct (step_str_raw s b t p c N2 N1 V) as [s1 [E1 V1]]. exists s1, c. split; [cbn [lex_all]; rewrite E1; reflexivity|assumption]. }
  destruct Hc as [H|[H|[H|[H|[H|[H|H]]]]]]; try congruence; subst c; cbn [Z.eqb Pos.eqb orb].
  - destruct (step_str_esc s b t p 97 7 eq_refl V) as [s1 [E1 V1]]. exists s1, 97. split; assumption.
  - destruct (step_str_esc s b t p 110 10 eq_refl V) as [s1 [E1 V1]]. exists s1, 110. split; assumption.
  - destruct (step_str_esc s b t p 114 13 eq_refl V) as [s1 [E1 V1]]. exists s1, 114. split; assumption.
  - destruct (step_str_esc s b t p 116 9 eq_refl V) as [s1 [E1 V1]]. exists s1, 116. split; assumption.
Qed.

Definition item_ok (it : sitem) : Prop := match it with Rune c => rune_ok 34 c | BadByte _ => False end.

Lemma items_in_str : forall its s b t p, Forall item_ok its -> view s LStrLit b t p ->
  exists s1 q, lex_all s (flat_map (quote_item is_print 34) its) = LOk s1 /\ view s1 LStrLit (b ++ map item_rune its) t q.
Proof.
  induction its as [|it its IH]; intros s b t p F V.
  - exists s, p. split; [reflexivity|]. rewrite app_nil_r. exact V.
  - inversion F as [|x l Hit F']; subst. destruct it as [c|bb]; [|contradiction].
    destruct (esc_in_str c s b t p Hit V) as [s1 [q [E1 V1]]].
    destruct (IH s1 (b ++ [c]) t q F' V1) as [s2 [q2 [E2 V2]]].
    exists s2, q2. split.
    + cbn [flat_map quote_item]. rewrite lex_all_app, E1. exact E2.
    + cbn [map item_rune]. rewrite <- app_assoc in V2. exact V2.
Qed.

Theorem str_lexes : forall its, Forall item_ok its ->
  lexes_to (quote_str is_print its) [mkTok TString (map item_rune its)].
Proof.
  intros its F s t p d Hdl _ V. unfold quote_str.
  destruct (step_str_open s t p V) as [s1 [E1 V1]].
  destruct (items_in_str its s1 [] t 34 F V1) as [s2 [q [E2 V2]]].
  destruct (step_str_close s2 _ t q V2) as [s3 [E3 V3]].
  destruct (step_delim0 s3 _ 34 d Hdl V3) as [s4 [E4 V4]].
  exists s4. split; [|rewrite <- app_assoc in V4; exact V4].
  cbn [app lex_all]. rewrite E1. rewrite <- app_assoc. rewrite lex_all_app, E2. cbn [app lex_all]. rewrite E3, E4. reflexivity.
Qed.

End WithIsPrint.

(* ======== B2: floats ======== *)

Lemma byte_len_nonneg_l : forall s, 0 <= byte_len s.
Proof. induction s as [|c s IH]; simpl; [lia|]. unfold utf8_len. destruct (c <? 128), (c <? 2048), (c <? 65536); lia. Qed.


Lemma dig__plain : forall c, dig_ c -> plain c.
Proof. intros c [H|H]; [apply digit_plain; assumption|subst; reflexivity]. Qed.
Lemma Forall_dig__plain : forall w, Forall dig_ w -> Forall plain w.
Proof. intros w F. eapply Forall_impl; [|exact F]. exact dig__plain. Qed.

(* the beginning of a number: optional minus, a digit, plain runes *)
Lemma atom_prefix : forall sg c m s t p, sign_ok sg -> digit c -> Forall plain m -> can_start p ->
  view s LNormal [] t p ->
  exists s1, lex_all s (sg ++ c :: m) = LOk s1 /\ view s1 LNormal (sg ++ c :: m) t (last m c).
Proof.
  intros sg c m s t p Hs Hc Hm Hcan V. destruct Hs as [Hs|Hs]; subst sg.
  - destruct (run_plain (c :: m) s [] t p) as [s1 [E1 V1]]; [constructor; [apply digit_plain; assumption|assumption]|exact V|].
    exists s1. split; [exact E1|]. cbn [app] in *. rewrite (last_cons_dflt m c p). exact V1.
  - destruct (step_minus s t p V) as [s1 [E1 [V1 [P1 P2]]]].
    destruct (step_minus_digit s1 t c p V1 P1 P2 Hcan (dec_yes_neg c [] Hc (Forall_nil _))) as [s2 [E2 V2]].
    destruct (run_plain m s2 [45; c] t c Hm V2) as [s3 [E3 V3]].
    exists s3. split; [|exact V3]. cbn [app lex_all]. rewrite E1, E2. exact E3.
Qed.

Lemma byte_len_pos2 : forall a b l, 1 <? byte_len (a :: b :: l) = true.
Proof.
  intros a b l. apply Z.ltb_lt. cbn [byte_len]. pose proof (byte_len_nonneg_l l) as H.
  unfold utf8_len. destruct (a <? 128), (a <? 2048), (a <? 65536), (b <? 128), (b <? 2048), (b <? 65536); lia.
Qed.

Theorem float_A_lexes : forall sg c ip fp, sign_ok sg -> digit c -> Forall dig_ ip -> Forall dig_ fp ->
  lexes_to (formA sg c ip fp) [mkTok TFloat (formA sg c ip fp)].
Proof.
  intros sg c ip fp Hs Hc Hi Hf s t p d Hd Hcan V. unfold formA.
  assert (Forall plain (ip ++ 46 :: fp)) as Hm
    by (apply Forall_app; split; [apply Forall_dig__plain; assumption|constructor; [reflexivity|apply Forall_dig__plain; assumption]]).
  destruct (atom_prefix sg c (ip ++ 46 :: fp) s t p Hs Hc Hm Hcan V) as [s1 [E1 V1]].
  assert (sg ++ c :: ip ++ 46 :: fp <> []) as Hne by (destruct sg; discriminate).
  destruct (step_delim s1 _ t _ d _ Hd Hne (classify_float_A sg c ip fp Hs Hc Hi Hf) V1) as [s2 [E2 V2]].
  exists s2. split; [|exact V2]. rewrite lex_all_app, E1. cbn [lex_all]. rewrite E2. reflexivity.
Qed.

Lemma last_snoc : forall (l : list Z) e d, last (l ++ [e]) d = e.
Proof. intros. apply last_last. Qed.

Theorem float_C_lexes : forall sg c ip fr e esg x xp, sign_ok sg -> digit c -> Forall dig_ ip -> frac_ok fr ->
  (e = 101 \/ e = 69) -> esign_ok esg -> digit x -> Forall dig_ xp ->
  lexes_to (formC sg c ip fr e esg x xp) [mkTok TFloat (formC sg c ip fr e esg x xp)].
Proof.
  intros sg c ip fr e esg x xp Hs Hc Hi Hfr He Hes Hx Hxp s t p d Hd Hcan V.
  assert (plain e) as Hpe by (destruct He; subst; reflexivity).
  assert (Forall plain fr) as Hpfr
    by (destruct Hfr as [H|[fp [H F]]]; subst; [constructor|constructor; [reflexivity|apply Forall_dig__plain; assumption]]).
  assert (Forall plain (ip ++ fr ++ [e])) as Hm
    by (apply Forall_app; split; [apply Forall_dig__plain; assumption|apply Forall_app; split; [assumption|constructor; [assumption|constructor]]]).
  destruct (atom_prefix sg c (ip ++ fr ++ [e]) s t p Hs Hc Hm Hcan V) as [s1 [E1 V1]].
  replace (last (ip ++ fr ++ [e]) c) with e in V1 by (rewrite app_assoc, last_snoc; reflexivity).
  set (B := sg ++ c :: ip ++ fr ++ [e]) in *.
  (* the optional sign of the exponent *)
  assert (exists s2, lex_all s1 esg = LOk s2 /\ view s2 LNormal (B ++ esg) t (last esg e)) as [s2 [E2 V2]].
  { destruct Hes as [H|H]; [subst esg; exists s1; split; [reflexivity|rewrite app_nil_r; exact V1]|].
    assert (sci_prefix_ok B = true) as Hsci.
    { unfold sci_prefix_ok, B.
      replace (sg ++ c :: ip ++ fr ++ [e]) with ((sg ++ c :: ip ++ fr) ++ [e]) by (rewrite <- !app_assoc; cbn [app]; rewrite <- !app_assoc; reflexivity).
      rewrite removelast_last. unfold last_rune. rewrite last_snoc.
      assert (1 <? byte_len ((sg ++ c :: ip ++ fr) ++ [e]) = true) as Hb.
      { destruct sg as [|a sg']; cbn [app].
        - destruct (ip ++ fr) eqn:Eq; cbn [app]; apply byte_len_pos2.
        - destruct sg'; cbn [app]; apply byte_len_pos2. }
      rewrite Hb. replace (e <? 128) with true by (destruct He; subst; reflexivity). cbn [andb].
      destruct Hfr as [H0|[fp [H0 F]]]; subst fr.
      - rewrite app_nil_r. rewrite (dec_U sg c ip Hs Hc Hi). reflexivity.
      - change (sg ++ c :: ip ++ 46 :: fp) with (formA sg c ip fp). rewrite (float_A sg c ip fp Hs Hc Hi F). apply orb_true_r. }
    destruct H as [H|H]; subst esg.
    - destruct (step_exp_sign s1 B t 43 e (or_introl eq_refl) He Hsci V1) as [s2 [E2 V2]].
      exists s2. split; [cbn [lex_all]; rewrite E2; reflexivity|exact V2].
    - destruct (step_exp_sign s1 B t 45 e (or_intror eq_refl) He Hsci V1) as [s2 [E2 V2]].
      exists s2. split; [cbn [lex_all]; rewrite E2; reflexivity|exact V2]. }
  destruct (run_plain (x :: xp) s2 (B ++ esg) t (last esg e)) as [s3 [E3 V3]];
    [constructor; [apply digit_plain; assumption|apply Forall_dig__plain; assumption]|exact V2|].
  assert ((B ++ esg) ++ x :: xp = formC sg c ip fr e esg x xp) as EB.
  { unfold B, formC. rewrite <- !app_assoc. cbn [app]. rewrite <- !app_assoc. reflexivity. }
  rewrite EB in V3.
  assert (formC sg c ip fr e esg x xp <> []) as Hne by (unfold formC; destruct sg; discriminate).
  destruct (step_delim s3 _ t _ d _ Hd Hne (classify_float_C sg c ip fr e esg x xp Hs Hc Hi Hfr He Hes Hx Hxp) V3) as [s4 [E4 V4]].
  exists s4. split; [|exact V4].
  replace (formC sg c ip fr e esg x xp ++ [d]) with (B ++ (esg ++ ((x :: xp) ++ [d])))
    by (rewrite <- EB; rewrite <- !app_assoc; reflexivity).
  rewrite lex_all_app, E1, lex_all_app, E2, lex_all_app, E3. cbn [lex_all]. rewrite E4. reflexivity.
Qed.

(* ---- what the float printer emits ---- *)

(* the formatter contract on the digit token: digits where digits belong, an exponent exactly in the 'e' format *)
Definition ftok_ok (t : ftok) (sci : bool) : Prop :=
  (exists c ip, f_int t = c :: ip /\ digit c /\ Forall digit ip) /\ Forall digit (f_frac t) /\
  (if sci then exists en x xp, f_exp t = Some (en, x :: xp) /\ digit x /\ Forall digit xp else f_exp t = None).

Lemma Forall_digit_dig_ : forall w, Forall digit w -> Forall dig_ w.
Proof. intros w F. eapply Forall_impl; [|exact F]. intros a H; left; exact H. Qed.

Definition fsign (t : ftok) : list Z := if f_neg t then [45] else [].
Lemma fsign_ok : forall t, sign_ok (fsign t).
Proof. intros t. unfold fsign, sign_ok. destruct (f_neg t); auto. Qed.

Lemma float_text_form : forall t sci, ftok_ok t sci ->
  exists c ip, f_int t = c :: ip /\ digit c /\ Forall dig_ ip /\
  (if sci then exists en x xp, f_exp t = Some (en, x :: xp) /\ digit x /\ Forall dig_ xp /\
                 float_text (FFin t) sci =
                 formC (fsign t) c ip (match f_frac t with [] => [] | fr => 46 :: fr end) 101 [if en then 45 else 43] x xp
   else float_text (FFin t) sci = formA (fsign t) c ip (match f_frac t with [] => [48] | fr => fr end)).
Proof.
  intros t sci [[c [ip [Ei [Hc Hi]]]] [Hf He]]. exists c, ip. split; [exact Ei|]. split; [exact Hc|].
  split; [apply Forall_digit_dig_; exact Hi|]. destruct sci.
  - destruct He as [en [x [xp [Ee [Hx Hxp]]]]]. exists en, x, xp. split; [exact Ee|]. split; [exact Hx|].
    split; [apply Forall_digit_dig_; exact Hxp|].
    unfold float_text, ftok_text, formC, fsign. rewrite Ei, Ee. destruct (f_frac t); reflexivity.
  - unfold float_text, ftok_text, formA, fsign. rewrite Ei, He. destruct (f_frac t) as [|a fr].
    + rewrite !app_nil_r. rewrite <- app_assoc. reflexivity.
    + rewrite app_nil_r. reflexivity.
Qed.

Theorem float_fin_lexes : forall t sci, ftok_ok t sci ->
  lexes_to (float_text (FFin t) sci) [mkTok TFloat (float_text (FFin t) sci)].
Proof.
  intros t sci H. pose proof H as [_ [Hf _]]. destruct (float_text_form t sci H) as [c [ip [Ei [Hc [Hi R]]]]]. destruct sci.
  - destruct R as [en [x [xp [Ee [Hx [Hxp Et]]]]]]. rewrite Et. apply float_C_lexes; auto using fsign_ok.
    + destruct (f_frac t) as [|a fr] eqn:Ef; [left; reflexivity|right; exists (a :: fr); split; [reflexivity|apply Forall_digit_dig_; exact Hf]].
    + destruct en; [right; right|right; left]; reflexivity.
  - rewrite R. apply float_A_lexes; auto using fsign_ok.
    destruct (f_frac t) as [|a fr]; [constructor; [left; unfold digit; lia|constructor]|apply Forall_digit_dig_; exact Hf].
Qed.

(* +Inf / -Inf: the sign is lexed as an operator symbol, Inf as a float word; the parser glues them *)
Theorem inf_lexes : forall neg : bool,
  lexes_to (if neg then str_mInf else str_pInf) [mkTok TSymbol [if neg then 45 else 43]; mkTok TFloat str_Inf].
Proof.
  intros neg s t p d Hd Hcan V. set (r := if neg then 45 else 43).
  assert (r = 43 \/ r = 45) as Hr by (unfold r; destruct neg; auto).
  destruct (step_sign s t p r Hr V) as [s1 [E1 [V1 [P1 _]]]].
  assert (re_match re_FloatRegex [r; 73] = false) as N1 by (unfold r; destruct neg; vm_compute; reflexivity).
  assert (re_match re_DecimalRegex [r; 73] = false) as N2 by (unfold r; destruct neg; vm_compute; reflexivity).
  assert (re_match re_BuiltinOpRegex [r; 73] = false) as N3 by (unfold r; destruct neg; vm_compute; reflexivity).
  assert (plain 73) as N0 by reflexivity.
  destruct (step_sign_plain s1 t r 73 V1 P1 Hr N0 N1 N2 N3) as [s2 [E2 V2]].
  destruct (run_plain [110; 102] s2 [73] (t ++ [mkTok TSymbol [r]]) 73) as [s3 [E3 V3]]; [repeat constructor|exact V2|].
  assert ([73] ++ [110; 102] <> []) as Hne by discriminate.
  assert (decode_atom ([73] ++ [110; 102]) = Some (mkTok TFloat str_Inf)) as Hdec by (vm_compute; reflexivity).
  destruct (step_delim s3 ([73] ++ [110; 102]) (t ++ [mkTok TSymbol [r]]) (last [110; 102] 73) d (mkTok TFloat str_Inf) Hd Hne Hdec V3) as [s4 [E4 V4]].
  exists s4. split.
  - replace ((if neg then str_mInf else str_pInf) ++ [d]) with (r :: 73 :: [110; 102] ++ [d]) by (unfold r; destruct neg; reflexivity).
    cbn [lex_all]. rewrite E1, E2. rewrite lex_all_app, E3. cbn [lex_all]. rewrite E4. reflexivity.
  - rewrite <- app_assoc in V4. exact V4.
Qed.

Theorem nan_lexes : lexes_to str_NaN [mkTok TFloat str_NaN].
Proof. apply word_lexes; try discriminate; vm_compute; reflexivity. Qed.

Lemma float_text_head : forall t sci, ftok_ok t sci -> exists h rest, float_text (FFin t) sci = h :: rest /\ (h = 45 \/ digit h).
Proof.
  intros t sci H. destruct (float_text_form t sci H) as [c [ip [Ei [Hc [Hi R]]]]]. destruct sci.
  - destruct R as [en [x [xp [Ee [Hx [Hxp Et]]]]]]. rewrite Et. unfold formC, fsign. destruct (f_neg t); cbn [app]; eauto.
  - rewrite R. unfold formA, fsign. destruct (f_neg t); cbn [app]; eauto.
Qed.

Lemma mem_z_app : forall c a b, mem_z c (a ++ b) = mem_z c a || mem_z c b.
Proof. intros c a. induction a as [|x a IH]; intros b; [reflexivity|]. simpl. rewrite IH. apply orb_assoc. Qed.

Lemma mem_z_dig_ : forall c w, Forall dig_ w -> (c = 101 \/ c = 69) -> mem_z c w = false.
Proof.
  intros c w F Hc. induction F as [|x w Hx F IH]; [reflexivity|]. simpl. rewrite IH, orb_false_r.
  apply Z.eqb_neq. destruct Hx as [Hx|Hx]; unfold digit in *; destruct Hc; lia.
Qed.

Lemma float_text_sci : forall t sci, ftok_ok t sci -> contains_e (float_text (FFin t) sci) = sci.
Proof.
  intros t sci H. pose proof H as [_ [Hf _]]. apply Forall_digit_dig_ in Hf.
  destruct (float_text_form t sci H) as [c [ip [Ei [Hc [Hi R]]]]]. destruct sci.
  - destruct R as [en [x [xp [Ee [Hx [Hxp Et]]]]]]. rewrite Et. unfold contains_e, formC.
    rewrite !mem_z_app. cbn [mem_z]. rewrite !mem_z_app. cbn [mem_z]. change (101 =? 101) with true.
    rewrite !orb_true_r. reflexivity.
  - rewrite R. unfold contains_e, formA.
    assert (forall k, k = 101 \/ k = 69 -> mem_z k (fsign t ++ c :: ip ++ 46 :: match f_frac t with [] => [48] | a :: l => a :: l end) = false) as Hk.
    { intros k Hk. rewrite mem_z_app. cbn [mem_z]. rewrite mem_z_app. cbn [mem_z].
      rewrite (mem_z_dig_ k ip Hi Hk).
      assert (mem_z k (match f_frac t with [] => [48] | a :: l => a :: l end) = false) as E1.
      { destruct (f_frac t); [destruct Hk; subst; reflexivity|apply mem_z_dig_; assumption]. }
      rewrite E1.
      assert (mem_z k (fsign t) = false) as E2 by (unfold fsign; destruct (f_neg t); destruct Hk; subst; reflexivity).
      rewrite E2.
      replace (c =? k) with false by (symmetry; apply Z.eqb_neq; unfold digit in Hc; destruct Hk; lia).
      replace (46 =? k) with false by (destruct Hk; subst; reflexivity). reflexivity. }
    rewrite (Hk 101), (Hk 69) by auto. reflexivity.
Qed.

(* ======== C: the token stream of a printed value ======== *)

Section ValueInd.
Variable P : value -> Prop.
Hypothesis Hint : forall z, P (VInt z).
Hypothesis Huint : forall z, P (VUint z).
Hypothesis Hfloat : forall b s c, P (VFloat b s c).
Hypothesis Hbool : forall b, P (VBool b).
Hypothesis Hnil : P VNil.
Hypothesis Hchar : forall c, P (VChar c).
Hypothesis Hstr : forall s, P (VStr s).
Hypothesis Hsym : forall n, P (VSym n).
Hypothesis Hpair : forall h t, P h -> P t -> P (VPair h t).
Hypothesis Harr : forall l, Forall P l -> P (VArr l).
Hypothesis Hhash : forall kvs, Forall (fun kv => P (fst kv) /\ P (snd kv)) kvs -> P (VHash kvs).
Hypothesis Hbstr : forall s, P (VBStr s).

Fixpoint value_ind2 (v : value) : P v :=
  match v with
  | VInt z => Hint z | VUint z => Huint z | VFloat b s c => Hfloat b s c | VBool b => Hbool b | VNil => Hnil
  | VChar c => Hchar c | VStr s => Hstr s | VSym n => Hsym n
  | VPair h t => Hpair h t (value_ind2 h) (value_ind2 t)
  | VArr l => Harr l ((fix go (l : list value) : Forall P l :=
                         match l with [] => Forall_nil P | x :: r => Forall_cons x (value_ind2 x) (go r) end) l)
  | VHash kvs => Hhash kvs ((fix go (l : list (value * value)) : Forall (fun kv => P (fst kv) /\ P (snd kv)) l :=
                               match l with
                               | [] => Forall_nil _
                               | (k, x) :: r => Forall_cons (k, x) (conj (value_ind2 k) (value_ind2 x)) (go r)
                               end) kvs)
  | VBStr s => Hbstr s
  end.
End ValueInd.

(* sequencing lemmas *)
Lemma can_start_32 : can_start 32. Proof. reflexivity. Qed.
Lemma can_start_40 : can_start 40. Proof. reflexivity. Qed.
Lemma can_start_91 : can_start 91. Proof. reflexivity. Qed.
Lemma can_start_0 : can_start 0. Proof. reflexivity. Qed.

Lemma delim_32 : delim 32. Proof. left; reflexivity. Qed.
Lemma delim_10 : delim 10. Proof. right; left; reflexivity. Qed.
Lemma delim_41 : delim 41. Proof. right; right; left; reflexivity. Qed.
Lemma delim_93 : delim 93. Proof. right; right; right; left; reflexivity. Qed.
Lemma delim_125 : delim 125. Proof. right; right; right; right; reflexivity. Qed.
Lemma can_start_123 : can_start 123. Proof. reflexivity. Qed.
Lemma can_start_58 : can_start 58. Proof. reflexivity. Qed.

Lemma seq_space : forall a tks x y, lexes_to a tks -> lexes_to x y -> lexes_to (a ++ 32 :: x) (tks ++ y).
Proof.
  intros a tks x y Ha Hx s t p d Hd Hc V.
  destruct (Ha s t p 32 delim_32 Hc V) as [s1 [E1 V1]].
  change (dtok 32) with (@nil token) in V1. rewrite app_nil_r in V1.
  destruct (Hx s1 (t ++ tks) 32 d Hd can_start_32 V1) as [s2 [E2 V2]].
  exists s2. split.
  - replace ((a ++ 32 :: x) ++ [d]) with ((a ++ [32]) ++ (x ++ [d])) by (rewrite <- !app_assoc; reflexivity).
    rewrite lex_all_app, E1. exact E2.
  - rewrite <- !app_assoc in V2. rewrite <- app_assoc. exact V2.
Qed.

Lemma close_with : forall c a tks, (c = 41 \/ c = 93) -> lexes_to a tks -> lexes_to (a ++ [c]) (tks ++ dtok c).
Proof.
  intros c a tks Hc Ha s t p d Hd Hcan V.
  assert (delim c) as Hdc by (destruct Hc; subst; [apply delim_41|apply delim_93]).
  destruct (Ha s t p c Hdc Hcan V) as [s1 [E1 V1]].
  destruct (step_delim0 s1 _ c d Hd V1) as [s2 [E2 V2]].
  exists s2. split.
  - rewrite lex_all_app, E1. cbn [lex_all]. rewrite E2. reflexivity.
  - rewrite <- !app_assoc in V2. rewrite <- !app_assoc. exact V2.
Qed.

Lemma step_open : forall s t p c, (c = 40 \/ c = 91) -> view s LNormal [] t p ->
  exists s1, lex_rune s c = LOk s1 /\
             view s1 LNormal [] (t ++ [if c =? 40 then mkTok TLParen [] else mkTok TLSquare []]) c.
Proof.
  intros s t p c Hc V. rewrite lex_rune_normal by apply V.
  apply (push_view _ _ _ _ _ c) in V. apply pview_view in V. set (s1 := ring_push c s) in *. clearbody s1.
  destruct Hc; subst c; unfold lex_normal; cbn [Z.eqb Pos.eqb orb andb]; unfold with_dump, dump_buffer;
    rewrite (v_buf _ _ _ _ _ V); (eexists; split; [reflexivity|]); apply view_append_token; assumption.
Qed.

Lemma open_with : forall c a tks, (c = 40 \/ c = 91) -> lexes_to a tks ->
  lexes_to (c :: a) ((if c =? 40 then mkTok TLParen [] else mkTok TLSquare []) :: tks).
Proof.
  intros c a tks Hc Ha s t p d Hd Hcan V.
  destruct (step_open s t p c Hc V) as [s1 [E1 V1]].
  assert (can_start c) as Hcc by (destruct Hc; subst; reflexivity).
  destruct (Ha s1 _ c d Hd Hcc V1) as [s2 [E2 V2]].
  exists s2. split.
  - cbn [app lex_all]. rewrite E1. exact E2.
  - rewrite <- !app_assoc in V2. exact V2.
Qed.

Lemma empty_array_lexes : lexes_to [93] [mkTok TRSquare []].
Proof.
  intros s t p d Hd Hcan V.
  destruct (step_delim0 s t p 93 delim_93 V) as [s1 [E1 V1]].
  destruct (step_delim0 s1 _ 93 d Hd V1) as [s2 [E2 V2]].
  exists s2. split; [cbn [app lex_all]; rewrite E1, E2; reflexivity|].
  rewrite <- app_assoc in V2. exact V2.
Qed.

Lemma float_val_lexes : forall sci c,
  match c with FFin t => ftok_ok t sci /\ float_ok (float_text c sci) = true | _ => True end ->
  lexes_to (float_text c sci)
    (match c with
     | FFin _ => [mkTok TFloat (float_text c sci)]
     | FInf neg => [mkTok TSymbol [if neg then 45 else 43]; mkTok TFloat str_Inf]
     | FNaN => [mkTok TFloat str_NaN]
     end).
Proof.
  intros sci c H. destruct c as [|neg|t].
  - exact nan_lexes.
  - cbn [float_text]. exact (inf_lexes neg).
  - destruct H as [H _]. apply float_fin_lexes; exact H.
Qed.

(* ---- hashes: { k:v "s":v ... } ---- *)

Lemma step_open_curly : forall s t p, view s LNormal [] t p ->
  exists s1, lex_rune s 123 = LOk s1 /\ view s1 LNormal [] (t ++ [mkTok TLCurly []]) 123.
Proof.
  intros s t p V. rewrite lex_rune_normal by apply V.
  apply (push_view _ _ _ _ _ 123) in V. apply pview_view in V. set (s1 := ring_push 123 s) in *. clearbody s1.
  unfold lex_normal; cbn [Z.eqb Pos.eqb orb andb]; unfold with_dump, dump_buffer;
    rewrite (v_buf _ _ _ _ _ V); (eexists; split; [reflexivity|]); apply view_append_token; assumption.
Qed.

Lemma open_curly : forall a tks, lexes_to a tks -> lexes_to (123 :: a) (mkTok TLCurly [] :: tks).
Proof.
  intros a tks Ha s t p d Hd Hcan V.
  destruct (step_open_curly s t p V) as [s1 [E1 V1]].
  destruct (Ha s1 _ 123 d Hd can_start_123 V1) as [s2 [E2 V2]].
  exists s2. split; [cbn [app lex_all]; rewrite E1; exact E2|rewrite <- !app_assoc in V2; exact V2].
Qed.

Lemma close_curly : forall a tks, lexes_to a tks -> lexes_to (a ++ [125]) (tks ++ [mkTok TRCurly []]).
Proof.
  intros a tks Ha s t p d Hd Hcan V.
  destruct (Ha s t p 125 delim_125 Hcan V) as [s1 [E1 V1]].
  destruct (step_delim0 s1 _ 125 d Hd V1) as [s2 [E2 V2]].
  exists s2. split.
  - rewrite lex_all_app, E1. cbn [lex_all]. rewrite E2. reflexivity.
  - rewrite <- !app_assoc in V2. rewrite <- !app_assoc. exact V2.
Qed.

Lemma empty_hash_body_lexes : lexes_to [125] [mkTok TRCurly []].
Proof.
  intros s t p d Hd Hcan V.
  destruct (step_delim0 s t p 125 delim_125 V) as [s1 [E1 V1]].
  destruct (step_delim0 s1 _ 125 d Hd V1) as [s2 [E2 V2]].
  exists s2. split; [cbn [app lex_all]; rewrite E1, E2; reflexivity|]. rewrite <- app_assoc in V2. exact V2.
Qed.

(* symbol keys: names that are not slice bounds and that DecodeAtom, with the colon, takes for a key symbol *)
Definition symkey_ok (n : list Z) : Prop :=
  n <> [] /\ Forall plain n /\ slice_bound n = false /\ decode_atom (n ++ [58]) = Some (mkTok TSymbolColon n).

Definition starts_ok (x : list Z) : Prop := exists r rest, x = r :: rest /\ r <> 61.

Lemma after_colon : forall s b t tok x tx d, view s LFreshAssignOrColon b t 58 -> slice_bound b = false ->
  decode_atom (b ++ [58]) = Some tok -> starts_ok x -> lexes_to x tx -> delim d ->
  exists s', lex_all s (x ++ [d]) = LOk s' /\ view s' LNormal [] (t ++ tok :: tx ++ dtok d) d.
Proof.
  intros s b t tok x tx d V Hsb Hdec [r [rest [Ex Hr]]] Hx Hd. subst x.
  destruct (colon_then s b t r tok V Hr Hsb Hdec) as [s' [V' El]].
  destruct (Hx s' _ 58 d Hd can_start_58 V') as [s2 [E2 V2]].
  exists s2. split.
  - cbn [app lex_all] in *. rewrite El. exact E2.
  - rewrite <- !app_assoc in V2. exact V2.
Qed.

Lemma symkey_lexes : forall n x tx, symkey_ok n -> starts_ok x -> lexes_to x tx ->
  lexes_to (n ++ 58 :: x) (mkTok TSymbolColon n :: tx).
Proof.
  intros n x tx [Hne [Hp [Hsb Hdec]]] Hst Hx s t p d Hd Hcan V.
  destruct (run_plain n s [] t p Hp V) as [s1 [E1 V1]]. cbn [app] in V1.
  destruct (step_colon s1 n t _ V1) as [s2 [E2 V2]].
  destruct (after_colon s2 n t _ x tx d V2 Hsb Hdec Hst Hx Hd) as [s3 [E3 V3]].
  exists s3. split; [|exact V3].
  replace ((n ++ 58 :: x) ++ [d]) with (n ++ 58 :: (x ++ [d])) by (rewrite <- app_assoc; reflexivity).
  rewrite lex_all_app, E1. cbn [lex_all]. rewrite E2. exact E3.
Qed.

(* backtick strings *)
Definition bitem_ok (it : sitem) : Prop := match it with Rune c => c <> 96 | BadByte _ => False end.

Lemma raw_is_rune : forall s, Forall bitem_ok s -> map raw_item s = map item_rune s /\ Forall (fun c => c <> 96) (map raw_item s).
Proof.
  induction s as [|it s IH]; intros F; [split; [reflexivity|constructor]|]. inversion F; subst.
  destruct (IH H2) as [E1 E2]. destruct it as [c|b]; [|destruct H1]. cbn [map raw_item item_rune]. rewrite E1. split; [reflexivity|constructor; [exact H1|rewrite <- E1; exact E2]].
Qed.

Theorem bstr_lexes : forall s, Forall bitem_ok s ->
  lexes_to (96 :: map raw_item s ++ [96]) [mkTok TBeginBacktickString []; mkTok TBacktickString (map item_rune s)].
Proof.
  intros s F st t p d Hd _ V. destruct (raw_is_rune s F) as [E1 E2].
  destruct (step_bt_open st t p V) as [s1 [El1 V1]].
  destruct (run_bt (map raw_item s) s1 [] _ 96 E2 V1) as [s2 [q [El2 V2]]].
  destruct (step_bt_close s2 _ _ q V2) as [s3 [El3 V3]].
  destruct (step_delim0 s3 _ 96 d Hd V3) as [s4 [El4 V4]].
  exists s4. split.
  - cbn [app lex_all]. rewrite El1. rewrite <- app_assoc. rewrite lex_all_app, El2. cbn [app lex_all]. rewrite El3, El4. reflexivity.
  - cbn [app] in V4. rewrite E1 in V4. rewrite <- !app_assoc in V4. cbn [app] in *. exact V4.
Qed.

Lemma strkey_lexes : forall is_print its x tx, Forall (item_ok is_print) its -> starts_ok x -> lexes_to x tx ->
  lexes_to (quote_str is_print its ++ 58 :: x)
           (mkTok TString (map item_rune its) :: mkTok TColonOperator [58] :: tx).
Proof.
  intros ip its x tx F Hst Hx s t p d Hd Hcan V. unfold quote_str.
  destruct (step_str_open s t p V) as [s1 [E1 V1]].
  destruct (items_in_str ip its s1 [] t 34 F V1) as [s2 [q [E2 V2]]].
  destruct (step_str_close s2 _ t q V2) as [s3 [E3 V3]].
  destruct (step_colon s3 [] _ _ V3) as [s4 [E4 V4]].
  assert (slice_bound [] = false) as Hsb by reflexivity.
  assert (decode_atom ([] ++ [58]) = Some (mkTok TColonOperator [58])) as Hdec by (vm_compute; reflexivity).
  destruct (after_colon s4 [] _ _ x tx d V4 Hsb Hdec Hst Hx Hd) as [s5 [E5 V5]].
  exists s5. split.
  - replace ((34 :: flat_map (quote_item ip 34) its ++ [34]) ++ 58 :: x) with
      (34 :: (flat_map (quote_item ip 34) its ++ (34 :: 58 :: x))) by (cbn [app]; rewrite <- app_assoc; reflexivity).
    cbn [app lex_all]. rewrite E1. rewrite <- app_assoc. rewrite lex_all_app, E2. cbn [app lex_all]. rewrite E3, E4. exact E5.
  - rewrite <- !app_assoc in V5. cbn [app] in V5. exact V5.
Qed.

Section Data.
Variable is_print : Z -> bool.

(* the data values of the theorem: every atom is one the printer can write with escapes the
   reader knows; [dat true v]: v in tail position of a pair *)
Fixpoint dat (tail : bool) (v : value) : Prop :=
  let body :=
    match v with
    | VInt z => - 2 ^ 63 <= z < 2 ^ 63
    | VUint z => 0 <= z < 2 ^ 64
    | VFloat _ sci c => match c with FFin t => ftok_ok t sci /\ float_ok (float_text c sci) = true | _ => True end
    | VBool _ => True
    | VNil => True
    | VChar c => rune_ok is_print 39 c
    | VStr s => Forall (item_ok is_print) s
    | VSym n => sym_ok n
    | VPair h t => dat false h /\ dat true t
    | VArr l => (fix all (l : list value) : Prop := match l with [] => True | x :: r => dat false x /\ all r end) l
    | VHash kvs =>
        (fix allp (l : list (value * value)) : Prop :=
           match l with
           | [] => True
           | (k, x) :: r =>
               (match k with VSym n => symkey_ok n | VStr s => Forall (item_ok is_print) s | _ => False end) /\
               dat false x /\ (match x with VSym n => list_eqb n str_for = false | _ => True end) /\ allp r
           end) kvs
    | VBStr s => Forall bitem_ok s
    end in
  if tail then match v with VNil => True | VPair h t => dat false h /\ dat true t | _ => body end else body.

Fixpoint tk (tail : bool) (v : value) : list token :=
  let body :=
    match v with
    | VInt z => [mkTok TDecimal (itoa z)]
    | VUint z => [mkTok TUint64 (utoa z)]
    | VFloat _ sci c =>
        match c with
        | FFin _ => [mkTok TFloat (float_text c sci)]
        | FInf neg => [mkTok TSymbol [if neg then 45 else 43]; mkTok TFloat str_Inf]
        | FNaN => [mkTok TFloat str_NaN]
        end
    | VBool b => [mkTok TBool (if b then str_true else str_false)]
    | VNil => [mkTok TSymbol str_nil]
    | VChar c => [mkTok TChar [c]]
    | VStr s => [mkTok TString (map item_rune s)]
    | VSym n => [mkTok TSymbol n]
    | VPair h t => mkTok TLParen [] :: tk false h ++ tk true t
    | VArr l => mkTok TLSquare [] ::
                (fix el (l : list value) : list token := match l with [] => [] | x :: r => tk false x ++ el r end) l
                ++ [mkTok TRSquare []]
    | VHash kvs =>
        mkTok TLCurly [] ::
        (fix ptoks (l : list (value * value)) : list token :=
           match l with
           | [] => []
           | (k, x) :: r =>
               (match k with
                | VSym n => [mkTok TSymbolColon n]
                | VStr s => [mkTok TString (map item_rune s); mkTok TColonOperator [58]]
                | _ => []
                end) ++ tk false x ++ ptoks r
           end) kvs ++ [mkTok TRCurly []]
    | VBStr s => [mkTok TBeginBacktickString []; mkTok TBacktickString (map item_rune s)]
    end in
  if tail then
    match v with
    | VPair h t => tk false h ++ tk true t
    | VNil => [mkTok TRParen []]
    | _ => mkTok TBackslash [] :: body ++ [mkTok TRParen []]
    end
  else body.

Definition lex_claim (v : value) : Prop :=
  (dat false v -> lexes_to (pr is_print false v) (tk false v)) /\
  (dat true v -> forall a tks, lexes_to a tks -> lexes_to (a ++ pr is_print true v) (tks ++ tk true v)).

Lemma dotted_tail : forall body btk a tks, lexes_to body btk -> lexes_to a tks ->
  lexes_to (a ++ [32; 92; 32] ++ body ++ [41]) (tks ++ mkTok TBackslash [] :: btk ++ [mkTok TRParen []]).
Proof.
  intros body btk a tks Hb Ha.
  change (a ++ [32; 92; 32] ++ body ++ [41]) with (a ++ 32 :: ([92] ++ 32 :: (body ++ [41]))).
  change (tks ++ mkTok TBackslash [] :: btk ++ [mkTok TRParen []]) with (tks ++ ([mkTok TBackslash []] ++ (btk ++ dtok 41))).
  apply seq_space; [exact Ha|]. apply seq_space; [exact backslash_lexes|]. apply close_with; [left; reflexivity|exact Hb].
Qed.

Ltac atom_claim L :=
  split; [intros D; cbn [dat] in D; cbn [pr tk]; apply L; exact D
         |intros D a tks Ha; cbn [dat] in D; cbn [pr tk]; apply dotted_tail; [apply L; exact D|exact Ha]].

Lemma digit_ne61 : forall c, digit c -> c <> 61. Proof. unfold digit; intros; lia. Qed.

Lemma pr_first : forall v, dat false v -> starts_ok (pr is_print false v).
Proof.
  intros v D. unfold starts_ok. destruct v; cbn [pr]; cbn [dat] in D.
  - unfold itoa. destruct (Z.ltb_spec z 0); [eexists; eexists; split; [reflexivity|discriminate]|].
    destruct (dec_cons z ltac:(lia)) as [c [ds [E [Hc _]]]]. rewrite E. eexists; eexists; split; [reflexivity|apply digit_ne61; assumption].
  - unfold utoa. destruct (dec_cons z ltac:(lia)) as [c [ds [E [Hc _]]]]. rewrite E. cbn [app].
    eexists; eexists; split; [reflexivity|apply digit_ne61; assumption].
  - destruct c as [|neg|t].
    + eexists; eexists; split; [reflexivity|discriminate].
    + cbn [float_text]. destruct neg; eexists; eexists; split; try reflexivity; discriminate.
    + destruct D as [Ht _]. destruct (float_text_head t sci Ht) as [h [r [Eh Hh]]]. rewrite Eh.
      eexists; eexists; split; [reflexivity|]. destruct Hh as [Hh|Hh]; [subst; discriminate|apply digit_ne61; assumption].
  - destruct b; eexists; eexists; split; try reflexivity; discriminate.
  - eexists; eexists; split; [reflexivity|discriminate].
  - unfold quote_rune. eexists; eexists; split; [reflexivity|discriminate].
  - unfold quote_str. eexists; eexists; split; [reflexivity|discriminate].
  - destruct D as [Hne [Hp _]]. destruct name as [|c n']; [congruence|]. inversion Hp; subst.
    eexists; eexists; split; [reflexivity|]. apply plain_neq in H1. lia.
  - eexists; eexists; split; [reflexivity|discriminate].
  - eexists; eexists; split; [reflexivity|discriminate].
  - eexists; eexists; split; [reflexivity|discriminate].
  - eexists; eexists; split; [reflexivity|discriminate].
Qed.

Lemma starts_ok_app : forall x y, starts_ok x -> starts_ok (x ++ y).
Proof. intros x y [r [rest [E H]]]. subst. exists r, (rest ++ y). split; [reflexivity|exact H]. Qed.

Lemma lex_claim_all : forall v, lex_claim v.
Proof.
  apply value_ind2.
  - intros z. atom_claim int_lexes.
  - intros z. atom_claim uint_lexes.
  - intros b s c. atom_claim (float_val_lexes s c).
  - intros b. split; [intros _; cbn [pr tk]; apply bool_lexes|intros _ a tks Ha; cbn [pr tk]; apply dotted_tail; [apply bool_lexes|exact Ha]].
  - split; [intros _; cbn [pr tk]; apply nil_lexes|].
    intros _ a tks Ha. cbn [pr tk]. apply (close_with 41); [left; reflexivity|exact Ha].
  - intros c. atom_claim (char_lexes is_print).
  - intros s. atom_claim (str_lexes is_print).
  - intros n. atom_claim sym_lexes.
  - intros h t [Hh _] [_ Ht].
    assert (dat false h /\ dat true t -> lexes_to (pr is_print false (VPair h t)) (tk false (VPair h t))) as Hp.
    { intros [D1 D2]. cbn [pr tk]. apply (open_with 40); [left; reflexivity|]. apply Ht; [exact D2|]. apply Hh; exact D1. }
    split; [exact Hp|].
    intros [D1 D2] a tks Ha. cbn [pr tk].
    change (a ++ 32 :: pr is_print false h ++ pr is_print true t) with (a ++ 32 :: (pr is_print false h ++ pr is_print true t)).
    apply seq_space; [exact Ha|]. apply Ht; [exact D2|]. apply Hh; exact D1.
  - intros l F.
    assert ((fix all (l : list value) : Prop := match l with [] => True | x :: r => dat false x /\ all r end) l ->
            lexes_to (pr is_print false (VArr l)) (tk false (VArr l))) as Hp.
    { intros D. cbn [pr tk]. apply (open_with 91); [right; reflexivity|].
      induction F as [|x r Hx F IH].
      - exact empty_array_lexes.
      - destruct D as [Dx Dr]. destruct r as [|y r'].
        + cbn [app]. rewrite app_nil_r. apply (close_with 93); [right; reflexivity|]. apply Hx; exact Dx.
        + rewrite <- app_assoc. apply seq_space; [apply Hx; exact Dx|]. apply IH; exact Dr. }
    split; [exact Hp|].
    intros D a tks Ha. apply dotted_tail; [apply Hp; exact D|exact Ha].
  - intros kvs F.
    assert ((fix allp (l : list (value * value)) : Prop :=
               match l with
               | [] => True
               | (k, x) :: r =>
                   (match k with VSym n => symkey_ok n | VStr s => Forall (item_ok is_print) s | _ => False end) /\
                   dat false x /\ (match x with VSym n => list_eqb n str_for = false | _ => True end) /\ allp r
               end) kvs ->
            lexes_to (pr is_print false (VHash kvs)) (tk false (VHash kvs))) as Hp.
    { intros D. cbn [pr tk]. apply open_curly.
      induction F as [|[k x] r [_ [Hx _]] F IH].
      - exact empty_hash_body_lexes.
      - destruct D as [Dk [Dx [_ Dr]]]. specialize (IH Dr).
        set (X := pr is_print false x ++ match r with [] => [125] | _ :: _ => 32 :: (fix pairs (l : list (value * value)) : list Z :=
                  match l with
                  | [] => [125]
                  | (k0, x0) :: r0 =>
                      (match k0 with
                       | VStr s | VBStr s => quote_str is_print s ++ [58]
                       | VSym n => n ++ [58]
                       | _ => pr is_print false k0 ++ [58]
                       end) ++ pr is_print false x0 ++ (match r0 with [] => [125] | _ => 32 :: pairs r0 end)
                  end) r end).
        set (TX := tk false x ++ (fix ptoks (l : list (value * value)) : list token :=
                   match l with
                   | [] => []
                   | (k0, x0) :: r0 =>
                       (match k0 with
                        | VSym n => [mkTok TSymbolColon n]
                        | VStr s => [mkTok TString (map item_rune s); mkTok TColonOperator [58]]
                        | _ => []
                        end) ++ tk false x0 ++ ptoks r0
                   end) r ++ [mkTok TRCurly []]).
        assert (lexes_to X TX) as HX.
        { unfold X, TX. destruct r as [|kv r'].
          - cbn [app]. apply close_curly. apply Hx; exact Dx.
          - apply seq_space; [apply Hx; exact Dx|exact IH]. }
        assert (starts_ok X) as HS by (unfold X; apply starts_ok_app; apply pr_first; exact Dx).
        destruct k; try contradiction.
        + replace ((quote_str is_print s ++ [58]) ++ X) with (quote_str is_print s ++ 58 :: X) by (rewrite <- app_assoc; reflexivity).
          replace (([mkTok TString (map item_rune s); mkTok TColonOperator [58]] ++ tk false x ++ _) ++ [mkTok TRCurly []])
            with (mkTok TString (map item_rune s) :: mkTok TColonOperator [58] :: TX) by (unfold TX; cbn [app]; rewrite <- !app_assoc; reflexivity).
          apply strkey_lexes; assumption.
        + replace ((name ++ [58]) ++ X) with (name ++ 58 :: X) by (rewrite <- app_assoc; reflexivity).
          replace (([mkTok TSymbolColon name] ++ tk false x ++ _) ++ [mkTok TRCurly []])
            with (mkTok TSymbolColon name :: TX) by (unfold TX; cbn [app]; rewrite <- !app_assoc; reflexivity).
          apply symkey_lexes; assumption. }
    split; [exact Hp|].
    intros D a tks Ha. apply dotted_tail; [apply Hp; exact D|exact Ha].
  - intros s. atom_claim bstr_lexes.
Qed.

Theorem data_lexes : forall v, dat false v -> lexes_to (print is_print v) (tk false v).
Proof. intros v D. apply (proj1 (lex_claim_all v)). exact D. Qed.

End Data.

(* ======== D: the parser rebuilds the value from the token stream ======== *)

Fixpoint vsize (v : value) : nat :=
  match v with
  | VPair h t => S (vsize h + vsize t)
  | VArr l => S (S ((fix sum (l : list value) : nat := match l with [] => O | x :: r => (vsize x + sum r)%nat end) l))
  | VHash kvs => S (S (S (S ((fix hs (l : list (value * value)) : nat :=
                               match l with [] => O | (_, x) :: r => (vsize x + 4 + hs r)%nat end) kvs))))
  | _ => 1%nat
  end.

Lemma vsize_pos : forall v, (1 <= vsize v)%nat.
Proof. destruct v; simpl; lia. Qed.

Definition value_start (t : token) : Prop :=
  match t_kind t with
  | TDecimal | TUint64 | TBool | TSymbol | TChar | TString | TLParen | TLSquare | TFloat | TLCurly | TBeginBacktickString => True
  | _ => False
  end.

Section Parse.
Variable is_print : Z -> bool.
Notation dat := (dat is_print).

Lemma tk_first : forall v, dat false v -> exists t0 l, tk false v = t0 :: l /\ value_start t0.
Proof.
  intros v D. destruct v; cbn [tk]; try (eexists; eexists; split; [reflexivity|exact I]); try (destruct D; fail).
  destruct c; eexists; eexists; split; try reflexivity; exact I.
Qed.

Notation mq := mkQ (only parsing).

Definition E (v : value) : Prop :=
  dat false v -> forall f acc top rest e i k, (vsize v <= f)%nat ->
  pexpr true false f acc top (mq (tk false v ++ rest) e i) k = k (to_sexp v) (mq rest e i).

Definition PL (t : value) : Prop :=
  dat true t -> forall h, dat false h -> E h -> forall f acc rest e i k, (vsize h + vsize t <= f)%nat ->
  plist true false f acc (mq (tk false h ++ tk true t ++ rest) e i) TRParen k = k (SPair (to_sexp h) (to_sexp t)) (mq rest e i).

Lemma look_cons : forall b acc t l e i kend k, look b acc (mq (t :: l) e i) kend k = k (mq (t :: l) e i).
Proof. reflexivity. Qed.

Lemma need0_cons : forall acc t l e i k, need acc 0 (mq (t :: l) e i) k = k (mq (t :: l) e i).
Proof. reflexivity. Qed.

Lemma pexpr_lsquare : forall f acc top l e i k,
  pexpr true false (S f) acc top (mkQ (mkTok TLSquare [] :: l) e i) k = parray true false f acc (mkQ l e i) [] k.
Proof. reflexivity. Qed.

Lemma sym_not_sign : forall n, sym_ok n -> list_eqb n [45] || list_eqb n [43] = false.
Proof.
  intros n [_ [F _]]. destruct n as [|c [|c2 n]]; try reflexivity.
  - inversion F; subst. apply plain_neq in H1. cbn [list_eqb]. rewrite !andb_true_r.
    apply orb_false_iff; split; apply Z.eqb_neq; lia.
  - cbn [list_eqb]. rewrite !andb_false_r. reflexivity.
Qed.

Lemma list_eqb_eq : forall a b, list_eqb a b = true -> a = b.
Proof.
  induction a as [|x a IH]; destruct b as [|y b]; simpl; intros H; try discriminate; [reflexivity|].
  apply andb_true_iff in H. destruct H as [H1 H2]. apply Z.eqb_eq in H1. subst. f_equal. apply IH; assumption.
Qed.

Lemma sym_not_nil : forall n, sym_ok n -> list_eqb n str_nil = false.
Proof.
  intros n [_ [_ [_ H]]]. destruct (list_eqb n str_nil) eqn:Eq; [|reflexivity]. apply list_eqb_eq in Eq. contradiction.
Qed.

Ltac atom_E := intros D f acc top rest e i k Hf; destruct f as [|f]; [simpl in Hf; lia|];
  cbn [tk app pexpr]; rewrite look_cons; cbn [tok_at nth q_toks q_tail tl q_err q_instr t_kind t_str to_sexp].

Lemma E_atoms :
  (forall z, E (VInt z)) /\ (forall z, E (VUint z)) /\ (forall b, E (VBool b)) /\ E VNil /\
  (forall c, E (VChar c)) /\ (forall s, E (VStr s)) /\ (forall n, E (VSym n)).
Proof.
  repeat split.
  - intros z. atom_E. cbn [dat] in D. rewrite parse_int_itoa by assumption. reflexivity.
  - intros z. atom_E. cbn [dat] in D. rewrite conv_uint64_utoa by assumption.
    replace (length (utoa z) <? 3)%nat with false by (symmetry; unfold utoa; rewrite app_length; apply Nat.ltb_ge; simpl; lia).
    reflexivity.
  - intros b. atom_E. destruct b; reflexivity.
  - atom_E. reflexivity.
  - intros c. atom_E. reflexivity.
  - intros s. atom_E. reflexivity.
  - intros n. atom_E. cbn [dat] in D. rewrite (sym_not_sign n D), (sym_not_nil n D). reflexivity.
Qed.

Lemma E_float : forall b sci c, E (VFloat b sci c).
Proof.
  intros b sci c D f acc top rest e i k Hf. destruct f as [|f]; [simpl in Hf; lia|]. cbn [dat] in D.
  destruct c as [|neg|t]; cbn [tk app].
  - cbn [pexpr]. rewrite look_cons. cbn [tok_at nth q_toks q_tail tl q_err q_instr t_kind t_str to_sexp]. reflexivity.
  - cbn [pexpr]. rewrite look_cons. cbn [tok_at nth q_toks q_tail tl q_err q_instr t_kind t_str to_sexp].
    destruct neg; reflexivity.
  - destruct D as [Ht Hok]. cbn [pexpr]. rewrite look_cons. cbn [tok_at nth q_toks q_tail tl q_err q_instr t_kind t_str to_sexp].
    destruct (float_text_head t sci Ht) as [h [r [Eh Hh]]].
    assert (list_eqb (float_text (FFin t) sci) str_NaN = false) as En.
    { rewrite Eh. cbn [list_eqb str_NaN]. replace (h =? 78) with false; [reflexivity|].
      symmetry. apply Z.eqb_neq. destruct Hh as [Hh|Hh]; [subst; discriminate|unfold digit in Hh; lia]. }
    rewrite En, Hok, (float_text_sci t sci Ht). reflexivity.
Qed.

Lemma pexpr_lcurly : forall f acc top l e i k,
  pexpr true false (S f) acc top (mq (mkTok TLCurly [] :: l) e i) k =
  need acc 0 (mq l e i) (fun q2 =>
    curly_skip f acc q2 (tok_at q2 0) 1 (fun q3 tok2 extra =>
      let as_hash q := plist true false f acc (q_push hash_tok q) TRCurly k in
      let as_infix q := pinfix true false f acc q [] k in
      match t_kind tok2 with
      | TSymbolColon =>
          need acc extra q3 (fun q4 => idx q4 extra (fun second =>
            if kind_is second TSymbol && list_eqb (t_str second) str_for then as_infix q4 else as_hash q4))
      | TRCurly => k SHashEmpty (q_tail q3)
      | TString =>
          need acc extra q3 (fun q4 => idx q4 extra (fun second =>
            if kind_is second TColonOperator then as_hash q4 else as_infix q4))
      | TBeginBacktickString =>
          need acc (extra + 1) q3 (fun q4 => idx q4 extra (fun second => idx q4 (extra + 1) (fun third =>
            if kind_is second TBacktickString && kind_is third TColonOperator then as_hash q4 else as_infix q4)))
      | _ => as_infix q3
      end)).
Proof. reflexivity. Qed.

Lemma pexpr_lcurly_sym : forall f acc top n t0 l e i k,
  (kind_is t0 TSymbol && list_eqb (t_str t0) str_for) = false ->
  pexpr true false (S (S f)) acc top (mq (mkTok TLCurly [] :: mkTok TSymbolColon n :: t0 :: l) e i) k =
  plist true false (S f) acc (mq (hash_tok :: mkTok TSymbolColon n :: t0 :: l) e i) TRCurly k.
Proof.
  intros. rewrite pexpr_lcurly. Opaque plist pinfix. unfold need; simpl; unfold need, idx; simpl. Transparent plist pinfix.
  match goal with |- context [if ?c then _ else _] => change c with (kind_is t0 TSymbol && list_eqb (t_str t0) str_for); rewrite H end. reflexivity.
Qed.

Lemma pexpr_lcurly_str : forall f acc top s l e i k,
  pexpr true false (S (S f)) acc top (mq (mkTok TLCurly [] :: mkTok TString s :: mkTok TColonOperator [58] :: l) e i) k =
  plist true false (S f) acc (mq (hash_tok :: mkTok TString s :: mkTok TColonOperator [58] :: l) e i) TRCurly k.
Proof.
  intros. rewrite pexpr_lcurly. Opaque plist pinfix. unfold need; simpl; unfold need, idx; simpl. Transparent plist pinfix. reflexivity.
Qed.

Lemma pexpr_lcurly_empty : forall f acc top l e i k,
  pexpr true false (S (S f)) acc top (mq (mkTok TLCurly [] :: mkTok TRCurly [] :: l) e i) k = k SHashEmpty (mq l e i).
Proof.
  intros. rewrite pexpr_lcurly. Opaque plist pinfix. unfold need; simpl; unfold need, idx; simpl. Transparent plist pinfix. reflexivity.
Qed.

Lemma kind_is_start : forall t k, value_start t -> (k = TRParen \/ k = TBackslash \/ k = TComma \/ k = TRSquare) -> kind_is t k = false.
Proof.
  intros t k H Hk. unfold kind_is, value_start in *. destruct (t_kind t); try contradiction;
    destruct Hk as [Hk|[Hk|[Hk|Hk]]]; subst k; reflexivity.
Qed.

Lemma E_bstr : forall s, E (VBStr s).
Proof.
  intros s D f acc top rest e i k Hf. destruct f as [|f]; [simpl in Hf; lia|].
  cbn [tk app pexpr]. rewrite look_cons. cbn [tok_at nth q_toks q_tail tl q_err q_instr t_kind t_str to_sexp]. reflexivity.
Qed.

Lemma kind_is_start_curly : forall t, value_start t -> kind_is t TRCurly = false.
Proof. intros t H. unfold kind_is, value_start in *. destruct (t_kind t); try contradiction; reflexivity. Qed.

(* ---- a flat list of items up to the closing curly: what ParseList does with the body of (hash ...) ---- *)
Fixpoint sexp_list (l : list sexp) : sexp := match l with [] => SNull | x :: r => SPair x (sexp_list r) end.

Definition pitem_ok (N : nat) (it : list token * sexp) : Prop :=
  (exists t0 l, fst it = t0 :: l /\ kind_is t0 TRCurly = false /\ kind_is t0 TBackslash = false) /\
  forall f acc rest e i k, (N <= f)%nat ->
    pexpr true false f acc false (mq (fst it ++ rest) e i) k = k (snd it) (mq rest e i).

Lemma plist_items : forall N items f acc rest e i k, Forall (pitem_ok N) items -> (N + length items + 1 <= f)%nat ->
  plist true false f acc (mq (concat (map fst items) ++ mkTok TRCurly [] :: rest) e i) TRCurly k =
  k (sexp_list (map snd items)) (mq rest e i).
Proof.
  intros N items. induction items as [|it items IH]; intros f acc rest e i k F Hf.
  - destruct f as [|f]; [simpl in Hf; lia|]. cbn [map concat app plist]. rewrite need0_cons.
    cbn [tok_at nth q_toks]. change (kind_is (mkTok TRCurly []) TRCurly) with true. cbv iota. reflexivity.
  - inversion F as [|x l [[t0 [l0 [E0 [K1 K2]]]] Hp] F']; subst.
    destruct f as [|f]; [simpl in Hf; lia|]. cbn [map concat]. rewrite <- app_assoc.
    cbn [plist]. rewrite E0. rewrite <- app_comm_cons. rewrite need0_cons. cbn [tok_at nth q_toks]. rewrite K1.
    rewrite app_comm_cons, <- E0.
    rewrite (Hp f acc _ e i) by (simpl in Hf; lia).
    assert (exists t1 l1, concat (map fst items) ++ mkTok TRCurly [] :: rest = t1 :: l1 /\ kind_is t1 TBackslash = false) as [t1 [l1 [E1 K3]]].
    { destruct items as [|it2 items'].
      - cbn [map concat app]. eexists; eexists; split; [reflexivity|reflexivity].
      - inversion F' as [|x2 l2 [[t2 [l2' [E2 [_ K4]]]] _] _]; subst. cbn [map concat]. rewrite E2.
        cbn [app]. eexists; eexists; split; [reflexivity|exact K4]. }
    rewrite E1. rewrite look_cons. cbn [tok_at nth q_toks]. rewrite K3. rewrite <- E1.
    cbn [map sexp_list].
    apply (IH f acc rest e i (fun tl q' => k (SPair (snd it) tl) q') F'). simpl in Hf. simpl. lia.
Qed.

Lemma PL_step : forall h t, dat false h -> E h ->
  forall f acc rest e i k, (vsize h + vsize t <= f)%nat ->
  forall tt trest, tk true t ++ rest = tt :: trest ->
  plist true false f acc (mq (tk false h ++ tk true t ++ rest) e i) TRParen k =
  (let rest' q := plist true false (pred f) acc q TRParen (fun tl q' => k (SPair (to_sexp h) tl) q') in
   if kind_is tt TBackslash then
     pexpr true false (pred f) acc false (mq trest e i) (fun tail q4 =>
       look true acc q4 (fun _ => OErr acc) (fun q5 =>
         if kind_is (tok_at q5 0) TRParen then k (SPair (to_sexp h) tail) (q_tail q5) else OErr acc))
   else rest' (mq (tt :: trest) e i)).
Proof.
  intros h t Dh Eh f acc rest e i k Hf tt trest Ht.
  destruct f as [|f]; [pose proof (vsize_pos h); lia|]. cbn [pred].
  destruct (tk_first h Dh) as [t0 [l0 [E0 S0]]].
  cbn [plist]. rewrite E0. rewrite <- app_comm_cons. idtac. rewrite need0_cons.
  cbn [tok_at nth q_toks]. rewrite (kind_is_start t0 TRParen S0) by auto.
  rewrite app_comm_cons, <- E0.
  pose proof (vsize_pos t).
  rewrite (Eh Dh f acc false (tk true t ++ rest) e i) by lia.
  rewrite Ht. idtac. rewrite look_cons. cbn [tok_at nth q_toks q_tail tl q_err q_instr]. reflexivity.
Qed.

(* the items of the body of a printed hash *)
Fixpoint pair_items (kvs : list (value * value)) : list (list token * sexp) :=
  match kvs with
  | [] => []
  | (k, x) :: r =>
      (match k with
       | VSym n => [([mkTok TSymbolColon n], SSym true false n)]
       | VStr s => [([mkTok TString (map item_rune s)], SStr false (map item_rune s)); ([mkTok TColonOperator [58]], sym [58])]
       | _ => []
       end) ++ (tk false x, to_sexp x) :: pair_items r
  end.

Definition allp (kvs : list (value * value)) : Prop :=
  (fix allp (l : list (value * value)) : Prop :=
     match l with
     | [] => True
     | (k, x) :: r =>
         (match k with VSym n => symkey_ok n | VStr s => Forall (item_ok is_print) s | _ => False end) /\
         dat false x /\ (match x with VSym n => list_eqb n str_for = false | _ => True end) /\ allp r
     end) kvs.

Definition vsum (kvs : list (value * value)) : nat :=
  (fix hs (l : list (value * value)) : nat := match l with [] => O | (_, x) :: r => (vsize x + 4 + hs r)%nat end) kvs.

Definition vs2 (kvs : list (value * value)) : nat :=
  (fix hs (l : list (value * value)) : nat := match l with [] => O | (_, x) :: r => (vsize x + hs r)%nat end) kvs.

Lemma vsum_vs2 : forall kvs, vsum kvs = (vs2 kvs + 4 * length kvs)%nat.
Proof. induction kvs as [|[k x] r IH]; [reflexivity|]. unfold vsum, vs2 in *. cbn [length]. lia. Qed.

Lemma pair_items_toks : forall kvs, allp kvs ->
  (fix ptoks (l : list (value * value)) : list token :=
     match l with
     | [] => []
     | (k, x) :: r =>
         (match k with
          | VSym n => [mkTok TSymbolColon n]
          | VStr s => [mkTok TString (map item_rune s); mkTok TColonOperator [58]]
          | _ => []
          end) ++ tk false x ++ ptoks r
     end) kvs = concat (map fst (pair_items kvs)).
Proof.
  induction kvs as [|[k x] r IH]; intros D; [reflexivity|]. destruct D as [Dk [Dx [_ Dr]]].
  cbn [pair_items]. rewrite map_app, concat_app. cbn [map concat fst]. rewrite <- (IH Dr).
  destruct k; try contradiction; reflexivity.
Qed.

Lemma pair_items_sexp : forall kvs, allp kvs ->
  (fix items (l : list (value * value)) : sexp :=
     match l with
     | [] => SNull
     | (k, x) :: r =>
         match k with
         | VSym n => SPair (SSym true false n) (SPair (to_sexp x) (items r))
         | VStr s => SPair (SStr false (map item_rune s)) (SPair (sym [58]) (SPair (to_sexp x) (items r)))
         | _ => SPair (to_sexp k) (SPair (sym [58]) (SPair (to_sexp x) (items r)))
         end
     end) kvs = sexp_list (map snd (pair_items kvs)).
Proof.
  induction kvs as [|[k x] r IH]; intros D; [reflexivity|]. destruct D as [Dk [Dx [_ Dr]]].
  cbn [pair_items]. rewrite map_app. rewrite <- (IH Dr) || idtac.
  destruct k; try contradiction; cbn [map app snd sexp_list]; rewrite <- (IH Dr); reflexivity.
Qed.

Lemma one_tok_item : forall N t e, (1 <= N)%nat -> kind_is t TRCurly = false -> kind_is t TBackslash = false ->
  (forall f acc rest e' i k, pexpr true false (S f) acc false (mq (t :: rest) e' i) k = k e (mq rest e' i)) ->
  pitem_ok N ([t], e).
Proof.
  intros N t e HN K1 K2 H. split; [exists t, []; auto|].
  intros f acc rest e' i k Hf. destruct f as [|f]; [lia|]. apply H.
Qed.

Lemma pair_items_ok : forall kvs, allp kvs -> Forall (fun kv => E (snd kv)) kvs ->
  forall N, (vs2 kvs <= N)%nat -> (1 <= N)%nat -> Forall (pitem_ok N) (pair_items kvs).
Proof.
  induction kvs as [|[k x] r IH]; intros D FE N HN H1; [constructor|].
  destruct D as [Dk [Dx [_ Dr]]]. inversion FE as [|kv l Ex FE']; subst. cbn [snd] in Ex.
  cbn [pair_items]. apply Forall_app. split.
  - destruct k; try contradiction.
    + constructor; [|constructor; [|constructor]].
      * apply one_tok_item; auto; intros; cbn [pexpr]; rewrite look_cons; reflexivity.
      * apply one_tok_item; auto; intros; cbn [pexpr]; rewrite look_cons; reflexivity.
    + constructor; [|constructor]. apply one_tok_item; auto; intros; cbn [pexpr]; rewrite look_cons; reflexivity.
  - constructor.
    + split.
      * destruct (tk_first x Dx) as [t0 [l0 [E0 S0]]]. exists t0, l0. cbn [fst]. split; [exact E0|].
        split; [apply kind_is_start_curly; exact S0|apply kind_is_start; auto].
      * intros f acc rest e i k' Hf. cbn [fst snd]. apply (Ex Dx). unfold vs2 in HN. lia.
    + apply IH; auto. unfold vs2 in *. lia.
Qed.

Lemma pair_items_len : forall kvs, (length (pair_items kvs) <= 3 * length kvs)%nat.
Proof.
  induction kvs as [|[k x] r IH]; [simpl; lia|]. cbn [pair_items]. rewrite app_length. cbn [length].
  destruct k; cbn [length]; lia.
Qed.

Lemma vsum_len : forall kvs, (4 * length kvs <= vsum kvs)%nat.
Proof. induction kvs as [|[k x] r IH]; [simpl; lia|]. unfold vsum in *. cbn [length]. lia. Qed.

Lemma first_not_for : forall x, dat false x -> (match x with VSym n => list_eqb n str_for = false | _ => True end) ->
  forall t0 l0, tk false x = t0 :: l0 -> (kind_is t0 TSymbol && list_eqb (t_str t0) str_for) = false.
Proof.
  intros x D Hfor t0 l0 E0. destruct x; cbn [tk] in E0; try (inversion E0; subst; reflexivity).
  - destruct c; inversion E0; subst; try reflexivity. destruct neg; reflexivity.
  - inversion E0; subst. cbn [t_kind t_str kind_is tkind_eqb andb]. exact Hfor.
Qed.

Lemma norm_l : forall (c x : token) A Z rest, (c :: (A ++ Z) ++ [x]) ++ rest = c :: A ++ (Z ++ x :: rest).
Proof. intros. cbn [app]. rewrite <- !app_assoc. reflexivity. Qed.
Lemma norm_r : forall (c x : token) A Z rest, c :: (A ++ Z) ++ x :: rest = c :: A ++ (Z ++ x :: rest).
Proof. intros. rewrite <- !app_assoc. reflexivity. Qed.

Lemma E_hash : forall kvs, Forall (fun kv => E (snd kv)) kvs -> E (VHash kvs).
Proof.
  intros kvs FE D f acc top rest e i k Hf. change (dat false (VHash kvs)) with (allp kvs) in D.
  destruct kvs as [|[k0 x0] r].
  - destruct f as [|[|f]]; try (simpl in Hf; lia). cbn [tk app to_sexp]. apply pexpr_lcurly_empty.
  - assert (vsum ((k0, x0) :: r) + 4 <= f)%nat as Hf' by (simpl in Hf; unfold vsum; lia).
    pose proof (vsize_pos x0) as Hx0.
    assert (1 <= vs2 ((k0, x0) :: r))%nat as H1 by (unfold vs2; lia).
    destruct f as [|[|f]]; try lia.
    pose proof (pair_items_ok _ D FE (vs2 ((k0, x0) :: r)) (le_n _) H1) as Fit.
    assert (pitem_ok (vs2 ((k0, x0) :: r)) ([hash_tok], sym str_hash)) as Hh.
    { apply one_tok_item; auto; intros; cbn [pexpr]; rewrite look_cons; reflexivity. }
    pose proof (plist_items _ (([hash_tok], sym str_hash) :: pair_items ((k0, x0) :: r)) (S f) acc rest e i k
                  (Forall_cons _ Hh Fit)) as HP.
    cbn [map concat fst snd sexp_list app] in HP.
    rewrite <- (pair_items_toks _ D) in HP. rewrite <- (pair_items_sexp _ D) in HP.
    assert (to_sexp (VHash ((k0, x0) :: r)) = SPair (sym str_hash)
             ((fix items (l : list (value * value)) : sexp :=
                 match l with
                 | [] => SNull
                 | (k, x) :: r =>
                     match k with
                     | VSym n => SPair (SSym true false n) (SPair (to_sexp x) (items r))
                     | VStr s => SPair (SStr false (map item_rune s)) (SPair (sym [58]) (SPair (to_sexp x) (items r)))
                     | _ => SPair (to_sexp k) (SPair (sym [58]) (SPair (to_sexp x) (items r)))
                     end
                 end) ((k0, x0) :: r))) as Ets by reflexivity.
    rewrite Ets. rewrite <- HP.
    2:{ cbn [length]. pose proof (pair_items_len ((k0, x0) :: r)). pose proof (vsum_vs2 ((k0, x0) :: r)). lia. }
    clear HP Ets. destruct D as [Dk [Dx [Dfor Dr]]].
    destruct (tk_first x0 Dx) as [t0 [l0 [E0 S0]]].
    pose proof (first_not_for x0 Dx Dfor t0 l0 E0) as Hnf.
    cbn [tk]. destruct k0; try contradiction.
    + rewrite norm_l, norm_r. cbn [app]. apply pexpr_lcurly_str.
    + rewrite norm_l, norm_r. rewrite E0. cbn [app]. apply pexpr_lcurly_sym. exact Hnf.
Qed.

Lemma parse_claim : forall v, E v /\ PL v.
Proof.
  destruct E_atoms as [Ei [Eu [Eb [En [Ec [Es Ey]]]]]].
  assert (forall v, (match v with VPair _ _ | VNil => False | _ => True end) -> E v -> PL v) as Hdot.
  { intros v Hshape Ev Dt h Dh Eh f acc rest e i k Hf.
    assert (dat false v) as Dv by (destruct v; try contradiction; exact Dt).
    assert (exists body, tk true v = mkTok TBackslash [] :: body ++ [mkTok TRParen []] /\ tk false v = body) as [body [Hb1 Hb2]]
      by (destruct v; try contradiction; eexists; split; reflexivity).
    rewrite (PL_step h v Dh Eh f acc rest e i k Hf (mkTok TBackslash []) (tk false v ++ mkTok TRParen [] :: rest))
      by (rewrite Hb1, Hb2; rewrite <- app_comm_cons, <- app_assoc; reflexivity).
    cbv zeta. change (kind_is (mkTok TBackslash []) TBackslash) with true. cbv iota.
    pose proof (vsize_pos h).
    rewrite (Ev Dv (pred f) acc false (mkTok TRParen [] :: rest) e i) by lia.
    idtac. rewrite look_cons. reflexivity. }
  apply value_ind2.
  - intros z. split; [apply Ei|apply Hdot; [exact I|apply Ei]].
  - intros z. split; [apply Eu|apply Hdot; [exact I|apply Eu]].
  - intros b s c. split; [apply E_float|apply Hdot; [exact I|apply E_float]].
  - intros b. split; [apply Eb|apply Hdot; [exact I|apply Eb]].
  - split; [apply En|].
    intros _ h Dh Eh f acc rest e i k Hf.
    rewrite (PL_step h VNil Dh Eh f acc rest e i k Hf (mkTok TRParen []) rest) by reflexivity.
    cbv zeta. change (kind_is (mkTok TRParen []) TBackslash) with false. cbv iota.
    pose proof (vsize_pos h). destruct f as [|[|f]]; [simpl in Hf; lia|simpl in Hf; lia|]. reflexivity.
  - intros c. split; [apply Ec|apply Hdot; [exact I|apply Ec]].
  - intros s. split; [apply Es|apply Hdot; [exact I|apply Es]].
  - intros n. split; [apply Ey|apply Hdot; [exact I|apply Ey]].
  - intros h t [Eh _] [Et PLt].
    assert (E (VPair h t)) as Ep.
    { intros [D1 D2] f acc top rest e i k Hf. destruct f as [|f]; [simpl in Hf; lia|].
      cbn [tk pexpr]. rewrite <- app_comm_cons. idtac. rewrite look_cons.
      cbn [tok_at nth q_toks t_kind q_tail tl q_err q_instr]. rewrite <- app_assoc.
      apply (PLt D2 h D1 Eh f acc rest e i k). simpl in Hf. lia. }
    split; [exact Ep|].
    intros [D1 D2] h0 Dh0 Eh0 f acc rest e i k Hf.
    destruct (tk_first h D1) as [t0 [l0 [E0 S0]]].
    rewrite (PL_step h0 (VPair h t) Dh0 Eh0 f acc rest e i k Hf t0 (l0 ++ tk true t ++ rest))
      by (cbn [tk]; rewrite E0, <- app_assoc; reflexivity).
    cbv zeta. rewrite (kind_is_start t0 TBackslash S0) by auto.
    rewrite app_comm_cons, <- E0.
    cbn [to_sexp]. apply (PLt D2 h D1 Eh (pred f) acc rest e i). simpl in Hf. pose proof (vsize_pos h0). lia.
  - intros l F.
    assert (forall f acc rest e i k arr,
      (fix all (l : list value) : Prop := match l with [] => True | x :: r => dat false x /\ all r end) l ->
      (S ((fix sum (l : list value) : nat := match l with [] => O | x :: r => (vsize x + sum r)%nat end) l) <= f)%nat ->
      parray true false f acc (mq ((fix el (l : list value) : list token := match l with [] => [] | x :: r => tk false x ++ el r end) l
                              ++ mkTok TRSquare [] :: rest) e i) arr k =
      k (SArr false (rev arr ++ map to_sexp l)) (mq rest e i)) as Harr.
    { induction F as [|x r Hx F IH]; intros f acc rest e i k arr D Hf.
      - destruct f as [|f]; [lia|]. cbn [app parray]. idtac. rewrite need0_cons. cbn [tok_at nth q_toks].
        change (kind_is (mkTok TRSquare []) TComma) with false. change (kind_is (mkTok TRSquare []) TRSquare) with true.
        cbv iota. rewrite app_nil_r. reflexivity.
      - destruct D as [Dx Dr]. destruct f as [|f]; [lia|].
        destruct (tk_first x Dx) as [t0 [l0 [E0 S0]]].
        cbn [parray]. rewrite E0. rewrite <- !app_comm_cons. idtac. rewrite need0_cons. cbn [tok_at nth q_toks].
        rewrite (kind_is_start t0 TComma S0), (kind_is_start t0 TRSquare S0) by auto.
        rewrite !app_comm_cons, <- E0, <- app_assoc.
        destruct Hx as [Ex _]. pose proof (vsize_pos x).
        rewrite (Ex Dx f acc false _ e i) by lia.
        rewrite (IH f acc rest e i k (to_sexp x :: arr) Dr) by lia.
        cbn [rev map]. rewrite <- app_assoc. reflexivity. }
    assert (E (VArr l)) as Ea.
    { intros D f acc top rest e i k Hf. destruct f as [|f]; [simpl in Hf; lia|].
      cbn [tk]. rewrite <- app_comm_cons. rewrite pexpr_lsquare. rewrite <- app_assoc.
      cbn [app]. rewrite (Harr f acc rest e i k [] D) by (simpl in Hf; lia). reflexivity. }
    split; [exact Ea|apply Hdot; [exact I|exact Ea]].
  - intros kvs F.
    assert (E (VHash kvs)) as Eh by (apply E_hash; eapply Forall_impl; [|exact F]; intros kv [_ [H _]]; exact H).
    split; [exact Eh|apply Hdot; [exact I|exact Eh]].
  - intros s. split; [apply E_bstr|apply Hdot; [exact I|apply E_bstr]].
Qed.

End Parse.

(* ======== the whole reader on a printed value ======== *)

Lemma to_sexp_not_end : forall is_print v, dat is_print false v -> is_send (to_sexp v) = false.
Proof. intros ip v D. destruct v; try reflexivity; try (destruct c; reflexivity); try (destruct kvs; reflexivity); destruct D. Qed.

Theorem read_print_data : forall is_print v fuel, dat is_print false v -> (vsize v + 3 <= fuel)%nat ->
  observe (parse_whole true false fuel (print is_print v)) = (StDone, [to_sexp v]).
Proof.
  intros ip v fuel D Hf.
  destruct (data_lexes ip v D init_lstate [] 0 10 delim_10 can_start_0) as [s' [El V]].
  { destruct init_ring_ok as [R1 R2]. split; try reflexivity; assumption. }
  unfold parse_whole, parse_after, p_deliver, p_reset, p_init. cbn [ps_lex ps_out].
  rewrite reset_is_init. unfold nl. rewrite El. cbn [lres_state lres_ok negb].
  destruct V as [V1 V2 V3 V4 V5]. rewrite V3. unfold in_string_or_rune. rewrite V1.
  change (dtok 10) with (@nil token). rewrite app_nil_r. cbn [app].
  destruct fuel as [|[|[|f3]]]; try lia. cbn [resume].
  change (ptop true false (S (S (S f3))) [] (mkQ (tk false v) false false))
    with (pexpr true false (S (S f3)) [] true (mkQ (tk false v) false false)
            (fun e q' => if is_send e then (if q_instr q' then OMoreTop [] (S (S (S f3))) else ODone [] (S (S (S f3))))
                         else ptop true false (S (S f3)) ([] ++ [e]) q')).
  rewrite <- (app_nil_r (tk false v)).
  rewrite (proj1 (parse_claim ip v) D (S (S f3)) [] true [] false false) by lia.
  rewrite (to_sexp_not_end ip v D). reflexivity.
Qed.

(* ======== E: literals denote their mathematical value ======== *)

Lemma digit_val_of : forall base c d, 2 <= base <= 16 -> digit_val c = Some d -> d < base -> digit_of c = d.
Proof.
  intros base c d Hb H Hd. unfold digit_val in H. unfold digit_of.
  destruct ((48 <=? c) && (c <=? 57)); [inversion H; reflexivity|].
  destruct ((97 <=? c) && (c <=? 122)) eqn:E1.
  - inversion H; subst. apply andb_true_iff in E1. destruct E1 as [A B]. apply Z.leb_le in A.
    replace ((97 <=? c) && (c <=? 102)) with true by (symmetry; apply andb_true_iff; split; apply Z.leb_le; lia). lia.
  - destruct ((65 <=? c) && (c <=? 90)) eqn:E2; [|discriminate]. inversion H; subst.
    destruct ((97 <=? c) && (c <=? 102)) eqn:E3; [|lia].
    apply andb_true_iff in E3. destruct E3 as [A B]. apply Z.leb_le in A.
    apply andb_true_iff in E2. destruct E2 as [A2 B2]. apply Z.leb_le in B2. lia.
Qed.

Lemma digits_val_pos_value : forall base s acc v, 2 <= base <= 16 -> digits_val base s acc = Some v ->
  v = acc * base ^ Z.of_nat (length s) + pos_value base (map digit_of s).
Proof.
  intros base s. induction s as [|c s IH]; intros acc v Hb H.
  - simpl in *. inversion H. lia.
  - cbn [digits_val] in H. destruct (digit_val c) as [d|] eqn:Ed; [|discriminate].
    destruct (Z.ltb_spec d base) as [Hd|Hd]; [|discriminate].
    apply IH in H; [|assumption].
    cbn [map pos_value length]. rewrite map_length. rewrite Nat2Z.inj_succ, Z.pow_succ_r by lia. rewrite H.
    rewrite (digit_val_of base c d Hb Ed Hd). ring.
Qed.

Lemma digit_val_nonneg : forall c d, digit_val c = Some d -> 0 <= d.
Proof.
  intros c d H. unfold digit_val in H.
  destruct ((48 <=? c) && (c <=? 57)) eqn:E1; [apply andb_true_iff in E1; destruct E1 as [A B]; apply Z.leb_le in A; inversion H; lia|].
  destruct ((97 <=? c) && (c <=? 122)) eqn:E2; [apply andb_true_iff in E2; destruct E2 as [A B]; apply Z.leb_le in A; inversion H; lia|].
  destruct ((65 <=? c) && (c <=? 90)) eqn:E3; [apply andb_true_iff in E3; destruct E3 as [A B]; apply Z.leb_le in A; inversion H; lia|discriminate].
Qed.

Lemma digits_val_nonneg : forall base s a v, 0 <= base -> 0 <= a -> digits_val base s a = Some v -> 0 <= v.
Proof.
  intros base s. induction s as [|x s IH]; intros a v Hb Ha H; simpl in H.
  - inversion H; subst; assumption.
  - destruct (digit_val x) as [d|] eqn:Ed; [|discriminate]. destruct (Z.ltb_spec d base); [|discriminate].
    apply IH in H; [assumption|assumption|]. apply digit_val_nonneg in Ed. nia.
Qed.

Definition no_sign (s : list Z) : Prop := match s with 45 :: _ | 43 :: _ => False | _ => True end.

Lemma parse_int_value : forall base s v, 2 <= base <= 16 -> no_sign s -> parse_int base s = Some v ->
  v = pos_value base (map digit_of s) /\ 0 <= v < 2 ^ 63.
Proof.
  intros base s v Hb Hn H. unfold parse_int in H.
  assert ((match s with 45 :: t => (true, t) | 43 :: t => (false, t) | _ => (false, s) end) = (false, s)) as E.
  { destruct s as [|c s]; [reflexivity|]. destruct c as [|q|q]; try reflexivity.
    do 6 (destruct q as [q|q|]; try reflexivity); contradiction. }
  rewrite E in H. destruct s as [|c s]; [discriminate|].
  destruct (digits_val base (c :: s) 0) as [w|] eqn:Ew; [|discriminate].
  destruct (Z.ltb_spec w (2 ^ 63)); [|discriminate]. inversion H; subst.
  pose proof (digits_val_pos_value base (c :: s) 0 v Hb Ew) as Hv. rewrite Z.mul_0_l, Z.add_0_l in Hv.
  split; [exact Hv|]. split; [|assumption].
  apply (digits_val_nonneg base (c :: s) 0 v); [lia|lia|exact Ew].
Qed.

Section Denote.
Variable pf : list Z -> option Z.

(* decimal, with sign and underscores: parser.go case TokenDecimal *)
Theorem literal_denotes_dec : forall neg ds v,
  no_sign (remove_z 95 ds) ->
  atom_value pf (mkTok TDecimal (spell NDec neg ds)) = Some (RInt v) ->
  v = math_value NDec neg ds /\ - 2 ^ 63 <= v < 2 ^ 63.
Proof.
  intros neg ds v Hn H. unfold atom_value in H. cbn [t_kind t_str spell] in H. unfold math_value. cbn [notation_base].
  destruct neg.
  - cbn [app remove_z] in H. change (45 =? 95) with false in H. cbv iota in H.
    unfold parse_int in H. destruct (remove_z 95 ds) as [|c s] eqn:Er; [discriminate|].
    destruct (digits_val 10 (c :: s) 0) as [w|] eqn:Ew; [|discriminate].
    destruct (Z.leb_spec w (2 ^ 63)); [|discriminate]. inversion H; subst.
    pose proof (digits_val_pos_value 10 (c :: s) 0 w ltac:(lia) Ew) as Hv. rewrite Z.mul_0_l, Z.add_0_l in Hv.
    pose proof (digits_val_nonneg 10 (c :: s) 0 w ltac:(lia) ltac:(lia) Ew).
    split; [rewrite Hv; reflexivity|lia].
  - cbn [app] in H. destruct (parse_int 10 (remove_z 95 ds)) as [w|] eqn:Ew; [|discriminate]. inversion H; subst.
    destruct (parse_int_value 10 _ v ltac:(lia) Hn Ew) as [A B]. split; [exact A|lia].
Qed.

(* hex / octal / binary: the token text is the digits after the prefix (DecodeAtom: atom[2:]) *)
Theorem literal_denotes_radix : forall kind base ds v,
  ((kind = THex /\ base = 16) \/ (kind = TOct /\ base = 8) \/ (kind = TBinary /\ base = 2)) ->
  no_sign ds -> atom_value pf (mkTok kind ds) = Some (RInt v) ->
  v = pos_value base (map digit_of ds) /\ 0 <= v < 2 ^ 63.
Proof.
  intros kind base ds v Hk Hn H. unfold atom_value in H. cbn [t_kind t_str] in H.
  destruct Hk as [[? ?]|[[? ?]|[? ?]]]; subst; cbn iota in H;
    (destruct (parse_int _ ds) as [w|] eqn:Ew; [|discriminate]); inversion H; subst;
    apply (parse_int_value _ ds v); (lia || assumption).
Qed.

Lemma parse_uint_value : forall base s v, 2 <= base <= 16 -> parse_uint base s = Some v ->
  v = pos_value base (map digit_of s) /\ 0 <= v < 2 ^ 64.
Proof.
  intros base s v Hb H. unfold parse_uint in H. destruct s as [|c s]; [discriminate|].
  destruct (digits_val base (c :: s) 0) as [w|] eqn:Ew; [|discriminate].
  destruct (Z.ltb_spec w (2 ^ 64)); [|discriminate]. inversion H; subst.
  pose proof (digits_val_pos_value base (c :: s) 0 v Hb Ew) as Hv. rewrite Z.mul_0_l, Z.add_0_l in Hv.
  pose proof (digits_val_nonneg base (c :: s) 0 v ltac:(lia) ltac:(lia) Ew). split; [exact Hv|lia].
Qed.

Lemma byte_len_nonneg : forall s, 0 <= byte_len s.
Proof. induction s as [|c s IH]; simpl; [lia|]. unfold utf8_len. destruct (c <? 128), (c <? 2048), (c <? 65536); lia. Qed.

(* uint64 suffix: decimal digits, or 0x / 0o prefix: parser.go case TokenUint64 *)
Theorem literal_denotes_uint : forall n ds v, (n = NUDec \/ n = NUHex \/ n = NUOct) -> ds <> [] ->
  (n = NUDec -> starts_with [48; 111] ds = false /\ starts_with [48; 120] ds = false) ->
  atom_value pf (mkTok TUint64 (spell n false ds)) = Some (RUint v) ->
  v = pos_value (notation_base n) (map digit_of ds) /\ 0 <= v < 2 ^ 64.
Proof.
  intros n ds v Hn Hne Hd H. unfold atom_value in H. cbn [t_kind t_str] in H. unfold conv_uint64 in H.
  assert (forall (c : Z) l, 2 <? byte_len (48 :: c :: l) = negb (match l with [] => true | _ => false end) \/ True) as _ by (right; exact I).
  destruct Hn as [?|[?|?]]; subst n; cbn [spell notation_base] in *.
  - destruct (Hd eq_refl) as [A B]. change 3%nat with (length str_ULL) in H. rewrite firstn_app_len in H.
    rewrite A, B, !andb_false_r in H.
    destruct (parse_uint 10 ds) as [w|] eqn:Ew; [|discriminate]. inversion H; subst. apply parse_uint_value; [lia|assumption].
  - replace ([48; 120] ++ ds ++ str_ULL) with (([48; 120] ++ ds) ++ str_ULL) in H by (rewrite <- app_assoc; reflexivity).
    change 3%nat with (length str_ULL) in H. rewrite firstn_app_len in H.
    destruct ds as [|c ds]; [congruence|].
    assert (2 <? byte_len ([48; 120] ++ c :: ds) = true) as Hb.
    { apply Z.ltb_lt. cbn [app byte_len]. pose proof (byte_len_nonneg ds). unfold utf8_len.
      change (48 <? 128) with true. change (120 <? 128) with true. cbv iota.
      destruct (c <? 128), (c <? 2048), (c <? 65536); lia. }
    rewrite Hb in H. cbn [app starts_with Z.eqb Pos.eqb andb skipn] in H.
    destruct (parse_uint 16 (c :: ds)) as [w|] eqn:Ew; [|discriminate]. inversion H; subst. apply parse_uint_value; [lia|assumption].
  - replace ([48; 111] ++ ds ++ str_ULL) with (([48; 111] ++ ds) ++ str_ULL) in H by (rewrite <- app_assoc; reflexivity).
    change 3%nat with (length str_ULL) in H. rewrite firstn_app_len in H.
    destruct ds as [|c ds]; [congruence|].
    assert (2 <? byte_len ([48; 111] ++ c :: ds) = true) as Hb.
    { apply Z.ltb_lt. cbn [app byte_len]. pose proof (byte_len_nonneg ds). unfold utf8_len.
      change (48 <? 128) with true. change (111 <? 128) with true. cbv iota.
      destruct (c <? 128), (c <? 2048), (c <? 65536); lia. }
    rewrite Hb in H. cbn [app starts_with Z.eqb Pos.eqb andb skipn] in H.
    destruct (parse_uint 8 (c :: ds)) as [w|] eqn:Ew; [|discriminate]. inversion H; subst. apply parse_uint_value; [lia|assumption].
Qed.

(* float literals: the value is ParseFloat of the literal with its underscores removed (when they are well placed) *)
Theorem literal_denotes_float : forall text b sci,
  inf_word text = false -> no_sign text -> list_eqb text str_NaN = false ->
  atom_value pf (mkTok TFloat text) = Some (RFloat sci (Some b) text) ->
  underscore_ok text = true /\ pf (remove_z 95 text) = Some b /\ sci = contains_e text.
Proof.
  intros text b sci Hi Hn Hnan H. unfold atom_value in H. cbn [t_kind t_str] in H. rewrite Hnan in H.
  unfold parse_float_text in H.
  assert ((match text with 45 :: _ | 43 :: _ => False | _ => True end)) as Hs by exact Hn.
  destruct text as [|c t].
  - rewrite Hi in H. destruct (underscore_ok []); [|discriminate]. destruct (pf (remove_z 95 [])) eqn:E; inversion H; subst; auto.
  - assert (c <> 45 /\ c <> 43) as [N1 N2].
    { split; intros ->; contradiction. }
    replace (match c :: t with
             | 45 :: t0 => if inf_word t0 then Some 18442240474082181120 else if underscore_ok (c :: t) then pf (remove_z 95 (c :: t)) else None
             | 43 :: t0 => if inf_word t0 then Some 9218868437227405312 else None
             | _ => if inf_word (c :: t) then Some 9218868437227405312 else if underscore_ok (c :: t) then pf (remove_z 95 (c :: t)) else None
             end) with (if inf_word (c :: t) then Some 9218868437227405312 else if underscore_ok (c :: t) then pf (remove_z 95 (c :: t)) else None) in H.
    2:{ destruct c as [|q|q]; try reflexivity. do 6 (destruct q as [q|q|]; try reflexivity); congruence. }
    rewrite Hi in H. destruct (underscore_ok (c :: t)); [|discriminate].
    destruct (pf (remove_z 95 (c :: t))) eqn:E; inversion H; subst; auto.
Qed.

End Denote.

(* ======== F: where the code as it is refutes the property ======== *)

(* strconv.Quote writes \b for U+0008; EscapeChar does not know it: the printed string is rejected *)
Theorem quote_escape_refuted : forall is_print, is_print 8 = false ->
  observe (parse_whole true false 50 (print is_print (VStr [Rune 8]))) = (StErr, []) /\
  observe (parse_whole true false 50 (print is_print (VChar 8))) = (StErr, []).
Proof.
  intros ip H. unfold print, pr, quote_str, quote_rune, flat_map, quote_item, escaped_rune. rewrite H.
  split; vm_compute; reflexivity.
Qed.

(* a non-printable rune above U+007F is written \u0085 / \U000e0001, an invalid byte \xNN *)
Theorem quote_escape_refuted_u : forall is_print, is_print 133 = false -> is_print 917505 = false ->
  observe (parse_whole true false 50 (print is_print (VStr [Rune 133]))) = (StErr, []) /\
  observe (parse_whole true false 50 (print is_print (VStr [Rune 917505]))) = (StErr, []) /\
  observe (parse_whole true false 50 (print is_print (VStr [BadByte 255]))) = (StErr, []).
Proof.
  intros ip H1 H2. unfold print, pr, quote_str, quote_rune, flat_map, quote_item, escaped_rune. rewrite H1, H2.
  repeat split; vm_compute; reflexivity.
Qed.

(* "-.5" is a float by FloatRegex, but the lexer emits the symbol "-" and the float ".5" *)
Theorem neg_leading_dot_refuted :
  re_match re_FloatRegex [45; 46; 53] = true /\
  lex_text [45; 46; 53; 10] = ([mkTok TSymbol [45]; mkTok TFloat [46; 53]], true).
Proof. split; vm_compute; reflexivity. Qed.

(* a symbol name that SymbolRegex accepts but that the lexer splits: a+b *)
Theorem symbol_split_refuted :
  re_match re_SymbolRegex [97; 43; 98] = true /\
  lex_text [97; 43; 98; 10] = ([mkTok TSymbol [97]; mkTok TSymbol [43]; mkTok TSymbol [98]], true).
Proof. split; vm_compute; reflexivity. Qed.

(* ======== char and string literals denote the runes written ======== *)

Theorem char_denotes_raw : forall c, 0 <= c <= 1114111 -> c <> 39 -> c <> 92 -> lexes_to [39; c; 39] [mkTok TChar [c]].
Proof.
  intros c Hr N1 N2. pose proof (char_lexes (fun _ => true) c) as H. unfold quote_rune, escaped_rune in H.
  replace ((c =? 39) || (c =? 92)) with false in H by (symmetry; apply orb_false_iff; split; apply Z.eqb_neq; assumption).
  apply H. split; [assumption|]. right; right; left; reflexivity.
Qed.

Theorem char_denotes_esc : forall x c, escape_char x = Some c -> 0 <= c <= 1114111 ->
  lexes_to [39; 92; x; 39] [mkTok TChar [c]].
Proof.
  intros x c He Hr s t p d Hdl _ V.
  destruct (step_rune_open s t p V) as [s1 [E1 V1]].
  destruct (step_rune_esc s1 [39] t 39 x c He V1) as [s2 [E2 V2]].
  destruct (step_rune_close s2 ([39] ++ [c]) t x (mkTok TChar [c]) (decode_char_atom c Hr) V2) as [s3 [E3 V3]].
  destruct (step_delim0 s3 _ 39 d Hdl V3) as [s4 [E4 V4]].
  exists s4. split; [|rewrite <- app_assoc in V4; exact V4].
  change ([39; 92; x; 39] ++ [d]) with (39 :: ([92; x] ++ [39; d])). cbn [lex_all]. rewrite E1.
  rewrite lex_all_app, E2. cbn [lex_all]. rewrite E3, E4. reflexivity.
Qed.

(* a string literal whose body is written raw except for the escaped double quote and backslash denotes exactly its runes *)
Theorem string_denotes : forall rs, Forall (fun c => 0 <= c <= 1114111) rs ->
  lexes_to (quote_str (fun _ => true) (map Rune rs)) [mkTok TString rs].
Proof.
  intros rs F. pose proof (str_lexes (fun _ => true) (map Rune rs)) as H.
  rewrite map_map in H. cbn [item_rune] in H. rewrite map_id in H. apply H.
  apply Forall_forall. intros it Hit. apply in_map_iff in Hit. destruct Hit as [c [Hc Hin]]. subst it.
  rewrite Forall_forall in F. split; [apply F; assumption|]. right; right; left; reflexivity.
Qed.

(* every escape of the EscapeChar table inside a string *)
Theorem string_denotes_esc : forall x c, escape_char x = Some c ->
  lexes_to [34; 92; x; 34] [mkTok TString [c]].
Proof.
  intros x c He s t p d Hdl _ V.
  destruct (step_str_open s t p V) as [s1 [E1 V1]].
  destruct (step_str_esc s1 [] t 34 x c He V1) as [s2 [E2 V2]].
  destruct (step_str_close s2 _ t x V2) as [s3 [E3 V3]].
  destruct (step_delim0 s3 _ 34 d Hdl V3) as [s4 [E4 V4]].
  exists s4. split; [|rewrite <- app_assoc in V4; exact V4].
  change ([34; 92; x; 34] ++ [d]) with (34 :: ([92; x] ++ [34; d])). cbn [lex_all]. rewrite E1.
  rewrite lex_all_app, E2. cbn [lex_all]. rewrite E3, E4. reflexivity.
Qed.

(* ======== every spelling of a notation is classified as that notation and, when the conversion
   succeeds (strconv's range check), denotes the positional value of its digits ======== *)

Lemma hexd_no_sign : forall h hs, hexd h -> no_sign (h :: hs).
Proof. intros h hs H. unfold no_sign. destruct H as [H|[H|H]]; destruct h as [|q|q]; try exact I; try lia;
  do 6 (destruct q as [q|q|]; try exact I); lia. Qed.

Theorem hex_spelling_denotes : forall pf h hs, hexd h -> Forall hexd hs ->
  decode_atom (48 :: 120 :: h :: hs) = Some (mkTok THex (h :: hs)) /\
  (forall v, atom_value pf (mkTok THex (h :: hs)) = Some (RInt v) ->
             v = pos_value 16 (map digit_of (h :: hs)) /\ 0 <= v < 2 ^ 63).
Proof.
  intros pf h hs Hh F. split; [apply classify_hex; assumption|].
  intros v H. apply (literal_denotes_radix pf THex 16 (h :: hs) v); auto. apply hexd_no_sign; assumption.
Qed.

Theorem oct_spelling_denotes : forall pf h hs, octd h -> Forall octd hs ->
  decode_atom (48 :: 111 :: h :: hs) = Some (mkTok TOct (h :: hs)) /\
  (forall v, atom_value pf (mkTok TOct (h :: hs)) = Some (RInt v) ->
             v = pos_value 8 (map digit_of (h :: hs)) /\ 0 <= v < 2 ^ 63).
Proof.
  intros pf h hs Hh F. split; [apply classify_oct; assumption|].
  intros v H. apply (literal_denotes_radix pf TOct 8 (h :: hs) v); auto. apply hexd_no_sign. apply octd_hexd; assumption.
Qed.

Theorem bin_spelling_denotes : forall pf h hs, bind h -> Forall bind hs ->
  decode_atom (48 :: 98 :: h :: hs) = Some (mkTok TBinary (h :: hs)) /\
  (forall v, atom_value pf (mkTok TBinary (h :: hs)) = Some (RInt v) ->
             v = pos_value 2 (map digit_of (h :: hs)) /\ 0 <= v < 2 ^ 63).
Proof.
  intros pf h hs Hh F. split; [apply classify_bin; assumption|].
  intros v H. apply (literal_denotes_radix pf TBinary 2 (h :: hs) v); auto. apply hexd_no_sign. apply bind_hexd; assumption.
Qed.

Lemma remove_dig_no_sign : forall c ip, digit c -> no_sign (remove_z 95 (c :: ip)).
Proof.
  intros c ip Hc. cbn [remove_z]. replace (c =? 95) with false by (symmetry; apply Z.eqb_neq; unfold digit in Hc; lia).
  apply hexd_no_sign. left. exact Hc.
Qed.

(* decimal with sign and underscores *)
Theorem dec_spelling_denotes : forall pf (neg : bool) c ip, digit c -> Forall dig_ ip ->
  decode_atom (spell NDec neg (c :: ip)) = Some (mkTok TDecimal (spell NDec neg (c :: ip))) /\
  (forall v, atom_value pf (mkTok TDecimal (spell NDec neg (c :: ip))) = Some (RInt v) ->
             v = math_value NDec neg (c :: ip) /\ - 2 ^ 63 <= v < 2 ^ 63).
Proof.
  intros pf neg c ip Hc Hi. split.
  - cbn [spell]. apply classify_dec; auto. destruct neg; [right|left]; reflexivity.
  - intros v H. apply (literal_denotes_dec pf neg (c :: ip) v); [apply remove_dig_no_sign; assumption|exact H].
Qed.

(* the ULL suffix *)
Theorem ull_spelling_denotes : forall pf n h hs, (n = NUDec \/ n = NUHex \/ n = NUOct) -> hexd h -> Forall hexd hs ->
  (n = NUDec -> starts_with [48; 111] (h :: hs) = false /\ starts_with [48; 120] (h :: hs) = false) ->
  decode_atom (spell n false (h :: hs)) = Some (mkTok TUint64 (spell n false (h :: hs))) /\
  (forall v, atom_value pf (mkTok TUint64 (spell n false (h :: hs))) = Some (RUint v) ->
             v = pos_value (notation_base n) (map digit_of (h :: hs)) /\ 0 <= v < 2 ^ 64).
Proof.
  intros pf n h hs Hn Hh F Hd. split.
  - destruct Hn as [H|[H|H]]; subst n; cbn [spell].
    + apply (classify_ull [] h hs); auto. left; reflexivity.
    + apply (classify_ull [48; 120] h hs); auto. right; left; reflexivity.
    + apply (classify_ull [48; 111] h hs); auto. right; right; reflexivity.
  - intros v H. apply (literal_denotes_uint pf n (h :: hs) v); auto. discriminate.
Qed.

(* a float spelling in any of the three forms is one float token whose value is ParseFloat of the
   spelling without its underscores (when strconv accepts the placement of the underscores) *)
Theorem float_spelling_denotes_A : forall pf sg c ip fp b sci, sign_ok sg -> digit c -> Forall dig_ ip -> Forall dig_ fp ->
  decode_atom (formA sg c ip fp) = Some (mkTok TFloat (formA sg c ip fp)) /\
  lexes_to (formA sg c ip fp) [mkTok TFloat (formA sg c ip fp)] /\
  (sg = [] -> atom_value pf (mkTok TFloat (formA sg c ip fp)) = Some (RFloat sci (Some b) (formA sg c ip fp)) ->
   pf (remove_z 95 (formA sg c ip fp)) = Some b).
Proof.
  intros pf sg c ip fp b sci Hs Hc Hi Hf. split; [apply classify_float_A; assumption|].
  split; [apply float_A_lexes; assumption|].
  intros E H. subst sg. apply (literal_denotes_float pf _ b sci) in H.
  - tauto.
  - unfold formA, inf_word. cbn [app list_eqb str_Inf str_inf].
    replace (c =? 73) with false by (symmetry; apply Z.eqb_neq; unfold digit in Hc; lia).
    replace (c =? 105) with false by (symmetry; apply Z.eqb_neq; unfold digit in Hc; lia). reflexivity.
  - unfold formA. cbn [app]. apply hexd_no_sign. left; exact Hc.
  - unfold formA. cbn [app list_eqb str_NaN]. replace (c =? 78) with false by (symmetry; apply Z.eqb_neq; unfold digit in Hc; lia). reflexivity.
Qed.

(* ======== the REPL front end: the printed text delivered line by line (or cut anywhere) ======== *)

Lemma lex_prefix_ok : forall a b s, lres_ok (lex_all s (a ++ b)) = true -> lres_ok (lex_all s a) = true.
Proof.
  intros a b s H. rewrite lex_all_app in H. destruct (lex_all s a); [reflexivity|exact H].
Qed.

Lemma pieces_ok_of_whole : forall rest t, lres_ok (lex_all init_lstate (t ++ concat rest)) = true -> pieces_ok true t rest.
Proof.
  induction rest as [|c rest IH]; intros t H; [exact I|]. cbn [pieces_ok concat] in *.
  split; [eapply lex_prefix_ok; exact H|]. split; [left; reflexivity|].
  apply IH. rewrite <- app_assoc. exact H.
Qed.

Lemma split_lines_from_concat : forall t cur, concat (split_lines_from cur t) = rev cur ++ t.
Proof.
  induction t as [|c t IH]; intros cur; cbn [split_lines_from].
  - cbn [concat]. rewrite !app_nil_r. reflexivity.
  - destruct (c =? 10).
    + cbn [concat]. rewrite IH. cbn [rev app]. rewrite <- app_assoc. reflexivity.
    + rewrite IH. cbn [rev]. rewrite <- app_assoc. reflexivity.
Qed.

Lemma split_lines_concat : forall t, concat (split_lines t) = t.
Proof. intros. unfold split_lines. rewrite split_lines_from_concat. reflexivity. Qed.

(* however the printed text is cut into pieces (the REPL: into its lines), the reader returns the value *)
Theorem read_print_data_pieces : forall is_print v fuel pieces, dat is_print false v -> (vsize v + 3 <= fuel)%nat ->
  concat pieces = print is_print v ->
  observe (parse_pieces true false fuel pieces) = (StDone, [to_sexp v]).
Proof.
  intros ip v fuel pieces D Hf Hc.
  rewrite ReaderProofs.pieces_is_whole.
  - rewrite Hc. apply read_print_data; assumption.
  - destruct (data_lexes ip v D init_lstate [] 0 10 delim_10 can_start_0) as [s' [El _]].
    { destruct init_ring_ok as [R1 R2]. split; try reflexivity; assumption. }
    assert (lres_ok (lex_all init_lstate (concat (mark_last pieces))) = true) as Hok
      by (rewrite ReaderProofs.concat_mark_last, Hc; unfold nl; rewrite El; reflexivity).
    destruct (mark_last pieces) as [|first rest]; [exact I|].
    apply pieces_ok_of_whole. exact Hok.
Qed.

Theorem read_print_repl : forall is_print v fuel, dat is_print false v -> (vsize v + 3 <= fuel)%nat ->
  observe (parse_pieces true false fuel (split_lines (print is_print v))) = (StDone, [to_sexp v]).
Proof. intros. apply (read_print_data_pieces is_print v); auto. apply split_lines_concat. Qed.

(* ======== acceptance: a prefixed ULL literal with valid digits and a value below 2^64 IS converted
   (incl. all-zero digits: 0x0ULL, 0o000ULL) ======== *)

Lemma hexd_digit_val : forall c, hexd c -> digit_val c = Some (digit_of c) /\ 0 <= digit_of c < 16.
Proof.
  intros c H. unfold digit_val, digit_of. destruct H as [H|[H|H]].
  - replace ((48 <=? c) && (c <=? 57)) with true by (symmetry; apply andb_true_iff; split; apply Z.leb_le; lia). split; [reflexivity|lia].
  - replace ((48 <=? c) && (c <=? 57)) with false by (symmetry; apply andb_false_iff; right; apply Z.leb_gt; lia).
    replace ((97 <=? c) && (c <=? 122)) with false by (symmetry; apply andb_false_iff; left; apply Z.leb_gt; lia).
    replace ((97 <=? c) && (c <=? 102)) with false by (symmetry; apply andb_false_iff; left; apply Z.leb_gt; lia).
    replace ((65 <=? c) && (c <=? 90)) with true by (symmetry; apply andb_true_iff; split; apply Z.leb_le; lia).
    split; [f_equal; lia|lia].
  - replace ((48 <=? c) && (c <=? 57)) with false by (symmetry; apply andb_false_iff; right; apply Z.leb_gt; lia).
    replace ((97 <=? c) && (c <=? 122)) with true by (symmetry; apply andb_true_iff; split; apply Z.leb_le; lia).
    replace ((97 <=? c) && (c <=? 102)) with true by (symmetry; apply andb_true_iff; split; apply Z.leb_le; lia).
    split; [f_equal; lia|lia].
Qed.

Lemma digits_val_ok : forall base s acc, Forall (fun c => hexd c /\ digit_of c < base) s ->
  digits_val base s acc = Some (acc * base ^ Z.of_nat (length s) + pos_value base (map digit_of s)).
Proof.
  intros base s. induction s as [|c s IH]; intros acc F.
  - cbn. f_equal. lia.
  - inversion F as [|x l [Hc Hb] F']; subst. cbn [digits_val]. destruct (hexd_digit_val c Hc) as [E _]. rewrite E.
    replace (digit_of c <? base) with true by (symmetry; apply Z.ltb_lt; exact Hb).
    rewrite (IH _ F'). cbn [map pos_value length]. rewrite map_length. rewrite Nat2Z.inj_succ, Z.pow_succ_r by lia. f_equal. ring.
Qed.

Theorem ull_prefixed_accepted : forall pf n h hs, (n = NUHex \/ n = NUOct) ->
  Forall (fun c => hexd c /\ digit_of c < notation_base n) (h :: hs) ->
  pos_value (notation_base n) (map digit_of (h :: hs)) < 2 ^ 64 ->
  atom_value pf (mkTok TUint64 (spell n false (h :: hs))) = Some (RUint (pos_value (notation_base n) (map digit_of (h :: hs)))).
Proof.
  intros pf n h hs Hn F Hv. unfold atom_value. cbn [t_kind t_str]. unfold conv_uint64.
  assert (forall p, 2 <? byte_len ([48; p] ++ h :: hs) = true) as Hb.
  { intros p. apply Z.ltb_lt. cbn [app byte_len]. pose proof (byte_len_nonneg hs). unfold utf8_len.
    destruct (48 <? 128), (48 <? 2048), (48 <? 65536), (p <? 128), (p <? 2048), (p <? 65536), (h <? 128), (h <? 2048), (h <? 65536); lia. }
  destruct Hn as [H|H]; subst n; cbn [spell notation_base] in *.
  - replace ([48; 120] ++ (h :: hs) ++ str_ULL) with (([48; 120] ++ h :: hs) ++ str_ULL) by (rewrite <- app_assoc; reflexivity).
    change 3%nat with (length str_ULL). rewrite firstn_app_len. rewrite Hb.
    cbn [app starts_with Z.eqb Pos.eqb andb skipn]. unfold parse_uint. rewrite (digits_val_ok 16 (h :: hs) 0 F).
    rewrite Z.mul_0_l, Z.add_0_l. replace (_ <? 2 ^ 64) with true by (symmetry; apply Z.ltb_lt; exact Hv). reflexivity.
  - replace ([48; 111] ++ (h :: hs) ++ str_ULL) with (([48; 111] ++ h :: hs) ++ str_ULL) by (rewrite <- app_assoc; reflexivity).
    change 3%nat with (length str_ULL). rewrite firstn_app_len. rewrite Hb.
    cbn [app starts_with Z.eqb Pos.eqb andb skipn]. unfold parse_uint. rewrite (digits_val_ok 8 (h :: hs) 0 F).
    rewrite Z.mul_0_l, Z.add_0_l. replace (_ <? 2 ^ 64) with true by (symmetry; apply Z.ltb_lt; exact Hv). reflexivity.
Qed.

(* the Go API for incremental input: the printed text cut at any rune offsets *)
Lemma cut_pieces_concat : forall cuts prev t, concat (cut_pieces cuts prev t) = t.
Proof.
  induction cuts as [|c r IH]; intros prev t; cbn [cut_pieces concat]; [apply app_nil_r|].
  rewrite IH. apply firstn_skipn.
Qed.

Theorem read_print_cut : forall is_print v fuel cuts, dat is_print false v -> (vsize v + 3 <= fuel)%nat ->
  observe (parse_pieces true false fuel (cut_pieces cuts 0 (print is_print v))) = (StDone, [to_sexp v]).
Proof. intros. apply (read_print_data_pieces is_print v); auto. apply cut_pieces_concat. Qed.
