(* C12: printed data reads back as the same data — proofs.
   A: decimal printing and parsing of integers.  B: atoms re-lex to one token.  C: the token stream of
   a printed value (lexing of concatenation).  D: the parser rebuilds the value.  E: literals denote
   their mathematical value.  F: where the code refutes the property. *)
From Coq Require Import ZArith List Bool Lia.
From ZV Require Import Model.Regex Generated.LexTables Model.Lexer Model.Reader Model.Printer
  Proofs.LexerProofs Proofs.PrinterLex.
Import ListNotations.
Open Scope Z_scope.

(* ======== A: digits ======== *)

Lemma digits_val_app : forall base a b acc,
  digits_val base (a ++ b) acc = match digits_val base a acc with Some v => digits_val base b v | None => None end.
Proof.
  intros base a. induction a as [|c a IH]; intros b acc; [reflexivity|].
  simpl. destruct (digit_val c) as [d|]; [|reflexivity]. destruct (d <? base); [apply IH|reflexivity].
Qed.

Lemma digit_val_digit : forall d, 0 <= d <= 9 -> digit_val (48 + d) = Some d.
Proof.
  intros d H. unfold digit_val.
  replace ((48 <=? 48 + d) && (48 + d <=? 57)) with true by (symmetry; apply andb_true_iff; split; apply Z.leb_le; lia).
  f_equal. lia.
Qed.

Lemma digits_val_single : forall d acc, 0 <= d <= 9 -> digits_val 10 [48 + d] acc = Some (acc * 10 + d).
Proof.
  intros d acc H. cbn [digits_val]. rewrite digit_val_digit by assumption.
  replace (d <? 10) with true by (symmetry; apply Z.ltb_lt; lia). reflexivity.
Qed.

Lemma dec_fuel_spec : forall f n, 0 <= n < 10 ^ (Z.of_nat f + 1) ->
  Forall digit (dec_fuel f n) /\ dec_fuel f n <> [] /\ digits_val 10 (dec_fuel f n) 0 = Some n.
Proof.
  induction f as [|f IH]; intros n Hn.
  - change (10 ^ (Z.of_nat 0 + 1)) with 10 in Hn. cbn [dec_fuel]. rewrite Z.mod_small by lia.
    split; [constructor; [unfold digit; lia|constructor]|]. split; [discriminate|].
    rewrite digits_val_single by lia. f_equal; lia.
  - cbn [dec_fuel]. destruct (Z.ltb_spec n 10) as [Hlt|Hge].
    + split; [constructor; [unfold digit; lia|constructor]|]. split; [discriminate|].
      rewrite digits_val_single by lia. f_equal; lia.
    + assert (0 <= n / 10 < 10 ^ (Z.of_nat f + 1)) as Hq.
      { split; [apply Z.div_pos; lia|]. apply Z.div_lt_upper_bound; [lia|].
        replace (Z.of_nat (S f) + 1) with (Z.succ (Z.of_nat f + 1)) in Hn by lia.
        rewrite Z.pow_succ_r in Hn by lia. lia. }
      destruct (IH (n / 10) Hq) as [F [Hne Hv]].
      assert (0 <= n mod 10 < 10) as Hm by (apply Z.mod_pos_bound; lia).
      split; [apply Forall_app; split; [exact F|constructor; [unfold digit; lia|constructor]]|].
      split; [destruct (dec_fuel f (n / 10)); discriminate|].
      rewrite digits_val_app, Hv. rewrite digits_val_single by lia.
      f_equal. rewrite (Z.div_mod n 10) at 3 by lia. lia.
Qed.

Lemma pow10_21 : 2 ^ 64 < 10 ^ (Z.of_nat 20 + 1). Proof. vm_compute. reflexivity. Qed.

Lemma dec_spec : forall n, 0 <= n <= 2 ^ 64 ->
  Forall digit (dec n) /\ dec n <> [] /\ digits_val 10 (dec n) 0 = Some n.
Proof. intros n H. apply dec_fuel_spec. pose proof pow10_21. lia. Qed.

Lemma remove_digits : forall ds, Forall digit ds -> remove_z 95 ds = ds.
Proof.
  intros ds F. induction F as [|c ds Hc F IH]; [reflexivity|]. simpl.
  replace (c =? 95) with false by (symmetry; apply Z.eqb_neq; unfold digit in Hc; lia). rewrite IH. reflexivity.
Qed.

Lemma dec_cons : forall n, 0 <= n <= 2 ^ 64 -> exists c ds, dec n = c :: ds /\ digit c /\ Forall digit ds.
Proof.
  intros n H. destruct (dec_spec n H) as [F [Hne _]]. destruct (dec n) as [|c ds]; [congruence|].
  inversion F; subst. eauto.
Qed.

(* parser.go case TokenDecimal on the printed text of an int64 *)
Lemma parse_int_itoa : forall z, - 2 ^ 63 <= z < 2 ^ 63 -> parse_int 10 (remove_z 95 (itoa z)) = Some z.
Proof.
  intros z Hz. unfold itoa. destruct (Z.ltb_spec z 0) as [Hn|Hp].
  - assert (0 <= - z <= 2 ^ 64) as Hr by lia. destruct (dec_spec (- z) Hr) as [F [Hne Hv]].
    cbn [remove_z]. change (45 =? 95) with false. cbv iota. rewrite remove_digits by assumption.
    unfold parse_int. destruct (dec (- z)) as [|c ds] eqn:E; [congruence|]. rewrite Hv.
    replace (- z <=? 2 ^ 63) with true by (symmetry; apply Z.leb_le; lia). f_equal; lia.
  - assert (0 <= z <= 2 ^ 64) as Hr by lia. destruct (dec_spec z Hr) as [F [Hne Hv]].
    rewrite remove_digits by assumption. unfold parse_int.
    destruct (dec z) as [|c ds] eqn:E; [congruence|]. inversion F; subst.
    assert (c <> 45 /\ c <> 43) as [N1 N2] by (unfold digit in *; lia).
    destruct (Z.eq_dec c 45); [congruence|]. destruct (Z.eq_dec c 43); [congruence|].
    replace (match c :: ds with 45 :: t => (true, t) | 43 :: t => (false, t) | _ => (false, c :: ds) end) with (false, c :: ds).
    2:{ destruct c as [|q|q]; try reflexivity. do 6 (destruct q as [q|q|]; try reflexivity); congruence. }
    rewrite Hv. replace (z <? 2 ^ 63) with true by (symmetry; apply Z.ltb_lt; lia). reflexivity.
Qed.

Lemma firstn_app_len : forall (a b : list Z), firstn (length (a ++ b) - length b) (a ++ b) = a.
Proof.
  intros a b. rewrite app_length. replace (length a + length b - length b)%nat with (length a + 0)%nat by lia.
  rewrite firstn_app_2. simpl. apply app_nil_r.
Qed.

(* parser.go case TokenUint64 on the printed text of a uint64 *)
Lemma conv_uint64_utoa : forall z, 0 <= z < 2 ^ 64 -> conv_uint64 (utoa z) = Some z.
Proof.
  intros z Hz. unfold conv_uint64, utoa.
  change 3%nat with (length str_ULL). rewrite firstn_app_len.
  assert (0 <= z <= 2 ^ 64) as Hr by lia. destruct (dec_spec z Hr) as [F [Hne Hv]].
  assert (forall x, starts_with [48; x] (dec z) = true -> digit x) as Hsw.
  { intros x H. destruct (dec z) as [|a [|b l]]; cbn [starts_with] in H; try discriminate H.
    - rewrite andb_false_r in H. discriminate H.
    - apply andb_true_iff in H. destruct H as [_ H]. apply andb_true_iff in H. destruct H as [H _]. apply Z.eqb_eq in H. subst.
      apply Forall_inv_tail in F. apply Forall_inv in F. exact F. }
  destruct (starts_with [48; 111] (dec z)) eqn:E1; [apply Hsw in E1; unfold digit in E1; lia|].
  destruct (starts_with [48; 120] (dec z)) eqn:E2; [apply Hsw in E2; unfold digit in E2; lia|].
  rewrite !andb_false_r. unfold parse_uint. destruct (dec z) eqn:E; [congruence|]. rewrite Hv.
  replace (z <? 2 ^ 64) with true by (symmetry; apply Z.ltb_lt; lia). reflexivity.
Qed.

(* ======== B: each printed atom re-lexes to exactly one token ======== *)

Definition can_start (p : Z) : Prop := can_start_signed_after p = true.

(* the text a, followed by a delimiter, adds exactly the tokens tks (and the delimiter's own token) *)
Definition lexes_to (a : list Z) (tks : list token) : Prop :=
  forall s t p d, delim d -> can_start p -> view s LNormal [] t p ->
  exists s', lex_all s (a ++ [d]) = LOk s' /\ view s' LNormal [] (t ++ tks ++ dtok d) d.

Lemma digit_plain : forall c, digit c -> plain c.
Proof.
  intros c H. unfold digit in H. unfold plain, special_runes, mem_z.
  repeat match goal with |- context [?k =? c] => rewrite (proj2 (Z.eqb_neq k c)) by lia end. reflexivity.
Qed.

Lemma plain_atom_lexes : forall a tok, Forall plain a -> a <> [] -> decode_atom a = Some tok -> lexes_to a [tok].
Proof.
  intros a tok F Ha Hd s t p d Hdl _ V. destruct (lex_plain_atom a s t p d tok F Ha Hd Hdl V) as [s' [E V']].
  exists s'. split; [exact E|]. exact V'.
Qed.

Lemma Forall_digit_plain : forall ds, Forall digit ds -> Forall plain ds.
Proof. intros ds F. eapply Forall_impl; [|exact F]. apply digit_plain. Qed.

Lemma neg_number_lexes : forall c ds tok, digit c -> Forall plain ds ->
  decode_atom (45 :: c :: ds) = Some tok -> lexes_to (45 :: c :: ds) [tok].
Proof.
  intros c ds tok Hc F Hd s t p d Hdl Hcan V.
  destruct (step_minus s t p V) as [s1 [E1 [V1 [P1 P2]]]].
  destruct (step_minus_digit s1 t c p V1 P1 P2 Hcan (dec_yes_neg c [] Hc (Forall_nil _))) as [s2 [E2 V2]].
  destruct (run_plain ds s2 [45; c] t c F V2) as [s3 [E3 V3]].
  destruct (step_delim s3 ([45; c] ++ ds) t _ d tok Hdl ltac:(discriminate) Hd V3) as [s4 [E4 V4]].
  exists s4. split; [|exact V4].
  change ((45 :: c :: ds) ++ [d]) with (45 :: c :: (ds ++ [d])). cbn [lex_all]. rewrite E1, E2.
  rewrite lex_all_app, E3. cbn [lex_all]. rewrite E4. reflexivity.
Qed.

Theorem int_lexes : forall z, - 2 ^ 63 <= z < 2 ^ 63 -> lexes_to (itoa z) [mkTok TDecimal (itoa z)].
Proof.
  intros z Hz. unfold itoa. destruct (Z.ltb_spec z 0) as [Hn|Hp].
  - destruct (dec_cons (- z) ltac:(lia)) as [c [ds [E [Hc F]]]]. rewrite E.
    apply neg_number_lexes; auto using Forall_digit_plain. apply decode_dec_neg; assumption.
  - destruct (dec_cons z ltac:(lia)) as [c [ds [E [Hc F]]]]. rewrite E.
    apply plain_atom_lexes; [apply Forall_digit_plain; constructor; assumption|discriminate|apply decode_dec; assumption].
Qed.

Theorem uint_lexes : forall z, 0 <= z < 2 ^ 64 -> lexes_to (utoa z) [mkTok TUint64 (utoa z)].
Proof.
  intros z Hz. unfold utoa. destruct (dec_cons z ltac:(lia)) as [c [ds [E [Hc F]]]]. rewrite E.
  apply plain_atom_lexes.
  - rewrite <- app_comm_cons. constructor; [apply digit_plain; assumption|]. apply Forall_app. split; [apply Forall_digit_plain; assumption|].
    repeat constructor.
  - discriminate.
  - rewrite <- app_comm_cons. apply decode_uint; assumption.
Qed.

Lemma word_lexes : forall a tok, (forallb (fun c => negb (mem_z c special_runes)) a = true) -> a <> [] ->
  decode_atom a = Some tok -> lexes_to a [tok].
Proof.
  intros a tok H Ha Hd. apply plain_atom_lexes; auto.
  apply Forall_forall. intros x Hx. rewrite forallb_forall in H. specialize (H x Hx).
  unfold plain. destruct (mem_z x special_runes); [discriminate|reflexivity].
Qed.

Theorem bool_lexes : forall b, lexes_to (if b then str_true else str_false) [mkTok TBool (if b then str_true else str_false)].
Proof. intros [|]; apply word_lexes; try discriminate; vm_compute; reflexivity. Qed.

Theorem nil_lexes : lexes_to str_nil [mkTok TSymbol str_nil].
Proof. apply word_lexes; try discriminate; vm_compute; reflexivity. Qed.

Theorem backslash_lexes : lexes_to [92] [mkTok TBackslash []].
Proof. apply word_lexes; try discriminate; vm_compute; reflexivity. Qed.

(* symbols: the names that DecodeAtom classifies as one symbol and that contain no rune the
   lexer treats specially (operators, quotes, brackets, blanks) *)
Definition sym_ok (n : list Z) : Prop :=
  n <> [] /\ Forall plain n /\ decode_atom n = Some (mkTok TSymbol n) /\ n <> str_nil.

Theorem sym_lexes : forall n, sym_ok n -> lexes_to n [mkTok TSymbol n].
Proof. intros n [H1 [H2 [H3 _]]]. apply plain_atom_lexes; assumption. Qed.

Section WithIsPrint.
Variable is_print : Z -> bool.

(* the runes whose quoted form uses only escapes the reader knows *)
Definition rune_ok (q : Z) (c : Z) : Prop :=
  0 <= c <= 1114111 /\ (c = q \/ c = 92 \/ is_print c = true \/ c = 7 \/ c = 10 \/ c = 13 \/ c = 9).

Lemma esc_in_rune : forall c s b t p, rune_ok 39 c -> view s LRuneLit b t p ->
  exists s1 q, lex_all s (escaped_rune is_print 39 c) = LOk s1 /\ view s1 LRuneLit (b ++ [c]) t q.
Proof.
  intros c s b t p [Hr Hc] V. unfold escaped_rune.
  destruct (Z.eq_dec c 39) as [E|N1]; [subst c|].
  { destruct (step_rune_esc s b t p 39 39 eq_refl V) as [s1 [E1 V1]]. exists s1, 39. split; assumption. }
  destruct (Z.eq_dec c 92) as [E|N2]; [subst c|].
  { destruct (step_rune_esc s b t p 92 92 eq_refl V) as [s1 [E1 V1]]. exists s1, 92. split; assumption. }
  replace ((c =? 39) || (c =? 92)) with false by (symmetry; apply orb_false_iff; split; apply Z.eqb_neq; assumption).
  destruct (is_print c) eqn:Ep.
  { destruct (step_rune_raw s b t p c N2 N1 V) as [s1 [E1 V1]]. exists s1, c. split; [cbn [lex_all]; rewrite E1; reflexivity|assumption]. }
  destruct Hc as [H|[H|[H|[H|[H|[H|H]]]]]]; try congruence; subst c; cbn [Z.eqb Pos.eqb orb].
  - destruct (step_rune_esc s b t p 97 7 eq_refl V) as [s1 [E1 V1]]. exists s1, 97. split; assumption.
  - destruct (step_rune_esc s b t p 110 10 eq_refl V) as [s1 [E1 V1]]. exists s1, 110. split; assumption.
  - destruct (step_rune_esc s b t p 114 13 eq_refl V) as [s1 [E1 V1]]. exists s1, 114. split; assumption.
  - destruct (step_rune_esc s b t p 116 9 eq_refl V) as [s1 [E1 V1]]. exists s1, 116. split; assumption.
Qed.

Theorem char_lexes : forall c, rune_ok 39 c -> lexes_to (quote_rune is_print c) [mkTok TChar [c]].
Proof.
  intros c Hc s t p d Hdl _ V. unfold quote_rune.
  destruct (step_rune_open s t p V) as [s1 [E1 V1]].
  destruct (esc_in_rune c s1 [39] t 39 Hc V1) as [s2 [q [E2 V2]]].
  destruct (step_rune_close s2 _ t q (mkTok TChar [c]) (decode_char_atom c (proj1 Hc)) V2) as [s3 [E3 V3]].
  destruct (step_delim0 s3 _ 39 d Hdl V3) as [s4 [E4 V4]].
  exists s4. split; [|rewrite <- app_assoc in V4; exact V4].
  cbn [app lex_all]. rewrite E1. rewrite <- app_assoc. rewrite lex_all_app, E2. cbn [app lex_all]. rewrite E3, E4. reflexivity.
Qed.

Lemma esc_in_str : forall c s b t p, rune_ok 34 c -> view s LStrLit b t p ->
  exists s1 q, lex_all s (escaped_rune is_print 34 c) = LOk s1 /\ view s1 LStrLit (b ++ [c]) t q.
Proof.
  intros c s b t p [Hr Hc] V. unfold escaped_rune.
  destruct (Z.eq_dec c 34) as [E|N1]; [subst c|].
  { destruct (step_str_esc s b t p 34 34 eq_refl V) as [s1 [E1 V1]]. exists s1, 34. split; assumption. }
  destruct (Z.eq_dec c 92) as [E|N2]; [subst c|].
  { destruct (step_str_esc s b t p 92 92 eq_refl V) as [s1 [E1 V1]]. exists s1, 92. split; assumption. }
  replace ((c =? 34) || (c =? 92)) with false by (symmetry; apply orb_false_iff; split; apply Z.eqb_neq; assumption).
  destruct (is_print c) eqn:Ep.
  { destruct (step_str_raw s b t p c N2 N1 V) as [s1 [E1 V1]]. exists s1, c. split; [cbn [lex_all]; rewrite E1; reflexivity|assumption]. }
  destruct Hc as [H|[H|[H|[H|[H|[H|H]]]]]]; try congruence; subst c; cbn [Z.eqb Pos.eqb orb].
  - destruct (step_str_esc s b t p 97 7 eq_refl V) as [s1 [E1 V1]]. exists s1, 97. split; assumption.
  - destruct (step_str_esc s b t p 110 10 eq_refl V) as [s1 [E1 V1]]. exists s1, 110. split; assumption.
  - destruct (step_str_esc s b t p 114 13 eq_refl V) as [s1 [E1 V1]]. exists s1, 114. split; assumption.
  - destruct (step_str_esc s b t p 116 9 eq_refl V) as [s1 [E1 V1]]. exists s1, 116. split; assumption.
Qed.

Definition item_ok (it : sitem) : Prop := match it with Rune c => rune_ok 34 c | BadByte _ => False end.

Lemma items_in_str : forall its s b t p, Forall item_ok its -> view s LStrLit b t p ->
  exists s1 q, lex_all s (flat_map (quote_item is_print 34) its) = LOk s1 /\ view s1 LStrLit (b ++ map item_rune its) t q.
Proof.
  induction its as [|it its IH]; intros s b t p F V.
  - exists s, p. split; [reflexivity|]. rewrite app_nil_r. exact V.
  - inversion F as [|x l Hit F']; subst. destruct it as [c|bb]; [|contradiction].
    destruct (esc_in_str c s b t p Hit V) as [s1 [q [E1 V1]]].
    destruct (IH s1 (b ++ [c]) t q F' V1) as [s2 [q2 [E2 V2]]].
    exists s2, q2. split.
    + cbn [flat_map quote_item]. rewrite lex_all_app, E1. exact E2.
    + cbn [map item_rune]. rewrite <- app_assoc in V2. exact V2.
Qed.

Theorem str_lexes : forall its, Forall item_ok its ->
  lexes_to (quote_str is_print its) [mkTok TString (map item_rune its)].
Proof.
  intros its F s t p d Hdl _ V. unfold quote_str.
  destruct (step_str_open s t p V) as [s1 [E1 V1]].
  destruct (items_in_str its s1 [] t 34 F V1) as [s2 [q [E2 V2]]].
  destruct (step_str_close s2 _ t q V2) as [s3 [E3 V3]].
  destruct (step_delim0 s3 _ 34 d Hdl V3) as [s4 [E4 V4]].
  exists s4. split; [|rewrite <- app_assoc in V4; exact V4].
  cbn [app lex_all]. rewrite E1. rewrite <- app_assoc. rewrite lex_all_app, E2. cbn [app lex_all]. rewrite E3, E4. reflexivity.
Qed.

End WithIsPrint.
