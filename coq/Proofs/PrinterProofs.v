(* C12: printed data reads back as the same data — proofs.
   A: decimal printing and parsing of integers.  B: atoms re-lex to one token.  C: the token stream of
   a printed value (lexing of concatenation).  D: the parser rebuilds the value.  E: literals denote
   their mathematical value.  F: where the code refutes the property. *)
From Coq Require Import ZArith List Bool Lia.
From ZV Require Import Model.Regex Generated.LexTables Model.Lexer Model.Reader Model.Printer
  Proofs.LexerProofs Proofs.PrinterLex.
Import ListNotations.
Open Scope Z_scope.

(* ======== A: digits ======== *)

Lemma digits_val_app : forall base a b acc,
  digits_val base (a ++ b) acc = match digits_val base a acc with Some v => digits_val base b v | None => None end.
Proof.
  intros base a. induction a as [|c a IH]; intros b acc; [reflexivity|].
  simpl. destruct (digit_val c) as [d|]; [|reflexivity]. destruct (d <? base); [apply IH|reflexivity].
Qed.

Lemma digit_val_digit : forall d, 0 <= d <= 9 -> digit_val (48 + d) = Some d.
Proof.
  intros d H. unfold digit_val.
  replace ((48 <=? 48 + d) && (48 + d <=? 57)) with true by (symmetry; apply andb_true_iff; split; apply Z.leb_le; lia).
  f_equal. lia.
Qed.

Lemma digits_val_single : forall d acc, 0 <= d <= 9 -> digits_val 10 [48 + d] acc = Some (acc * 10 + d).
Proof.
  intros d acc H. cbn [digits_val]. rewrite digit_val_digit by assumption.
  replace (d <? 10) with true by (symmetry; apply Z.ltb_lt; lia). reflexivity.
Qed.

Lemma dec_fuel_spec : forall f n, 0 <= n < 10 ^ (Z.of_nat f + 1) ->
  Forall digit (dec_fuel f n) /\ dec_fuel f n <> [] /\ digits_val 10 (dec_fuel f n) 0 = Some n.
Proof.
  induction f as [|f IH]; intros n Hn.
  - change (10 ^ (Z.of_nat 0 + 1)) with 10 in Hn. cbn [dec_fuel]. rewrite Z.mod_small by lia.
    split; [constructor; [unfold digit; lia|constructor]|]. split; [discriminate|].
    rewrite digits_val_single by lia. f_equal; lia.
  - cbn [dec_fuel]. destruct (Z.ltb_spec n 10) as [Hlt|Hge].
    + split; [constructor; [unfold digit; lia|constructor]|]. split; [discriminate|].
      rewrite digits_val_single by lia. f_equal; lia.
    + assert (0 <= n / 10 < 10 ^ (Z.of_nat f + 1)) as Hq.
      { split; [apply Z.div_pos; lia|]. apply Z.div_lt_upper_bound; [lia|].
        replace (Z.of_nat (S f) + 1) with (Z.succ (Z.of_nat f + 1)) in Hn by lia.
        rewrite Z.pow_succ_r in Hn by lia. lia. }
      destruct (IH (n / 10) Hq) as [F [Hne Hv]].
      assert (0 <= n mod 10 < 10) as Hm by (apply Z.mod_pos_bound; lia).
      split; [apply Forall_app; split; [exact F|constructor; [unfold digit; lia|constructor]]|].
      split; [destruct (dec_fuel f (n / 10)); discriminate|].
      rewrite digits_val_app, Hv. rewrite digits_val_single by lia.
      f_equal. rewrite (Z.div_mod n 10) at 3 by lia. lia.
Qed.

Lemma pow10_21 : 2 ^ 64 < 10 ^ (Z.of_nat 20 + 1). Proof. vm_compute. reflexivity. Qed.

Lemma dec_spec : forall n, 0 <= n <= 2 ^ 64 ->
  Forall digit (dec n) /\ dec n <> [] /\ digits_val 10 (dec n) 0 = Some n.
Proof. intros n H. apply dec_fuel_spec. pose proof pow10_21. lia. Qed.

Lemma remove_digits : forall ds, Forall digit ds -> remove_z 95 ds = ds.
Proof.
  intros ds F. induction F as [|c ds Hc F IH]; [reflexivity|]. simpl.
  replace (c =? 95) with false by (symmetry; apply Z.eqb_neq; unfold digit in Hc; lia). rewrite IH. reflexivity.
Qed.

Lemma dec_cons : forall n, 0 <= n <= 2 ^ 64 -> exists c ds, dec n = c :: ds /\ digit c /\ Forall digit ds.
Proof.
  intros n H. destruct (dec_spec n H) as [F [Hne _]]. destruct (dec n) as [|c ds]; [congruence|].
  inversion F; subst. eauto.
Qed.

(* parser.go case TokenDecimal on the printed text of an int64 *)
Lemma parse_int_itoa : forall z, - 2 ^ 63 <= z < 2 ^ 63 -> parse_int 10 (remove_z 95 (itoa z)) = Some z.
Proof.
  intros z Hz. unfold itoa. destruct (Z.ltb_spec z 0) as [Hn|Hp].
  - assert (0 <= - z <= 2 ^ 64) as Hr by lia. destruct (dec_spec (- z) Hr) as [F [Hne Hv]].
    cbn [remove_z]. change (45 =? 95) with false. cbv iota. rewrite remove_digits by assumption.
    unfold parse_int. destruct (dec (- z)) as [|c ds] eqn:E; [congruence|]. rewrite Hv.
    replace (- z <=? 2 ^ 63) with true by (symmetry; apply Z.leb_le; lia). f_equal; lia.
  - assert (0 <= z <= 2 ^ 64) as Hr by lia. destruct (dec_spec z Hr) as [F [Hne Hv]].
    rewrite remove_digits by assumption. unfold parse_int.
    destruct (dec z) as [|c ds] eqn:E; [congruence|]. inversion F; subst.
    assert (c <> 45 /\ c <> 43) as [N1 N2] by (unfold digit in *; lia).
    destruct (Z.eq_dec c 45); [congruence|]. destruct (Z.eq_dec c 43); [congruence|].
    replace (match c :: ds with 45 :: t => (true, t) | 43 :: t => (false, t) | _ => (false, c :: ds) end) with (false, c :: ds).
    2:{ destruct c as [|q|q]; try reflexivity. do 6 (destruct q as [q|q|]; try reflexivity); congruence. }
    rewrite Hv. replace (z <? 2 ^ 63) with true by (symmetry; apply Z.ltb_lt; lia). reflexivity.
Qed.

Lemma firstn_app_len : forall (a b : list Z), firstn (length (a ++ b) - length b) (a ++ b) = a.
Proof.
  intros a b. rewrite app_length. replace (length a + length b - length b)%nat with (length a + 0)%nat by lia.
  rewrite firstn_app_2. simpl. apply app_nil_r.
Qed.

(* parser.go case TokenUint64 on the printed text of a uint64 *)
Lemma conv_uint64_utoa : forall z, 0 <= z < 2 ^ 64 -> conv_uint64 (utoa z) = Some z.
Proof.
  intros z Hz. unfold conv_uint64, utoa.
  change 3%nat with (length str_ULL). rewrite firstn_app_len.
  assert (0 <= z <= 2 ^ 64) as Hr by lia. destruct (dec_spec z Hr) as [F [Hne Hv]].
  assert (forall x, starts_with [48; x] (dec z) = true -> digit x) as Hsw.
  { intros x H. destruct (dec z) as [|a [|b l]]; cbn [starts_with] in H; try discriminate H.
    - rewrite andb_false_r in H. discriminate H.
    - apply andb_true_iff in H. destruct H as [_ H]. apply andb_true_iff in H. destruct H as [H _]. apply Z.eqb_eq in H. subst.
      apply Forall_inv_tail in F. apply Forall_inv in F. exact F. }
  destruct (starts_with [48; 111] (dec z)) eqn:E1; [apply Hsw in E1; unfold digit in E1; lia|].
  destruct (starts_with [48; 120] (dec z)) eqn:E2; [apply Hsw in E2; unfold digit in E2; lia|].
  rewrite !andb_false_r. unfold parse_uint. destruct (dec z) eqn:E; [congruence|]. rewrite Hv.
  replace (z <? 2 ^ 64) with true by (symmetry; apply Z.ltb_lt; lia). reflexivity.
Qed.
