(* After a lexer error the parse ends in a final outcome (hard error), and a final outcome absorbs every
   further delivery; hence delivery in pieces = delivery whole without any side condition. *)
From Coq Require Import ZArith List Bool Lia.
From ZV Require Import Model.Regex Generated.LexTables Model.Lexer Model.Reader Proofs.LexerProofs Proofs.ReaderProofs.
Import ListNotations.
Open Scope Z_scope.

Definition fin (o : outcome) : bool :=
  match o with OErr _ | OCrash _ | OFuel => true | _ => false end.

Definition FK (k : sexp -> queue -> outcome) : Prop :=
  forall e q, is_send e = false -> q_err q = true -> fin (k e q) = true.

Lemma need_fin : forall acc n q k, q_err q = true ->
  ((n < length (q_toks q))%nat -> fin (k q) = true) -> fin (need acc n q k) = true.
Proof.
  intros acc n q k He H. unfold need. destruct (n <? length (q_toks q))%nat eqn:E.
  - apply H. apply Nat.ltb_lt; exact E.
  - rewrite He. reflexivity.
Qed.

Lemma look_fin : forall b acc q kend k, q_err q = true ->
  (q_toks q <> [] -> fin (k q) = true) -> fin (look b acc q kend k) = true.
Proof.
  intros b acc q kend k He H. unfold look. destruct (q_toks q) eqn:E; [rewrite He; reflexivity|apply H; discriminate].
Qed.

Lemma idx_fin : forall q n k, (forall t, fin (k t) = true) -> fin (idx q n k) = true.
Proof. intros q n k H. unfold idx. destruct (nth_error (q_toks q) n); [apply H|reflexivity]. Qed.

Lemma pblock_fin : forall f acc q text k, q_err q = true -> FK k -> fin (pblock f acc q text k) = true.
Proof.
  induction f as [|f IH]; intros acc q text k He Hk; [reflexivity|].
  simpl. apply need_fin; [exact He|]. intros _.
  destruct (kind_is (tok_at q 0) TEndBlockComment); [apply Hk; [reflexivity|exact He]|].
  destruct (kind_is (tok_at q 0) TComment); [apply IH; [exact He|exact Hk]|reflexivity].
Qed.

Lemma pbacktick_fin : forall acc q k, q_err q = true -> FK k -> fin (pbacktick acc q k) = true.
Proof.
  intros acc q k He Hk. unfold pbacktick. apply need_fin; [exact He|]. intros _.
  destruct (kind_is (tok_at q 0) TBacktickString); [apply Hk; [reflexivity|exact He]|reflexivity].
Qed.

Lemma curly_skip_fin : forall f acc q tok2 extra k, q_err q = true ->
  (forall q' t e, q_err q' = true -> fin (k q' t e) = true) -> fin (curly_skip f acc q tok2 extra k) = true.
Proof.
  induction f as [|f IH]; intros acc q tok2 extra k He Hk; [reflexivity|].
  simpl. destruct (kind_is tok2 TBeginBlockComment).
  - apply need_fin; [exact He|]. intros _. apply idx_fin. intros t2.
    destruct (kind_is t2 TComment).
    + apply need_fin; [exact He|]. intros _. apply idx_fin. intros t3. apply IH; assumption.
    + apply IH; assumption.
  - destruct (kind_is tok2 TComment).
    + apply need_fin; [exact He|]. intros _. apply idx_fin. intros t3. apply IH; assumption.
    + apply Hk; exact He.
Qed.

Section Fin.
Variable b c : bool.

Definition Fexpr (f : nat) : Prop := forall acc top q k, q_err q = true -> FK k -> fin (pexpr b c f acc top q k) = true.
Definition Flist (f : nat) : Prop := forall acc q endk k, q_err q = true -> FK k -> fin (plist b c f acc q endk k) = true.
Definition Farray (f : nat) : Prop := forall acc q arr k, q_err q = true -> FK k -> fin (parray b c f acc q arr k) = true.
Definition Finfix (f : nat) : Prop := forall acc q arr k, q_err q = true -> FK k -> fin (pinfix b c f acc q arr k) = true.

Definition Fprefix (f : nat) : Prop := forall acc q name k, q_err q = true -> FK k -> fin (pprefix b c f acc q name k) = true.

Lemma main_fin : forall f, Fexpr f /\ Flist f /\ Farray f /\ Finfix f /\ Fprefix f.
Proof.
  induction f as [|f [IHe [IHl [IHa [IHi IHp]]]]].
  - repeat split; red; intros; reflexivity.
  - assert (Fexpr (S f)) as HE.
    { red. intros acc top q k He Hk. simpl pexpr. apply look_fin; [exact He|]. intros Hne.
      assert (q_err (q_tail q) = true) as He1 by exact He.
      assert (forall name, FK (fun e q2 => k (list2 (sym name) e) q2)) as Hsug by (intros name e q2 _ H2; apply Hk; [reflexivity|exact H2]).
      destruct (t_kind (tok_at q 0)) eqn:K;
        try reflexivity; try (apply Hk; [reflexivity|exact He1]); try (apply IHp; [exact He1|exact Hk]).
      + apply IHl; assumption.
      + apply IHa; assumption.
      + apply need_fin; [exact He1|]. intros _. apply curly_skip_fin; [exact He1|]. intros q3 tok2 extra He3.
        assert (fin (pinfix b c f acc q3 [] k) = true) as Hinf by (apply IHi; assumption).
        assert (fin (plist b c f acc (q_push hash_tok q3) TRCurly k) = true) as Hhash by (apply IHl; [exact He3|exact Hk]).
        destruct (t_kind tok2); try exact Hinf.
        * apply Hk; [reflexivity|]. destruct c; exact He3.
        * apply need_fin; [exact He3|]. intros _. apply idx_fin. intros t2. destruct (kind_is t2 TColonOperator); assumption.
        * apply need_fin; [exact He3|]. intros _. apply idx_fin. intros t2. apply idx_fin. intros t3.
          destruct (kind_is t2 TBacktickString && kind_is t3 TColonOperator); assumption.
        * apply need_fin; [exact He3|]. intros _. apply idx_fin. intros t2.
          destruct (kind_is t2 TSymbol && list_eqb (t_str t2) str_for); assumption.
      + destruct (list_eqb (t_str (tok_at q 0)) [45] || list_eqb (t_str (tok_at q 0)) [43]).
        * apply need_fin; [exact He1|]. intros _.
          destruct (kind_is (tok_at (q_tail q) 0) TFloat && _); apply Hk; try reflexivity; exact He.
        * destruct (list_eqb (t_str (tok_at q 0)) str_nil); apply Hk; try reflexivity; exact He1.
      + destruct (parse_int 10 _); [apply Hk; [reflexivity|exact He1]|reflexivity].
      + destruct (parse_int 16 _); [apply Hk; [reflexivity|exact He1]|reflexivity].
      + destruct (parse_int 8 _); [apply Hk; [reflexivity|exact He1]|reflexivity].
      + destruct (parse_int 2 _); [apply Hk; [reflexivity|exact He1]|reflexivity].
      + destruct (list_eqb _ str_NaN); [apply Hk; [reflexivity|exact He1]|]. destruct (float_ok _); [apply Hk; [reflexivity|exact He1]|reflexivity].
      + apply pbacktick_fin; assumption.
      + apply pblock_fin; assumption.
      + destruct (length _ <? 3)%nat; [reflexivity|]. destruct (conv_uint64 _); [apply Hk; [reflexivity|exact He1]|reflexivity]. }
    assert (Flist (S f)) as HL.
    { red. intros acc q endk k He Hk. simpl plist. apply need_fin; [exact He|]. intros _.
      destruct (kind_is (tok_at q 0) endk); [apply Hk; [reflexivity|exact He]|].
      apply IHe; [exact He|]. red. intros head q2 _ He2.
      assert (forall q5, q_err q5 = true -> fin (plist b c f acc q5 endk (fun tl q' => k (SPair head tl) q')) = true) as Hrest.
      { intros q5 H5. apply IHl; [exact H5|]. red; intros; apply Hk; [reflexivity|assumption]. }
      apply look_fin; [exact He2|]. intros _.
      destruct (kind_is (tok_at q2 0) TBackslash); [|apply Hrest; exact He2].
      apply IHe; [exact He2|]. red. intros tail q4 _ He4.
      apply look_fin; [exact He4|]. intros _.
      destruct (kind_is (tok_at q4 0) TRParen); [apply Hk; [reflexivity|exact He4]|reflexivity]. }
    assert (Farray (S f)) as HA.
    { red. intros acc q arr k He Hk. simpl parray. apply need_fin; [exact He|]. intros _.
      destruct (kind_is (tok_at q 0) TComma); [apply IHa; [exact He|exact Hk]|].
      destruct (kind_is (tok_at q 0) TRSquare); [apply Hk; [reflexivity|exact He]|].
      apply IHe; [exact He|]. red. intros e q2 _ H2. apply IHa; assumption. }
    assert (Finfix (S f)) as HI.
    { red. intros acc q arr k He Hk. simpl pinfix. apply need_fin; [exact He|]. intros _.
      destruct (kind_is (tok_at q 0) TRCurly); [apply Hk; [reflexivity|exact He]|].
      apply IHe; [exact He|]. red. intros e q2 _ H2. apply IHi; assumption. }
    assert (Fprefix (S f)) as HP.
    { red. intros acc q name k He Hk. simpl pprefix. apply IHe; [exact He|].
      red. intros e q2 Hs He2. destruct (is_comment e); [apply IHp; assumption|apply Hk; [reflexivity|exact He2]]. }
    repeat split; assumption.
Qed.

Lemma ptop_fin : forall f acc q, q_err q = true -> fin (ptop b c f acc q) = true.
Proof.
  induction f as [|f IH]; intros acc q He; [reflexivity|].
  simpl ptop. apply (proj1 (main_fin f)); [exact He|].
  red. intros e q' Hs He'. rewrite Hs. apply IH; exact He'.
Qed.

Lemma resume_fin : forall o u, fin o = true -> resume b c o u = o.
Proof. intros [] u H; simpl in *; try discriminate; reflexivity. Qed.

End Fin.

(* ---- delivery in pieces = delivery whole, with no side condition ---- *)
Definition Good (c : bool) (fuel : nat) (p : pstate) (t : list Z) : Prop :=
  (lres_ok (lex_all init_lstate t) = true /\ p = after_text true c fuel t) \/
  (lres_ok (lex_all init_lstate t) = false /\ ps_out p = ps_out (after_text true c fuel t) /\ fin (ps_out p) = true).

Lemma after_text_fin : forall c fuel t, lres_ok (lex_all init_lstate t) = false ->
  fin (ps_out (after_text true c fuel t)) = true.
Proof. intros c fuel t H. unfold after_text. cbn [ps_out]. apply ptop_fin. cbn [q_err]. rewrite H. reflexivity. Qed.

Lemma good_after : forall c fuel t, Good c fuel (after_text true c fuel t) t.
Proof.
  intros c fuel t. unfold Good. destruct (lres_ok (lex_all init_lstate t)) eqn:E.
  - left. split; reflexivity.
  - right. split; [reflexivity|]. split; [reflexivity|apply after_text_fin; exact E].
Qed.

Lemma lex_err_persists : forall t x, lres_ok (lex_all init_lstate t) = false ->
  lex_all init_lstate (t ++ x) = lex_all init_lstate t.
Proof. intros t x H. rewrite lex_all_app. destruct (lex_all init_lstate t); [discriminate|reflexivity]. Qed.

Lemma good_step : forall c fuel p t x, Good c fuel p t -> Good c fuel (p_deliver true c p x) (t ++ x).
Proof.
  intros c fuel p t x [[Hok ->]|(Herr & Hout & Hfin)].
  - rewrite (deliver_next true c fuel t x Hok); [apply good_after|left; reflexivity].
  - right. rewrite (lex_err_persists t x Herr). split; [exact Herr|].
    assert (after_text true c fuel (t ++ x) = after_text true c fuel t) as -> by (unfold after_text; rewrite (lex_err_persists t x Herr); reflexivity).
    unfold p_deliver. cbn [ps_out]. rewrite (resume_fin true c _ _ Hfin). split; [exact Hout|exact Hfin].
Qed.

Lemma good_all : forall c fuel pieces p t, Good c fuel p t ->
  Good c fuel (p_deliver_all true c p pieces) (t ++ concat pieces).
Proof.
  induction pieces as [|x rest IH]; intros p t H; simpl.
  - rewrite app_nil_r. exact H.
  - rewrite app_assoc. apply IH. apply good_step. exact H.
Qed.

Lemma good_out : forall c fuel p t, Good c fuel p t -> ps_out p = ps_out (after_text true c fuel t).
Proof. intros c fuel p t [[_ ->]|(_ & H & _)]; [reflexivity|exact H]. Qed.

(* after a lexer error the session is over: the outcome is the hard error, and it stays that whatever is
   delivered afterwards (as the REPL and the check's delivery protocol stop at the first hard error) *)
Theorem error_is_final : forall c fuel p t x,
  Good c fuel p t -> lres_ok (lex_all init_lstate t) = false ->
  ps_out (p_deliver true c p x) = ps_out p /\ fin (ps_out p) = true.
Proof.
  intros c fuel p t x [[Hok _]|(_ & _ & Hfin)] Herr; [congruence|].
  split; [unfold p_deliver; cbn [ps_out]; apply resume_fin; exact Hfin|exact Hfin].
Qed.

Theorem pieces_is_whole_all : forall c fuel pieces,
  parse_pieces true c fuel pieces = parse_whole true c fuel (concat pieces).
Proof.
  intros c fuel pieces. unfold parse_pieces, parse_whole, parse_after.
  rewrite deliver_first, <- concat_mark_last.
  destruct (mark_last pieces) as [|first rest] eqn:E.
  - destruct pieces as [|x [|y r]]; discriminate.
  - cbn [p_deliver_all]. rewrite deliver_first.
    rewrite (good_out c fuel _ _ (good_all c fuel rest _ first (good_after c fuel first))). reflexivity.
Qed.
