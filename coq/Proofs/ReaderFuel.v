(* The reader model returns: with fuel linear in the number of queued tokens the model of
   ParsingIter / ParseExpression / ParseList / ParseArray / ParseInfix / parsePrefixOperand /
   ParseBlockComment / the '{' look-ahead never reaches its own out-of-fuel outcome.
   Measure: every token weighs 1, a '{' weighs 2 (ParseExpression pops the brace and, for a hash
   literal, pushes the symbol `hash` back in front of the queue before it calls ParseList: the
   queue is as long as before, its weight is one less).  Bounds: ParseExpression 3w+1, the four
   loops and ParsingIter 3w+2.  (Owner: C01 proof task; Proofs/ReaderFuelAdequate.v of C13 is an
   independent proof of a similar bound.) *)
From Coq Require Import ZArith List Bool Lia.
From ZV Require Import Model.Regex Generated.LexTables Model.Lexer Model.Reader.
Import ListNotations.
Open Scope nat_scope.

Definition is_fuel (o : outcome) : bool := match o with OFuel => true | _ => false end.

Fixpoint twt (l : list token) : nat :=
  match l with
  | [] => 0
  | t :: r => (if kind_is t TLCurly then 2 else 1) + twt r
  end.
Definition wt (q : queue) : nat := twt (q_toks q).

(* the continuation does not run out of fuel on any queue of weight <= m *)
Definition NF (m : nat) (k : sexp -> queue -> outcome) : Prop :=
  forall e q, wt q <= m -> is_fuel (k e q) = false.

Lemma NF_mono : forall m m' k, m' <= m -> NF m k -> NF m' k.
Proof. intros m m' k H Hk e q Hq. apply Hk. lia. Qed.

Lemma len_le_twt : forall l, length l <= twt l.
Proof. induction l as [|t r IH]; simpl; [lia|]. destruct (kind_is t TLCurly); lia. Qed.

Lemma twt_le2 : forall l, twt l <= 2 * length l.
Proof. induction l as [|t r IH]; simpl; [lia|]. destruct (kind_is t TLCurly); lia. Qed.

Lemma twt_skipn : forall n l, twt (skipn n l) <= twt l.
Proof.
  induction n as [|n IH]; intros l; [simpl; lia|]. destruct l as [|t r]; [simpl; lia|].
  simpl. specialize (IH r). destruct (kind_is t TLCurly); lia.
Qed.

Lemma wt_empty : forall q, q_toks q = [] -> wt q = 0.
Proof. intros q H. unfold wt. rewrite H. reflexivity. Qed.

Lemma wt_tail : forall q, q_toks q <> [] ->
  wt q = (if kind_is (tok_at q 0) TLCurly then 2 else 1) + wt (q_tail q).
Proof.
  intros [l e i] H. unfold wt, tok_at, q_tail; simpl in *. destruct l as [|t r]; [congruence|]. reflexivity.
Qed.

Lemma wt_tail_lt : forall q, q_toks q <> [] -> wt (q_tail q) + 1 <= wt q.
Proof. intros q H. rewrite (wt_tail q H). destruct (kind_is (tok_at q 0) TLCurly); lia. Qed.

Lemma wt_tail_le : forall q, wt (q_tail q) <= pred (wt q).
Proof.
  intros q. destruct (q_toks q) eqn:E.
  - unfold wt, q_tail. simpl. rewrite E. simpl. lia.
  - assert (q_toks q <> []) as H by (rewrite E; discriminate). pose proof (wt_tail_lt q H). lia.
Qed.

Lemma wt_drop : forall n q, wt (q_drop n q) <= wt q.
Proof. intros n q. unfold wt, q_drop. simpl. apply twt_skipn. Qed.

Lemma wt_push_hash : forall q, wt (q_push hash_tok q) = S (wt q).
Proof. intros q. reflexivity. Qed.

Lemma len_tail : forall q, length (q_toks (q_tail q)) = pred (length (q_toks q)).
Proof. intros [l e i]. simpl. destruct l; reflexivity. Qed.

Lemma len_ne : forall (q : queue) n, n < length (q_toks q) -> q_toks q <> [].
Proof. intros q n H; destruct (q_toks q); [simpl in H; lia|discriminate]. Qed.

Lemma need_nf : forall acc n q k,
  (n < length (q_toks q) -> is_fuel (k q) = false) -> is_fuel (need acc n q k) = false.
Proof.
  intros acc n q k H. unfold need. destruct (n <? length (q_toks q)) eqn:E.
  - apply H. apply Nat.ltb_lt; exact E.
  - destruct (q_err q); reflexivity.
Qed.

Lemma look_nf : forall b acc q kend k,
  (q_toks q <> [] -> is_fuel (k q) = false) -> (q_toks q = [] -> is_fuel (kend tt) = false) ->
  is_fuel (look b acc q kend k) = false.
Proof.
  intros b acc q kend k H1 H2. unfold look. destruct (q_toks q) eqn:E.
  - destruct (q_err q); [reflexivity|]. destruct b; [reflexivity|apply H2; reflexivity].
  - apply H1; discriminate.
Qed.

Lemma idx_nf : forall q n k, (forall t, is_fuel (k t) = false) -> is_fuel (idx q n k) = false.
Proof. intros q n k H. unfold idx. destruct (nth_error (q_toks q) n); [apply H|reflexivity]. Qed.

(* ParseBlockComment: one token per iteration *)
Lemma pblock_nf : forall f acc q text k,
  length (q_toks q) + 1 <= f -> NF (pred (wt q)) k -> is_fuel (pblock f acc q text k) = false.
Proof.
  induction f as [|f IH]; intros acc q text k Hf Hk; [lia|].
  simpl. apply need_nf. intros Hlen.
  assert (q_toks q <> []) as Hne by (eapply len_ne; exact Hlen).
  destruct (kind_is (tok_at q 0) TEndBlockComment).
  - apply Hk. apply wt_tail_le.
  - destruct (kind_is (tok_at q 0) TComment); [|reflexivity].
    apply IH.
    + rewrite len_tail. lia.
    + eapply NF_mono; [|exact Hk]. pose proof (wt_tail_le q). lia.
Qed.

Lemma pbacktick_nf : forall acc q k, NF (pred (wt q)) k -> is_fuel (pbacktick acc q k) = false.
Proof.
  intros acc q k Hk. unfold pbacktick. apply need_nf. intros Hlen.
  destruct (kind_is (tok_at q 0) TBacktickString); [|reflexivity]. apply Hk. apply wt_tail_le.
Qed.

(* the comment-skipping loop of the '{' look-ahead: extra grows in every iteration and stays
   inside the queue (ParserPeekNextToken yields otherwise) *)
Lemma curly_skip_nf : forall f acc q tok2 extra k,
  extra <= length (q_toks q) -> length (q_toks q) + 1 <= f + extra ->
  (forall t x, is_fuel (k q t x) = false) -> is_fuel (curly_skip f acc q tok2 extra k) = false.
Proof.
  induction f as [|f IH]; intros acc q tok2 extra k Hex Hf Hk; [lia|].
  simpl. destruct (kind_is tok2 TBeginBlockComment).
  - apply need_nf. intros Hl. apply idx_nf. intros t2.
    destruct (kind_is t2 TComment).
    + apply need_nf. intros Hl2. apply idx_nf. intros t3. apply IH; [lia|lia|exact Hk].
    + apply IH; [lia|lia|exact Hk].
  - destruct (kind_is tok2 TComment).
    + apply need_nf. intros Hl. apply idx_nf. intros t3. apply IH; [lia|lia|exact Hk].
    + apply Hk.
Qed.

Section Fuel.
Variable b c : bool.

Definition FE (f : nat) : Prop := forall acc top q k,
  3 * wt q + 1 <= f -> NF (pred (wt q)) k -> is_fuel (pexpr b c f acc top q k) = false.
Definition FL (f : nat) : Prop := forall acc q endk k,
  3 * wt q + 2 <= f -> NF (pred (wt q)) k -> is_fuel (plist b c f acc q endk k) = false.
Definition FA (f : nat) : Prop := forall acc q arr k,
  3 * wt q + 2 <= f -> NF (pred (wt q)) k -> is_fuel (parray b c f acc q arr k) = false.
Definition FI (f : nat) : Prop := forall acc q arr k,
  3 * wt q + 2 <= f -> NF (pred (wt q)) k -> is_fuel (pinfix b c f acc q arr k) = false.
Definition FP (f : nat) : Prop := forall acc q name k,
  3 * wt q + 2 <= f -> NF (pred (wt q)) k -> is_fuel (pprefix b c f acc q name k) = false.

(* GetNextToken at the end of the queue: the end of the input, an error, or a yield *)
Lemma pexpr_empty : forall f acc top q k, q_toks q = [] -> is_fuel (k SEnd q) = false ->
  is_fuel (pexpr b c (S f) acc top q k) = false.
Proof.
  intros f acc top q k He Hk. simpl pexpr. apply look_nf; [congruence|intros _; exact Hk].
Qed.

Lemma main_nf : forall f, FE f /\ FL f /\ FA f /\ FI f /\ FP f.
Proof.
  induction f as [|f [IHe [IHl [IHa [IHi IHp]]]]].
  - repeat split; red; intros; lia.
  - assert (FE (S f)) as HE.
    { red. intros acc top q k Hf Hk. simpl pexpr.
      apply look_nf; [|intros He; apply Hk; rewrite (wt_empty q He); simpl; lia].
      intros Hne. pose proof (wt_tail q Hne) as Hwt. pose proof (wt_tail_lt q Hne) as Hw1.
      assert (NF (wt (q_tail q)) k) as Hk1 by (eapply NF_mono; [|exact Hk]; lia).
      assert (NF (pred (wt (q_tail q))) k) as Hk2 by (eapply NF_mono; [|exact Hk]; lia).
      destruct (t_kind (tok_at q 0)) eqn:K;
        try reflexivity; try (apply Hk1; apply le_n);
        try (apply IHp; [lia|exact Hk2]);
        try (apply IHl; [lia|exact Hk2]);
        try (apply IHa; [lia|exact Hk2]);
        try (apply pbacktick_nf; exact Hk2);
        try (apply pblock_nf; [pose proof (len_le_twt (q_toks (q_tail q))); unfold wt in *; lia|exact Hk2]);
        try (destruct (parse_int _ _); [apply Hk1; apply le_n|reflexivity]).
      + (* TLCurly *)
        assert (wt (q_tail q) + 2 <= wt q) as Hw2.
        { rewrite Hwt. unfold kind_is. rewrite K. simpl. lia. }
        apply need_nf. intros Hlen.
        pose proof (len_le_twt (q_toks (q_tail q))) as Hlw. fold (wt (q_tail q)) in Hlw.
        apply curly_skip_nf; [lia|lia|].
        intros tok2 extra.
        assert (is_fuel (pinfix b c f acc (q_tail q) [] k) = false) as Hinf by (apply IHi; [lia|exact Hk2]).
        assert (is_fuel (plist b c f acc (q_push hash_tok (q_tail q)) TRCurly k) = false) as Hhash.
        { apply IHl; [rewrite wt_push_hash; lia|]. rewrite wt_push_hash. simpl. exact Hk1. }
        assert (forall q', wt q' <= wt (q_tail q) -> is_fuel (k SHashEmpty q') = false) as Hdrop
          by (intros q' Hq'; apply Hk1; exact Hq').
        destruct (t_kind tok2); try exact Hinf.
        * destruct c; apply Hdrop; [apply wt_drop|pose proof (wt_tail_le (q_tail q)); lia].
        * apply need_nf. intros Hl. apply idx_nf. intros t2.
          destruct (kind_is t2 TColonOperator); assumption.
        * apply need_nf. intros Hl. apply idx_nf. intros t2. apply idx_nf. intros t3.
          destruct (kind_is t2 TBacktickString && kind_is t3 TColonOperator); assumption.
        * apply need_nf. intros Hl. apply idx_nf. intros t2.
          destruct (kind_is t2 TSymbol && list_eqb (t_str t2) str_for); assumption.
      + (* TSymbol *)
        destruct (list_eqb (t_str (tok_at q 0)) _ || list_eqb (t_str (tok_at q 0)) _).
        * apply need_nf. intros Hl.
          destruct (kind_is (tok_at (q_tail q) 0) TFloat && _); apply Hk1;
            [pose proof (wt_tail_le (q_tail q)); lia|apply le_n].
        * destruct (list_eqb (t_str (tok_at q 0)) str_nil); apply Hk1; apply le_n.
      + (* TFloat *)
        destruct (list_eqb _ str_NaN); [apply Hk1; apply le_n|].
        destruct (float_ok _); [apply Hk1; apply le_n|reflexivity].
      + (* TUint64 *)
        destruct (length (t_str (tok_at q 0)) <? 3); [reflexivity|].
        destruct (conv_uint64 _); [apply Hk1; apply le_n|reflexivity]. }
    assert (FL (S f)) as HL.
    { red. intros acc q endk k Hf Hk. simpl plist. apply need_nf. intros Hlen.
      assert (q_toks q <> []) as Hne by (eapply len_ne; exact Hlen).
      pose proof (wt_tail_lt q Hne) as Hw1.
      destruct (kind_is (tok_at q 0) endk); [apply Hk; apply wt_tail_le|].
      apply IHe; [lia|]. red. intros head q2 H2.
      assert (forall q5, wt q5 <= pred (wt q) ->
                is_fuel (plist b c f acc q5 endk (fun tl q' => k (SPair head tl) q')) = false) as Hrest.
      { intros q5 H5. apply IHl; [lia|]. red. intros e q' Hq'. apply Hk. lia. }
      apply look_nf; [|intros _; apply Hrest; exact H2].
      intros Hne2. destruct (kind_is (tok_at q2 0) TBackslash); [|apply Hrest; exact H2].
      pose proof (wt_tail_le q2) as Ht2.
      apply IHe; [lia|]. red. intros tail q4 H4.
      apply look_nf; [|intros _; reflexivity].
      intros Hne4. destruct (kind_is (tok_at q4 0) TRParen); [|reflexivity].
      apply Hk. pose proof (wt_tail_le q4). lia. }
    assert (FA (S f)) as HA.
    { red. intros acc q arr k Hf Hk. simpl parray. apply need_nf. intros Hlen.
      assert (q_toks q <> []) as Hne by (eapply len_ne; exact Hlen).
      pose proof (wt_tail_lt q Hne) as Hw1.
      destruct (kind_is (tok_at q 0) TComma);
        [apply IHa; [lia|eapply NF_mono; [|exact Hk]; lia]|].
      destruct (kind_is (tok_at q 0) TRSquare); [apply Hk; apply wt_tail_le|].
      apply IHe; [lia|]. red. intros e q2 H2.
      apply IHa; [lia|eapply NF_mono; [|exact Hk]; lia]. }
    assert (FI (S f)) as HI.
    { red. intros acc q arr k Hf Hk. simpl pinfix. apply need_nf. intros Hlen.
      assert (q_toks q <> []) as Hne by (eapply len_ne; exact Hlen).
      pose proof (wt_tail_lt q Hne) as Hw1.
      destruct (kind_is (tok_at q 0) TRCurly); [apply Hk; apply wt_tail_le|].
      apply IHe; [lia|]. red. intros e q2 H2.
      apply IHi; [lia|eapply NF_mono; [|exact Hk]; lia]. }
    assert (FP (S f)) as HP.
    { red. intros acc q name k Hf Hk. simpl pprefix.
      destruct (q_toks q) eqn:Eq.
      - destruct f as [|f']; [lia|]. apply pexpr_empty; [exact Eq|].
        simpl. apply Hk. rewrite (wt_empty q Eq). simpl. lia.
      - assert (q_toks q <> []) as Hne by (rewrite Eq; discriminate).
        pose proof (wt_tail_lt q Hne) as Hw1.
        apply IHe; [lia|]. red. intros e q2 H2.
        destruct (is_comment e); [|apply Hk; exact H2].
        apply IHp; [lia|eapply NF_mono; [|exact Hk]; lia]. }
    repeat split; assumption.
Qed.

(* ParsingIter *)
Lemma ptop_nf : forall f acc q, 3 * wt q + 2 <= f -> is_fuel (ptop b c f acc q) = false.
Proof.
  induction f as [|f IH]; intros acc q Hf; [lia|].
  simpl ptop. destruct (q_toks q) eqn:Eq.
  - destruct f as [|f']; [lia|]. apply pexpr_empty; [exact Eq|].
    simpl. destruct (q_instr q); reflexivity.
  - assert (q_toks q <> []) as Hne by (rewrite Eq; discriminate).
    pose proof (wt_tail_lt q Hne) as Hw1.
    apply (proj1 (main_nf f)); [lia|]. red. intros e q' H'.
    destruct (is_send e); [destruct (q_instr q'); reflexivity|apply IH; lia].
Qed.

End Fuel.

(* ---- the whole text on a parser in any state ---- *)

(* the tokens ResetAddNewInput(text) + the lexer queue for the parser *)
Definition read_tokens (p : pstate) (text : list Z) : list token :=
  l_tokens (lres_state (lex_all (reset (ps_lex p)) (text ++ nl))).

(* fuel that is always enough: 3 * (number of tokens + number of '{' tokens) + 2 *)
Definition read_fuel (p : pstate) (text : list Z) : nat := 3 * twt (read_tokens p text) + 2.

Theorem whole_no_fuel : forall b c fuel p text,
  read_fuel p text <= fuel -> is_fuel (parse_after b c fuel p text) = false.
Proof.
  intros b c fuel p text H. unfold parse_after, p_deliver, p_reset.
  cbn [ps_out ps_lex resume]. apply ptop_nf. exact H.
Qed.

Lemma read_fuel_le : forall p text, read_fuel p text <= 6 * length (read_tokens p text) + 2.
Proof. intros p text. unfold read_fuel. pose proof (twt_le2 (read_tokens p text)). lia. Qed.

Theorem whole_no_fuel_len : forall b c fuel p text,
  6 * length (read_tokens p text) + 2 <= fuel -> is_fuel (parse_after b c fuel p text) = false.
Proof. intros b c fuel p text H. apply whole_no_fuel. pose proof (read_fuel_le p text). lia. Qed.

(* any queue at all, not only one the lexer produced *)
Theorem ptop_no_fuel : forall b c fuel acc q,
  3 * wt q + 2 <= fuel -> is_fuel (ptop b c fuel acc q) = false.
Proof. exact ptop_nf. Qed.

(* ---- together with read_total: every read returns Done / NeedMore / an error ---- *)
Require ZV.Proofs.ReaderTotal ZV.Proofs.LexerWF ZV.Proofs.ReaderFinal.

Definition returns (o : outcome) : Prop :=
  fst (observe o) = StDone \/ fst (observe o) = StMore \/ fst (observe o) = StErr.

Theorem whole_returns : forall b c fuel p text,
  read_fuel p text <= fuel -> returns (parse_after b c fuel p text).
Proof.
  intros b c fuel p text H.
  pose proof (whole_no_fuel b c fuel p text H) as Hf.
  pose proof (ZV.Proofs.LexerWF.whole_no_crash b c fuel p text) as Hc.
  unfold returns. destruct (parse_after b c fuel p text); simpl in *; auto; discriminate.
Qed.

(* the parser as it is now (strict look-aheads), the text delivered in any pieces *)
Theorem pieces_returns : forall c fuel pieces,
  read_fuel (p_init 0) (concat pieces) <= fuel -> returns (parse_pieces true c fuel pieces).
Proof.
  intros c fuel pieces H. rewrite ZV.Proofs.ReaderFinal.pieces_is_whole_all.
  unfold parse_whole. apply whole_returns. exact H.
Qed.

(* example texts for Properties/C01.v *)
Definition text_paren_a : list Z := [40; 97; 41]%Z.              (* (a) *)
Definition text_open_a : list Z := [40; 97]%Z.                   (* (a *)
Definition text_hash_a1 : list Z := [123; 97; 58; 49; 125]%Z.    (* {a:1} *)
