(* The model's fuel is adequate: with fuel >= 4 * (number of tokens) + 2 the reader model never ends in
   its own out-of-fuel outcome (OFuel), for every text, both model flags, every parser state before
   ResetAddNewInput.  Fifth mutual induction over pexpr/plist/parray/pinfix/pprefix (skeleton of
   ReaderTotal.main_nc).  Measure: M q = number of queued tokens, a '{' counted twice (the hash
   look-ahead pushes the symbol `hash` in front of the queue after popping the brace); pexpr needs
   fuel >= 2 M + 1, the other four and ptop 2 M + 2; the comment loops (pblock, curly_skip) need the
   number of tokens + 1. *)
From Coq Require Import ZArith List Bool Lia Arith.
From ZV Require Import Model.Regex Generated.LexTables Model.Lexer Model.Reader Model.TokScan Proofs.LexerProofs.
Import ListNotations.
Local Open Scope nat_scope.

Definition is_fuel (o : outcome) : bool := match o with OFuel => true | _ => false end.
Definition tw (t : token) : nat := if kind_is t TLCurly then 2 else 1.
Fixpoint wsum (l : list token) : nat := match l with [] => 0 | t :: r => tw t + wsum r end.
Definition M (q : queue) : nat := wsum (q_toks q).
Definition NF (m : nat) (k : sexp -> queue -> outcome) : Prop := forall e q, M q < m -> is_fuel (k e q) = false.

Lemma tw_pos : forall t, 1 <= tw t.
Proof. intros t. unfold tw. destruct (kind_is t TLCurly); lia. Qed.

Lemma wsum_len : forall l, length l <= wsum l /\ wsum l <= 2 * length l.
Proof.
  induction l as [|t r IH]; simpl; [lia|]. pose proof (tw_pos t). assert (tw t <= 2) by (unfold tw; destruct (kind_is t TLCurly); lia). lia.
Qed.

Lemma wsum_skipn : forall n l, wsum (skipn n l) <= wsum l.
Proof. induction n as [|n IH]; intros l; simpl; [lia|]. destruct l as [|t r]; simpl; [lia|]. specialize (IH r). lia. Qed.

Lemma NF_mono : forall m m' k, m' <= m -> NF m k -> NF m' k.
Proof. intros m m' k H Hk e q Hq. apply Hk. lia. Qed.

Lemma M_split : forall q, q_toks q <> [] -> M q = tw (tok_at q 0) + M (q_tail q).
Proof. intros [l e i] H. unfold M, tok_at, q_tail; simpl in *. destruct l as [|t r]; [congruence|reflexivity]. Qed.

Lemma M_tail_le : forall q, M (q_tail q) <= M q.
Proof. intros [l e i]. unfold M, q_tail; simpl. destruct l as [|t r]; simpl; lia. Qed.

Lemma M_drop_le : forall n q, M (q_drop n q) <= M q.
Proof. intros n [l e i]. unfold M, q_drop; simpl. apply wsum_skipn. Qed.

Lemma len_M : forall q, length (q_toks q) <= M q.
Proof. intros q. unfold M. apply wsum_len. Qed.

Lemma len_ne : forall (q : queue) n, n < length (q_toks q) -> q_toks q <> [].
Proof. intros q n H; destruct (q_toks q); [simpl in H; lia|discriminate]. Qed.

Lemma need_nf : forall acc n q k,
  (n < length (q_toks q) -> is_fuel (k q) = false) -> is_fuel (need acc n q k) = false.
Proof.
  intros acc n q k H. unfold need. destruct (n <? length (q_toks q)) eqn:E.
  - apply H. apply Nat.ltb_lt; exact E.
  - destruct (q_err q); reflexivity.
Qed.

Lemma look_nf : forall b acc q kend k,
  (q_toks q <> [] -> is_fuel (k q) = false) -> (q_toks q = [] -> is_fuel (kend tt) = false) ->
  is_fuel (look b acc q kend k) = false.
Proof.
  intros b acc q kend k H1 H2. unfold look. destruct (q_toks q) eqn:E.
  - destruct (q_err q); [reflexivity|]. destruct b; [reflexivity|apply H2; reflexivity].
  - apply H1; discriminate.
Qed.

Lemma idx_nf : forall q n k, (forall t, is_fuel (k t) = false) -> is_fuel (idx q n k) = false.
Proof. intros q n k H. unfold idx. destruct (nth_error (q_toks q) n); [apply H|reflexivity]. Qed.

Lemma pblock_nf : forall f acc q text k,
  length (q_toks q) < f -> NF (M q) k -> is_fuel (pblock f acc q text k) = false.
Proof.
  induction f as [|f IH]; intros acc q text k Hf Hk; [lia|].
  simpl. apply need_nf. intros Hlen.
  assert (q_toks q <> []) as Hne by (eapply len_ne; exact Hlen).
  pose proof (M_split q Hne) as HM. pose proof (tw_pos (tok_at q 0)) as Hge.
  destruct (kind_is (tok_at q 0) TEndBlockComment).
  - apply Hk. lia.
  - destruct (kind_is (tok_at q 0) TComment); [|reflexivity].
    apply IH.
    + destruct q as [l e i]; simpl in *. destruct l; simpl in *; [congruence|lia].
    + eapply NF_mono; [|exact Hk]. lia.
Qed.

Lemma pbacktick_nf : forall acc q k, NF (M q) k -> is_fuel (pbacktick acc q k) = false.
Proof.
  intros acc q k Hk. unfold pbacktick. apply need_nf. intros Hlen.
  assert (q_toks q <> []) as Hne by (eapply len_ne; exact Hlen).
  pose proof (M_split q Hne) as HM. pose proof (tw_pos (tok_at q 0)) as Hge.
  destruct (kind_is (tok_at q 0) TBacktickString); [apply Hk; lia|reflexivity].
Qed.

Lemma curly_skip_nf : forall f acc q tok2 extra k,
  extra <= length (q_toks q) -> length (q_toks q) + 1 <= f + extra ->
  (forall t e, is_fuel (k q t e) = false) -> is_fuel (curly_skip f acc q tok2 extra k) = false.
Proof.
  induction f as [|f IH]; intros acc q tok2 extra k Hex Hf Hk; [lia|].
  simpl. destruct (kind_is tok2 TBeginBlockComment).
  - apply need_nf. intros Hl. apply idx_nf. intros t2.
    destruct (kind_is t2 TComment).
    + apply need_nf. intros Hl2. apply idx_nf. intros t3. apply IH; [lia|lia|exact Hk].
    + apply IH; [lia|lia|exact Hk].
  - destruct (kind_is tok2 TComment).
    + apply need_nf. intros Hl. apply idx_nf. intros t3. apply IH; [lia|lia|exact Hk].
    + apply Hk.
Qed.

Section Fuel.
Variable b c : bool.

Definition FE (f : nat) : Prop := forall acc top q k, 2 * M q + 1 <= f -> NF (M q) k ->
  (q_toks q = [] -> is_fuel (k SEnd q) = false) -> is_fuel (pexpr b c f acc top q k) = false.
Definition FL (f : nat) : Prop := forall acc q endk k, 2 * M q + 2 <= f -> NF (M q) k -> is_fuel (plist b c f acc q endk k) = false.
Definition FA (f : nat) : Prop := forall acc q arr k, 2 * M q + 2 <= f -> NF (M q) k -> is_fuel (parray b c f acc q arr k) = false.
Definition FI (f : nat) : Prop := forall acc q arr k, 2 * M q + 2 <= f -> NF (M q) k -> is_fuel (pinfix b c f acc q arr k) = false.
Definition FP (f : nat) : Prop := forall acc q name k, 2 * M q + 2 <= f -> NF (M q) k ->
  (q_toks q = [] -> forall e, is_fuel (k e q) = false) -> is_fuel (pprefix b c f acc q name k) = false.

Lemma main_nf : forall f, FE f /\ FL f /\ FA f /\ FI f /\ FP f.
Proof.
  induction f as [|f [IHe [IHl [IHa [IHi IHp]]]]].
  - repeat split; red; intros; lia.
  - assert (FE (S f)) as HE.
    { red. intros acc top q k Hf Hk Hend. simpl pexpr.
      apply look_nf; [|intros E; apply Hend; exact E].
      intros Hne. pose proof (M_split q Hne) as HM. pose proof (tw_pos (tok_at q 0)) as Hge.
      pose proof (len_M (q_tail q)) as Hlen1.
      assert (forall e, is_fuel (k e (q_tail q)) = false) as Hk1 by (intros e; apply Hk; lia).
      assert (NF (M (q_tail q)) k) as Hmono by (eapply NF_mono; [|exact Hk]; lia).
      destruct (t_kind (tok_at q 0)) eqn:K;
        try reflexivity; try (apply Hk1);
        try (apply IHp; [lia|exact Hmono|intros _ e; apply Hk1]);
        try (apply IHl; [lia|exact Hmono]);
        try (apply IHa; [lia|exact Hmono]);
        try (apply pbacktick_nf; exact Hmono);
        try (apply pblock_nf; [lia|exact Hmono]);
        try (destruct (parse_int _ _); [apply Hk1|reflexivity]).
      + (* TLCurly *)
        assert (tw (tok_at q 0) = 2) as H2 by (unfold tw, kind_is; rewrite K; reflexivity).
        apply need_nf. intros Hlen. apply curly_skip_nf; [lia|lia|].
        intros tok2 extra.
        assert (is_fuel (pinfix b c f acc (q_tail q) [] k) = false) as Hinf by (apply IHi; [lia|exact Hmono]).
        assert (is_fuel (plist b c f acc (q_push hash_tok (q_tail q)) TRCurly k) = false) as Hhash.
        { assert (M (q_push hash_tok (q_tail q)) = 1 + M (q_tail q)) as Hp by reflexivity.
          apply IHl; [lia|]. eapply NF_mono; [|exact Hk]. lia. }
        destruct (t_kind tok2); try exact Hinf.
        * apply Hk. destruct c; [pose proof (M_drop_le extra (q_tail q))|pose proof (M_tail_le (q_tail q))]; lia.
        * apply need_nf. intros Hl. apply idx_nf. intros t2.
          destruct (kind_is t2 TColonOperator); assumption.
        * apply need_nf. intros Hl. apply idx_nf. intros t2. apply idx_nf. intros t3.
          destruct (kind_is t2 TBacktickString && kind_is t3 TColonOperator); assumption.
        * apply need_nf. intros Hl. apply idx_nf. intros t2.
          destruct (kind_is t2 TSymbol && list_eqb (t_str t2) str_for); assumption.
      + (* TSymbol *)
        destruct (list_eqb (t_str (tok_at q 0)) [45%Z] || list_eqb (t_str (tok_at q 0)) [43%Z]).
        * apply need_nf. intros Hl. pose proof (M_tail_le (q_tail q)).
          destruct (kind_is (tok_at (q_tail q) 0) TFloat && _); [apply Hk; lia|apply Hk1].
        * destruct (list_eqb (t_str (tok_at q 0)) str_nil); apply Hk1.
      + destruct (list_eqb _ str_NaN); [apply Hk1|]. destruct (float_ok _); [apply Hk1|reflexivity].
      + (* TUint64 *)
        destruct (length (t_str (tok_at q 0)) <? 3); [reflexivity|].
        destruct (conv_uint64 _); [apply Hk1|reflexivity]. }
    assert (FL (S f)) as HL.
    { red. intros acc q endk k Hf Hk. simpl plist. apply need_nf. intros Hlen.
      assert (q_toks q <> []) as Hne by (eapply len_ne; exact Hlen).
      pose proof (M_split q Hne) as HM. pose proof (tw_pos (tok_at q 0)) as Hge.
      destruct (kind_is (tok_at q 0) endk); [apply Hk; lia|].
      apply IHe; [lia| |intros E; congruence]. red. intros head q2 Hq2.
      assert (forall q5, M q5 <= M q2 -> is_fuel (plist b c f acc q5 endk (fun tl q' => k (SPair head tl) q')) = false) as Hrest.
      { intros q5 H5. apply IHl; [lia|]. red; intros e q' Hq'; apply Hk; lia. }
      apply look_nf; [|intros _; apply Hrest; lia].
      intros Hne2. destruct (kind_is (tok_at q2 0) TBackslash); [|apply Hrest; lia].
      pose proof (M_tail_le q2) as Ht2.
      apply IHe; [lia| |].
      - red. intros tail q4 Hq4.
        apply look_nf; [|intros _; reflexivity].
        intros Hne4. pose proof (M_tail_le q4). destruct (kind_is (tok_at q4 0) TRParen); [apply Hk; lia|reflexivity].
      - intros E. unfold look. rewrite E. destruct (q_err (q_tail q2)); [reflexivity|]. destruct b; reflexivity. }
    assert (FA (S f)) as HA.
    { red. intros acc q arr k Hf Hk. simpl parray. apply need_nf. intros Hlen.
      assert (q_toks q <> []) as Hne by (eapply len_ne; exact Hlen).
      pose proof (M_split q Hne) as HM. pose proof (tw_pos (tok_at q 0)) as Hge.
      destruct (kind_is (tok_at q 0) TComma); [apply IHa; [lia|eapply NF_mono; [|exact Hk]; lia]|].
      destruct (kind_is (tok_at q 0) TRSquare); [apply Hk; lia|].
      apply IHe; [lia| |intros E; congruence]. red. intros e q2 H2. apply IHa; [lia|eapply NF_mono; [|exact Hk]; lia]. }
    assert (FI (S f)) as HI.
    { red. intros acc q arr k Hf Hk. simpl pinfix. apply need_nf. intros Hlen.
      assert (q_toks q <> []) as Hne by (eapply len_ne; exact Hlen).
      pose proof (M_split q Hne) as HM. pose proof (tw_pos (tok_at q 0)) as Hge.
      destruct (kind_is (tok_at q 0) TRCurly); [apply Hk; lia|].
      apply IHe; [lia| |intros E; congruence]. red. intros e q2 H2. apply IHi; [lia|eapply NF_mono; [|exact Hk]; lia]. }
    assert (FP (S f)) as HP.
    { red. intros acc q name k Hf Hk Hend. simpl pprefix.
      destruct (q_toks q) eqn:E.
      - (* nothing queued: the look-ahead of pexpr yields, errs, or (before the fix) hands End to the prefix *)
        destruct f as [|f']; [lia|]. simpl pexpr. unfold look. rewrite E.
        destruct (q_err q); [reflexivity|]. destruct b; [reflexivity|]. simpl. apply Hend. reflexivity.
      - apply IHe; [lia| |intros E'; congruence].
        red. intros e q2 H2. destruct (is_comment e); [apply IHp; [lia|eapply NF_mono; [|exact Hk]; lia|intros _ e'; apply Hk; exact H2]|apply Hk; exact H2]. }
    repeat split; assumption.
Qed.

Lemma ptop_nf : forall f acc q, 2 * M q + 2 <= f -> is_fuel (ptop b c f acc q) = false.
Proof.
  induction f as [|f IH]; intros acc q Hf; [lia|].
  simpl ptop. apply (proj1 (main_nf f)); [lia| |].
  - red. intros e q' H'. destruct (is_send e); [destruct (q_instr q'); reflexivity|apply IH; lia].
  - intros _. simpl. destruct (q_instr q); reflexivity.
Qed.

End Fuel.

Theorem enough_fuel : forall b c fuel p text,
  4 * length (text_tokens text) + 2 <= fuel -> is_fuel (parse_after b c fuel p text) = false.
Proof.
  intros b c fuel p text H. unfold parse_after, p_deliver, p_reset. cbn [ps_lex ps_out resume].
  rewrite reset_is_init. apply ptop_nf. unfold M. cbn [q_toks].
  unfold text_tokens in H. pose proof (wsum_len (l_tokens (lres_state (lex_all init_lstate (text ++ nl))))). lia.
Qed.

Lemma is_fuel_status : forall o, is_fuel o = false -> fst (observe o) <> StFuel.
Proof. intros [] H; simpl in *; discriminate. Qed.
