(* Lemmas about Model/Reader.v: resuming the suspended parser with more tokens is the same as
   running it on the longer token list from the start (unconditionally for the repaired parser,
   strict = true; for the parser as it is when no quote-sugar / backslash token is involved). *)
From Coq Require Import ZArith List Bool Lia.
From ZV Require Import Model.Regex Generated.LexTables Model.Lexer Model.Reader Proofs.LexerProofs.
Import ListNotations.
Open Scope Z_scope.

Definition qapp (q u : queue) : queue := mkQ (q_toks q ++ q_toks u) (q_err u) (q_instr u).

Definition is_sugar (t : token) : bool :=
  match t_kind t with TQuote | TCaret | TTilde | TTildeAt | TBackslash => true | _ => false end.
Definition nosugar (l : list token) : Prop := forallb (fun t => negb (is_sugar t)) l = true.
(* the side condition of the resume lemmas *)
Definition okb (b : bool) (l : list token) : Prop := b = true \/ nosugar l.

Lemma okb_tl : forall b t l, okb b (t :: l) -> okb b l.
Proof. intros b t l [H|H]; [left; exact H|right]. unfold nosugar in *; simpl in H. apply andb_prop in H; tauto. Qed.

Lemma okb_hd : forall t l, okb false (t :: l) -> is_sugar t = false.
Proof.
  intros t l [H|H]; [discriminate|]. unfold nosugar in H; simpl in H.
  apply andb_prop in H. destruct H as [H _]. destruct (is_sugar t); [discriminate|reflexivity].
Qed.

Lemma okb_cons : forall b t l, is_sugar t = false -> okb b l -> okb b (t :: l).
Proof. intros b t l Ht [H|H]; [left; exact H|right]. unfold nosugar in *; simpl. rewrite Ht, H; reflexivity. Qed.

Section Resume.
Variable b : bool.
Variable c : bool.
Variable u : queue.
(* for the parser as it is (b = false) the lemmas are stated for continuations without a lexer
   error (with one, an out-of-fuel artefact of the model would have to be excluded instead) *)
Hypothesis Hu : b = false -> q_err u = false.

Definition kcompat (k : sexp -> queue -> outcome) : Prop :=
  forall e q, is_send e = false -> q_err q = false -> okb b (q_toks q ++ q_toks u) ->
    resume b c (k e q) u = k e (qapp q u).

Lemma qapp_nil : forall q, q_toks q = [] -> qapp q u = u.
Proof. intros q H; unfold qapp; rewrite H; destruct u; reflexivity. Qed.

Lemma qapp_tail : forall q, q_toks q <> [] -> q_tail (qapp q u) = qapp (q_tail q) u.
Proof. intros [t e i] H; simpl in *. destruct t; [congruence|reflexivity]. Qed.

Lemma tok_at_qapp : forall q n, (n < length (q_toks q))%nat -> tok_at (qapp q u) n = tok_at q n.
Proof. intros q n H; unfold tok_at, qapp; simpl. apply app_nth1; exact H. Qed.

Lemma tok_at_qapp0 : forall q, q_toks q <> [] -> tok_at (qapp q u) 0 = tok_at q 0.
Proof. intros q H; apply tok_at_qapp. destruct (q_toks q); [congruence|simpl; lia]. Qed.

Lemma nth_qapp : forall q n, (n < length (q_toks q))%nat -> nth_error (q_toks (qapp q u)) n = nth_error (q_toks q) n.
Proof. intros q n H; unfold qapp; simpl. apply nth_error_app1; exact H. Qed.

Lemma idx_qapp : forall q n k, (n < length (q_toks q))%nat -> idx (qapp q u) n k = idx q n k.
Proof. intros q n k H; unfold idx, qapp; simpl. rewrite nth_error_app1 by exact H. reflexivity. Qed.

Lemma q_drop_qapp : forall q n, (n <= length (q_toks q))%nat -> q_drop n (qapp q u) = qapp (q_drop n q) u.
Proof. intros q n H; unfold q_drop, qapp; simpl. rewrite skipn_app. replace (n - length (q_toks q))%nat with 0%nat by lia. reflexivity. Qed.

Lemma okb_drop : forall q n, okb b (q_toks q ++ q_toks u) -> okb b (q_toks (q_drop n q) ++ q_toks u).
Proof.
  intros q n. unfold q_drop; simpl. generalize (q_toks q). induction n as [|n IH]; intros l H; [exact H|].
  destruct l as [|t l]; [exact H|]. simpl. apply IH. simpl in H. eapply okb_tl; exact H.
Qed.

Lemma q_push_qapp : forall t q, q_push t (qapp q u) = qapp (q_push t q) u.
Proof. reflexivity. Qed.

Lemma q_tail_err : forall q, q_err (q_tail q) = q_err q.
Proof. reflexivity. Qed.

Lemma okb_tail : forall q, q_toks q <> [] -> okb b (q_toks q ++ q_toks u) -> okb b (q_toks (q_tail q) ++ q_toks u).
Proof. intros [t e i] H Hok; simpl in *. destruct t; [congruence|]. simpl in Hok. eapply okb_tl; exact Hok. Qed.

(* after a successful [need], the direct index lexer.tokens[n] is the same in the longer queue *)
Ltac fix_idx q t :=
  unfold idx;
  repeat match goal with
         | |- context [nth_error (q_toks (qapp q u)) ?n] => rewrite (nth_qapp q n) by (simpl in *; lia)
         end;
  match goal with
  | |- context [match nth_error (q_toks q) ?n with _ => _ end] =>
      destruct (nth_error (q_toks q) n) as [t|]; [|reflexivity]
  end.

(* ---- the yielding look-ahead ---- *)
Lemma need_resume : forall acc n q k,
  q_err q = false ->
  ((n < length (q_toks q))%nat -> resume b c (k q) u = k (qapp q u)) ->
  resume b c (need acc n q k) u = need acc n (qapp q u) k.
Proof.
  intros acc n q k Hq Hk. unfold need at 1.
  destruct (n <? length (q_toks q))%nat eqn:E.
  - apply Nat.ltb_lt in E. rewrite (Hk E). unfold need.
    assert (n <? length (q_toks (qapp q u)) = true)%nat as ->; [|reflexivity].
    apply Nat.ltb_lt. simpl. rewrite app_length. lia.
  - rewrite Hq. reflexivity.
Qed.

(* ---- the look-ahead that does not yield (yields when b' = true) ---- *)
Lemma look_resume : forall b' acc q kend kend2 k,
  q_err q = false ->
  (q_toks q <> [] -> resume b c (k q) u = k (qapp q u)) ->
  (b' = false -> q_toks q = [] -> resume b c (kend tt) u = look b' acc u kend2 k) ->
  resume b c (look b' acc q kend k) u = look b' acc (qapp q u) kend2 k.
Proof.
  intros b' acc q kend kend2 k Hq Hk Hend. unfold look at 1.
  destruct (q_toks q) as [|t rest] eqn:E.
  - rewrite Hq. rewrite (qapp_nil q E). destruct b'.
    + simpl. unfold need, look. simpl. destruct (q_toks u) as [|t' r'] eqn:Eu.
      * simpl. destruct (q_err u); reflexivity.
      * simpl. destruct u as [ut ue ui]; simpl in *; subst ut; reflexivity.
    + apply Hend; reflexivity.
  - rewrite Hk by discriminate. unfold look, qapp; simpl. rewrite E; reflexivity.
Qed.


Lemma resume_final_err : forall acc, resume b c (OErr acc) u = OErr acc. Proof. reflexivity. Qed.

(* ---- ParseBlockComment, ParseBacktickString ---- *)
Lemma pblock_resume : forall f acc q text k,
  q_err q = false -> okb b (q_toks q ++ q_toks u) -> kcompat k ->
  resume b c (pblock f acc q text k) u = pblock f acc (qapp q u) text k.
Proof.
  induction f as [|f IH]; intros acc q text k Hq Hok Hk; [reflexivity|].
  simpl. apply need_resume; [exact Hq|]. intros Hlen.
  assert (q_toks q <> []) as Hne by (destruct (q_toks q); [simpl in Hlen; lia|discriminate]).
  rewrite (tok_at_qapp0 q Hne), (qapp_tail q Hne).
  destruct (kind_is (tok_at q 0) TEndBlockComment).
  - apply Hk; [reflexivity|exact Hq|apply okb_tail; assumption].
  - destruct (kind_is (tok_at q 0) TComment); [|reflexivity].
    apply IH; [exact Hq|apply okb_tail; assumption|exact Hk].
Qed.

Lemma pbacktick_resume : forall acc q k,
  q_err q = false -> okb b (q_toks q ++ q_toks u) -> kcompat k ->
  resume b c (pbacktick acc q k) u = pbacktick acc (qapp q u) k.
Proof.
  intros acc q k Hq Hok Hk. unfold pbacktick. apply need_resume; [exact Hq|]. intros Hlen.
  assert (q_toks q <> []) as Hne by (destruct (q_toks q); [simpl in Hlen; lia|discriminate]).
  rewrite (tok_at_qapp0 q Hne), (qapp_tail q Hne).
  destruct (kind_is (tok_at q 0) TBacktickString); [|reflexivity].
  apply Hk; [reflexivity|exact Hq|apply okb_tail; assumption].
Qed.

(* ---- the comment-skipping loop of the '{' look-ahead ---- *)
Definition k3compat (k : queue -> token -> nat -> outcome) : Prop :=
  forall q tok2 extra, q_err q = false -> okb b (q_toks q ++ q_toks u) -> (1 <= extra <= length (q_toks q))%nat ->
    resume b c (k q tok2 extra) u = k (qapp q u) tok2 extra.

Lemma curly_skip_resume : forall f acc q tok2 extra k,
  q_err q = false -> okb b (q_toks q ++ q_toks u) -> (1 <= extra <= length (q_toks q))%nat -> k3compat k ->
  resume b c (curly_skip f acc q tok2 extra k) u = curly_skip f acc (qapp q u) tok2 extra k.
Proof.
  induction f as [|f IH]; intros acc q tok2 extra k Hq Hok Hex Hk; [reflexivity|].
  simpl. destruct (kind_is tok2 TBeginBlockComment).
  - apply need_resume; [exact Hq|]. intros Hlen.
    fix_idx q t2.
    destruct (kind_is t2 TComment).
    + apply need_resume; [exact Hq|]. intros Hlen2.
      fix_idx q t3.
      apply IH; [exact Hq|exact Hok|lia|exact Hk].
    + apply IH; [exact Hq|exact Hok|lia|exact Hk].
  - destruct (kind_is tok2 TComment).
    + apply need_resume; [exact Hq|]. intros Hlen.
      fix_idx q t3.
      apply IH; [exact Hq|exact Hok|lia|exact Hk].
    + apply Hk; assumption.
Qed.


(* ---- ParseExpression / ParseList / ParseArray / ParseInfix ---- *)
Definition Pexpr (f : nat) : Prop := forall acc top q k,
  q_err q = false -> okb b (q_toks q ++ q_toks u) ->
  (top = false -> b = false -> q_toks q <> []) -> kcompat k ->
  (top = true -> q_toks q = [] -> resume b c (k SEnd q) u = pexpr b c f acc true u k) ->
  resume b c (pexpr b c f acc top q k) u = pexpr b c f acc top (qapp q u) k.
Definition Plist (f : nat) : Prop := forall acc q endk k,
  q_err q = false -> okb b (q_toks q ++ q_toks u) -> kcompat k ->
  resume b c (plist b c f acc q endk k) u = plist b c f acc (qapp q u) endk k.
Definition Parray (f : nat) : Prop := forall acc q arr k,
  q_err q = false -> okb b (q_toks q ++ q_toks u) -> kcompat k ->
  resume b c (parray b c f acc q arr k) u = parray b c f acc (qapp q u) arr k.
Definition Pinfix (f : nat) : Prop := forall acc q arr k,
  q_err q = false -> okb b (q_toks q ++ q_toks u) -> kcompat k ->
  resume b c (pinfix b c f acc q arr k) u = pinfix b c f acc (qapp q u) arr k.

(* the operand of a reader prefix (only reached with b = true: with b = false the token is excluded) *)
Definition Pprefix (f : nat) : Prop := forall acc q name k,
  b = true -> q_err q = false -> okb b (q_toks q ++ q_toks u) -> kcompat k ->
  resume b c (pprefix b c f acc q name k) u = pprefix b c f acc (qapp q u) name k.

Lemma len_ne : forall (q : queue) n, (n < length (q_toks q))%nat -> q_toks q <> [].
Proof. intros q n H; destruct (q_toks q); [simpl in H; lia|discriminate]. Qed.

Lemma hash_not_sugar : is_sugar hash_tok = false. Proof. reflexivity. Qed.

Lemma sugar_absurd : forall q kd, b = false -> q_toks q <> [] -> okb b (q_toks q ++ q_toks u) ->
  t_kind (tok_at q 0) = kd -> is_sugar (mkTok kd []) = true -> False.
Proof.
  intros q kd Hb Hne Hok Hk Hs. subst b. unfold tok_at in Hk.
  destruct (q_toks q) as [|t r]; [congruence|]. simpl in Hk, Hok.
  apply okb_hd in Hok. unfold is_sugar in *. simpl in Hs. rewrite Hk in Hok. rewrite Hok in Hs. discriminate.
Qed.

Lemma main_resume : forall f, Pexpr f /\ Plist f /\ Parray f /\ Pinfix f /\ Pprefix f.
Proof.
  induction f as [|f [IHe [IHl [IHa [IHi IHp]]]]].
  - repeat split; red; intros; reflexivity.
  - assert (Pexpr (S f)) as HE.
    { red. intros acc top q k Hq Hok Hne Hk Hend. simpl pexpr.
      apply look_resume; [exact Hq| |].
      2:{ intros Hb' Hnil. destruct top.
          - rewrite (Hend eq_refl Hnil). simpl pexpr. rewrite (qapp_nil q Hnil). reflexivity.
          - exfalso. apply (Hne eq_refl Hb' Hnil). }
      intros Hne'.
      rewrite (tok_at_qapp0 q Hne'), (qapp_tail q Hne').
      assert (okb b (q_toks (q_tail q) ++ q_toks u)) as Hok1 by (apply okb_tail; assumption).
      assert (forall name kd, t_kind (tok_at q 0) = kd -> is_sugar (mkTok kd []) = true ->
              resume b c (pprefix b c f acc (q_tail q) name k) u =
              pprefix b c f acc (qapp (q_tail q) u) name k) as Hs.
      { intros name kd Hkd Hsu. assert (b = true \/ b = false) as [Eb|Eb] by (destruct b; auto).
        - apply IHp; [exact Eb|exact Hq|exact Hok1|exact Hk].
        - exfalso. eapply sugar_absurd; eauto. }
      destruct (t_kind (tok_at q 0)) eqn:K;
        try reflexivity;
        try (apply Hk; [reflexivity|exact Hq|exact Hok1]);
        try (eapply Hs; [reflexivity|reflexivity]).
      all: try (apply IHl; [exact Hq|exact Hok1|exact Hk]).
      all: try (apply IHa; [exact Hq|exact Hok1|exact Hk]).
      all: try (apply pbacktick_resume; [exact Hq|exact Hok1|exact Hk]).
      all: try (apply pblock_resume; [exact Hq|exact Hok1|exact Hk]).
      all: try (match goal with |- context [match ?x with Some _ => _ | None => _ end] => destruct x end;
                [apply Hk; [reflexivity|exact Hq|exact Hok1]|reflexivity]).
      + (* TLCurly *)
        apply need_resume; [exact Hq|]. intros Hlen.
        rewrite (tok_at_qapp0 (q_tail q)) by (eapply len_ne; exact Hlen).
        apply curly_skip_resume; [exact Hq|exact Hok1|lia|].
        red. intros q3 tok2 extra Hq3 Hok3 Hex3.
        assert (q_toks q3 <> []) as Hne3 by (destruct (q_toks q3); [simpl in Hex3; lia|discriminate]).
        assert (forall q4, q_err q4 = false -> okb b (q_toks q4 ++ q_toks u) ->
                resume b c (pinfix b c f acc q4 [] k) u = pinfix b c f acc (qapp q4 u) [] k) as Hinf
          by (intros; apply IHi; assumption).
        assert (forall q4, q_err q4 = false -> okb b (q_toks q4 ++ q_toks u) ->
                resume b c (plist b c f acc (q_push hash_tok q4) TRCurly k) u =
                plist b c f acc (q_push hash_tok (qapp q4 u)) TRCurly k) as Hhash.
        { intros q4 Hq4 Hok4. rewrite q_push_qapp. apply IHl; [exact Hq4| |exact Hk].
          simpl. apply okb_cons; [reflexivity|exact Hok4]. }
        destruct (t_kind tok2); try (apply Hinf; assumption).
        * replace (if c then q_drop extra (qapp q3 u) else q_tail (qapp q3 u))
            with (qapp (if c then q_drop extra q3 else q_tail q3) u)
            by (destruct c; [rewrite q_drop_qapp by lia|rewrite qapp_tail by exact Hne3]; reflexivity).
          apply Hk; [reflexivity|destruct c; exact Hq3|destruct c; [apply okb_drop|apply okb_tail]; assumption].
        * apply need_resume; [exact Hq3|]. intros Hl. fix_idx q3 t2.
          destruct (kind_is t2 TColonOperator); [apply Hhash|apply Hinf]; assumption.
        * apply need_resume; [exact Hq3|]. intros Hl.
          fix_idx q3 t2. fix_idx q3 t3.
          destruct (kind_is t2 TBacktickString && kind_is t3 TColonOperator);
            [apply Hhash|apply Hinf]; assumption.
        * apply need_resume; [exact Hq3|]. intros Hl. fix_idx q3 t2.
          destruct (kind_is t2 TSymbol && list_eqb (t_str t2) str_for);
            [apply Hinf|apply Hhash]; assumption.
      + (* TSymbol *)
        destruct (list_eqb (t_str (tok_at q 0)) [45] || list_eqb (t_str (tok_at q 0)) [43]);
          [|destruct (list_eqb (t_str (tok_at q 0)) str_nil); apply Hk; [reflexivity|exact Hq|exact Hok1|reflexivity|exact Hq|exact Hok1]].
        apply need_resume; [exact Hq|]. intros Hlen.
        assert (q_toks (q_tail q) <> []) as Hne1 by (eapply len_ne; exact Hlen).
        rewrite (tok_at_qapp0 (q_tail q) Hne1), (qapp_tail (q_tail q) Hne1).
        destruct (kind_is (tok_at (q_tail q) 0) TFloat &&
                  (list_eqb (t_str (tok_at (q_tail q) 0)) str_Inf || list_eqb (t_str (tok_at (q_tail q) 0)) str_inf)).
        * apply Hk; [reflexivity|exact Hq|apply okb_tail; assumption].
        * apply Hk; [reflexivity|exact Hq|exact Hok1].
      + (* TFloat *)
        destruct (list_eqb (t_str (tok_at q 0)) str_NaN); [apply Hk; [reflexivity|exact Hq|exact Hok1]|].
        destruct (float_ok (t_str (tok_at q 0))); [apply Hk; [reflexivity|exact Hq|exact Hok1]|reflexivity].
      + (* TUint64 *)
        destruct (length (t_str (tok_at q 0)) <? 3)%nat; [reflexivity|].
        destruct (conv_uint64 (t_str (tok_at q 0))); [apply Hk; [reflexivity|exact Hq|exact Hok1]|reflexivity]. }
    assert (Plist (S f)) as HL.
    { red. intros acc q endk k Hq Hok Hk. simpl plist.
      apply need_resume; [exact Hq|]. intros Hlen.
      assert (q_toks q <> []) as Hne by (eapply len_ne; exact Hlen).
      rewrite (tok_at_qapp0 q Hne), (qapp_tail q Hne).
      destruct (kind_is (tok_at q 0) endk).
      - apply Hk; [reflexivity|exact Hq|apply okb_tail; assumption].
      - apply IHe; [exact Hq|exact Hok|intros _ _; exact Hne| |discriminate].
        red. intros head q2 Hhead Hq2 Hok2.
        assert (forall q5, q_err q5 = false -> okb b (q_toks q5 ++ q_toks u) ->
                resume b c (plist b c f acc q5 endk (fun tl q' => k (SPair head tl) q')) u =
                plist b c f acc (qapp q5 u) endk (fun tl q' => k (SPair head tl) q')) as Hrest.
        { intros q5 Hq5 Hok5. apply IHl; [exact Hq5|exact Hok5|].
          red. intros tl q6 _ Hq6 Hok6. apply Hk; [reflexivity|exact Hq6|exact Hok6]. }
        apply look_resume; [exact Hq2| |].
        + intros Hne2. rewrite (tok_at_qapp0 q2 Hne2), (qapp_tail q2 Hne2).
          destruct (kind_is (tok_at q2 0) TBackslash) eqn:KB; [|apply Hrest; assumption].
          assert (b = true \/ b = false) as [Eb|Eb] by (destruct b; auto).
          2:{ exfalso. unfold kind_is in KB. destruct (t_kind (tok_at q2 0)) eqn:K2; try discriminate.
              apply (sugar_absurd q2 TBackslash Eb Hne2 Hok2 K2). reflexivity. }
          apply IHe; [exact Hq2|apply okb_tail; assumption|intros _ Hb; congruence| |discriminate].
          red. intros tail q4 Htail Hq4 Hok4.
          apply look_resume; [exact Hq4| |intros Hb; congruence].
          intros Hne4. rewrite (tok_at_qapp0 q4 Hne4), (qapp_tail q4 Hne4).
          destruct (kind_is (tok_at q4 0) TRParen); [|reflexivity].
          apply Hk; [reflexivity|exact Hq4|apply okb_tail; assumption].
        + (* the look-ahead after the head that does not yield: end of the queue *)
          intros Hb Hnil2. rewrite Hrest by assumption. rewrite (qapp_nil q2 Hnil2).
          unfold look. destruct (q_toks u) as [|t r] eqn:Eu.
          * destruct (q_err u) eqn:Ee.
            -- pose proof (Hu Hb) as X; congruence.
            -- rewrite Hb; reflexivity.
          * (* the next token is not a backslash *)
            replace (kind_is (tok_at u 0) TBackslash) with false; [rewrite Hb; reflexivity|].
            symmetry. rewrite Hnil2 in Hok2. simpl in Hok2. rewrite Hb in Hok2.
            apply okb_hd in Hok2. unfold tok_at. rewrite Eu. simpl. unfold kind_is, is_sugar in *.
            destruct (t_kind t); try reflexivity; discriminate. }
    assert (Parray (S f)) as HA.
    { red. intros acc q arr k Hq Hok Hk. simpl parray.
      apply need_resume; [exact Hq|]. intros Hlen.
      assert (q_toks q <> []) as Hne by (eapply len_ne; exact Hlen).
      rewrite (tok_at_qapp0 q Hne), (qapp_tail q Hne).
      destruct (kind_is (tok_at q 0) TComma); [apply IHa; [exact Hq|apply okb_tail; assumption|exact Hk]|].
      destruct (kind_is (tok_at q 0) TRSquare); [apply Hk; [reflexivity|exact Hq|apply okb_tail; assumption]|].
      apply IHe; [exact Hq|exact Hok|intros _ _; exact Hne| |discriminate].
      red. intros e q2 _ Hq2 Hok2. apply IHa; [exact Hq2|exact Hok2|exact Hk]. }
    assert (Pinfix (S f)) as HI.
    { red. intros acc q arr k Hq Hok Hk. simpl pinfix.
      apply need_resume; [exact Hq|]. intros Hlen.
      assert (q_toks q <> []) as Hne by (eapply len_ne; exact Hlen).
      rewrite (tok_at_qapp0 q Hne), (qapp_tail q Hne).
      destruct (kind_is (tok_at q 0) TRCurly); [apply Hk; [reflexivity|exact Hq|apply okb_tail; assumption]|].
      apply IHe; [exact Hq|exact Hok|intros _ _; exact Hne| |discriminate].
      red. intros e q2 _ Hq2 Hok2. apply IHi; [exact Hq2|exact Hok2|exact Hk]. }
    assert (Pprefix (S f)) as HP.
    { red. intros acc q name k Eb Hq Hok Hk. simpl pprefix.
      apply IHe; [exact Hq|exact Hok|intros _ Hb; congruence| |discriminate].
      red. intros e q2 He Hq2 Hok2. destruct (is_comment e).
      - apply IHp; [exact Eb|exact Hq2|exact Hok2|exact Hk].
      - apply Hk; [reflexivity|exact Hq2|exact Hok2]. }
    repeat split; assumption.
Qed.


(* ---- ParsingIter: the whole coroutine, including the restart after it saw the end of the input ---- *)
Lemma ptop_resume : forall f acc q,
  q_err q = false -> okb b (q_toks q ++ q_toks u) ->
  resume b c (ptop b c f acc q) u = ptop b c f acc (qapp q u).
Proof.
  induction f as [|f IH]; intros acc q Hq Hok; [reflexivity|].
  simpl ptop. apply (proj1 (main_resume f)); [exact Hq|exact Hok|discriminate| |].
  - red. intros e q' He Hq' Hok'. rewrite He. apply IH; assumption.
  - intros _ _. simpl. destruct (q_instr q); reflexivity.
Qed.

End Resume.

(* ---- token level: resuming = running on the longer token list ---- *)
Theorem resume_is_rerun : forall b c f acc t1 i1 t2 e2 i2,
  (b = true \/ (nosugar (t1 ++ t2) /\ e2 = false)) ->
  resume b c (ptop b c f acc (mkQ t1 false i1)) (mkQ t2 e2 i2) = ptop b c f acc (mkQ (t1 ++ t2) e2 i2).
Proof.
  intros b c f acc t1 i1 t2 e2 i2 H.
  apply (ptop_resume b c (mkQ t2 e2 i2)); simpl.
  - intros Hb. destruct H as [H|[_ H]]; [congruence|exact H].
  - reflexivity.
  - destruct H as [H|[H _]]; [left; exact H|right; exact H].
Qed.

(* ---- delivery of a text in pieces ---- *)

(* the state of a parser that has been reset and then given the text t in any number of pieces *)
Definition after_text (b c : bool) (fuel : nat) (t : list Z) : pstate :=
  let x := lex_all init_lstate t in
  mkP (set_tokens [] (lres_state x))
      (ptop b c fuel [] (mkQ (l_tokens (lres_state x)) (negb (lres_ok x)) (in_string_or_rune (lres_state x)))).

Lemma set_tokens_pre_q : forall pre s, set_tokens [] (pre_q pre s) = set_tokens [] s.
Proof. intros pre s; destruct s; reflexivity. Qed.

Lemma l_tokens_pre_q : forall pre s, l_tokens (pre_q pre s) = pre ++ l_tokens s.
Proof. intros pre s; destruct s; reflexivity. Qed.

Lemma in_str_pre_q : forall pre s, in_string_or_rune (pre_q pre s) = in_string_or_rune s.
Proof. intros pre s; destruct s; reflexivity. Qed.

Lemma deliver_first : forall b c fuel p t,
  p_deliver b c (p_reset fuel p) t = after_text b c fuel t.
Proof.
  intros b c fuel p t. unfold p_deliver, p_reset, after_text; simpl.
  rewrite reset_is_init. reflexivity.
Qed.

Definition cont_ok (b : bool) (t c : list Z) : Prop :=
  b = true \/ (nosugar (l_tokens (lres_state (lex_all init_lstate (t ++ c)))) /\
               lres_ok (lex_all init_lstate (t ++ c)) = true).

Lemma deliver_next : forall b cf fuel t c,
  lres_ok (lex_all init_lstate t) = true -> cont_ok b t c ->
  p_deliver b cf (after_text b cf fuel t) c = after_text b cf fuel (t ++ c).
Proof.
  intros b cf fuel t c Hok Hc. unfold cont_ok in Hc. unfold p_deliver, after_text in *. cbn [ps_lex ps_out].
  rewrite (lex_all_app t c) in *.
  destruct (lex_all init_lstate t) as [s|s]; [|discriminate]. cbn [lres_state lres_ok negb] in *.
  rewrite (lex_all_emptied s c) in *.
  destruct (lex_all (set_tokens [] s) c) as [s'|s']; cbn [lres_map lres_state lres_ok negb] in *;
    rewrite set_tokens_pre_q, l_tokens_pre_q, in_str_pre_q in *.
  - f_equal. apply resume_is_rerun. destruct Hc as [Hc|[Hc _]]; [left; exact Hc|right; split; [exact Hc|reflexivity]].
  - f_equal. apply resume_is_rerun. destruct Hc as [Hc|[_ Hc]]; [left; exact Hc|discriminate].
Qed.

(* every proper prefix of the pieces lexes without error; for the parser as it is also: the whole
   text lexes without error and has no quote-sugar / backslash token *)
Fixpoint pieces_ok (b : bool) (t : list Z) (pieces : list (list Z)) : Prop :=
  match pieces with
  | [] => True
  | c :: rest => lres_ok (lex_all init_lstate t) = true /\ cont_ok b t c /\ pieces_ok b (t ++ c) rest
  end.

Lemma deliver_all_from : forall b cf fuel pieces t,
  pieces_ok b t pieces ->
  p_deliver_all b cf (after_text b cf fuel t) pieces = after_text b cf fuel (t ++ concat pieces).
Proof.
  induction pieces as [|c rest IH]; intros t H; simpl.
  - rewrite app_nil_r; reflexivity.
  - destruct H as [H1 [H2 H3]]. rewrite (deliver_next b cf fuel t c H1 H2), (IH _ H3), app_assoc. reflexivity.
Qed.

Lemma concat_mark_last : forall pieces, concat (mark_last pieces) = concat pieces ++ nl.
Proof.
  induction pieces as [|x rest IH]; [reflexivity|].
  destruct rest as [|y rest'].
  - simpl. rewrite !app_nil_r. reflexivity.
  - change (mark_last (x :: y :: rest')) with (x :: mark_last (y :: rest')).
    change (concat (x :: mark_last (y :: rest'))) with (x ++ concat (mark_last (y :: rest'))).
    rewrite IH. change (concat (x :: y :: rest')) with (x ++ concat (y :: rest')).
    rewrite app_assoc. reflexivity.
Qed.

Theorem pieces_is_whole : forall b cf fuel pieces,
  match mark_last pieces with
  | [] => True
  | first :: rest => pieces_ok b first rest
  end ->
  parse_pieces b cf fuel pieces = parse_whole b cf fuel (concat pieces).
Proof.
  intros b cf fuel pieces H. unfold parse_pieces, parse_whole, parse_after.
  rewrite deliver_first, <- concat_mark_last.
  destruct (mark_last pieces) as [|first rest] eqn:E.
  - destruct pieces as [|x [|y r]]; discriminate.
  - cbn [p_deliver_all]. rewrite deliver_first. rewrite (deliver_all_from b cf fuel rest first H). reflexivity.
Qed.

(* history: whatever state the parser is in, ResetAddNewInput starts from the initial one *)
Theorem parse_after_any : forall b cf fuel p text, parse_after b cf fuel p text = parse_whole b cf fuel text.
Proof. intros. unfold parse_whole, parse_after. rewrite !deliver_first. reflexivity. Qed.
