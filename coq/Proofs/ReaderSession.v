(* Proofs about Model/ReaderSession.v: the REPL's line reader reads exactly the shortest line prefix
   that is not an unfinished text and obtains what the whole-text parse of those lines gives; reading a
   text after ANY sequence of parser calls (also Stop / Reset while suspended, NewInput without
   ParseTokens) gives what a new parser gives; pieces that are only queued change nothing. *)
From Coq Require Import ZArith List Bool Lia.
From ZV Require Import Model.Regex Generated.LexTables Model.Lexer Model.Reader Model.ReaderSession
  Proofs.LexerProofs Proofs.ReaderProofs Proofs.ReaderFinal.
Import ListNotations.
Open Scope Z_scope.

Definition st (o : outcome) : status := fst (observe o).

Lemma concat_nl_shift : forall rest, concat (map (fun x => nl ++ x) rest) ++ nl = nl ++ concat (with_nl rest).
Proof.
  induction rest as [|x r IH]; [reflexivity|].
  cbn [map with_nl concat]. fold (with_nl r). rewrite <- !app_assoc. rewrite IH. reflexivity.
Qed.

Lemma concat_with_nl : forall l rest, concat (with_nl (l :: rest)) = join_lines (l :: rest) ++ nl.
Proof.
  intros l rest. cbn [with_nl map concat join_lines]. fold (with_nl rest).
  rewrite <- !app_assoc. rewrite concat_nl_shift. reflexivity.
Qed.

Lemma with_nl_app : forall a b, with_nl (a ++ b) = with_nl a ++ with_nl b.
Proof. intros; unfold with_nl; apply map_app. Qed.

Lemma whole_is_after_text : forall b c fuel text,
  parse_whole b c fuel text = ps_out (after_text b c fuel (text ++ nl)).
Proof. intros. unfold parse_whole, parse_after. rewrite deliver_first. reflexivity. Qed.

Section Repl.
Variable c : bool.
Variable fuel : nat.

Let whole (t : list Z) : outcome := parse_whole true c fuel t.

Lemma good_lines : forall p used, used <> [] -> Good c fuel p (concat (with_nl used)) ->
  ps_out p = whole (join_lines used).
Proof.
  intros p used Hne HG. destruct used as [|l rest]; [congruence|].
  unfold whole. rewrite whole_is_after_text, <- concat_with_nl. apply good_out. exact HG.
Qed.

Lemma repl_loop_spec : forall rest p used used' r,
  used <> [] -> Good c fuel p (concat (with_nl used)) ->
  repl_loop true c p used rest = (used', r) ->
  exists taken rest', rest = taken ++ rest' /\ used' = used ++ taken /\
    (forall j, (j < length taken)%nat -> st (whole (join_lines (used ++ firstn j taken))) = StMore) /\
    match r with
    | Some o => o = whole (join_lines used') /\ st o <> StMore
    | None => rest' = [] /\ st (whole (join_lines used')) = StMore
    end.
Proof.
  induction rest as [|l rest IH]; intros p used used' r Hne HG H.
  - cbn [repl_loop] in H. pose proof (good_lines p used Hne HG) as Ho.
    exists [], []. split; [reflexivity|]. 
    assert (used' = used) as -> by (destruct (fst (observe (ps_out p))); inversion H; reflexivity).
    split; [symmetry; apply app_nil_r|]. split; [intros j Hj; inversion Hj|].
    destruct (fst (observe (ps_out p))) eqn:E; inversion H; subst; clear H;
      try (split; [exact Ho|unfold st; rewrite E; discriminate]).
    split; [reflexivity|]. unfold st. rewrite <- Ho. exact E.
  - cbn [repl_loop] in H.
    pose proof (good_lines p used Hne HG) as Ho.
    destruct (fst (observe (ps_out p))) eqn:E;
      try (exists [], (l :: rest); inversion H; subst; clear H;
           split; [reflexivity|split; [symmetry; apply app_nil_r|split; [intros j Hj; inversion Hj|]]];
           split; [exact Ho|unfold st; rewrite E; discriminate]).
    assert (HG' : Good c fuel (p_deliver true c p (l ++ nl)) (concat (with_nl (used ++ [l])))).
    { rewrite with_nl_app, concat_app. cbn [with_nl map concat]. rewrite app_nil_r. apply good_step. exact HG. }
    assert (Hne' : used ++ [l] <> []) by (destruct used; discriminate).
    destruct (IH _ _ _ _ Hne' HG' H) as (taken & rest' & Hr & Hu & Hj & Hfin).
    exists (l :: taken), rest'. split; [rewrite Hr; reflexivity|].
    split; [rewrite Hu, <- app_assoc; reflexivity|]. split.
    + intros [|j] Hlt.
      * cbn [firstn]. rewrite app_nil_r. unfold st. rewrite <- Ho. exact E.
      * cbn [firstn]. cbn [length] in Hlt.
        replace (used ++ l :: firstn j taken) with ((used ++ [l]) ++ firstn j taken) by (rewrite <- app_assoc; reflexivity).
        apply Hj. lia.
    + exact Hfin.
Qed.

Lemma repl_read_spec : forall p lines used r,
  repl_read true c fuel p lines = (used, r) ->
  exists rest', lines = used ++ rest' /\
    (forall j, (0 < j < length used)%nat -> st (whole (join_lines (firstn j used))) = StMore) /\
    match r with
    | Some o => used <> [] /\ o = whole (join_lines used) /\ st o <> StMore
    | None => rest' = [] /\ (lines <> [] -> st (whole (join_lines lines)) = StMore)
    end.
Proof.
  intros p lines used r H. destruct lines as [|l rest].
  - cbn in H. inversion H; subst. exists []. split; [reflexivity|]. split; [intros j [_ Hj]; inversion Hj|].
    split; [reflexivity|congruence].
  - cbn [repl_read] in H.
    assert (HG : Good c fuel (p_deliver true c (p_reset fuel p) (l ++ nl)) (concat (with_nl [l]))).
    { rewrite deliver_first. cbn [with_nl map concat]. rewrite app_nil_r. apply good_after. }
    destruct (repl_loop_spec rest _ [l] used r ltac:(discriminate) HG H) as (taken & rest' & Hr & Hu & Hj & Hfin).
    exists rest'. split; [rewrite Hr, Hu; reflexivity|]. split.
    + intros j [H0 Hlt]. destruct j as [|j]; [lia|]. subst used. cbn [app length firstn] in *. apply (Hj j). lia.
    + destruct r as [o|].
      * destruct Hfin as [H1 H2]. split; [subst used; discriminate|]. split; assumption.
      * destruct Hfin as [H1 H2]. split; [exact H1|]. intros _. subst rest'. rewrite app_nil_r in Hr.
        rewrite Hr. change (l :: taken) with ([l] ++ taken). rewrite <- Hu. exact H2.
Qed.

End Repl.

Theorem repl_is_whole : forall cfix fuel p lines used o,
  repl_read true cfix fuel p lines = (used, Some o) ->
  (exists rest, lines = used ++ rest) /\ used <> nil /\
  o = parse_whole true cfix fuel (join_lines used) /\ fst (observe o) <> StMore /\
  (forall j, (0 < j < length used)%nat ->
     fst (observe (parse_whole true cfix fuel (join_lines (firstn j used)))) = StMore).
Proof.
  intros cfix fuel p lines used o H.
  destruct (repl_read_spec cfix fuel p lines used (Some o) H) as (rest & Hl & Hj & Hne & Ho & Hs).
  split; [exists rest; exact Hl|]. split; [exact Hne|]. split; [exact Ho|]. split; [exact Hs|exact Hj].
Qed.

Theorem repl_eof_is_unfinished : forall cfix fuel p lines used,
  repl_read true cfix fuel p lines = (used, None) ->
  used = lines /\
  (lines <> nil -> fst (observe (parse_whole true cfix fuel (join_lines lines))) = StMore).
Proof.
  intros cfix fuel p lines used H.
  destruct (repl_read_spec cfix fuel p lines used None H) as (rest & Hl & _ & Hr & Hm).
  subst rest. rewrite app_nil_r in Hl. split; [symmetry; exact Hl|exact Hm].
Qed.

(* ---- the Parser struct under arbitrary call sequences ---- *)

Section Calls.
Variable c : bool.
Variable fuel : nat.
Variable unwind : outcome -> lstate -> outcome * lstate.

Definition as_pstate (P : parser) : pstate := mkP (par_lex P) (par_out P).

Lemma do_reset_is_new : forall P, do_reset fuel unwind P = new_parser fuel.
Proof. intros P. unfold do_reset, new_parser. rewrite reset_is_init. reflexivity. Qed.

Lemma do_parse_deliver : forall b P,
  do_parse b c P = let p' := p_deliver b c (as_pstate P) (concat (par_pending P)) in mkPar (ps_lex p') [] (ps_out p').
Proof. intros; reflexivity. Qed.

Lemma new_parser_reset : forall p, as_pstate (mkPar init_lstate [] (ODone [] fuel)) = p_reset fuel p.
Proof. intros p. unfold as_pstate, p_reset. cbn. rewrite reset_is_init. reflexivity. Qed.

(* any history, either reading route: what a new parser reads *)
Lemma read_after_any : forall b via history text,
  read_after b c fuel unwind via history text = parse_whole b c fuel text.
Proof.
  intros b via history text. unfold read_after.
  set (P := do_calls b c fuel unwind (new_parser fuel) history).
  rewrite whole_is_after_text.
  destruct via; cbn [do_calls fold_left do_call]; rewrite (do_reset_is_new P); unfold new_parser; cbn [par_lex par_out par_pending];
    rewrite do_parse_deliver; cbn [par_pending concat app]; rewrite app_nil_r;
    unfold as_pstate; cbn [par_lex par_out ps_out];
    rewrite <- (deliver_first b c fuel (p_init fuel)); unfold p_reset, p_init; cbn [ps_lex]; rewrite reset_is_init; reflexivity.
Qed.

Definition calls := do_calls true c fuel unwind.

Lemma calls_app : forall P a b, calls P (a ++ b) = calls (calls P a) b.
Proof. intros. unfold calls, do_calls. apply fold_left_app. Qed.

Lemma do_parse_eq : forall b lex pend out,
  do_parse b c (mkPar lex pend out) =
  mkPar (ps_lex (p_deliver b c (mkP lex out) (concat pend))) [] (ps_out (p_deliver b c (mkP lex out) (concat pend))).
Proof. reflexivity. Qed.

Lemma pstate_eta : forall p, mkP (ps_lex p) (ps_out p) = p.
Proof. intros []; reflexivity. Qed.

Lemma calls_cons : forall P x l, calls P (x :: l) = calls (do_call true c fuel unwind P x) l.
Proof. reflexivity. Qed.

Lemma calls_nil : forall P, calls P [] = P.
Proof. reflexivity. Qed.

Lemma piece_calls_2 : forall x y r sched,
  piece_calls (x :: y :: r) sched = CNewInput x :: (if hd true sched then [CParse] else []) ++ piece_calls (y :: r) (tl sched).
Proof. reflexivity. Qed.

(* phase B: at least one ParseTokens call has happened *)
Lemma pieces_good : forall pieces sched lex pend out t,
  Good c fuel (mkP lex out) t ->
  Good c fuel (as_pstate (calls (mkPar lex pend out) (piece_calls pieces sched))) (t ++ concat pend ++ concat pieces).
Proof.
  induction pieces as [|x rest IH]; intros sched lex pend out t HG.
  - cbn [piece_calls]. rewrite calls_cons, calls_nil. cbn [do_call]. rewrite do_parse_eq.
    unfold as_pstate. cbn [par_lex par_out concat]. rewrite pstate_eta, app_nil_r.
    apply good_step. exact HG.
  - destruct rest as [|y r].
    + cbn [piece_calls]. rewrite !calls_cons, calls_nil. cbn [do_call par_lex par_pending par_out]. rewrite do_parse_eq.
      unfold as_pstate. cbn [par_lex par_out concat]. rewrite pstate_eta, app_nil_r, concat_app. cbn [concat]. rewrite app_nil_r.
      apply good_step. exact HG.
    + rewrite piece_calls_2, calls_cons. cbn [do_call par_lex par_pending par_out].
      change (concat (x :: y :: r)) with (x ++ concat (y :: r)).
      destruct (hd true sched); cbn [app].
      * rewrite calls_cons. cbn [do_call]. rewrite do_parse_eq.
        pose proof (good_step c fuel (mkP lex out) t (concat (pend ++ [x])) HG) as HG'.
        rewrite <- (pstate_eta (p_deliver true c (mkP lex out) (concat (pend ++ [x])))) in HG'.
        pose proof (IH (tl sched) _ [] _ _ HG') as HI.
        replace (t ++ concat pend ++ x ++ concat (y :: r)) with ((t ++ concat (pend ++ [x])) ++ concat [] ++ concat (y :: r)); [exact HI|].
        rewrite concat_app; simpl; rewrite ?app_nil_r, <- ?app_assoc; reflexivity.
      * pose proof (IH (tl sched) lex (pend ++ [x]) out t HG) as HI.
        replace (t ++ concat pend ++ x ++ concat (y :: r)) with (t ++ concat (pend ++ [x]) ++ concat (y :: r)); [exact HI|].
        rewrite concat_app; simpl; rewrite ?app_nil_r, <- ?app_assoc; reflexivity.
Qed.

(* phase A: nothing parsed yet since the reset *)
Lemma first_parse_good : forall pend,
  Good c fuel (p_deliver true c (mkP init_lstate (ODone [] fuel)) (concat pend)) (concat pend).
Proof.
  intros pend. pose proof (good_after c fuel (concat pend)) as HG.
  rewrite <- (deliver_first true c fuel (p_init fuel)) in HG. unfold p_reset, p_init in HG. cbn [ps_lex] in HG.
  rewrite reset_is_init in HG. exact HG.
Qed.

Lemma pieces_good_fresh : forall pieces sched pend,
  Good c fuel (as_pstate (calls (mkPar init_lstate pend (ODone [] fuel)) (piece_calls pieces sched))) (concat pend ++ concat pieces).
Proof.
  induction pieces as [|x rest IH]; intros sched pend.
  - cbn [piece_calls]. rewrite calls_cons, calls_nil. cbn [do_call]. rewrite do_parse_eq.
    unfold as_pstate. cbn [par_lex par_out concat]. rewrite pstate_eta, app_nil_r. apply first_parse_good.
  - destruct rest as [|y r].
    + cbn [piece_calls]. rewrite !calls_cons, calls_nil. cbn [do_call par_lex par_pending par_out]. rewrite do_parse_eq.
      unfold as_pstate. cbn [par_lex par_out concat]. rewrite pstate_eta, app_nil_r.
      pose proof (first_parse_good (pend ++ [x])) as HG. rewrite concat_app in HG at 2. cbn [concat] in HG. rewrite app_nil_r in HG. exact HG.
    + rewrite piece_calls_2, calls_cons. cbn [do_call par_lex par_pending par_out].
      change (concat (x :: y :: r)) with (x ++ concat (y :: r)).
      destruct (hd true sched); cbn [app].
      * rewrite calls_cons. cbn [do_call]. rewrite do_parse_eq.
        pose proof (first_parse_good (pend ++ [x])) as HG.
        rewrite <- (pstate_eta (p_deliver true c (mkP init_lstate (ODone [] fuel)) (concat (pend ++ [x])))) in HG.
        pose proof (pieces_good (y :: r) (tl sched) _ [] _ _ HG) as HI.
        replace (concat pend ++ x ++ concat (y :: r)) with (concat (pend ++ [x]) ++ concat [] ++ concat (y :: r)); [exact HI|].
        rewrite concat_app; simpl; rewrite ?app_nil_r, <- ?app_assoc; reflexivity.
      * pose proof (IH (tl sched) (pend ++ [x])) as HI.
        replace (concat pend ++ x ++ concat (y :: r)) with (concat (pend ++ [x]) ++ concat (y :: r)); [exact HI|].
        rewrite concat_app; simpl; rewrite ?app_nil_r, <- ?app_assoc; reflexivity.
Qed.

Lemma read_pieces_after_any : forall history pieces sched,
  read_pieces_after true c fuel unwind history pieces sched = parse_whole true c fuel (concat pieces).
Proof.
  intros history pieces sched. unfold read_pieces_after.
  set (P := do_calls true c fuel unwind (new_parser fuel) history).
  change (do_calls true c fuel unwind P (CReset :: piece_calls (mark_last pieces) sched))
    with (calls (do_reset fuel unwind P) (piece_calls (mark_last pieces) sched)).
  rewrite (do_reset_is_new P). unfold new_parser.
  pose proof (pieces_good_fresh (mark_last pieces) sched []) as HG. cbn [concat app] in HG.
  rewrite whole_is_after_text, <- concat_mark_last.
  apply (good_out c fuel _ _ HG).
Qed.

End Calls.
