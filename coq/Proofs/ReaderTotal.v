(* The reader never reaches a panic site of parser.go on a token stream the lexer can produce. *)
From Coq Require Import ZArith List Bool Lia.
From ZV Require Import Model.Regex Generated.LexTables Model.Lexer Model.Reader Model.TokScan Proofs.LexerProofs.
Import ListNotations.
Open Scope Z_scope.

(* ---- the shape of the lexer's token stream: after BeginBlockComment only Comment tokens up to
   EndBlockComment; after BeginBacktickString one BacktickString; a Uint64 token has >= 3 runes ---- *)
Definition wf_from (a : wfa) (l : list token) : Prop := wrun a l <> None.

Lemma wrun_app : forall l1 l2 a, wrun a (l1 ++ l2) = match wrun a l1 with Some a' => wrun a' l2 | None => None end.
Proof. induction l1 as [|t r IH]; intros l2 a; simpl; [reflexivity|]. destruct (wstep a t); [apply IH|reflexivity]. Qed.

Lemma wf_weaken : forall l a, wf_from a l -> wf_from WFree l.
Proof.
  unfold wf_from. induction l as [|t r IH]; intros a H; simpl in *; [discriminate|].
  destruct a; simpl in *.
  - exact H.
  - destruct (kind_is t TComment) eqn:K1.
    + unfold kind_is in K1. destruct (t_kind t) eqn:K; try discriminate. unfold kind_is; rewrite K; simpl. eapply IH; exact H.
    + destruct (kind_is t TEndBlockComment) eqn:K2; [|congruence].
      unfold kind_is in K2. destruct (t_kind t) eqn:K; try discriminate. unfold kind_is; rewrite K; simpl. exact H.
  - destruct (kind_is t TBacktickString) eqn:K1; [|congruence].
    unfold kind_is in K1. destruct (t_kind t) eqn:K; try discriminate. unfold kind_is; rewrite K; simpl. exact H.
Qed.

Lemma wf_skipn : forall n l a, wf_from a l -> wf_from WFree (skipn n l).
Proof.
  induction n as [|n IH]; intros l a H; simpl; [eapply wf_weaken; exact H|].
  destruct l as [|t r]; [unfold wf_from; simpl; discriminate|].
  unfold wf_from in H; simpl in H. destruct (wstep a t) as [a'|] eqn:E; [|congruence]. eapply IH; exact H.
Qed.

Lemma wf_tl : forall t r, wf_from WFree (t :: r) -> wf_from WFree r.
Proof. intros t r H. apply (wf_skipn 1 (t :: r) WFree H). Qed.

Definition is_crash (o : outcome) : bool := match o with OCrash _ => true | _ => false end.

Definition wfq (q : queue) : Prop := wf_from WFree (q_toks q).
Definition NC (k : sexp -> queue -> outcome) : Prop := forall e q, wfq q -> is_crash (k e q) = false.

Lemma need_nc : forall acc n q k,
  ((n < length (q_toks q))%nat -> is_crash (k q) = false) -> is_crash (need acc n q k) = false.
Proof.
  intros acc n q k H. unfold need. destruct (n <? length (q_toks q))%nat eqn:E.
  - apply H. apply Nat.ltb_lt; exact E.
  - destruct (q_err q); reflexivity.
Qed.

Lemma look_nc : forall b acc q kend k,
  (q_toks q <> [] -> is_crash (k q) = false) -> (q_toks q = [] -> is_crash (kend tt) = false) ->
  is_crash (look b acc q kend k) = false.
Proof.
  intros b acc q kend k H1 H2. unfold look. destruct (q_toks q) eqn:E.
  - destruct (q_err q); [reflexivity|]. destruct b; [reflexivity|apply H2; reflexivity].
  - apply H1; discriminate.
Qed.

Lemma idx_nc : forall q n k, (n < length (q_toks q))%nat ->
  (forall t, nth_error (q_toks q) n = Some t -> is_crash (k t) = false) -> is_crash (idx q n k) = false.
Proof.
  intros q n k Hn H. unfold idx. destruct (nth_error (q_toks q) n) eqn:E; [apply H; reflexivity|].
  apply nth_error_None in E. lia.
Qed.

Lemma wfq_tail : forall q, q_toks q <> [] -> wfq q -> wstep WFree (tok_at q 0) = Some WFree -> wfq (q_tail q).
Proof.
  intros [l e i] Hne H _. unfold wfq in *; simpl in *. destruct l as [|t r]; [congruence|]. simpl. eapply wf_tl; exact H.
Qed.

Lemma wfq_tail' : forall q, q_toks q <> [] -> wfq q -> wfq (q_tail q).
Proof.
  intros [l e i] Hne H. unfold wfq in *; simpl in *. destruct l as [|t r]; [congruence|]. simpl. eapply wf_tl; exact H.
Qed.

Lemma len_ne' : forall (q : queue) n, (n < length (q_toks q))%nat -> q_toks q <> [].
Proof. intros q n H; destruct (q_toks q); [simpl in H; lia|discriminate]. Qed.

(* ParseBlockComment from inside a block comment *)
Lemma pblock_nc : forall f acc q text k,
  wf_from WBlock (q_toks q) -> NC k -> is_crash (pblock f acc q text k) = false.
Proof.
  induction f as [|f IH]; intros acc q text k Hw Hk; [reflexivity|].
  simpl. apply need_nc. intros Hlen.
  destruct q as [l e i]; simpl in *. destruct l as [|t r]; [simpl in Hlen; lia|].
  unfold tok_at, q_tail; simpl. unfold wf_from in Hw; simpl in Hw.
  destruct (kind_is t TEndBlockComment) eqn:K1.
  - apply Hk. unfold wfq; simpl. destruct (kind_is t TComment); [eapply wf_weaken; exact Hw|exact Hw].
  - destruct (kind_is t TComment) eqn:K2; [|congruence]. apply IH; [exact Hw|exact Hk].
Qed.

Lemma pbacktick_nc : forall acc q k,
  wf_from WRaw (q_toks q) -> NC k -> is_crash (pbacktick acc q k) = false.
Proof.
  intros acc q k Hw Hk. unfold pbacktick. apply need_nc. intros Hlen.
  destruct q as [l e i]; simpl in *. destruct l as [|t r]; [simpl in Hlen; lia|].
  unfold tok_at, q_tail; simpl. unfold wf_from in Hw; simpl in Hw.
  destruct (kind_is t TBacktickString); [|congruence]. apply Hk. exact Hw.
Qed.

Definition NC3 (k : queue -> token -> nat -> outcome) : Prop :=
  forall q tok2 extra, wfq q -> (1 <= extra <= length (q_toks q))%nat -> is_crash (k q tok2 extra) = false.

Lemma curly_skip_nc : forall f acc q tok2 extra k,
  wfq q -> (1 <= extra <= length (q_toks q))%nat -> NC3 k -> is_crash (curly_skip f acc q tok2 extra k) = false.
Proof.
  induction f as [|f IH]; intros acc q tok2 extra k Hw Hex Hk; [reflexivity|].
  simpl. destruct (kind_is tok2 TBeginBlockComment).
  - apply need_nc. intros Hl. apply idx_nc; [exact Hl|]. intros t2 _.
    destruct (kind_is t2 TComment).
    + apply need_nc. intros Hl2. apply idx_nc; [exact Hl2|]. intros t3 _. apply IH; [exact Hw|lia|exact Hk].
    + apply IH; [exact Hw|lia|exact Hk].
  - destruct (kind_is tok2 TComment).
    + apply need_nc. intros Hl. apply idx_nc; [exact Hl|]. intros t3 _. apply IH; [exact Hw|lia|exact Hk].
    + apply Hk; assumption.
Qed.

Section NoCrash.
Variable b c : bool.

Definition NCexpr (f : nat) : Prop := forall acc top q k, wfq q -> NC k -> is_crash (pexpr b c f acc top q k) = false.
Definition NClist (f : nat) : Prop := forall acc q endk k, wfq q -> NC k -> is_crash (plist b c f acc q endk k) = false.
Definition NCarray (f : nat) : Prop := forall acc q arr k, wfq q -> NC k -> is_crash (parray b c f acc q arr k) = false.
Definition NCinfix (f : nat) : Prop := forall acc q arr k, wfq q -> NC k -> is_crash (pinfix b c f acc q arr k) = false.

Definition NCprefix (f : nat) : Prop := forall acc q name k, wfq q -> NC k -> is_crash (pprefix b c f acc q name k) = false.

Lemma hd_step : forall q, q_toks q <> [] -> wfq q ->
  exists a, wstep WFree (tok_at q 0) = Some a /\ wf_from a (q_toks (q_tail q)).
Proof.
  intros [l e i] Hne H; unfold wfq, wf_from, tok_at in *; cbn [q_toks q_tail tl] in *. destruct l as [|t r]; [congruence|].
  cbn [nth wrun tl] in *. destruct (wstep WFree t) as [a|] eqn:E; [exists a; split; [reflexivity|exact H]|congruence].
Qed.

Lemma main_nc : forall f, NCexpr f /\ NClist f /\ NCarray f /\ NCinfix f /\ NCprefix f.
Proof.
  induction f as [|f [IHe [IHl [IHa [IHi IHp]]]]].
  - repeat split; red; intros; reflexivity.
  - assert (NCexpr (S f)) as HE.
    { red. intros acc top q k Hw Hk. simpl pexpr.
      apply look_nc; [|intros _; apply Hk; exact Hw].
      intros Hne. destruct (hd_step q Hne Hw) as [a [Ha Hwa]].
      assert (wfq (q_tail q)) as Hw1 by (apply wfq_tail'; assumption).
      assert (forall name, NC (fun e q2 => k (list2 (sym name) e) q2)) as Hsug by (intros name e q2 H2; apply Hk; exact H2).
      unfold wstep in Ha. unfold kind_is in Ha.
      destruct (t_kind (tok_at q 0)) eqn:K; simpl in Ha;
        try reflexivity; try (apply Hk; exact Hw1);
        try (apply IHp; [exact Hw1|exact Hk]).
      + apply IHl; assumption.
      + apply IHa; assumption.
      + (* TLCurly *)
        apply need_nc. intros Hlen. apply curly_skip_nc; [exact Hw1|lia|].
        red. intros q3 tok2 extra Hw3 Hex3.
        assert (q_toks q3 <> []) as Hne3 by (destruct (q_toks q3); [simpl in Hex3; lia|discriminate]).
        assert (is_crash (pinfix b c f acc q3 [] k) = false) as Hinf by (apply IHi; assumption).
        assert (is_crash (plist b c f acc (q_push hash_tok q3) TRCurly k) = false) as Hhash.
        { apply IHl; [|exact Hk]. unfold wfq, wf_from in *; simpl. exact Hw3. }
        destruct (t_kind tok2); try exact Hinf.
        * apply Hk. destruct c; unfold wfq; simpl; [eapply wf_skipn; exact Hw3|eapply (wf_skipn 1); exact Hw3].
        * apply need_nc. intros Hl. apply idx_nc; [exact Hl|]. intros t2 _.
          destruct (kind_is t2 TColonOperator); assumption.
        * apply need_nc. intros Hl. apply idx_nc; [lia|]. intros t2 _. apply idx_nc; [exact Hl|]. intros t3 _.
          destruct (kind_is t2 TBacktickString && kind_is t3 TColonOperator); assumption.
        * apply need_nc. intros Hl. apply idx_nc; [exact Hl|]. intros t2 _.
          destruct (kind_is t2 TSymbol && list_eqb (t_str t2) str_for); assumption.
      + (* TSymbol *)
        destruct (list_eqb (t_str (tok_at q 0)) [45] || list_eqb (t_str (tok_at q 0)) [43]).
        * apply need_nc. intros Hl.
          destruct (kind_is (tok_at (q_tail q) 0) TFloat && _); apply Hk; [apply wfq_tail'; [eapply len_ne'; exact Hl|exact Hw1]|exact Hw1].
        * destruct (list_eqb (t_str (tok_at q 0)) str_nil); apply Hk; exact Hw1.
      + destruct (parse_int 10 _); [apply Hk; exact Hw1|reflexivity].
      + destruct (parse_int 16 _); [apply Hk; exact Hw1|reflexivity].
      + destruct (parse_int 8 _); [apply Hk; exact Hw1|reflexivity].
      + destruct (parse_int 2 _); [apply Hk; exact Hw1|reflexivity].
      + destruct (list_eqb _ str_NaN); [apply Hk; exact Hw1|]. destruct (float_ok _); [apply Hk; exact Hw1|reflexivity].
      + (* TBeginBacktickString *) apply pbacktick_nc; [inversion Ha; subst; exact Hwa|exact Hk].
      + (* TBeginBlockComment *) apply pblock_nc; [inversion Ha; subst; exact Hwa|exact Hk].
      + (* TUint64 *)
        destruct (length (t_str (tok_at q 0)) <? 3)%nat; [discriminate|].
        destruct (conv_uint64 _); [apply Hk; exact Hw1|reflexivity]. }
    assert (NClist (S f)) as HL.
    { red. intros acc q endk k Hw Hk. simpl plist. apply need_nc. intros Hlen.
      assert (q_toks q <> []) as Hne by (eapply len_ne'; exact Hlen).
      destruct (kind_is (tok_at q 0) endk); [apply Hk; apply wfq_tail'; assumption|].
      apply IHe; [exact Hw|]. red. intros head q2 Hw2.
      assert (forall q5, wfq q5 -> is_crash (plist b c f acc q5 endk (fun tl q' => k (SPair head tl) q')) = false) as Hrest.
      { intros q5 H5. apply IHl; [exact H5|]. red; intros; apply Hk; assumption. }
      apply look_nc; [|intros _; apply Hrest; exact Hw2].
      intros Hne2. destruct (kind_is (tok_at q2 0) TBackslash); [|apply Hrest; exact Hw2].
      apply IHe; [apply wfq_tail'; assumption|]. red. intros tail q4 Hw4.
      apply look_nc; [|intros _; reflexivity].
      intros Hne4. destruct (kind_is (tok_at q4 0) TRParen); [apply Hk; apply wfq_tail'; assumption|reflexivity]. }
    assert (NCarray (S f)) as HA.
    { red. intros acc q arr k Hw Hk. simpl parray. apply need_nc. intros Hlen.
      assert (q_toks q <> []) as Hne by (eapply len_ne'; exact Hlen).
      destruct (kind_is (tok_at q 0) TComma); [apply IHa; [apply wfq_tail'; assumption|exact Hk]|].
      destruct (kind_is (tok_at q 0) TRSquare); [apply Hk; apply wfq_tail'; assumption|].
      apply IHe; [exact Hw|]. red. intros e q2 H2. apply IHa; assumption. }
    assert (NCinfix (S f)) as HI.
    { red. intros acc q arr k Hw Hk. simpl pinfix. apply need_nc. intros Hlen.
      assert (q_toks q <> []) as Hne by (eapply len_ne'; exact Hlen).
      destruct (kind_is (tok_at q 0) TRCurly); [apply Hk; apply wfq_tail'; assumption|].
      apply IHe; [exact Hw|]. red. intros e q2 H2. apply IHi; assumption. }
    assert (NCprefix (S f)) as HP.
    { red. intros acc q name k Hw Hk. simpl pprefix. apply IHe; [exact Hw|].
      red. intros e q2 H2. destruct (is_comment e); [apply IHp; assumption|apply Hk; exact H2]. }
    repeat split; assumption.
Qed.

Lemma ptop_nc : forall f acc q, wfq q -> is_crash (ptop b c f acc q) = false.
Proof.
  induction f as [|f IH]; intros acc q Hw; [reflexivity|].
  simpl ptop. apply (proj1 (main_nc f)); [exact Hw|].
  red. intros e q' H'. destruct (is_send e); [destruct (q_instr q'); reflexivity|apply IH; exact H'].
Qed.

End NoCrash.
