(* "More input is asked for exactly when the token stream is an unfinished prefix", at the level
   of tokens: an independent token scanner (bracket depth, inside block comment / raw string,
   reader prefix pending, sign symbol last) against the reader of Model/Reader.v (strict = true). *)
From Coq Require Import ZArith List Bool Lia.
From ZV Require Import Model.Regex Generated.LexTables Model.Lexer Model.Reader Model.TokScan Proofs.ReaderTotal.
Import ListNotations.
Open Scope Z_scope.

Definition Inv (st : tstate) (q : queue) (o : outcome) : Prop :=
  (forall acc f, o = ODone acc f -> q_instr q = false /\ forall st', trun st (q_toks q) = Some st' -> tfinal st' = true) /\
  (forall acc n toks k, o = OSusp acc n toks k -> forall st', trun st (q_toks q) = Some st' ->
     (length toks <= n)%nat /\ exists sts, trun sts toks = Some st' /\ sunf sts = true) /\
  (forall acc f, o = OMoreTop acc f -> q_instr q = true).

Definition KI (d : Z) (k : sexp -> queue -> outcome) : Prop :=
  forall e q sg, is_send e = false -> curly_plain (q_toks q) = true -> Inv (d, WFree, false, sg) q (k e q).

Lemma inv_triv : forall st q o, (forall acc f, o <> ODone acc f) -> (forall acc n t k, o <> OSusp acc n t k) ->
  (forall acc f, o <> OMoreTop acc f) -> Inv st q o.
Proof. intros st q o H1 H2 H3; split; [|split]; intros; exfalso; [eapply H1|eapply H2|eapply H3]; eauto. Qed.

Ltac triv := apply inv_triv; intros; discriminate.

Lemma need_inv : forall st acc n q k,
  sunf st = true -> ((n < length (q_toks q))%nat -> Inv st q (k q)) -> Inv st q (need acc n q k).
Proof.
  intros st acc n q k Hs H. unfold need. destruct (n <? length (q_toks q))%nat eqn:E.
  - apply H. apply Nat.ltb_lt; exact E.
  - destruct (q_err q); [triv|]. split; [|split]; intros; [discriminate| |discriminate].
    inversion H0; subst. split; [apply Nat.ltb_ge; exact E|]. exists st. split; assumption.
Qed.

Lemma cp_tl : forall t r, curly_plain (t :: r) = true -> curly_plain r = true.
Proof. intros t r H; simpl in H. apply andb_prop in H; tauto. Qed.

Lemma cp_tail : forall q, curly_plain (q_toks q) = true -> curly_plain (q_toks (q_tail q)) = true.
Proof. intros [l e i] H; simpl in *. destruct l; [exact H|eapply cp_tl; exact H]. Qed.

(* consuming the first token *)
Lemma inv_step : forall st st1 q o, q_toks q <> [] -> tstep st (tok_at q 0) = Some st1 ->
  Inv st1 (q_tail q) o -> Inv st q o.
Proof.
  intros st st1 [l e i] o Hne Hs [H1 [H2 H3]]; unfold tok_at in *; simpl in *. destruct l as [|t r]; [congruence|]. simpl in *.
  split; [|split]; intros.
  - destruct (H1 _ _ H) as [I F]. split; [exact I|]. intros st' Ht. simpl in Ht. rewrite Hs in Ht. eauto.
  - simpl in *. rewrite Hs in *. eauto.
  - eauto.
Qed.

Lemma pblock_inv : forall f d acc q text k, KI d k -> curly_plain (q_toks q) = true ->
  Inv (d, WBlock, false, false) q (pblock f acc q text k).
Proof.
  induction f as [|f IH]; intros d acc q text k Hk Hc; [triv|].
  simpl. apply need_inv; [unfold sunf; destruct (0 <? d); reflexivity|]. intros Hl.
  assert (q_toks q <> []) as Hne by (eapply len_ne'; exact Hl).
  destruct (kind_is (tok_at q 0) TEndBlockComment) eqn:K1.
  - eapply inv_step; [exact Hne| |apply Hk; [reflexivity|apply cp_tail; exact Hc]].
    simpl. unfold kind_is in *. destruct (t_kind (tok_at q 0)); try discriminate; reflexivity.
  - destruct (kind_is (tok_at q 0) TComment) eqn:K2; [|triv].
    eapply inv_step; [exact Hne| |apply IH; [exact Hk|apply cp_tail; exact Hc]]. simpl. rewrite K2. reflexivity.
Qed.

Lemma pbacktick_inv : forall d acc q k, KI d k -> curly_plain (q_toks q) = true ->
  Inv (d, WRaw, false, false) q (pbacktick acc q k).
Proof.
  intros d acc q k Hk Hc. unfold pbacktick. apply need_inv; [unfold sunf; destruct (0 <? d); reflexivity|]. intros Hl.
  assert (q_toks q <> []) as Hne by (eapply len_ne'; exact Hl).
  destruct (kind_is (tok_at q 0) TBacktickString) eqn:K1; [|triv].
  eapply inv_step; [exact Hne| |apply Hk; [reflexivity|apply cp_tail; exact Hc]]. simpl. rewrite K1. reflexivity.
Qed.

Lemma look_inv : forall (b : bool) st acc q kend k,
  (q_toks q <> [] -> Inv st q (k q)) ->
  (q_toks q = [] -> if b then sunf st = true else Inv st q (kend tt)) ->
  Inv st q (look b acc q kend k).
Proof.
  intros b st acc q kend k H1 H2. unfold look. destruct (q_toks q) eqn:E.
  - destruct (q_err q); [triv|]. specialize (H2 eq_refl). destruct b; [|exact H2].
    split; [|split]; intros; [discriminate| |discriminate]. inversion H; subst. rewrite E in H0. simpl in H0. inversion H0; subst.
    split; [simpl; lia|]. exists st'. split; [reflexivity|exact H2].
  - apply H1; discriminate.
Qed.

Lemma idx_inv : forall st q0 q n k, (forall t, Inv st q0 (k t)) -> Inv st q0 (idx q n k).
Proof. intros st q0 q n k H. unfold idx. destruct (nth_error (q_toks q) n); [apply H|triv]. Qed.

Lemma inv_push_hash : forall d q o, Inv (d, WFree, false, false) (q_push hash_tok q) o -> Inv (d, WFree, false, false) q o.
Proof. intros d q o H. exact H. Qed.

Lemma cp_push_hash : forall q, curly_plain (q_toks q) = true -> curly_plain (q_toks (q_push hash_tok q)) = true.
Proof. intros q H. simpl. exact H. Qed.

Lemma sunf_pos : forall d p sg, 1 <= d -> sunf (d, WFree, p, sg) = true.
Proof. intros d p sg H. unfold sunf. assert (0 <? d = true) as -> by (apply Z.ltb_lt; lia). reflexivity. Qed.

Section Unf.
Variable c : bool.

Definition Iexpr (f : nat) : Prop := forall d p sg acc top q k,
  0 <= d -> curly_plain (q_toks q) = true -> KI d k ->
  (top = false -> 1 <= d \/ p = true) ->
  (top = true -> q_toks q = [] -> Inv (d, WFree, p, sg) q (k SEnd q)) ->
  Inv (d, WFree, p, sg) q (pexpr true c f acc top q k).
Definition Ilist (f : nat) : Prop := forall d sg acc q endk k,
  1 <= d -> (endk = TRParen \/ endk = TRCurly) -> curly_plain (q_toks q) = true -> KI (d - 1) k ->
  Inv (d, WFree, false, sg) q (plist true c f acc q endk k).
Definition Iarray (f : nat) : Prop := forall d sg acc q arr k,
  1 <= d -> curly_plain (q_toks q) = true -> KI (d - 1) k ->
  Inv (d, WFree, false, sg) q (parray true c f acc q arr k).
Definition Iinfix (f : nat) : Prop := forall d sg acc q arr k,
  1 <= d -> curly_plain (q_toks q) = true -> KI (d - 1) k ->
  Inv (d, WFree, false, sg) q (pinfix true c f acc q arr k).

Lemma KI_shift : forall d k, KI d k -> KI (d + 1 - 1) k.
Proof. intros d k H. replace (d + 1 - 1) with d by lia. exact H. Qed.

Lemma main_inv : forall f, Iexpr f /\ Ilist f /\ Iarray f /\ Iinfix f.
Proof.
  induction f as [|f [IHe [IHl [IHa IHi]]]].
  - split; [|split; [|split]]; red; intros; triv.
  - assert (Iexpr (S f)) as HE.
    { red. intros d p sg acc top q k Hd Hc Hk Hnt Hend. simpl pexpr.
      apply look_inv.
      2:{ intros Hnil. destruct top; simpl.
          - apply Hend; [reflexivity|exact Hnil].
          - destruct (Hnt eq_refl) as [H|H]; [apply sunf_pos; exact H|subst p; unfold sunf; destruct (0 <? d); reflexivity]. }
      intros Hne.
      assert (curly_plain (q_toks (q_tail q)) = true) as Hc1 by (apply cp_tail; exact Hc).
      assert (forall name, KI d (fun e q2 => k (list2 (sym name) e) q2)) as Hsug
        by (intros name e q2 sg2 He H2; apply Hk; [reflexivity|exact H2]).
      assert (forall e sg2, is_send e = false -> Inv (d, WFree, false, sg2) (q_tail q) (k e (q_tail q))) as Hk1
        by (intros e sg2 He; apply Hk; assumption).
      destruct (t_kind (tok_at q 0)) eqn:K;
        try triv;
        try (eapply inv_step; [exact Hne|unfold tstep, is_sign, kind_is; rewrite K; reflexivity|apply Hk1; reflexivity]);
        try (eapply inv_step; [exact Hne|unfold tstep; rewrite K; reflexivity|];
             apply IHe; [exact Hd|exact Hc1|apply Hsug|intros _; right; reflexivity|discriminate]).
      + (* TLParen *)
        eapply inv_step; [exact Hne|unfold tstep; rewrite K; reflexivity|].
        apply IHl; [lia|left; reflexivity|exact Hc1|apply KI_shift; exact Hk].
      + (* TLSquare *)
        eapply inv_step; [exact Hne|unfold tstep; rewrite K; reflexivity|].
        apply IHa; [lia|exact Hc1|apply KI_shift; exact Hk].
      + (* TLCurly *)
        eapply inv_step; [exact Hne|unfold tstep; rewrite K; reflexivity|].
        assert (sunf (d + 1, WFree, false, false) = true) as Hs1 by (apply sunf_pos; lia).
        apply need_inv; [exact Hs1|]. intros Hlen.
        assert (comment_like (tok_at (q_tail q) 0) = false) as Hncl.
        { destruct q as [l e i]; unfold tok_at in *; simpl in *. destruct l as [|t r]; [congruence|]. simpl in *.
          unfold kind_is in Hc at 1. rewrite K in Hc. simpl in Hc. destruct r as [|t2 r2]; [simpl in Hlen; lia|].
          simpl. apply andb_prop in Hc. destruct Hc as [Hc _]. destruct (comment_like t2); [discriminate|reflexivity]. }
        destruct f as [|f0]; [triv|]. simpl curly_skip.
        unfold comment_like in Hncl. apply orb_false_elim in Hncl. destruct Hncl as [N1 N2]. rewrite N1, N2.
        set (q1 := q_tail q) in *.
        assert (Inv (d + 1, WFree, false, false) q1 (pinfix true c (S f0) acc q1 [] k)) as Hinf
          by (apply IHi; [lia|exact Hc1|apply KI_shift; exact Hk]).
        assert (Inv (d + 1, WFree, false, false) q1 (plist true c (S f0) acc (q_push hash_tok q1) TRCurly k)) as Hhash.
        { apply inv_push_hash. apply IHl; [lia|right; reflexivity|apply cp_push_hash; exact Hc1|apply KI_shift; exact Hk]. }
        destruct (t_kind (tok_at q1 0)) eqn:K2; try exact Hinf.
        * (* TRCurly *)
          assert (q_toks q1 <> []) as Hne1 by (eapply len_ne'; exact Hlen).
          replace (if c then q_drop 1 q1 else q_tail q1) with (q_tail q1)
            by (destruct c; [|reflexivity]; unfold q_drop, q_tail; destruct (q_toks q1); reflexivity).
          eapply inv_step; [exact Hne1|unfold tstep; rewrite K2; reflexivity|].
          replace (d + 1 - 1) with d by lia. apply Hk; [reflexivity|apply cp_tail; exact Hc1].
        * apply need_inv; [exact Hs1|]. intros _. apply idx_inv. intros t2.
          destruct (kind_is t2 TColonOperator); assumption.
        * apply need_inv; [exact Hs1|]. intros _. apply idx_inv. intros t2. apply idx_inv. intros t3.
          destruct (kind_is t2 TBacktickString && kind_is t3 TColonOperator); assumption.
        * apply need_inv; [exact Hs1|]. intros _. apply idx_inv. intros t2.
          destruct (kind_is t2 TSymbol && list_eqb (t_str t2) str_for); assumption.
      + (* TSymbol *)
        eapply inv_step; [exact Hne|unfold tstep; rewrite K; reflexivity|].
        assert (is_sign (tok_at q 0) = (list_eqb (t_str (tok_at q 0)) [45] || list_eqb (t_str (tok_at q 0)) [43])) as Hsg
          by (unfold is_sign, kind_is; rewrite K; reflexivity).
        rewrite Hsg.
        destruct (list_eqb (t_str (tok_at q 0)) [45] || list_eqb (t_str (tok_at q 0)) [43]).
        * apply need_inv; [unfold sunf; destruct (0 <? d); reflexivity|]. intros Hl.
          assert (q_toks (q_tail q) <> []) as Hne1 by (eapply len_ne'; exact Hl).
          destruct (kind_is (tok_at (q_tail q) 0) TFloat &&
                    (list_eqb (t_str (tok_at (q_tail q) 0)) str_Inf || list_eqb (t_str (tok_at (q_tail q) 0)) str_inf)) eqn:KF.
          -- eapply inv_step; [exact Hne1| |apply Hk; [reflexivity|apply cp_tail; exact Hc1]].
             apply andb_prop in KF. destruct KF as [KF _]. unfold kind_is in KF.
             unfold tstep, is_sign, kind_is. destruct (t_kind (tok_at (q_tail q) 0)); try discriminate. reflexivity.
          -- apply Hk; [reflexivity|exact Hc1].
        * destruct (list_eqb (t_str (tok_at q 0)) str_nil); apply Hk; try reflexivity; exact Hc1.
      + (* TDecimal *) eapply inv_step; [exact Hne|unfold tstep, is_sign, kind_is; rewrite K; reflexivity|].
        destruct (parse_int 10 _); [apply Hk1; reflexivity|triv].
      + eapply inv_step; [exact Hne|unfold tstep, is_sign, kind_is; rewrite K; reflexivity|].
        destruct (parse_int 16 _); [apply Hk1; reflexivity|triv].
      + eapply inv_step; [exact Hne|unfold tstep, is_sign, kind_is; rewrite K; reflexivity|].
        destruct (parse_int 8 _); [apply Hk1; reflexivity|triv].
      + eapply inv_step; [exact Hne|unfold tstep, is_sign, kind_is; rewrite K; reflexivity|].
        destruct (parse_int 2 _); [apply Hk1; reflexivity|triv].
      + (* TFloat *) eapply inv_step; [exact Hne|unfold tstep, is_sign, kind_is; rewrite K; reflexivity|].
        destruct (list_eqb _ str_NaN); [apply Hk1; reflexivity|]. destruct (float_ok _); [apply Hk1; reflexivity|triv].
      + (* TBeginBacktickString *)
        eapply inv_step; [exact Hne|unfold tstep; rewrite K; reflexivity|]. apply pbacktick_inv; assumption.
      + (* TBeginBlockComment *)
        eapply inv_step; [exact Hne|unfold tstep; rewrite K; reflexivity|]. apply pblock_inv; assumption.
      + (* TUint64 *) eapply inv_step; [exact Hne|unfold tstep, is_sign, kind_is; rewrite K; reflexivity|].
        destruct (length _ <? 3)%nat; [triv|]. destruct (conv_uint64 _); [apply Hk1; reflexivity|triv]. }
    assert (Ilist (S f)) as HL.
    { red. intros d sg acc q endk k Hd He Hc Hk. simpl plist.
      apply need_inv; [apply sunf_pos; exact Hd|]. intros Hlen.
      assert (q_toks q <> []) as Hne by (eapply len_ne'; exact Hlen).
      destruct (kind_is (tok_at q 0) endk) eqn:KE.
      - eapply inv_step; [exact Hne| |apply Hk; [reflexivity|apply cp_tail; exact Hc]].
        unfold kind_is in KE. unfold tstep. destruct He; subst endk; destruct (t_kind (tok_at q 0)); try discriminate; reflexivity.
      - apply IHe; [lia|exact Hc| |intros _; left; exact Hd|discriminate].
        red. intros head q2 sg2 Hh Hc2.
        assert (forall q5 sg5, curly_plain (q_toks q5) = true ->
                Inv (d, WFree, false, sg5) q5 (plist true c f acc q5 endk (fun tl q' => k (SPair head tl) q'))) as Hrest.
        { intros q5 sg5 H5. apply IHl; [exact Hd|exact He|exact H5|].
          red. intros tl q6 sg6 _ H6. apply Hk; [reflexivity|exact H6]. }
        apply look_inv; [|intros _; apply sunf_pos; exact Hd].
        intros Hne2. destruct (kind_is (tok_at q2 0) TBackslash) eqn:KB; [|apply Hrest; exact Hc2].
        eapply inv_step; [exact Hne2| |].
        { unfold kind_is in KB. unfold tstep, is_sign, kind_is. destruct (t_kind (tok_at q2 0)); try discriminate. reflexivity. }
        apply IHe; [lia|apply cp_tail; exact Hc2| |intros _; left; exact Hd|discriminate].
        red. intros tail q4 sg4 _ Hc4.
        apply look_inv; [|intros _; apply sunf_pos; exact Hd].
        intros Hne4. destruct (kind_is (tok_at q4 0) TRParen) eqn:KR; [|triv].
        eapply inv_step; [exact Hne4| |apply Hk; [reflexivity|apply cp_tail; exact Hc4]].
        unfold kind_is in KR. unfold tstep. destruct (t_kind (tok_at q4 0)); try discriminate; reflexivity. }
    assert (Iarray (S f)) as HA.
    { red. intros d sg acc q arr k Hd Hc Hk. simpl parray.
      apply need_inv; [apply sunf_pos; exact Hd|]. intros Hlen.
      assert (q_toks q <> []) as Hne by (eapply len_ne'; exact Hlen).
      destruct (kind_is (tok_at q 0) TComma) eqn:K1.
      - eapply inv_step; [exact Hne| |apply IHa; [exact Hd|apply cp_tail; exact Hc|exact Hk]].
        unfold kind_is in K1. unfold tstep, is_sign, kind_is. destruct (t_kind (tok_at q 0)); try discriminate; reflexivity.
      - destruct (kind_is (tok_at q 0) TRSquare) eqn:K2.
        + eapply inv_step; [exact Hne| |apply Hk; [reflexivity|apply cp_tail; exact Hc]].
          unfold kind_is in K2. unfold tstep. destruct (t_kind (tok_at q 0)); try discriminate; reflexivity.
        + apply IHe; [lia|exact Hc| |intros _; left; exact Hd|discriminate].
          red. intros e q2 sg2 _ H2. apply IHa; assumption. }
    assert (Iinfix (S f)) as HI.
    { red. intros d sg acc q arr k Hd Hc Hk. simpl pinfix.
      apply need_inv; [apply sunf_pos; exact Hd|]. intros Hlen.
      assert (q_toks q <> []) as Hne by (eapply len_ne'; exact Hlen).
      destruct (kind_is (tok_at q 0) TRCurly) eqn:K2.
      - eapply inv_step; [exact Hne| |apply Hk; [reflexivity|apply cp_tail; exact Hc]].
        unfold kind_is in K2. unfold tstep. destruct (t_kind (tok_at q 0)); try discriminate; reflexivity.
      - apply IHe; [lia|exact Hc| |intros _; left; exact Hd|discriminate].
        red. intros e q2 sg2 _ H2. apply IHi; assumption. }
    split; [|split; [|split]]; assumption.
Qed.

End Unf.


Lemma ptop_inv : forall c f acc q sg, curly_plain (q_toks q) = true -> Inv (0, WFree, false, sg) q (ptop true c f acc q).
Proof.
  induction f as [|f IH]; intros acc q sg Hc; [triv|].
  simpl ptop. apply (proj1 (main_inv c f)); [lia|exact Hc| |discriminate|].
  - red. intros e q' sg' He Hc'. rewrite He. apply IH; exact Hc'.
  - intros _ Hnil. simpl. destruct (q_instr q) eqn:Ei; [split; [|split]; intros; try discriminate; exact Ei|].
    split; [|split]; intros; [|discriminate|discriminate]. split; [exact Ei|]. intros st' Ht. rewrite Hnil in Ht. simpl in Ht. inversion Ht; subst. reflexivity.
Qed.


From ZV Require Import Proofs.LexerProofs.


Lemma parse_whole_ptop : forall c fuel text,
  parse_whole true c fuel text =
  ptop true c fuel [] (mkQ (text_tokens text) (negb (lres_ok (lex_all init_lstate (text ++ nl))))
                           (in_string_or_rune (lres_state (lex_all init_lstate (text ++ nl))))).
Proof.
  intros. unfold parse_whole, parse_after, p_deliver, p_reset, p_init, text_tokens. cbn [ps_lex ps_out resume].
  rewrite reset_is_init. reflexivity.
Qed.

(* (A) a text the parser accepts as complete is not an unfinished prefix *)
Theorem done_implies_finished : forall c fuel text acc f st,
  parse_whole true c fuel text = ODone acc f ->
  curly_plain (text_tokens text) = true ->
  trun st0 (text_tokens text) = Some st -> tfinal st = true.
Proof.
  intros c fuel text acc f st H Hc Ht. rewrite parse_whole_ptop in H.
  match type of H with ptop _ _ _ _ ?q = _ => destruct (ptop_inv c fuel [] q false Hc) as [H1 _] end.
  eapply (proj2 (H1 _ _ H)); exact Ht.
Qed.

(* (B) a request for more input comes from an unfinished prefix or from the sign-symbol look-ahead:
   the tokens consumed when the parser suspends (all but the queued toks) leave the scanner in an
   unfinished state (depth > 0, inside a block comment / raw string, reader prefix pending) or
   right after the symbol - / + *)
Theorem more_implies_unfinished : forall c fuel text acc n toks k st,
  parse_whole true c fuel text = OSusp acc n toks k ->
  curly_plain (text_tokens text) = true ->
  trun st0 (text_tokens text) = Some st ->
  (length toks <= n)%nat /\ exists sts, trun sts toks = Some st /\ sunf sts = true.
Proof.
  intros c fuel text acc n toks k st H Hc Ht. rewrite parse_whole_ptop in H.
  match type of H with ptop _ _ _ _ ?q = _ => destruct (ptop_inv c fuel [] q false Hc) as [_ [H2 _]] end.
  eapply H2; [exact H|exact Ht].
Qed.


(* a text accepted as complete does not end inside a string or char literal *)
Theorem done_not_in_literal : forall c fuel text acc f,
  parse_whole true c fuel text = ODone acc f -> curly_plain (text_tokens text) = true ->
  in_string_or_rune (lres_state (lex_all init_lstate (text ++ nl))) = false.
Proof.
  intros c fuel text acc f H Hc. rewrite parse_whole_ptop in H.
  match type of H with ptop _ _ _ _ ?q = _ => destruct (ptop_inv c fuel [] q false Hc) as [H1 _] end.
  exact (proj1 (H1 _ _ H)).
Qed.

(* the other request for more input: the text ends inside a string or char literal *)
Theorem more_top_in_literal : forall c fuel text acc f,
  parse_whole true c fuel text = OMoreTop acc f -> curly_plain (text_tokens text) = true ->
  in_string_or_rune (lres_state (lex_all init_lstate (text ++ nl))) = true.
Proof.
  intros c fuel text acc f H Hc. rewrite parse_whole_ptop in H.
  match type of H with ptop _ _ _ _ ?q = _ => destruct (ptop_inv c fuel [] q false Hc) as [_ [_ H3]] end.
  exact (H3 _ _ H).
Qed.
