(* "More input is asked for exactly when the token stream is an unfinished prefix", at the level
   of tokens: an independent token scanner (bracket depth, inside block comment / raw string,
   reader prefix pending, sign symbol last) against the reader of Model/Reader.v (strict = true). *)
From Coq Require Import ZArith List Bool Lia.
From ZV Require Import Model.Regex Generated.LexTables Model.Lexer Model.Reader Model.TokScan Proofs.ReaderTotal.
Import ListNotations.
Open Scope Z_scope.

Definition Inv (st : tstate) (q : queue) (o : outcome) : Prop :=
  (forall acc f, o = ODone acc f -> q_instr q = false /\ forall st', trun st (q_toks q) = Some st' -> tfinal st' = true) /\
  (forall acc n toks k, o = OSusp acc n toks k -> forall st', trun st (q_toks q) = Some st' ->
     (length toks <= n)%nat /\ sunf st' = true /\ exists sts, trun sts toks = Some st' /\ sunf sts = true) /\
  (forall acc f, o = OMoreTop acc f -> q_instr q = true).

(* continuation after an expression read at depth d while a reader prefix is / is not (p) waiting for its
   operand: a comment leaves the prefix waiting, anything else is the operand *)
Definition KI (d : Z) (p : bool) (k : sexp -> queue -> outcome) : Prop :=
  forall e q sg, is_send e = false -> bc_ok (q_toks q) = true ->
    Inv (d, WFree, (if is_comment e then p else false), sg) q (k e q).

(* continuation that is only ever given a non-comment (a list, an array, a string ...) *)
Definition KN (d : Z) (k : sexp -> queue -> outcome) : Prop :=
  forall e q sg, is_send e = false -> is_comment e = false -> bc_ok (q_toks q) = true ->
    Inv (d, WFree, false, sg) q (k e q).

Lemma KI_KN : forall d p k, KI d p k -> KN d k.
Proof. intros d p k H e q sg Hs Hc Hb. specialize (H e q sg Hs Hb). rewrite Hc in H. exact H. Qed.

Lemma inv_triv : forall st q o, (forall acc f, o <> ODone acc f) -> (forall acc n t k, o <> OSusp acc n t k) ->
  (forall acc f, o <> OMoreTop acc f) -> Inv st q o.
Proof. intros st q o H1 H2 H3; split; [|split]; intros; exfalso; [eapply H1|eapply H2|eapply H3]; eauto. Qed.

Ltac triv := apply inv_triv; intros; discriminate.

Lemma need_inv : forall st acc n q k,
  sunf st = true ->
  ((length (q_toks q) <= n)%nat -> forall st', trun st (q_toks q) = Some st' -> sunf st' = true) ->
  ((n < length (q_toks q))%nat -> Inv st q (k q)) -> Inv st q (need acc n q k).
Proof.
  intros st acc n q k Hs Hq H. unfold need. destruct (n <? length (q_toks q))%nat eqn:E.
  - apply H. apply Nat.ltb_lt; exact E.
  - destruct (q_err q); [triv|]. split; [|split]; intros; [discriminate| |discriminate].
    inversion H0; subst. apply Nat.ltb_ge in E. split; [exact E|]. split; [apply Hq; assumption|]. exists st. split; assumption.
Qed.

Lemma need_inv0 : forall st acc q k,
  sunf st = true -> ((0 < length (q_toks q))%nat -> Inv st q (k q)) -> Inv st q (need acc 0 q k).
Proof.
  intros st acc q k Hs H. apply need_inv; [exact Hs| |exact H].
  intros Hl st' Ht. destruct (q_toks q); [simpl in Ht; inversion Ht; subst; exact Hs|simpl in Hl; lia].
Qed.

Lemma cp_tl : forall t r, bc_ok (t :: r) = true -> bc_ok r = true.
Proof. intros t r H; simpl in H. apply andb_prop in H; tauto. Qed.

Lemma cp_tail : forall q, bc_ok (q_toks q) = true -> bc_ok (q_toks (q_tail q)) = true.
Proof. intros [l e i] H; simpl in *. destruct l; [exact H|eapply cp_tl; exact H]. Qed.

(* consuming the first token *)
Lemma inv_step : forall st st1 q o, q_toks q <> [] -> tstep st (tok_at q 0) = Some st1 ->
  Inv st1 (q_tail q) o -> Inv st q o.
Proof.
  intros st st1 [l e i] o Hne Hs [H1 [H2 H3]]; unfold tok_at in *; simpl in *. destruct l as [|t r]; [congruence|]. simpl in *.
  split; [|split]; intros.
  - destruct (H1 _ _ H) as [I F]. split; [exact I|]. intros st' Ht. simpl in Ht. rewrite Hs in Ht. eauto.
  - simpl in *. rewrite Hs in *. eauto.
  - eauto.
Qed.

Lemma pblock_inv : forall f d p acc q text k, KI d p k -> bc_ok (q_toks q) = true ->
  Inv (d, WBlock, p, false) q (pblock f acc q text k).
Proof.
  induction f as [|f IH]; intros d p acc q text k Hk Hc; [triv|].
  simpl. apply need_inv0; [unfold sunf; destruct (0 <? d); reflexivity|]. intros Hl.
  assert (q_toks q <> []) as Hne by (eapply len_ne'; exact Hl).
  destruct (kind_is (tok_at q 0) TEndBlockComment) eqn:K1.
  - eapply inv_step; [exact Hne| |apply (Hk (SComment true (text ++ t_str (tok_at q 0)))); [reflexivity|apply cp_tail; exact Hc]].
    simpl. unfold kind_is in *. destruct (t_kind (tok_at q 0)); try discriminate; reflexivity.
  - destruct (kind_is (tok_at q 0) TComment) eqn:K2; [|triv].
    eapply inv_step; [exact Hne| |apply IH; [exact Hk|apply cp_tail; exact Hc]]. simpl. rewrite K2. reflexivity.
Qed.

Lemma pbacktick_inv : forall d acc q k, KN d k -> bc_ok (q_toks q) = true ->
  Inv (d, WRaw, false, false) q (pbacktick acc q k).
Proof.
  intros d acc q k Hk Hc. unfold pbacktick. apply need_inv0; [unfold sunf; destruct (0 <? d); reflexivity|]. intros Hl.
  assert (q_toks q <> []) as Hne by (eapply len_ne'; exact Hl).
  destruct (kind_is (tok_at q 0) TBacktickString) eqn:K1; [|triv].
  eapply inv_step; [exact Hne| |apply Hk; [reflexivity|reflexivity|apply cp_tail; exact Hc]]. simpl. rewrite K1. reflexivity.
Qed.

Lemma look_inv : forall (b : bool) st acc q kend k,
  (q_toks q <> [] -> Inv st q (k q)) ->
  (q_toks q = [] -> if b then sunf st = true else Inv st q (kend tt)) ->
  Inv st q (look b acc q kend k).
Proof.
  intros b st acc q kend k H1 H2. unfold look. destruct (q_toks q) eqn:E.
  - destruct (q_err q); [triv|]. specialize (H2 eq_refl). destruct b; [|exact H2].
    split; [|split]; intros; [discriminate| |discriminate]. inversion H; subst. rewrite E in H0. simpl in H0. inversion H0; subst.
    split; [simpl; lia|]. split; [exact H2|]. exists st'. split; [reflexivity|exact H2].
  - apply H1; discriminate.
Qed.

Lemma idx_inv : forall st q0 q n k, (forall t, Inv st q0 (k t)) -> Inv st q0 (idx q n k).
Proof. intros st q0 q n k H. unfold idx. destruct (nth_error (q_toks q) n); [apply H|triv]. Qed.

Lemma inv_push_hash : forall d q o, Inv (d, WFree, false, false) (q_push hash_tok q) o -> Inv (d, WFree, false, false) q o.
Proof. intros d q o H. exact H. Qed.

Lemma cp_push_hash : forall q, bc_ok (q_toks q) = true -> bc_ok (q_toks (q_push hash_tok q)) = true.
Proof. intros q H. simpl. exact H. Qed.

Lemma sunf_pos : forall d p sg, 1 <= d -> sunf (d, WFree, p, sg) = true.
Proof. intros d p sg H. unfold sunf. assert (0 <? d = true) as -> by (apply Z.ltb_lt; lia). reflexivity. Qed.

(* ---- the comment-skipping loop of the '{' look-ahead ---- *)
Lemma trun_app' : forall l1 l2 st, trun st (l1 ++ l2) = match trun st l1 with Some st' => trun st' l2 | None => None end.
Proof. induction l1 as [|t r IH]; intros l2 st; simpl; [reflexivity|]. destruct (tstep st t); [apply IH|reflexivity]. Qed.

Lemma nth_firstn_S : forall (l : list token) i t, nth_error l i = Some t -> firstn (S i) l = firstn i l ++ [t].
Proof.
  induction l as [|x l IH]; intros i t H; destruct i; simpl in *; try discriminate.
  - inversion H; reflexivity.
  - rewrite (IH i t H). reflexivity.
Qed.

Lemma trun_split : forall l st st' n, trun st l = Some st' ->
  exists st1, trun st (firstn n l) = Some st1 /\ trun st1 (skipn n l) = Some st'.
Proof.
  intros l st st' n H. rewrite <- (firstn_skipn n l) in H. rewrite trun_app' in H.
  destruct (trun st (firstn n l)) as [st1|]; [exists st1; split; [reflexivity|exact H]|discriminate].
Qed.

Lemma bc_ok_next : forall l i t t2, bc_ok l = true -> nth_error l i = Some t -> kind_is t TBeginBlockComment = true ->
  nth_error l (S i) = Some t2 -> kind_is t2 TComment = true.
Proof.
  induction l as [|x l IH]; intros i t t2 H H1 Hk H2; [destruct i; discriminate|].
  simpl in H. apply andb_prop in H. destruct H as [Ha Hb]. destruct i; simpl in *.
  - inversion H1; subst x. rewrite Hk in Ha. destruct l; [discriminate|]. inversion H2; subst. exact Ha.
  - eapply IH; eauto.
Qed.

(* the tokens the loop has skipped are comment tokens: the scanner is back at the depth after the brace *)
Definition Pre (d : Z) (l : list token) (i : nat) : Prop :=
  forall st', trun (d, WFree, false, false) l = Some st' ->
  exists a, trun (d, WFree, false, false) (firstn i l) = Some (d, a, false, false) /\ (a = WFree \/ a = WBlock).

Lemma pre_comment : forall d l i t, Pre d l i -> nth_error l i = Some t -> kind_is t TComment = true -> Pre d l (S i).
Proof.
  intros d l i t Hp Hn Hk st' H. destruct (Hp st' H) as (a & Ha & Hor).
  rewrite (nth_firstn_S _ _ _ Hn), trun_app', Ha. simpl.
  unfold kind_is in Hk. destruct Hor; subst a.
  - exists WFree. split; [|left; reflexivity]. unfold is_sign, kind_is. destruct (t_kind t); try discriminate. reflexivity.
  - exists WBlock. split; [|right; reflexivity]. unfold kind_is. destruct (t_kind t); try discriminate. reflexivity.
Qed.

Lemma pre_begin : forall d l i t x1 x2, Pre d l i -> bc_ok l = true ->
  nth_error l i = Some t -> kind_is t TBeginBlockComment = true ->
  nth_error l (S i) = Some x1 -> nth_error l (S (S i)) = Some x2 -> Pre d l (S (S (S i))).
Proof.
  intros d l i t x1 x2 Hp Hb Hn Hk Hn1 Hn2 st' H. destruct (Hp st' H) as (a & Ha & Hor).
  destruct (trun_split _ _ _ (S (S (S i))) H) as (st3 & H3 & _).
  rewrite (nth_firstn_S _ _ _ Hn2), (nth_firstn_S _ _ _ Hn1), (nth_firstn_S _ _ _ Hn) in *.
  rewrite <- !app_assoc in *. simpl app in *. rewrite trun_app' in *. rewrite Ha in *.
  pose proof (bc_ok_next _ _ _ _ Hb Hn Hk Hn1) as Hc1.
  unfold kind_is in Hk, Hc1. simpl in *.
  destruct Hor; subst a; simpl in *.
  - destruct (t_kind t) eqn:Kt; try discriminate. simpl in *.
    unfold kind_is in *. destruct (t_kind x1) eqn:K1; try discriminate. simpl in *.
    destruct (t_kind x2) eqn:K2; unfold kind_is in *; rewrite ?K2 in *; simpl in *; try discriminate.
    + exists WBlock. split; [reflexivity|right; reflexivity].
    + exists WFree. split; [reflexivity|left; reflexivity].
  - unfold kind_is in *. destruct (t_kind t) eqn:Kt; try discriminate.
Qed.

Lemma sunf_pos_any : forall d a p sg, 1 <= d -> sunf (d, a, p, sg) = true.
Proof. intros d a p sg H. unfold sunf. assert (0 <? d = true) as -> by (apply Z.ltb_lt; lia). reflexivity. Qed.

(* when the look-ahead runs out of tokens after the skipped comments, what is queued (the token it
   looked at and at most two more) leaves the scanner unfinished: at the depth after the brace *)
Lemma tail_sunf : forall d l i tok2 m,
  1 <= d -> bc_ok l = true -> Pre d l i -> nth_error l i = Some tok2 -> (length l <= S i + m)%nat ->
  (kind_is tok2 TBeginBlockComment = true /\ (m <= 2)%nat \/
   kind_is tok2 TBeginBacktickString = true /\ (m <= 1)%nat \/
   (kind_is tok2 TComment = true \/ kind_is tok2 TSymbolColon = true \/ kind_is tok2 TString = true) /\ m = 0%nat) ->
  forall st', trun (d, WFree, false, false) l = Some st' -> sunf st' = true.
Proof.
  intros d l i tok2 m Hd Hb Hp Hn Hlen Hk st' Ht.
  destruct (Hp st' Ht) as (a & Ha & Hor).
  destruct (trun_split _ _ _ (S i) Ht) as (st1 & H1 & H2).
  rewrite (nth_firstn_S _ _ _ Hn), trun_app', Ha in H1. simpl in H1.
  assert (length (skipn (S i) l) <= m)%nat as Hsk by (rewrite skipn_length; lia).
  assert (S i <= length l)%nat as Hil by (apply nth_error_Some; rewrite Hn; discriminate).
  destruct Hk as [[Kb Hm]|[[Kt Hm]|[Kc Hm]]].
  - (* block comment begins *)
    destruct Hor; subst a; simpl in H1; unfold kind_is in Kb.
    + destruct (t_kind tok2) eqn:K2; try discriminate. inversion H1; subst st1. clear H1.
      destruct (skipn (S i) l) as [|x1 r1] eqn:Es; [simpl in H2; inversion H2; subst; apply sunf_pos_any; exact Hd|].
      assert (nth_error l (S i) = Some x1) as Hx1.
      { rewrite <- (firstn_skipn (S i) l). rewrite nth_error_app2; rewrite firstn_length_le; try lia.
        replace (S i - S i)%nat with 0%nat by lia. rewrite Es. reflexivity. }
      assert (kind_is x1 TComment = true) as Kx1 by (apply (bc_ok_next l i tok2 x1 Hb Hn); [unfold kind_is; rewrite K2; reflexivity|exact Hx1]).
      simpl in H2. rewrite Kx1 in H2.
      destruct r1 as [|x2 r2]; [simpl in H2; inversion H2; subst; apply sunf_pos_any; exact Hd|].
      destruct r2; [|simpl in Hsk; lia]. simpl in H2.
      destruct (kind_is x2 TComment); [inversion H2; subst; apply sunf_pos_any; exact Hd|].
      destruct (kind_is x2 TEndBlockComment); [inversion H2; subst; apply sunf_pos_any; exact Hd|discriminate].
    + unfold kind_is in H1. destruct (t_kind tok2); try discriminate.
  - (* raw string begins *)
    destruct Hor; subst a; simpl in H1; unfold kind_is in Kt.
    + destruct (t_kind tok2) eqn:K2; try discriminate. inversion H1; subst st1. clear H1.
      destruct (skipn (S i) l) as [|x1 r1]; [simpl in H2; inversion H2; subst; apply sunf_pos_any; exact Hd|].
      destruct r1; [|simpl in Hsk; lia]. simpl in H2.
      destruct (kind_is x1 TBacktickString); [inversion H2; subst; apply sunf_pos_any; exact Hd|discriminate].
    + unfold kind_is in H1. destruct (t_kind tok2); try discriminate.
  - (* a comment, a symbol with colon, a string: nothing queued behind it *)
    subst m. destruct (skipn (S i) l); [|simpl in Hsk; lia]. simpl in H2. inversion H2; subst st'. clear H2.
    unfold kind_is in Kc.
    destruct Hor; subst a; simpl in H1; unfold kind_is in H1;
      destruct (t_kind tok2); try discriminate; try (destruct Kc as [Kc|[Kc|Kc]]; discriminate);
      inversion H1; subst; apply sunf_pos_any; exact Hd.
Qed.

Definition J (d : Z) (q : queue) (tok2 : token) (extra : nat) : Prop :=
  exists i, extra = S i /\ nth_error (q_toks q) i = Some tok2 /\ Pre d (q_toks q) i.

Definition K3I (d : Z) (k3 : queue -> token -> nat -> outcome) : Prop :=
  forall q tok2 extra, bc_ok (q_toks q) = true -> J d q tok2 extra -> Inv (d, WFree, false, false) q (k3 q tok2 extra).

Lemma idx_inv' : forall st q0 q n k, (forall t, nth_error (q_toks q) n = Some t -> Inv st q0 (k t)) -> Inv st q0 (idx q n k).
Proof. intros st q0 q n k H. unfold idx. destruct (nth_error (q_toks q) n) eqn:E; [apply H; reflexivity|triv]. Qed.

Lemma curly_skip_inv : forall f d acc q tok2 extra k3,
  1 <= d -> bc_ok (q_toks q) = true -> J d q tok2 extra -> K3I d k3 ->
  Inv (d, WFree, false, false) q (curly_skip f acc q tok2 extra k3).
Proof.
  induction f as [|f IH]; intros d acc q tok2 extra k3 Hd Hb HJ Hk; [triv|].
  assert (sunf (d, WFree, false, false) = true) as Hs by (apply sunf_pos; exact Hd).
  destruct HJ as (i & -> & Hn & Hp). simpl.
  destruct (kind_is tok2 TBeginBlockComment) eqn:KB.
  - apply need_inv; [exact Hs| |].
    { intros Hl st' Ht. apply (tail_sunf d (q_toks q) i tok2 2 Hd Hb Hp Hn); [simpl in *; lia|left; split; [exact KB|lia]|exact Ht]. }
    intros _. apply idx_inv'. intros t2 Hn2.
    assert (nth_error (q_toks q) (S (S (S i))) = Some t2) as Hn2' by (rewrite <- Hn2; f_equal; lia). clear Hn2. rename Hn2' into Hn2.
    (* the two tokens between *)
    destruct (nth_error (q_toks q) (S i)) as [x1|] eqn:E1;
      [|exfalso; apply nth_error_None in E1; assert (S (S (S i)) < length (q_toks q))%nat by (apply nth_error_Some; rewrite Hn2; discriminate); lia].
    destruct (nth_error (q_toks q) (S (S i))) as [x2|] eqn:E2;
      [|exfalso; apply nth_error_None in E2; assert (S (S (S i)) < length (q_toks q))%nat by (apply nth_error_Some; rewrite Hn2; discriminate); lia].
    pose proof (pre_begin _ _ _ _ _ _ Hp Hb Hn KB E1 E2) as Hp3.
    destruct (kind_is t2 TComment) eqn:KC.
    + apply need_inv; [exact Hs| |].
      { intros Hl st' Ht. apply (tail_sunf d (q_toks q) (S (S (S i))) t2 0 Hd Hb Hp3 Hn2); [simpl in *; lia|right; right; split; [left; exact KC|reflexivity]|exact Ht]. }
      intros _. apply idx_inv'. intros t3 Hn3.
      assert (nth_error (q_toks q) (S (S (S (S i)))) = Some t3) as Hn3' by (rewrite <- Hn3; f_equal; lia). clear Hn3. rename Hn3' into Hn3.
      match goal with |- Inv _ _ (curly_skip f acc q t3 ?e k3) => replace e with (S (S (S (S (S i))))) by lia end.
      apply IH; [exact Hd|exact Hb| |exact Hk].
      exists (S (S (S (S i)))). split; [reflexivity|]. split; [exact Hn3|]. eapply pre_comment; eauto.
    + match goal with |- Inv _ _ (curly_skip f acc q t2 ?e k3) => replace e with (S (S (S (S i)))) by lia end.
      apply IH; [exact Hd|exact Hb| |exact Hk].
      exists (S (S (S i))). split; [reflexivity|]. split; [exact Hn2|exact Hp3].
  - destruct (kind_is tok2 TComment) eqn:KC.
    + apply need_inv; [exact Hs| |].
      { intros Hl st' Ht. apply (tail_sunf d (q_toks q) i tok2 0 Hd Hb Hp Hn); [simpl in *; lia|right; right; split; [left; exact KC|reflexivity]|exact Ht]. }
      intros _. apply idx_inv'. intros t3 Hn3.
      match goal with |- Inv _ _ (curly_skip f acc q t3 ?e k3) => replace e with (S (S i)) by lia end.
      apply IH; [exact Hd|exact Hb| |exact Hk].
      exists (S i). split; [reflexivity|]. split; [exact Hn3|]. eapply pre_comment; eauto.
    + apply Hk; [exact Hb|]. exists i. repeat split; assumption.
Qed.

(* dropping tokens the scanner passes over *)
Lemma inv_drop : forall st st2 q n o,
  (forall st', trun st (q_toks q) = Some st' -> trun st2 (skipn n (q_toks q)) = Some st') ->
  Inv st2 (q_drop n q) o -> Inv st q o.
Proof.
  intros st st2 q n o H [H1 [H2 H3]]. split; [|split]; intros.
  - destruct (H1 _ _ H0) as [I F]. split; [exact I|]. intros st' Ht. apply F. simpl. apply H; exact Ht.
  - apply (H2 _ _ _ _ H0). simpl. apply H; exact H4.
  - apply (H3 _ _ H0).
Qed.

Lemma bc_ok_skipn : forall n l, bc_ok l = true -> bc_ok (skipn n l) = true.
Proof.
  induction n as [|n IH]; intros l H; simpl; [exact H|]. destruct l as [|t r]; [reflexivity|]. apply IH. eapply cp_tl; exact H.
Qed.

Section Unf.

Definition Iexpr (f : nat) : Prop := forall d p sg acc top q k,
  0 <= d -> bc_ok (q_toks q) = true -> KI d p k ->
  (top = false -> 1 <= d \/ p = true) ->
  (top = true -> q_toks q = [] -> Inv (d, WFree, p, sg) q (k SEnd q)) ->
  Inv (d, WFree, p, sg) q (pexpr true true f acc top q k).
Definition Ilist (f : nat) : Prop := forall d sg acc q endk k,
  1 <= d -> (endk = TRParen \/ endk = TRCurly) -> bc_ok (q_toks q) = true -> KN (d - 1) k ->
  Inv (d, WFree, false, sg) q (plist true true f acc q endk k).
Definition Iarray (f : nat) : Prop := forall d sg acc q arr k,
  1 <= d -> bc_ok (q_toks q) = true -> KN (d - 1) k ->
  Inv (d, WFree, false, sg) q (parray true true f acc q arr k).
Definition Iinfix (f : nat) : Prop := forall d sg acc q arr k,
  1 <= d -> bc_ok (q_toks q) = true -> KN (d - 1) k ->
  Inv (d, WFree, false, sg) q (pinfix true true f acc q arr k).

Definition Iprefix (f : nat) : Prop := forall d sg p0 acc q name k,
  0 <= d -> bc_ok (q_toks q) = true -> KI d p0 k ->
  Inv (d, WFree, true, sg) q (pprefix true true f acc q name k).

Lemma KI_shift : forall d p k, KI d p k -> KN (d + 1 - 1) k.
Proof. intros d p k H. replace (d + 1 - 1) with d by lia. eapply KI_KN; exact H. Qed.

Lemma main_inv : forall f, Iexpr f /\ Ilist f /\ Iarray f /\ Iinfix f /\ Iprefix f.
Proof.
  induction f as [|f [IHe [IHl [IHa [IHi IHp]]]]].
  - split; [|split; [|split; [|split]]]; red; intros; triv.
  - assert (Iexpr (S f)) as HE.
    { red. intros d p sg acc top q k Hd Hc Hk Hnt Hend. simpl pexpr.
      apply look_inv.
      2:{ intros Hnil. destruct top; simpl.
          - apply Hend; [reflexivity|exact Hnil].
          - destruct (Hnt eq_refl) as [H|H]; [apply sunf_pos; exact H|subst p; unfold sunf; destruct (0 <? d); reflexivity]. }
      intros Hne.
      assert (bc_ok (q_toks (q_tail q)) = true) as Hc1 by (apply cp_tail; exact Hc).
      assert (KN d k) as Hkn by (eapply KI_KN; exact Hk).
      assert (forall e sg2, is_send e = false -> is_comment e = false -> Inv (d, WFree, false, sg2) (q_tail q) (k e (q_tail q))) as Hk1
        by (intros e sg2 He Hce; apply Hkn; assumption).
      destruct (t_kind (tok_at q 0)) eqn:K;
        try triv;
        try (eapply inv_step; [exact Hne|unfold tstep, is_sign, kind_is; rewrite K; reflexivity|apply Hk1; reflexivity]);
        try (eapply inv_step; [exact Hne|unfold tstep; rewrite K; reflexivity|];
             eapply IHp; [exact Hd|exact Hc1|exact Hk]).
      + (* TLParen *)
        eapply inv_step; [exact Hne|unfold tstep; rewrite K; reflexivity|].
        apply IHl; [lia|left; reflexivity|exact Hc1|eapply KI_shift; exact Hk].
      + (* TLSquare *)
        eapply inv_step; [exact Hne|unfold tstep; rewrite K; reflexivity|].
        apply IHa; [lia|exact Hc1|eapply KI_shift; exact Hk].
      + (* TLCurly *)
        eapply inv_step; [exact Hne|unfold tstep; rewrite K; reflexivity|].
        assert (sunf (d + 1, WFree, false, false) = true) as Hs1 by (apply sunf_pos; lia).
        apply need_inv0; [exact Hs1|]. intros Hlen.
        assert (q_toks (q_tail q) <> []) as Hne1 by (eapply len_ne'; exact Hlen).
        apply curly_skip_inv; [lia|exact Hc1| |].
        { exists 0%nat. split; [reflexivity|]. split.
          - unfold tok_at. destruct (q_toks (q_tail q)); [congruence|reflexivity].
          - intros st' _. exists WFree. split; [reflexivity|left; reflexivity]. }
        red. intros q3 tok2 extra Hc3 (i & -> & Hn & Hp).
        assert (Inv (d + 1, WFree, false, false) q3 (pinfix true true f acc q3 [] k)) as Hinf
          by (apply IHi; [lia|exact Hc3|eapply KI_shift; exact Hk]).
        assert (Inv (d + 1, WFree, false, false) q3 (plist true true f acc (q_push hash_tok q3) TRCurly k)) as Hhash.
        { apply inv_push_hash. apply IHl; [lia|right; reflexivity|apply cp_push_hash; exact Hc3|eapply KI_shift; exact Hk]. }
        destruct (t_kind tok2) eqn:K2; try exact Hinf.
        * (* TRCurly: the skipped comments and the brace are dropped *)
          apply (inv_drop _ (d, WFree, false, false) _ (S i)).
          -- intros st' Ht. destruct (Hp st' Ht) as (a & Ha & Hor).
             destruct (trun_split _ _ _ (S i) Ht) as (st1 & H1 & H2).
             rewrite (nth_firstn_S _ _ _ Hn), trun_app', Ha in H1. simpl in H1.
             destruct Hor; subst a; simpl in H1.
             ++ rewrite K2 in H1. inversion H1; subst. replace (d + 1 - 1) with d in H2 by lia. exact H2.
             ++ unfold kind_is in H1. rewrite K2 in H1. simpl in H1. discriminate.
          -- apply Hkn; [reflexivity|reflexivity|]. unfold q_drop; cbn [q_toks]. apply bc_ok_skipn; exact Hc3.
        * apply need_inv; [exact Hs1| |].
          { intros Hl st' Ht. apply (tail_sunf (d + 1) (q_toks q3) i tok2 0 ltac:(lia) Hc3 Hp Hn); [simpl in *; lia| |exact Ht].
            right; right; split; [right; right; unfold kind_is; rewrite K2; reflexivity|reflexivity]. }
          intros _. apply idx_inv. intros t2.
          destruct (kind_is t2 TColonOperator); assumption.
        * apply need_inv; [exact Hs1| |].
          { intros Hl st' Ht. apply (tail_sunf (d + 1) (q_toks q3) i tok2 1 ltac:(lia) Hc3 Hp Hn); [simpl in *; lia| |exact Ht].
            right; left; split; [unfold kind_is; rewrite K2; reflexivity|lia]. }
          intros _. apply idx_inv. intros t2. apply idx_inv. intros t3.
          destruct (kind_is t2 TBacktickString && kind_is t3 TColonOperator); assumption.
        * apply need_inv; [exact Hs1| |].
          { intros Hl st' Ht. apply (tail_sunf (d + 1) (q_toks q3) i tok2 0 ltac:(lia) Hc3 Hp Hn); [simpl in *; lia| |exact Ht].
            right; right; split; [right; left; unfold kind_is; rewrite K2; reflexivity|reflexivity]. }
          intros _. apply idx_inv. intros t2.
          destruct (kind_is t2 TSymbol && list_eqb (t_str t2) str_for); assumption.
      + (* TSymbol *)
        eapply inv_step; [exact Hne|unfold tstep; rewrite K; reflexivity|].
        assert (is_sign (tok_at q 0) = (list_eqb (t_str (tok_at q 0)) [45] || list_eqb (t_str (tok_at q 0)) [43])) as Hsg
          by (unfold is_sign, kind_is; rewrite K; reflexivity).
        rewrite Hsg.
        destruct (list_eqb (t_str (tok_at q 0)) [45] || list_eqb (t_str (tok_at q 0)) [43]).
        * apply need_inv0; [unfold sunf; destruct (0 <? d); reflexivity|]. intros Hl.
          assert (q_toks (q_tail q) <> []) as Hne1 by (eapply len_ne'; exact Hl).
          destruct (kind_is (tok_at (q_tail q) 0) TFloat &&
                    (list_eqb (t_str (tok_at (q_tail q) 0)) str_Inf || list_eqb (t_str (tok_at (q_tail q) 0)) str_inf)) eqn:KF.
          -- eapply inv_step; [exact Hne1| |apply Hkn; [reflexivity|reflexivity|apply cp_tail; exact Hc1]].
             apply andb_prop in KF. destruct KF as [KF _]. unfold kind_is in KF.
             unfold tstep, is_sign, kind_is. destruct (t_kind (tok_at (q_tail q) 0)); try discriminate. reflexivity.
          -- apply Hkn; [reflexivity|reflexivity|exact Hc1].
        * destruct (list_eqb (t_str (tok_at q 0)) str_nil); apply Hkn; try reflexivity; exact Hc1.
      + (* TDecimal *) eapply inv_step; [exact Hne|unfold tstep, is_sign, kind_is; rewrite K; reflexivity|].
        destruct (parse_int 10 _); [apply Hk1; reflexivity|triv].
      + eapply inv_step; [exact Hne|unfold tstep, is_sign, kind_is; rewrite K; reflexivity|].
        destruct (parse_int 16 _); [apply Hk1; reflexivity|triv].
      + eapply inv_step; [exact Hne|unfold tstep, is_sign, kind_is; rewrite K; reflexivity|].
        destruct (parse_int 8 _); [apply Hk1; reflexivity|triv].
      + eapply inv_step; [exact Hne|unfold tstep, is_sign, kind_is; rewrite K; reflexivity|].
        destruct (parse_int 2 _); [apply Hk1; reflexivity|triv].
      + (* TFloat *) eapply inv_step; [exact Hne|unfold tstep, is_sign, kind_is; rewrite K; reflexivity|].
        destruct (list_eqb _ str_NaN); [apply Hk1; reflexivity|]. destruct (float_ok _); [apply Hk1; reflexivity|triv].
      + (* TBeginBacktickString *)
        eapply inv_step; [exact Hne|unfold tstep; rewrite K; reflexivity|]. apply pbacktick_inv; assumption.
      + (* TComment: a reader prefix keeps waiting *)
        eapply inv_step; [exact Hne|unfold tstep; rewrite K; reflexivity|].
        apply (Hk (SComment false (t_str (tok_at q 0)))); [reflexivity|exact Hc1].
      + (* TBeginBlockComment *)
        eapply inv_step; [exact Hne|unfold tstep; rewrite K; reflexivity|]. apply pblock_inv; assumption.
      + (* TUint64 *) eapply inv_step; [exact Hne|unfold tstep, is_sign, kind_is; rewrite K; reflexivity|].
        destruct (length _ <? 3)%nat; [triv|]. destruct (conv_uint64 _); [apply Hk1; reflexivity|triv]. }
    assert (Ilist (S f)) as HL.
    { red. intros d sg acc q endk k Hd He Hc Hk. simpl plist.
      apply need_inv0; [apply sunf_pos; exact Hd|]. intros Hlen.
      assert (q_toks q <> []) as Hne by (eapply len_ne'; exact Hlen).
      destruct (kind_is (tok_at q 0) endk) eqn:KE.
      - eapply inv_step; [exact Hne| |apply Hk; [reflexivity|reflexivity|apply cp_tail; exact Hc]].
        unfold kind_is in KE. unfold tstep. destruct He; subst endk; destruct (t_kind (tok_at q 0)); try discriminate; reflexivity.
      - apply IHe; [lia|exact Hc| |intros _; left; exact Hd|discriminate].
        red. intros head q2 sg2 Hh Hc2.
        replace (if is_comment head then false else false) with false by (destruct (is_comment head); reflexivity).
        assert (forall q5 sg5, bc_ok (q_toks q5) = true ->
                Inv (d, WFree, false, sg5) q5 (plist true true f acc q5 endk (fun tl q' => k (SPair head tl) q'))) as Hrest.
        { intros q5 sg5 H5. apply IHl; [exact Hd|exact He|exact H5|].
          red. intros tl q6 sg6 _ _ H6. apply Hk; [reflexivity|reflexivity|exact H6]. }
        apply look_inv; [|intros _; apply sunf_pos; exact Hd].
        intros Hne2. destruct (kind_is (tok_at q2 0) TBackslash) eqn:KB; [|apply Hrest; exact Hc2].
        eapply inv_step; [exact Hne2| |].
        { unfold kind_is in KB. unfold tstep, is_sign, kind_is. destruct (t_kind (tok_at q2 0)); try discriminate. reflexivity. }
        apply IHe; [lia|apply cp_tail; exact Hc2| |intros _; left; exact Hd|discriminate].
        red. intros tail q4 sg4 _ Hc4.
        replace (if is_comment tail then false else false) with false by (destruct (is_comment tail); reflexivity).
        apply look_inv; [|intros _; apply sunf_pos; exact Hd].
        intros Hne4. destruct (kind_is (tok_at q4 0) TRParen) eqn:KR; [|triv].
        eapply inv_step; [exact Hne4| |apply Hk; [reflexivity|reflexivity|apply cp_tail; exact Hc4]].
        unfold kind_is in KR. unfold tstep. destruct (t_kind (tok_at q4 0)); try discriminate; reflexivity. }
    assert (Iarray (S f)) as HA.
    { red. intros d sg acc q arr k Hd Hc Hk. simpl parray.
      apply need_inv0; [apply sunf_pos; exact Hd|]. intros Hlen.
      assert (q_toks q <> []) as Hne by (eapply len_ne'; exact Hlen).
      destruct (kind_is (tok_at q 0) TComma) eqn:K1.
      - eapply inv_step; [exact Hne| |apply IHa; [exact Hd|apply cp_tail; exact Hc|exact Hk]].
        unfold kind_is in K1. unfold tstep, is_sign, kind_is. destruct (t_kind (tok_at q 0)); try discriminate; reflexivity.
      - destruct (kind_is (tok_at q 0) TRSquare) eqn:K2.
        + eapply inv_step; [exact Hne| |apply Hk; [reflexivity|reflexivity|apply cp_tail; exact Hc]].
          unfold kind_is in K2. unfold tstep. destruct (t_kind (tok_at q 0)); try discriminate; reflexivity.
        + apply IHe; [lia|exact Hc| |intros _; left; exact Hd|discriminate].
          red. intros e q2 sg2 _ H2.
          replace (if is_comment e then false else false) with false by (destruct (is_comment e); reflexivity).
          apply IHa; assumption. }
    assert (Iinfix (S f)) as HI.
    { red. intros d sg acc q arr k Hd Hc Hk. simpl pinfix.
      apply need_inv0; [apply sunf_pos; exact Hd|]. intros Hlen.
      assert (q_toks q <> []) as Hne by (eapply len_ne'; exact Hlen).
      destruct (kind_is (tok_at q 0) TRCurly) eqn:K2.
      - eapply inv_step; [exact Hne| |apply Hk; [reflexivity|reflexivity|apply cp_tail; exact Hc]].
        unfold kind_is in K2. unfold tstep. destruct (t_kind (tok_at q 0)); try discriminate; reflexivity.
      - apply IHe; [lia|exact Hc| |intros _; left; exact Hd|discriminate].
        red. intros e q2 sg2 _ H2.
        replace (if is_comment e then false else false) with false by (destruct (is_comment e); reflexivity).
        apply IHi; assumption. }
    assert (Iprefix (S f)) as HP.
    { red. intros d sg p0 acc q name k Hd Hc Hk. simpl pprefix.
      apply IHe; [exact Hd|exact Hc| |intros _; right; reflexivity|discriminate].
      red. intros e q2 sg2 He Hc2. destruct (is_comment e) eqn:Ec.
      - eapply IHp; [exact Hd|exact Hc2|exact Hk].
      - apply (Hk (list2 (sym name) e)); [reflexivity|exact Hc2]. }
    split; [|split; [|split; [|split]]]; assumption.
Qed.

End Unf.


Lemma ptop_inv : forall f acc q sg, bc_ok (q_toks q) = true -> Inv (0, WFree, false, sg) q (ptop true true f acc q).
Proof.
  induction f as [|f IH]; intros acc q sg Hc; [triv|].
  simpl ptop. apply (proj1 (main_inv f)); [lia|exact Hc| |discriminate|].
  - red. intros e q' sg' He Hc'. rewrite He.
    replace (if is_comment e then false else false) with false by (destruct (is_comment e); reflexivity).
    apply IH; exact Hc'.
  - intros _ Hnil. simpl. destruct (q_instr q) eqn:Ei; [split; [|split]; intros; try discriminate; exact Ei|].
    split; [|split]; intros; [|discriminate|discriminate]. split; [exact Ei|]. intros st' Ht. rewrite Hnil in Ht. simpl in Ht. inversion Ht; subst. reflexivity.
Qed.


From ZV Require Import Proofs.LexerProofs.


Lemma parse_whole_ptop : forall fuel text,
  parse_whole true true fuel text =
  ptop true true fuel [] (mkQ (text_tokens text) (negb (lres_ok (lex_all init_lstate (text ++ nl))))
                           (in_string_or_rune (lres_state (lex_all init_lstate (text ++ nl))))).
Proof.
  intros. unfold parse_whole, parse_after, p_deliver, p_reset, p_init, text_tokens. cbn [ps_lex ps_out resume].
  rewrite reset_is_init. reflexivity.
Qed.

(* (A) a text the parser accepts as complete is not an unfinished prefix *)
Theorem done_implies_finished : forall fuel text acc f st,
  parse_whole true true fuel text = ODone acc f ->
  bc_ok (text_tokens text) = true ->
  trun st0 (text_tokens text) = Some st -> tfinal st = true.
Proof.
  intros fuel text acc f st H Hc Ht. rewrite parse_whole_ptop in H.
  match type of H with ptop _ _ _ _ ?q = _ => destruct (ptop_inv fuel [] q false Hc) as [H1 _] end.
  eapply (proj2 (H1 _ _ H)); exact Ht.
Qed.

(* (B) a request for more input comes from an unfinished prefix or from the sign-symbol look-ahead:
   the tokens consumed when the parser suspends (all but the queued toks) leave the scanner in an
   unfinished state (depth > 0, inside a block comment / raw string, reader prefix pending) or
   right after the symbol - / + *)
Theorem more_implies_unfinished : forall fuel text acc n toks k st,
  parse_whole true true fuel text = OSusp acc n toks k ->
  bc_ok (text_tokens text) = true ->
  trun st0 (text_tokens text) = Some st ->
  (length toks <= n)%nat /\ sunf st = true /\ exists sts, trun sts toks = Some st /\ sunf sts = true.
Proof.
  intros fuel text acc n toks k st H Hc Ht. rewrite parse_whole_ptop in H.
  match type of H with ptop _ _ _ _ ?q = _ => destruct (ptop_inv fuel [] q false Hc) as [_ [H2 _]] end.
  eapply H2; [exact H|exact Ht].
Qed.


(* a text accepted as complete does not end inside a string or char literal *)
Theorem done_not_in_literal : forall fuel text acc f,
  parse_whole true true fuel text = ODone acc f -> bc_ok (text_tokens text) = true ->
  in_string_or_rune (lres_state (lex_all init_lstate (text ++ nl))) = false.
Proof.
  intros fuel text acc f H Hc. rewrite parse_whole_ptop in H.
  match type of H with ptop _ _ _ _ ?q = _ => destruct (ptop_inv fuel [] q false Hc) as [H1 _] end.
  exact (proj1 (H1 _ _ H)).
Qed.

(* the other request for more input: the text ends inside a string or char literal *)
Theorem more_top_in_literal : forall fuel text acc f,
  parse_whole true true fuel text = OMoreTop acc f -> bc_ok (text_tokens text) = true ->
  in_string_or_rune (lres_state (lex_all init_lstate (text ++ nl))) = true.
Proof.
  intros fuel text acc f H Hc. rewrite parse_whole_ptop in H.
  match type of H with ptop _ _ _ _ ?q = _ => destruct (ptop_inv fuel [] q false Hc) as [_ [_ H3]] end.
  exact (H3 _ _ H).
Qed.
