(* Proofs about Model/RefSemLazy.v (property C16).
   1. Closure: a predicate on computations that is closed under the seven combinators the
      evaluator is written with holds of eval / apply for every fuel, expression, function.
   2. Instances: the store only grows (trace, frames, cells, touched log); memos and sources
      of cells are never changed once set; lockstep of two runs whose stores differ only in
      the source of one cell (lazy_not_forced_no_effect).
   3. force / substitute / argument preparation: the statements of Properties/C16.v. *)
From Coq Require Import ZArith Bool List Lia.
From ZV Require Import Model.Num Model.RefSemLazy.
Import ListNotations.
Open Scope Z_scope.

Arguments type_of : simpl never.
Arguments cmp_val : simpl never.
Arguments snap : simpl never.

(* ================================================================= 1. closure *)

(* the core-store computations the evaluator uses (everything it passes to liftC) *)
Inductive coreop : forall A, C A -> Prop :=
| co_lookup env x : coreop _ (lookup_var env x)
| co_alloc vs t : coreop _ (alloc_arr vs t)
| co_get a : coreop _ (get_arr a)
| co_bind f x v : coreop _ (bind f x v)
| co_bind_all f xs : coreop _ (bind_all f xs)
| co_set env x v : coreop _ (set_var env x v)
| co_push : coreop _ push_frame
| co_cmp test args : coreop _ (compare_prim test args)
| co_type v : coreop _ (type_of_c v)
| co_aset a i v o : coreop _ (aset_write a i v o)
| co_trace args : coreop _ (trace_c args)
| co_failk args : coreop _ (failk_c args).

Section Closure.
  Variable P : forall A, M A -> Prop.
  Hypothesis P_pure : forall A (r : res A), P A (pure r).
  Hypothesis P_on : forall A B (m : M A) (k : res A -> M B),
      P A m -> (forall r, P B (k r)) -> P B (on_result m k).
  Hypothesis P_lift0 : forall A (f : C A), coreop A f -> P A (liftC f).
  Hypothesis P_new : forall src memo, P _ (new_thunk src memo).
  Hypothesis P_read : forall c, P _ (read_thunk c).
  Hypothesis P_memo : forall c v, P _ (set_memo c v).
  Hypothesis P_begin : forall c, P _ (begin_force c).
  Hypothesis P_finish : forall c v, P _ (finish_force c v).

  Ltac P_lift := apply P_lift0; constructor.

  Lemma P_ret : forall A (a : A), P A (ret a).
  Proof. intros. apply P_pure. Qed.
  Lemma P_raise : forall A e, P A (raise e).
  Proof. intros. apply P_pure. Qed.
  Lemma P_bind : forall A B (m : M A) (k : A -> M B), P A m -> (forall a, P B (k a)) -> P B (bindM m k).
  Proof. intros A B m k Hm Hk. unfold bindM. apply P_on; [assumption|]. intros [a|g|]; auto. Qed.
  Lemma P_nls : forall A e (m : M A), P A m -> P A (no_loop_sig e m).
  Proof.
    intros A e m Hm. unfold no_loop_sig. apply P_on; [assumption|].
    intros [a|[l|l|e0]|]; apply P_pure.
  Qed.

  Section Open.
    Variable ev : list nat -> expr -> M value.
    Variable ap : value -> list value -> M value.
    Hypothesis Hev : forall env e, P _ (ev env e).
    Hypothesis Hap : forall f args, P _ (ap f args).

    Lemma P_ev_list : forall env es, P _ (ev_list ev env es).
    Proof.
      induction es as [|e r IH]; simpl; [apply P_ret|].
      apply P_bind; [apply Hev|]. intros v. apply P_bind; [apply IH|]. intros; apply P_ret.
    Qed.

    Lemma P_ev_begin : forall env es, P _ (ev_begin ev env es).
    Proof.
      induction es as [|e r IH]; simpl; [apply P_ret|].
      destruct r as [|e2 r]; [apply Hev|]. apply P_bind; [apply Hev|]. intros _. apply IH.
    Qed.

    Lemma P_ev_cond : forall env arms d, P _ (ev_cond ev env arms d).
    Proof.
      induction arms as [|[c b] r IH]; simpl; intros d; [apply Hev|].
      apply P_bind; [apply Hev|]. intros v. destruct (truthy v); [apply Hev|apply IH].
    Qed.

    Lemma P_ev_and : forall env es, P _ (ev_and ev env es).
    Proof.
      induction es as [|e r IH]; simpl; [apply P_raise|].
      destruct r as [|e2 r]; [apply Hev|].
      apply P_bind; [apply Hev|]. intros v. destruct (truthy v); [apply IH|apply P_ret].
    Qed.

    Lemma P_ev_or : forall env es, P _ (ev_or ev env es).
    Proof.
      induction es as [|e r IH]; simpl; [apply P_raise|].
      destruct r as [|e2 r]; [apply Hev|].
      apply P_bind; [apply Hev|]. intros v. destruct (truthy v); [apply P_ret|apply IH].
    Qed.

    Lemma P_prep_arg : forall env lz e, P _ (prep_arg ev env lz e).
    Proof.
      intros env lz e. unfold prep_arg. destruct lz; [apply P_new|].
      destruct (cc [] e); [apply Hev|apply P_raise].
    Qed.

    Lemma P_prep_args : forall env es flags, P _ (prep_args ev env flags es).
    Proof.
      induction es as [|e r IH]; simpl; intros flags; [apply P_ret|].
      apply P_bind; [apply P_prep_arg|]. intros v. apply P_bind; [apply IH|]. intros; apply P_ret.
    Qed.

    Lemma P_wrap_args : forall vs flags, P _ (wrap_args flags vs).
    Proof.
      induction vs as [|v r IH]; simpl; intros flags; [apply P_ret|].
      apply P_bind; [unfold wrap_arg; destruct (hd false flags); [apply P_new|apply P_ret]|].
      intros w. apply P_bind; [apply IH|]. intros; apply P_ret.
    Qed.

    Lemma P_ap_values : forall f vs, P _ (ap_values ap f vs).
    Proof. intros. unfold ap_values. apply P_bind; [apply P_wrap_args|]. intros; apply Hap. Qed.

    Lemma P_ev_letseq : forall f env bs, P _ (ev_letseq ev f env bs).
    Proof.
      induction bs as [|[x e] r IH]; simpl; [apply P_ret|].
      apply P_bind; [apply Hev|]. intros v. apply P_bind; [P_lift|]. intros _. apply IH.
    Qed.

    Lemma P_for_loop : forall k env lbl test step body, P _ (for_loop ev k env lbl test step body).
    Proof.
      induction k as [|k IH]; intros env lbl test step body; simpl; [apply P_pure|].
      apply P_bind; [apply P_nls; apply Hev|]. intros t.
      destruct (truthy t); [|apply P_ret].
      assert (Hnext : P _ (_ <- no_loop_sig EUnspec (ev env step) ;; for_loop ev k env lbl test step body)).
      { apply P_bind; [apply P_nls; apply Hev|]. intros _. apply IH. }
      apply P_on; [apply P_ev_begin|].
      intros [v|[l|l|e]|]; try apply P_pure; try assumption;
        destruct (hits l lbl); try assumption; try apply P_pure; apply P_ret.
    Qed.

    Lemma P_call_expr : forall env f args, P _ (call_expr ev ap env f args).
    Proof.
      intros env f args. unfold call_expr. apply P_bind.
      - destruct f; try apply Hev; destruct (cc [] _); try apply Hev; apply P_raise.
      - intros fv. destruct fv; try apply P_raise;
          try (destruct args; [apply P_ret|apply P_raise]);
          (apply P_bind; [apply P_prep_args|intros vs; apply Hap]).
    Qed.

    Lemma P_force_cell : forall c, P _ (force_cell ev c).
    Proof.
      intros c. unfold force_cell. apply P_bind; [apply P_read|]. intros [t|]; [|apply P_raise].
      destruct (t_memo t); [apply P_ret|]. destruct (t_src t) as [e env|v].
      - destruct (cc [] e); [|apply P_raise]. apply P_bind; [apply P_begin|]. intros _.
        apply P_bind; [apply Hev|]. intros v.
        apply P_bind; [apply P_finish|]. intros; apply P_ret.
      - apply P_bind; [apply P_memo|]. intros; apply P_ret.
    Qed.

    Lemma P_subst_cell : forall c, P _ (subst_cell c).
    Proof.
      intros c. unfold subst_cell. apply P_bind; [apply P_read|]. intros [t|]; [|apply P_raise].
      destruct (t_src t) as [e env|v]; [|apply P_ret]. destruct (expr_datum e); [apply P_ret|apply P_raise].
    Qed.

    Lemma P_arith : forall op r acc, P _ (arith op acc r).
    Proof.
      induction r as [|b r IH]; simpl; intros acc; [apply P_ret|].
      destruct acc; try apply P_raise. destruct b; try apply P_raise. apply IH.
    Qed.

    Lemma P_cat_arrs : forall rest acc, P _ (cat_arrs acc rest).
    Proof.
      induction rest as [|b r IH]; simpl; intros acc; [apply P_ret|].
      destruct b; try apply P_raise. apply P_bind; [P_lift|]. intros o. apply IH.
    Qed.

    Lemma P_map_arr : forall f xs t, P _ (map_arr ap f xs t).
    Proof.
      induction xs as [|x r IH]; simpl; intros t; [apply P_ret|].
      apply P_bind; [apply P_ap_values|]. intros y. apply P_bind.
      - destruct t; [apply P_ret|P_lift].
      - intros t1. apply P_bind; [apply IH|]. intros; apply P_ret.
    Qed.

    Lemma P_map_pairs : forall f v, P _ (map_pairs ap f v).
    Proof.
      induction v; simpl; try apply P_raise; try apply P_ret.
      apply P_bind; [apply P_ap_values|]. intros h'. apply P_bind; [apply IHv2|]. intros; apply P_ret.
    Qed.

    Ltac P_auto :=
      repeat first
        [ apply P_ret | apply P_raise | P_lift | apply P_arith | apply Hap | apply P_map_pairs
        | apply P_ap_values | apply P_force_cell | apply P_subst_cell
        | apply P_bind; [first [P_lift | apply P_map_arr | apply P_cat_arrs]|intros ?]
        | match goal with |- P _ (match ?x with _ => _ end) => destruct x end
        | match goal with |- P _ (if ?x then _ else _) => destruct x end ].

    Lemma P_prim_apply : forall p args, P _ (prim_apply ev ap p args).
    Proof. intros p args. destruct p; simpl; solve [P_auto]. Qed.
  End Open.

  Theorem closure : forall n,
    (forall env e, P _ (eval n env e)) /\ (forall f args, P _ (apply n f args)).
  Proof.
    induction n as [|n [IHe IHa]].
    - split; intros; simpl; apply P_pure.
    - split.
      + intros env e. destruct e; simpl; try apply P_ret; try apply P_pure.
        * P_lift.
        * apply P_bind; [apply P_ev_list; assumption|]. intros; P_lift.
        * apply P_call_expr; assumption.
        * apply P_ev_begin; assumption.
        * apply P_ev_cond; assumption.
        * apply P_ev_and; assumption.
        * apply P_ev_or; assumption.
        * apply P_bind; [apply IHe|]. intros v. apply P_bind; [P_lift|]. intros; apply P_ret.
        * apply P_bind; [apply IHe|]. intros v. P_lift.
        * destruct seq.
          -- apply P_bind; [P_lift|]. intros f.
             apply P_bind; [apply P_ev_letseq; assumption|]. intros _. apply P_ev_begin; assumption.
          -- apply P_bind; [P_lift|]. intros f.
             apply P_bind; [apply P_ev_list; assumption|]. intros vs.
             apply P_bind; [P_lift|]. intros _. apply P_ev_begin; assumption.
        * apply P_bind; [P_lift|]. intros f. apply P_ev_begin; assumption.
        * apply P_bind; [P_lift|]. intros f.
          apply P_bind; [apply P_nls; apply IHe|]. intros _. apply P_for_loop; assumption.
        * apply P_bind; [P_lift|]. intros; apply P_ret.
      + intros f args. destruct f; simpl; try apply P_raise.
        * destruct (zip_params (map fst ps) rest args []) as [binds|]; [|apply P_raise].
          apply P_bind; [P_lift|]. intros fid.
          apply P_bind; [P_lift|]. intros _. apply P_nls. apply P_ev_begin; assumption.
        * apply P_prim_apply; assumption.
  Qed.
End Closure.

(* ================================================================= 2. list facts *)

Lemma nth_error_set_nth_same : forall A (l : list A) n x, (n < length l)%nat ->
  nth_error (set_nth n x l) n = Some x.
Proof.
  induction l; simpl; intros n x H; [lia|]. destruct n; simpl; [reflexivity|]. apply IHl. lia.
Qed.

Lemma nth_error_set_nth_other : forall A (l : list A) n m x, n <> m ->
  nth_error (set_nth n x l) m = nth_error l m.
Proof.
  induction l; simpl; intros n m x H; [destruct n; reflexivity|].
  destruct n; destruct m; simpl; try congruence; auto.
Qed.

Lemma length_set_nth : forall A (l : list A) n x, length (set_nth n x l) = length l.
Proof. induction l; simpl; intros; [destruct n; reflexivity|]. destruct n; simpl; auto. Qed.

(* inversion of the sequencing combinators *)
Lemma on_result_inv : forall A B (m : M A) (k : res A -> M B) s r s2,
  on_result m k s = (r, s2) -> exists r0 s1, m s = (r0, s1) /\ k r0 s1 = (r, s2).
Proof. unfold on_result. intros A B m k s r s2 H. destruct (m s) as [r0 s1]. eauto. Qed.

Lemma bind_done_inv : forall A B (m : M A) (k : A -> M B) s b s2,
  bindM m k s = (Done b, s2) -> exists a s1, m s = (Done a, s1) /\ k a s1 = (Done b, s2).
Proof.
  unfold bindM. intros A B m k s b s2 H. apply on_result_inv in H. destruct H as (r0 & s1 & Hm & Hk).
  destruct r0 as [a|g|]; try (unfold pure in Hk; discriminate). eauto.
Qed.

Lemma bind_done : forall A B (m : M A) (k : A -> M B) s a s1, m s = (Done a, s1) -> bindM m k s = k a s1.
Proof. unfold bindM, on_result. intros A B m k s a s1 H. rewrite H. reflexivity. Qed.

Lemma bind_sig : forall A B (m : M A) (k : A -> M B) s g s1, m s = (Sig g, s1) -> bindM m k s = (Sig g, s1).
Proof. unfold bindM, on_result. intros A B m k s g s1 H. rewrite H. reflexivity. Qed.

Lemma bind_fuel : forall A B (m : M A) (k : A -> M B) s s1, m s = (Fuel, s1) -> bindM m k s = (Fuel, s1).
Proof. unfold bindM, on_result. intros A B m k s s1 H. rewrite H. reflexivity. Qed.

(* ================================================================= 3. cells are kept *)

(* no cell disappears, the source of a cell never changes, a memo is never cleared, the log of
   touched cells is only extended *)
Definition kept (s s1 : store) : Prop :=
  (exists l, touched s1 = l ++ touched s) /\
  (length (thunks s) <= length (thunks s1))%nat /\
  (forall c t, nth_error (thunks s) c = Some t ->
     exists t', nth_error (thunks s1) c = Some t' /\ t_src t' = t_src t /\
                (t_memo t <> None -> t_memo t' <> None)).

Lemma kept_refl : forall s, kept s s.
Proof. intros s. split; [exists []; reflexivity|]. split; [lia|]. intros c t H. exists t. auto. Qed.

Lemma kept_trans : forall a b c, kept a b -> kept b c -> kept a c.
Proof.
  intros a b c (T1 & L1 & K1) (T2 & L2 & K2). split; [|split].
  - destruct T1 as [l1 E1], T2 as [l2 E2]. exists (l2 ++ l1). rewrite E2, E1, app_assoc. reflexivity.
  - lia.
  - intros x t H. destruct (K1 _ _ H) as (t1 & H1 & S1 & M1).
    destruct (K2 _ _ H1) as (t2 & H2 & S2 & M2). exists t2. repeat split; auto; congruence.
Qed.

Definition keeps A (m : M A) : Prop := forall s r s1, m s = (r, s1) -> kept s s1.

Lemma keeps_pure : forall A (r : res A), keeps A (pure r).
Proof. unfold keeps, pure. intros. inversion H; subst. apply kept_refl. Qed.

Lemma keeps_on : forall A B (m : M A) (k : res A -> M B),
  keeps A m -> (forall r, keeps B (k r)) -> keeps B (on_result m k).
Proof.
  unfold keeps. intros A B m k Hm Hk s r s1 H. apply on_result_inv in H.
  destruct H as (r0 & s0 & H1 & H2). eapply kept_trans; [eapply Hm; eauto|eapply Hk; eauto].
Qed.

Lemma keeps_lift : forall A (f : C A), keeps A (liftC f).
Proof.
  unfold keeps, liftC. intros A f s r s1 H. destruct (f (core s)) as [r0 c1]. inversion H; subst.
  split; [exists []; reflexivity|]. split; [simpl; lia|]. intros c t Hc. exists t. auto.
Qed.

Lemma keeps_new : forall src memo, keeps _ (new_thunk src memo).
Proof.
  unfold keeps, new_thunk. intros src memo s r s1 H. inversion H; subst.
  split; [exists []; reflexivity|]. split; [simpl; rewrite app_length; lia|].
  intros c t Hc. exists t. simpl. rewrite nth_error_app1; [auto|]. apply nth_error_Some. congruence.
Qed.

Lemma keeps_read : forall c, keeps _ (read_thunk c).
Proof.
  unfold keeps, read_thunk. intros c s r s1 H. inversion H; subst.
  split; [exists [c]; reflexivity|]. split; [simpl; lia|]. intros x t Hx. exists t. auto.
Qed.

Lemma keeps_memo : forall c v, keeps _ (set_memo c v).
Proof.
  unfold keeps, set_memo. intros c v s r s1 H. inversion H; subst. clear H.
  split; [exists []; reflexivity|]. simpl.
  destruct (nth_error (thunks s) c) as [t0|] eqn:E.
  - split; [rewrite length_set_nth; lia|]. intros x t Hx.
    assert (Hlen : (c < length (thunks s))%nat) by (apply nth_error_Some; congruence).
    destruct (Nat.eq_dec c x) as [<-|Hne].
    + rewrite nth_error_set_nth_same by assumption. eexists. split; [reflexivity|].
      rewrite E in Hx. inversion Hx; subst. simpl. split; [reflexivity|]. intros _. discriminate.
    + rewrite nth_error_set_nth_other by assumption. exists t. auto.
  - split; [lia|]. intros x t Hx. exists t. auto.
Qed.

Lemma keeps_begin : forall c, keeps _ (begin_force c).
Proof.
  unfold keeps, begin_force. intros c s r s1 H. destruct (memo_of s c); inversion H; subst; try apply kept_refl.
  split; [exists []; reflexivity|]. split; [simpl; lia|]. intros x t Hx. exists t. auto.
Qed.

Lemma keeps_finish : forall c v, keeps _ (finish_force c v).
Proof.
  unfold keeps, finish_force. intros c v s r s1 H.
  destruct (nth_error (thunks s) c) as [t0|] eqn:E; inversion H; subst; try apply kept_refl. clear H.
  split; [exists []; reflexivity|]. simpl.
  split; [rewrite length_set_nth; lia|]. intros x t Hx.
  assert (Hlen : (c < length (thunks s))%nat) by (apply nth_error_Some; congruence).
  destruct (Nat.eq_dec c x) as [<-|Hne].
  - rewrite nth_error_set_nth_same by assumption. eexists. split; [reflexivity|].
    rewrite E in Hx. inversion Hx; subst. simpl. split; [reflexivity|]. intros _. discriminate.
  - rewrite nth_error_set_nth_other by assumption. exists t. auto.
Qed.

Theorem eval_keeps : forall n env e, keeps _ (eval n env e).
Proof.
  intros n. apply (closure keeps keeps_pure keeps_on (fun A f _ => keeps_lift A f)
                            keeps_new keeps_read keeps_memo keeps_begin keeps_finish n).
Qed.

Theorem apply_keeps : forall n f args, keeps _ (apply n f args).
Proof.
  intros n. apply (closure keeps keeps_pure keeps_on (fun A f _ => keeps_lift A f)
                            keeps_new keeps_read keeps_memo keeps_begin keeps_finish n).
Qed.

(* ================================================================= 4. lockstep *)

(* two stores that differ at most in the SOURCE of cell c *)
Definition rel (c : nat) (s s' : store) : Prop :=
  core s = core s' /\ touched s = touched s' /\ gh s = gh s' /\ length (thunks s) = length (thunks s') /\
  (forall c', c' <> c -> nth_error (thunks s) c' = nth_error (thunks s') c') /\
  option_map t_memo (nth_error (thunks s) c) = option_map t_memo (nth_error (thunks s') c).

Definition clean (c : nat) (s : store) : Prop := ~ In c (touched s).

Definition sim (c : nat) A (m : M A) : Prop :=
  (forall s r s1, m s = (r, s1) -> exists l, touched s1 = l ++ touched s) /\
  (forall s s' r s1, rel c s s' -> m s = (r, s1) -> clean c s1 ->
     exists s1', m s' = (r, s1') /\ rel c s1 s1').

Lemma rel_refl : forall c s, rel c s s.
Proof. intros. repeat split; auto. Qed.

Lemma sim_pure : forall c A (r : res A), sim c A (pure r).
Proof.
  intros c A r. split; unfold pure.
  - intros s r0 s1 H. inversion H; subst. exists []. reflexivity.
  - intros s s' r0 s1 R H _. inversion H; subst. eauto.
Qed.

Lemma sim_on : forall c A B (m : M A) (k : res A -> M B),
  sim c A m -> (forall r, sim c B (k r)) -> sim c B (on_result m k).
Proof.
  intros c A B m k [Hm1 Hm2] Hk. split.
  - intros s r s1 H. apply on_result_inv in H. destruct H as (r0 & s0 & H1 & H2).
    destruct (Hm1 _ _ _ H1) as [l1 E1]. destruct (proj1 (Hk r0) _ _ _ H2) as [l2 E2].
    exists (l2 ++ l1). rewrite E2, E1, app_assoc. reflexivity.
  - intros s s' r s1 R H Hc. apply on_result_inv in H. destruct H as (r0 & s0 & H1 & H2).
    destruct (proj1 (Hk r0) _ _ _ H2) as [l2 E2].
    assert (Hc0 : clean c s0).
    { unfold clean in *. intros Hin. apply Hc. rewrite E2. apply in_or_app. right. assumption. }
    destruct (Hm2 _ _ _ _ R H1 Hc0) as (s0' & H1' & R0).
    destruct (proj2 (Hk r0) _ _ _ _ R0 H2 Hc) as (s1' & H2' & R1).
    exists s1'. split; [|assumption]. unfold on_result. rewrite H1'. assumption.
Qed.

Lemma sim_lift : forall c A (f : C A), sim c A (liftC f).
Proof.
  intros c A f. split; unfold liftC.
  - intros s r s1 H. destruct (f (core s)) as [r0 c1]. inversion H; subst. exists []. reflexivity.
  - intros s s' r s1 (Rc & Rt & Rg & Rl & Ro & Rm) H _. rewrite <- Rc.
    destruct (f (core s)) as [r0 c1]. inversion H; subst.
    eexists. split; [reflexivity|]. repeat split; simpl; auto.
Qed.

Lemma sim_new : forall c src memo, sim c _ (new_thunk src memo).
Proof.
  intros c src memo. split; unfold new_thunk, add_cell.
  - intros s r s1 H. inversion H; subst. exists []. reflexivity.
  - intros s s' r s1 (Rc & Rt & Rg & Rl & Ro & Rm) H _. inversion H; subst. clear H.
    eexists. split; [rewrite Rl; reflexivity|]. repeat split; simpl; auto.
    + rewrite !app_length. lia.
    + intros c' Hne. destruct (lt_dec c' (length (thunks s))) as [Hlt|Hge].
      * rewrite !nth_error_app1 by lia. auto.
      * rewrite !nth_error_app2 by lia. rewrite Rl. reflexivity.
    + destruct (lt_dec c (length (thunks s))) as [Hlt|Hge].
      * rewrite !nth_error_app1 by lia. assumption.
      * rewrite !nth_error_app2 by lia. rewrite Rl. reflexivity.
Qed.

Lemma sim_read : forall c c0, sim c _ (read_thunk c0).
Proof.
  intros c c0. split; unfold read_thunk.
  - intros s r s1 H. inversion H; subst. exists [c0]. reflexivity.
  - intros s s' r s1 (Rc & Rt & Rg & Rl & Ro & Rm) H Hc. inversion H; subst. clear H.
    assert (Hne : c0 <> c). { intros ->. apply Hc. simpl. auto. }
    eexists. split; [rewrite (Ro _ Hne); reflexivity|]. repeat split; simpl; auto. congruence.
Qed.

(* setting the memo of cell c0 to v in two related stores keeps them related *)
Lemma rel_set_memo : forall c c0 v s s' t t' g g',
  rel c s s' -> nth_error (thunks s) c0 = Some t -> nth_error (thunks s') c0 = Some t' -> g = g' ->
  rel c (mkStore (core s) (set_nth c0 (mkThunk (t_src t) (Some v)) (thunks s)) (touched s) g)
        (mkStore (core s') (set_nth c0 (mkThunk (t_src t') (Some v)) (thunks s')) (touched s') g').
Proof.
  intros c c0 v s s' t t' g g' (Rc & Rt & Rg & Rl & Ro & Rm) E E' Eg. unfold rel. simpl.
  split; [assumption|]. split; [assumption|]. split; [assumption|].
  assert (L : (c0 < length (thunks s))%nat) by (apply nth_error_Some; congruence).
  assert (L' : (c0 < length (thunks s'))%nat) by lia.
  split; [rewrite !length_set_nth; assumption|].
  destruct (Nat.eq_dec c0 c) as [->|Hne].
  - split.
    + intros c' Hc'. rewrite !nth_error_set_nth_other by congruence. auto.
    + rewrite !nth_error_set_nth_same by assumption. reflexivity.
  - assert (Et : t = t') by (rewrite (Ro _ Hne) in E; congruence). subst t'. split.
    + intros c' Hc'. destruct (Nat.eq_dec c0 c') as [<-|Hd].
      * rewrite !nth_error_set_nth_same by lia. reflexivity.
      * rewrite !nth_error_set_nth_other by assumption. auto.
    + rewrite !nth_error_set_nth_other by assumption. assumption.
Qed.

Lemma rel_cell_exists : forall c s s' c0,
  rel c s s' -> (nth_error (thunks s) c0 = None <-> nth_error (thunks s') c0 = None).
Proof.
  intros c s s' c0 (_ & _ & _ & Rl & _ & _). rewrite !nth_error_None. lia.
Qed.

Lemma rel_memo_of : forall c s s' c0, rel c s s' -> memo_of s c0 = memo_of s' c0.
Proof.
  intros c s s' c0 (_ & _ & _ & Rl & Ro & Rm). unfold memo_of.
  destruct (Nat.eq_dec c0 c) as [->|Hne].
  - destruct (nth_error (thunks s) c), (nth_error (thunks s') c); simpl in Rm; congruence.
  - rewrite (Ro _ Hne). reflexivity.
Qed.

Lemma sim_memo : forall c c0 v, sim c _ (set_memo c0 v).
Proof.
  intros c c0 v. split; unfold set_memo.
  - intros s r s1 H. inversion H; subst. exists []. reflexivity.
  - intros s s' r s1 R H _. inversion H; subst. clear H.
    eexists. split; [reflexivity|].
    destruct (nth_error (thunks s) c0) as [t|] eqn:E; destruct (nth_error (thunks s') c0) as [t'|] eqn:E'.
    + apply rel_set_memo; auto. destruct R as (_ & _ & Rg & _); assumption.
    + apply (rel_cell_exists _ _ _ c0 R) in E'. congruence.
    + apply (rel_cell_exists _ _ _ c0 R) in E. congruence.
    + destruct R as (Rc & Rt & Rg & Rl & Ro & Rm). repeat split; simpl; auto.
Qed.

Lemma sim_begin : forall c c0, sim c _ (begin_force c0).
Proof.
  intros c c0. split; unfold begin_force.
  - intros s r s1 H. destruct (memo_of s c0); inversion H; subst; exists []; reflexivity.
  - intros s s' r s1 R H _. rewrite <- (rel_memo_of _ _ _ c0 R).
    destruct R as (Rc & Rt & Rg & Rl & Ro & Rm).
    destruct (memo_of s c0); inversion H; subst; clear H.
    + eexists. split; [reflexivity|]. repeat split; auto.
    + eexists. split; [reflexivity|]. rewrite Rg. repeat split; simpl; auto.
Qed.

Lemma sim_finish : forall c c0 v, sim c _ (finish_force c0 v).
Proof.
  intros c c0 v. split; unfold finish_force.
  - intros s r s1 H. destruct (nth_error (thunks s) c0); inversion H; subst; exists []; reflexivity.
  - intros s s' r s1 R H _.
    destruct (nth_error (thunks s) c0) as [t|] eqn:E; destruct (nth_error (thunks s') c0) as [t'|] eqn:E';
      inversion H; subst; clear H.
    + eexists. split; [reflexivity|]. apply rel_set_memo; auto.
      destruct R as (_ & _ & Rg & _). rewrite Rg. reflexivity.
    + apply (rel_cell_exists _ _ _ c0 R) in E'. congruence.
    + apply (rel_cell_exists _ _ _ c0 R) in E. congruence.
    + eexists. split; [reflexivity|]. assumption.
Qed.

Theorem eval_sim : forall c n env e, sim c _ (eval n env e).
Proof.
  intros c n. apply (closure (sim c) (sim_pure c) (sim_on c) (fun A f _ => sim_lift c A f)
                            (sim_new c) (sim_read c) (sim_memo c) (sim_begin c) (sim_finish c) n).
Qed.

Theorem apply_sim : forall c n f args, sim c _ (apply n f args).
Proof.
  intros c n. apply (closure (sim c) (sim_pure c) (sim_on c) (fun A f _ => sim_lift c A f)
                            (sim_new c) (sim_read c) (sim_memo c) (sim_begin c) (sim_finish c) n).
Qed.

(* ================================================================= 5. force / substitute *)

Definition touch (c : nat) (s : store) : store := mkStore (core s) (thunks s) (c :: touched s) (gh s).
Definition memo_set (c : nat) (v : value) (s : store) : store := snd (set_memo c v s).

(* a cell that holds a memo: force returns it; nothing is evaluated, the core store (frames,
   arrays, trace, failure counter) and the thunk table are unchanged *)
Theorem force_memo_hit : forall n c s t v,
  nth_error (thunks s) c = Some t -> t_memo t = Some v ->
  apply (S n) (VPrim PForce) [VThunk c] s = (Done v, touch c s).
Proof.
  intros n c s t v Ht Hm. simpl. unfold force_cell, bindM, on_result, read_thunk.
  rewrite Ht, Hm. reflexivity.
Qed.

Lemma begin_force_done : forall c s, begin_force c s = (Done tt, snd (begin_force c s)).
Proof. intros c s. unfold begin_force. destruct (memo_of s c); reflexivity. Qed.

Lemma finish_force_done : forall c v s, finish_force c v s = (Done tt, snd (finish_force c v s)).
Proof. intros c v s. unfold finish_force. destruct (nth_error (thunks s) c); reflexivity. Qed.

(* the store in which the evaluation of the source of c starts (c logged as touched and, in the
   ghost, as being evaluated), and the store after it ended with v (memo set, no longer in progress) *)
Definition started (c : nat) (s : store) : store := snd (begin_force c (touch c s)).
Definition finished (c : nat) (v : value) (s : store) : store := snd (finish_force c v s).

(* the first force: the value is that of the expression, evaluated as a compile unit of its
   own in the static chain captured at the call (the caller's), in the store at force time;
   it is memoised only when the evaluation succeeds *)
Theorem force_in_caller_env : forall n c s e env r s1,
  nth_error (thunks s) c = Some (mkThunk (TSrc e env) None) -> cc [] e = true ->
  eval n env e (started c s) = (r, s1) ->
  apply (S n) (VPrim PForce) [VThunk c] s =
  match r with Done v => (Done v, finished c v s1) | _ => (r, s1) end.
Proof.
  intros n c s e env r s1 Ht Hcc He. simpl. unfold force_cell.
  erewrite bind_done by (unfold read_thunk; reflexivity). rewrite Ht. simpl. rewrite Hcc.
  erewrite bind_done by (apply begin_force_done).
  change (snd (begin_force c (mkStore (core s) (thunks s) (c :: touched s) (gh s)))) with (started c s).
  destruct r as [v|g|].
  - erewrite bind_done by exact He. erewrite bind_done by (apply finish_force_done). reflexivity.
  - erewrite bind_sig by exact He. reflexivity.
  - erewrite bind_fuel by exact He. reflexivity.
Qed.

(* the ghost does not influence what is evaluated: frames, arrays, trace, cells of the start store *)
Lemma started_same : forall c s,
  core (started c s) = core s /\ thunks (started c s) = thunks s /\ touched (started c s) = c :: touched s.
Proof. intros c s. unfold started, begin_force, touch. destruct (memo_of _ c); simpl; auto. Qed.

Theorem force_uncompilable : forall n c s e env,
  nth_error (thunks s) c = Some (mkThunk (TSrc e env) None) -> cc [] e = false ->
  apply (S n) (VPrim PForce) [VThunk c] s = (Sig (SErr ELoop), touch c s).
Proof.
  intros n c s e env Ht Hcc. simpl. unfold force_cell, bindM, on_result, read_thunk.
  rewrite Ht. simpl. rewrite Hcc. reflexivity.
Qed.

(* force of anything that is not a thunk returns it *)
Theorem force_non_thunk : forall n v s, (forall c, v <> VThunk c) ->
  apply (S n) (VPrim PForce) [v] s = (Done v, s).
Proof. intros n v s H. destruct v; try reflexivity. exfalso. eapply H. reflexivity. Qed.

(* substitute: the unevaluated expression as data; no effect, the memo is not set *)
Theorem substitute_returns_source : forall n c s t e env d,
  nth_error (thunks s) c = Some t -> t_src t = TSrc e env -> expr_datum e = Some d ->
  apply (S n) (VPrim PSubst) [VThunk c] s = (Done d, touch c s).
Proof.
  intros n c s t e env d Ht Hs Hd. simpl. unfold subst_cell, bindM, on_result, read_thunk.
  rewrite Ht, Hs, Hd. reflexivity.
Qed.

Theorem substitute_value_thunk : forall n c s t v,
  nth_error (thunks s) c = Some t -> t_src t = TVal v ->
  apply (S n) (VPrim PSubst) [VThunk c] s = (Done v, touch c s).
Proof.
  intros n c s t v Ht Hs. simpl. unfold subst_cell, bindM, on_result, read_thunk.
  rewrite Ht, Hs. reflexivity.
Qed.

Lemma ret_inv : forall A (a b : A) s s', ret a s = (Done b, s') -> a = b /\ s = s'.
Proof. unfold ret, pure. intros A a b s s' H. inversion H. auto. Qed.

(* a force that completed leaves its value in the memo of the cell *)
Lemma force_done_memo : forall n c s v s1,
  apply (S n) (VPrim PForce) [VThunk c] s = (Done v, s1) ->
  exists t, nth_error (thunks s1) c = Some t /\ t_memo t = Some v.
Proof.
  intros n c s v s1 H. simpl in H. unfold force_cell in H.
  apply bind_done_inv in H. destruct H as (ot & s0 & Hr & Hk).
  unfold read_thunk in Hr. inversion Hr; subst ot s0. clear Hr.
  destruct (nth_error (thunks s) c) as [t|] eqn:E; [|discriminate].
  destruct (t_memo t) as [m|] eqn:Em.
  - apply ret_inv in Hk. destruct Hk as [-> <-]. exists t. simpl. auto.
  - destruct (t_src t) as [e env|w] eqn:Es.
    + destruct (cc [] e); [|discriminate].
      apply bind_done_inv in Hk. destruct Hk as (u0 & sb & Hb & Hk).
      apply bind_done_inv in Hk. destruct Hk as (v0 & s2 & Hev & Hk).
      apply bind_done_inv in Hk. destruct Hk as (u & s3 & Hm & Hret).
      apply ret_inv in Hret. destruct Hret as [-> <-].
      pose proof (keeps_begin _ _ _ _ Hb) as (_ & _ & Kb).
      destruct (Kb c t E) as (tb & Eb & _).
      pose proof (eval_keeps _ _ _ _ _ _ Hev) as (_ & _ & K).
      destruct (K c tb Eb) as (t2 & E2 & _). unfold finish_force in Hm. rewrite E2 in Hm.
      inversion Hm; subst s3. clear Hm.
      simpl. eexists. split; [apply nth_error_set_nth_same; apply nth_error_Some; congruence|].
      reflexivity.
    + apply bind_done_inv in Hk. destruct Hk as (u & s3 & Hm & Hret).
      apply ret_inv in Hret. destruct Hret as [-> <-].
      unfold set_memo in Hm. inversion Hm; subst s3. clear Hm. simpl. rewrite E.
      eexists. split; [apply nth_error_set_nth_same; apply nth_error_Some; congruence|]. reflexivity.
Qed.

(* forcing again right away: the memo, no evaluation, no effect *)
Theorem force_twice : forall n k c s v s1,
  apply (S n) (VPrim PForce) [VThunk c] s = (Done v, s1) ->
  apply (S k) (VPrim PForce) [VThunk c] s1 = (Done v, touch c s1).
Proof.
  intros n k c s v s1 H. destruct (force_done_memo _ _ _ _ _ H) as (t & Ht & Hm).
  eapply force_memo_hit; eauto.
Qed.

(* ... and after any further evaluation (stores related by kept, which every evaluation
   satisfies): a force of that cell is a pure look-up of its memo *)
Theorem force_at_most_once : forall n c s v s1,
  apply (S n) (VPrim PForce) [VThunk c] s = (Done v, s1) ->
  forall s2, kept s1 s2 ->
  forall k, exists v', apply (S k) (VPrim PForce) [VThunk c] s2 = (Done v', touch c s2).
Proof.
  intros n c s v s1 H s2 (_ & _ & K) k. destruct (force_done_memo _ _ _ _ _ H) as (t & Ht & Hm).
  destruct (K _ _ Ht) as (t2 & Ht2 & _ & Hm2).
  destruct (t_memo t2) as [v'|] eqn:E; [|exfalso; apply Hm2; congruence].
  exists v'. eapply force_memo_hit; eauto.
Qed.

Corollary force_again_after_evaluation : forall n c s v s1 m env e r s2 k,
  apply (S n) (VPrim PForce) [VThunk c] s = (Done v, s1) ->
  eval m env e s1 = (r, s2) ->
  exists v', apply (S k) (VPrim PForce) [VThunk c] s2 = (Done v', touch c s2).
Proof. intros. eapply force_at_most_once; eauto. eapply eval_keeps; eauto. Qed.

(* ================================================================= 6. argument preparation *)

(* a lazy position only allocates: the expression is not evaluated, not even generated; the
   cell records the expression and the CALLER's static chain *)
Theorem lazy_position_only_allocates : forall ev env e s,
  prep_arg ev env true e s =
  (Done (VThunk (length (thunks s))), add_cell s (mkThunk (TSrc e env) None)).
Proof. reflexivity. Qed.

Theorem strict_position_evaluates : forall ev env e s,
  cc [] e = true -> prep_arg ev env false e s = ev env e s.
Proof. intros ev env e s H. unfold prep_arg. rewrite H. reflexivity. Qed.

(* what PrepareCallExprArgs does with an argument list, as a relation: one step per position,
   left to right, threading the store *)
Inductive run_prep (ev : list nat -> expr -> M value) (env : list nat) :
  list bool -> list expr -> store -> list value -> store -> Prop :=
| rp_nil : forall flags s, run_prep ev env flags [] s [] s
| rp_lazy : forall flags e r s vs s2,
    hd false flags = true ->
    run_prep ev env (tl flags) r (add_cell s (mkThunk (TSrc e env) None)) vs s2 ->
    run_prep ev env flags (e :: r) s (VThunk (length (thunks s)) :: vs) s2
| rp_strict : forall flags e r s v s1 vs s2,
    hd false flags = false -> cc [] e = true ->
    ev env e s = (Done v, s1) ->
    run_prep ev env (tl flags) r s1 vs s2 ->
    run_prep ev env flags (e :: r) s (v :: vs) s2.

Lemma run_prep_prep_args : forall ev env flags es s vs s',
  run_prep ev env flags es s vs s' -> prep_args ev env flags es s = (Done vs, s').
Proof.
  intros ev env flags es s vs s' H. induction H; simpl.
  - reflexivity.
  - unfold prep_arg. rewrite H. erewrite bind_done by reflexivity.
    erewrite bind_done by exact IHrun_prep. reflexivity.
  - unfold prep_arg. rewrite H, H0. erewrite bind_done by exact H1.
    erewrite bind_done by exact IHrun_prep. reflexivity.
Qed.

Theorem prep_args_iff_run_prep : forall ev env es flags s vs s',
  prep_args ev env flags es s = (Done vs, s') <-> run_prep ev env flags es s vs s'.
Proof.
  intros ev env es flags s vs s'. split; [|apply run_prep_prep_args].
  revert flags s vs s'. induction es as [|e r IH]; intros flags s vs s' H; simpl in H.
  - apply ret_inv in H. destruct H as [<- <-]. constructor.
  - apply bind_done_inv in H. destruct H as (v & s1 & Hp & Hk).
    apply bind_done_inv in Hk. destruct Hk as (vs0 & s2 & Hr & Hret).
    apply ret_inv in Hret. destruct Hret as [<- <-]. apply IH in Hr.
    unfold prep_arg in Hp. destruct (hd false flags) eqn:Ef.
    + unfold new_thunk in Hp. inversion Hp; subst. apply rp_lazy; assumption.
    + destruct (cc [] e) eqn:Ec; [|discriminate]. eapply rp_strict; eauto.
Qed.

(* the call: callee, then the positions left to right (strict ones evaluated exactly once, lazy
   ones not at all), then the function *)
Theorem call_sequence : forall n env f args s fv s1 vs s2 r s3,
  (match f with EVar _ => true | _ => cc [] f end) = true ->
  eval n env f s = (Done fv, s1) -> is_fn fv = true ->
  run_prep (eval n) env (lazy_flags fv) args s1 vs s2 ->
  apply n fv vs s2 = (r, s3) ->
  eval (S n) env (ECall f args) s = (r, s3).
Proof.
  intros n env f args s fv s1 vs s2 r s3 Hc Hf Hfn Hrp Hap. simpl. unfold call_expr.
  assert (E : (match f with
               | EVar _ => eval n env f
               | _ => if cc [] f then eval n env f else raise ELoop
               end) = eval n env f).
  { destruct f; try reflexivity; cbv iota in Hc; rewrite Hc; reflexivity. }
  rewrite E. erewrite bind_done by exact Hf.
  apply prep_args_iff_run_prep in Hrp.
  destruct fv; simpl in Hfn; try discriminate; erewrite bind_done by exact Hrp; exact Hap.
Qed.

(* a strict position receives exactly the value of its own argument expression, evaluated
   once, in the caller's environment; a lazy position receives a fresh cell *)
Theorem strict_position_value : forall ev env flags es s vs s',
  run_prep ev env flags es s vs s' ->
  forall i e, nth_error es i = Some e -> nth i flags false = false ->
  exists si v si', cc [] e = true /\ ev env e si = (Done v, si') /\ nth_error vs i = Some v.
Proof.
  intros ev env flags es s vs s' H. induction H; intros i a Hi Hf.
  - destruct i; discriminate.
  - destruct i as [|i]; simpl in Hi.
    + exfalso. destruct flags; simpl in *; congruence.
    + simpl. apply IHrun_prep; [assumption|]. destruct flags; simpl in *; [destruct i; reflexivity|assumption].
  - destruct i as [|i]; simpl in Hi.
    + inversion Hi; subst. exists s, v, s1. auto.
    + simpl. apply IHrun_prep; [assumption|]. destruct flags; simpl in *; [destruct i; reflexivity|assumption].
Qed.

Theorem lazy_position_value : forall ev env flags es s vs s',
  run_prep ev env flags es s vs s' ->
  forall i e, nth_error es i = Some e -> nth i flags false = true ->
  exists c, nth_error vs i = Some (VThunk c).
Proof.
  intros ev env flags es s vs s' H. induction H; intros i a Hi Hf.
  - destruct i; discriminate.
  - destruct i as [|i]; simpl in Hi.
    + exists (length (thunks s)). reflexivity.
    + simpl. apply (IHrun_prep i a Hi). destruct flags; simpl in *; [destruct i; discriminate|assumption].
  - destruct i as [|i]; simpl in Hi.
    + exfalso. destruct flags; simpl in *; congruence.
    + simpl. apply (IHrun_prep i a Hi). destruct flags; simpl in *; [destruct i; discriminate|assumption].
Qed.

(* ================================================================= 7. an argument that is never forced *)

(* the general statement: two runs of the evaluator from stores that differ only in the source
   of cell c proceed in lockstep -- same result, same core store (frames, arrays, trace, failure
   counter), same memos -- as long as force / substitute is never applied to c *)
Theorem lazy_not_forced_no_effect : forall c n env e s s' r s1,
  rel c s s' -> eval n env e s = (r, s1) -> clean c s1 ->
  exists s1', eval n env e s' = (r, s1') /\ rel c s1 s1'.
Proof. intros c n env e. apply (proj2 (eval_sim c n env e)). Qed.

Theorem lazy_not_forced_no_effect_apply : forall c n f args s s' r s1,
  rel c s s' -> apply n f args s = (r, s1) -> clean c s1 ->
  exists s1', apply n f args s' = (r, s1') /\ rel c s1 s1'.
Proof. intros c n f args. apply (proj2 (apply_sim c n f args)). Qed.

Lemma rel_alloc : forall s src src' memo,
  rel (length (thunks s)) (add_cell s (mkThunk src memo)) (add_cell s (mkThunk src' memo)).
Proof.
  intros s src src' memo. unfold rel, add_cell. simpl. split; [reflexivity|]. split; [reflexivity|]. split; [reflexivity|].
  split; [rewrite !app_length; reflexivity|]. split.
  - intros c' Hne. destruct (lt_dec c' (length (thunks s))) as [Hlt|Hge].
    + rewrite !nth_error_app1 by lia. reflexivity.
    + rewrite !nth_error_app2 by lia. destruct (c' - length (thunks s))%nat as [|k] eqn:E; [lia|].
      simpl. destruct k; reflexivity.
  - rewrite !nth_error_app2 by lia. rewrite Nat.sub_diag. reflexivity.
Qed.

(* the call-site form: the rest of the computation K (the remaining argument positions, the
   call, whatever follows: any computation of the evaluator qualifies, see eval_sim / apply_sim
   and sim_on) does not depend on WHICH expression stands in a lazy position whose thunk is
   never forced or substituted: replacing the argument a by any a' gives the same result, the
   same trace and the same core store *)
Theorem lazy_arg_expression_irrelevant : forall ev env a a' s A (K : value -> M A),
  (forall v, sim (length (thunks s)) A (K v)) ->
  forall r s1, (v <- prep_arg ev env true a ;; K v) s = (r, s1) ->
  clean (length (thunks s)) s1 ->
  exists s1', (v <- prep_arg ev env true a' ;; K v) s = (r, s1') /\
              rel (length (thunks s)) s1 s1'.
Proof.
  intros ev env a a' s A K HK r s1 H Hc.
  erewrite bind_done in H by (apply lazy_position_only_allocates).
  erewrite bind_done by (apply lazy_position_only_allocates).
  eapply (proj2 (HK _)); [apply rel_alloc|exact H|exact Hc].
Qed.

(* ================================================================= 8. apply / map, binding *)

(* environment.go:Apply: a strict position keeps the value it was given; nothing is evaluated *)
Lemma wrap_args_spec : forall vs flags s ws s',
  wrap_args flags vs s = (Done ws, s') ->
  core s' = core s /\ touched s' = touched s /\ length ws = length vs /\
  (forall i, nth i flags false = false -> nth_error ws i = nth_error vs i) /\
  (forall i v, nth i flags false = true -> nth_error vs i = Some v ->
     exists c, nth_error ws i = Some (VThunk c) /\ (length (thunks s) <= c)%nat).
Proof.
  induction vs as [|v r IH]; intros flags s ws s' H; simpl in H.
  - apply ret_inv in H. destruct H as [<- <-]. repeat split; auto. intros i v _ Hi. destruct i; discriminate.
  - apply bind_done_inv in H. destruct H as (w & s1 & Hw & Hk).
    apply bind_done_inv in Hk. destruct Hk as (ws0 & s2 & Hr & Hret).
    apply ret_inv in Hret. destruct Hret as [<- <-].
    destruct (IH _ _ _ _ Hr) as (C1 & T1 & L1 & S1 & Z1).
    unfold wrap_arg in Hw. destruct (hd false flags) eqn:Ef.
    + unfold new_thunk in Hw. inversion Hw; subst w s1. clear Hw. simpl in *.
      split; [assumption|]. split; [assumption|]. split; [lia|]. split.
      * intros i Hi. destruct i as [|i]; [destruct flags; simpl in *; congruence|].
        simpl. apply S1. destruct flags; simpl in *; [destruct i; reflexivity|assumption].
      * intros i x Hi Hx. destruct i as [|i].
        -- exists (length (thunks s)). simpl. split; [reflexivity|lia].
        -- simpl in Hx. destruct (Z1 i x) as (c & Hc & Hl); [destruct flags; simpl in *; [destruct i; discriminate|assumption]|assumption|].
           exists c. simpl. split; [assumption|]. rewrite app_length in Hl. simpl in Hl. lia.
    + apply ret_inv in Hw. destruct Hw as [<- <-].
      split; [assumption|]. split; [assumption|]. split; [simpl; lia|]. split.
      * intros i Hi. destruct i as [|i]; [reflexivity|].
        simpl. apply S1. destruct flags; simpl in *; [destruct i; reflexivity|assumption].
      * intros i x Hi Hx. destruct i as [|i]; [destruct flags; simpl in *; congruence|].
        simpl in Hx. destruct (Z1 i x) as (c & Hc & Hl); [destruct flags; simpl in *; [destruct i; discriminate|assumption]|assumption|].
        exists c. simpl. auto.
Qed.

(* a cell made by apply / map is already forced: it holds the value it wraps *)
Theorem wrap_arg_forced : forall v s,
  wrap_arg true v s =
  (Done (VThunk (length (thunks s))), add_cell s (mkThunk (TVal v) (Some v))).
Proof. reflexivity. Qed.

(* the formals are bound positionally to the prepared arguments *)
Lemma zip_params_spec : forall ps args acc binds,
  zip_params ps None args acc = Some binds ->
  length ps = length args /\ binds = rev (combine ps args) ++ acc.
Proof.
  induction ps as [|p ps IH]; intros args acc binds H; simpl in H.
  - destruct args; [|discriminate]. inversion H; subst. auto.
  - destruct args as [|a args]; [discriminate|]. apply IH in H. destruct H as [L ->].
    simpl. split; [lia|]. rewrite <- app_assoc. reflexivity.
Qed.

Lemma zip_params_rest_spec : forall ps r args acc binds,
  zip_params ps (Some r) args acc = Some binds ->
  (length ps <= length args)%nat /\
  binds = (r, list_val (skipn (length ps) args)) :: rev (combine ps (firstn (length ps) args)) ++ acc.
Proof.
  induction ps as [|p ps IH]; intros r args acc binds H; simpl in H.
  - inversion H; subst. simpl. split; [lia|]. destruct args; reflexivity.
  - destruct args as [|a args]; [discriminate|]. apply IH in H. destruct H as [L ->].
    simpl. split; [lia|]. rewrite <- app_assoc. reflexivity.
Qed.

(* ================================================================= 9. the trace only grows *)

Lemma trace_upd_frame : forall f x v s, trace (upd_frame f x v s) = trace s.
Proof. intros. unfold upd_frame. destruct (nth_error (frames s) f); reflexivity. Qed.

Definition cgrows A (f : C A) : Prop := forall c r c1, f c = (r, c1) -> exists t, trace c1 = t ++ trace c.

Ltac same_trace := exists []; simpl; rewrite ?trace_upd_frame; reflexivity.

Lemma cgrows_bind : forall f x v, cgrows _ (bind f x v).
Proof.
  unfold cgrows, bind. intros f x v c r c1 H.
  destruct (nth_error (frames c) f) as [fr|]; [|inversion H; subst; same_trace].
  destruct (assoc x fr) as [cur|]; [|inversion H; subst; same_trace].
  destruct (type_of depth_limit (arrays c) cur) as [lt ars1].
  destruct (type_of depth_limit ars1 v) as [rt ars2].
  destruct lt as [a|]; destruct rt as [b|]; try (destruct (ty_eqb a b)); inversion H; subst; same_trace.
Qed.

Lemma cgrows_cbind : forall A B (m : C A) (k : A -> C B),
  cgrows A m -> (forall a, cgrows B (k a)) -> cgrows B (cbind m k).
Proof.
  unfold cgrows, cbind. intros A B m k Hm Hk c r c1 H.
  destruct (m c) as [[a|g|] c0] eqn:E.
  - destruct (Hm _ _ _ E) as [t1 E1]. destruct (Hk _ _ _ _ H) as [t2 E2].
    exists (t2 ++ t1). rewrite E2, E1, app_assoc. reflexivity.
  - inversion H; subst. eauto.
  - inversion H; subst. eauto.
Qed.

Lemma cgrows_cret : forall A (a : A), cgrows A (cret a).
Proof. unfold cgrows, cret. intros. inversion H; subst. same_trace. Qed.

Lemma cgrows_bind_all : forall f xs, cgrows _ (bind_all f xs).
Proof.
  induction xs as [|[x v] r IH]; simpl; [apply cgrows_cret|].
  apply cgrows_cbind; [apply cgrows_bind|]. intros _. apply IH.
Qed.

Lemma coreop_cgrows : forall A f, coreop A f -> cgrows A f.
Proof.
  intros A f H. destruct H.
  - unfold cgrows, lookup_var. intros c r c1 H. destruct (lookup_chain _ _ _) as [[? ?]|]; inversion H; subst; same_trace.
  - unfold cgrows, alloc_arr. intros c r c1 H. inversion H; subst. same_trace.
  - unfold cgrows, get_arr. intros c r c1 H. destruct (nth_error _ _); inversion H; subst; same_trace.
  - apply cgrows_bind.
  - apply cgrows_bind_all.
  - unfold cgrows, set_var. intros c r c1 H. destruct (lookup_chain _ _ _) as [[g ?]|].
    + inversion H; subst. same_trace.
    + revert H. apply (cgrows_cbind _ _ (bind (hd 0%nat env) x v) (fun _ => cret v)); [apply cgrows_bind|intros; apply cgrows_cret].
  - unfold cgrows, push_frame. intros c r c1 H. inversion H; subst. same_trace.
  - unfold cgrows, compare_prim. intros c r c1 H.
    destruct args as [|a [|b [|? ?]]]; try (unfold craise in H; inversion H; subst; same_trace).
    destruct (cmp_val _ _ _ _); inversion H; subst; same_trace.
  - unfold cgrows, type_of_c. intros c r c1 H. destruct (type_of _ _ _). inversion H; subst. same_trace.
  - unfold cgrows, aset_write. intros c r c1 H. inversion H; subst. same_trace.
  - unfold cgrows, trace_c. intros c r c1 H. inversion H; subst. simpl. eexists [_]. reflexivity.
  - unfold cgrows, failk_c. intros c r c1 H.
    match type of H with (if ?b then _ else _) = _ => destruct b end; inversion H; subst; same_trace.
Qed.

Definition tgrows A (m : M A) : Prop :=
  forall s r s1, m s = (r, s1) -> exists t, trace (core s1) = t ++ trace (core s).

Lemma tgrows_pure : forall A (r : res A), tgrows A (pure r).
Proof. unfold tgrows, pure. intros. inversion H; subst. exists []. reflexivity. Qed.

Lemma tgrows_on : forall A B (m : M A) (k : res A -> M B),
  tgrows A m -> (forall r, tgrows B (k r)) -> tgrows B (on_result m k).
Proof.
  unfold tgrows. intros A B m k Hm Hk s r s1 H. apply on_result_inv in H.
  destruct H as (r0 & s0 & H1 & H2). destruct (Hm _ _ _ H1) as [t1 E1]. destruct (Hk _ _ _ _ H2) as [t2 E2].
  exists (t2 ++ t1). rewrite E2, E1, app_assoc. reflexivity.
Qed.

Lemma tgrows_lift : forall A (f : C A), coreop A f -> tgrows A (liftC f).
Proof.
  unfold tgrows, liftC. intros A f Hf s r s1 H. pose proof (coreop_cgrows _ _ Hf (core s)) as G.
  destruct (f (core s)) as [r0 c1]. inversion H; subst. simpl. eapply G. reflexivity.
Qed.

Lemma tgrows_new : forall src memo, tgrows _ (new_thunk src memo).
Proof. unfold tgrows, new_thunk. intros. inversion H; subst. exists []. reflexivity. Qed.
Lemma tgrows_read : forall c, tgrows _ (read_thunk c).
Proof. unfold tgrows, read_thunk. intros. inversion H; subst. exists []. reflexivity. Qed.
Lemma tgrows_memo : forall c v, tgrows _ (set_memo c v).
Proof. unfold tgrows, set_memo. intros. inversion H; subst. exists []. reflexivity. Qed.

Lemma tgrows_begin : forall c, tgrows _ (begin_force c).
Proof. unfold tgrows, begin_force. intros c s r s1 H. destruct (memo_of s c); inversion H; subst; exists []; reflexivity. Qed.
Lemma tgrows_finish : forall c v, tgrows _ (finish_force c v).
Proof. unfold tgrows, finish_force. intros c v s r s1 H. destruct (nth_error _ c); inversion H; subst; exists []; reflexivity. Qed.

Theorem eval_trace_grows : forall n env e, tgrows _ (eval n env e).
Proof. intros n. apply (closure tgrows tgrows_pure tgrows_on tgrows_lift tgrows_new tgrows_read tgrows_memo tgrows_begin tgrows_finish n). Qed.
Theorem apply_trace_grows : forall n f args, tgrows _ (apply n f args).
Proof. intros n. apply (closure tgrows tgrows_pure tgrows_on tgrows_lift tgrows_new tgrows_read tgrows_memo tgrows_begin tgrows_finish n). Qed.

Lemma prep_args_trace_grows : forall n env flags es, tgrows _ (prep_args (eval n) env flags es).
Proof.
  intros n env flags es.
  apply (P_prep_args tgrows tgrows_pure tgrows_on tgrows_new (eval n) (eval_trace_grows n)).
Qed.

(* the call: callee, then each strict argument exactly once left to right (lazy ones not at
   all), then the body; the trace is extended in exactly this order *)
Theorem strict_args_once_ltr : forall n env f args s fv s1 vs s2 r s3,
  (match f with EVar _ => true | _ => cc [] f end) = true ->
  eval n env f s = (Done fv, s1) -> is_fn fv = true ->
  run_prep (eval n) env (lazy_flags fv) args s1 vs s2 ->
  apply n fv vs s2 = (r, s3) ->
  eval (S n) env (ECall f args) s = (r, s3) /\
  exists tc ta tb, trace (core s1) = tc ++ trace (core s) /\
                   trace (core s2) = ta ++ tc ++ trace (core s) /\
                   trace (core s3) = tb ++ ta ++ tc ++ trace (core s).
Proof.
  intros n env f args s fv s1 vs s2 r s3 Hc Hf Hfn Hrp Hap.
  split; [eapply call_sequence; eauto|].
  destruct (eval_trace_grows _ _ _ _ _ _ Hf) as [tc Ec].
  pose proof (run_prep_prep_args _ _ _ _ _ _ _ Hrp) as Hp.
  destruct (prep_args_trace_grows _ _ _ _ _ _ _ Hp) as [ta Ea].
  destruct (apply_trace_grows _ _ _ _ _ _ Hap) as [tb Eb].
  exists tc, ta, tb. rewrite Eb, Ea, Ec. auto.
Qed.

(* ================================================================= 10. witnesses *)

Definition pv (p : prim) : expr := EVar (prim_ident p).
Definition pcall (p : prim) (args : list expr) : expr := ECall (pv p) args.

(* (def box [0]) (def k 0)
   (defn f [#x] (aset box 0 #x) (force #x))
   (f (begin (set k (+ k 1)) (trace 77) (cond (== k 1) (+ 100 (force (aget box 0))) 7)))
   the argument of f reaches its own thunk through box and forces it while it is being forced *)
Definition reentrant_prog : list expr :=
  let box := 1001 in let k := 1002 in let f := 1003 in let x := 1004 in
  [ EDef box (EArr [EInt 0]); EDef k (EInt 0);
    EDefn f [(x, true)] None [pcall PAset [EVar box; EInt 0; EVar x]; pcall PForce [EVar x]];
    ECall (EVar f)
          [EBegin [ESet k (pcall PAdd [EVar k; EInt 1]); pcall PTrace [EInt 77];
                   ECond [(pcall PEq [EVar k; EInt 1],
                           pcall PAdd [EInt 100; pcall PForce [pcall PAget [EVar box; EInt 0]]])]
                         (EInt 7)]] ].

Lemma reentrant_force_evaluates_twice :
  eval_program 40 reentrant_prog = mkOutcome (Done (SvInt 107)) [[SvInt 77]; [SvInt 77]].
Proof. vm_compute. reflexivity. Qed.

(* (defn h [y] y) (defn g [#x] (h #x)) (g (trace 1)): the strict formal y holds a thunk,
   because the value of the argument expression #x IS a thunk (thunks are first-class) *)
Definition passed_thunk_prog : list expr :=
  let h := 1001 in let g := 1002 in let x := 1003 in let y := 1004 in
  [ EDefn h [(y, false)] None [EVar y];
    EDefn g [(x, true)] None [ECall (EVar h) [EVar x]];
    ECall (EVar g) [pcall PTrace [EInt 1]] ].

Lemma passed_thunk_reaches_strict_formal :
  eval_program 40 passed_thunk_prog = mkOutcome (Done SvThunk) [].
Proof. vm_compute. reflexivity. Qed.

(* lazy_test.go: forceTwice / mixed / caller environment, on the model *)
Definition memo_prog : list expr :=
  let n := 1001 in let bump := 1002 in let tw := 1003 in let x := 1004 in
  [ EDef n (EInt 0);
    EDefn bump [] None [ESet n (pcall PAdd [EVar n; EInt 1]); EVar n];
    EDefn tw [(x, true)] None [pcall PAdd [pcall PForce [EVar x]; pcall PForce [EVar x]]];
    pcall PList [ECall (EVar tw) [ECall (EVar bump) []]; EVar n] ].

Lemma memo_prog_outcome :
  eval_program 40 memo_prog = mkOutcome (Done (SvPair (SvInt 2) (SvPair (SvInt 1) SvNil))) [].
Proof. vm_compute. reflexivity. Qed.

Definition caller_env_prog : list expr :=
  let recv := 1001 in let caller := 1002 in let x := 1003 in let a := 1004 in
  [ EDefn recv [(x, true)] None [ELet false [(a, EInt 100)] [pcall PForce [EVar x]]];
    EDefn caller [] None [ELet false [(a, EInt 7)] [ECall (EVar recv) [pcall PAdd [EVar a; EInt 1]]]];
    ECall (EVar caller) [] ].

Lemma caller_env_prog_outcome : eval_program 40 caller_env_prog = mkOutcome (Done (SvInt 8)) [].
Proof. vm_compute. reflexivity. Qed.

Definition mixed_prog : list expr :=
  let m := 1001 in let a := 1002 in let b := 1003 in let c := 1004 in
  [ EDefn m [(a, false); (b, true); (c, false)] None [pcall PAdd [EVar a; EVar c]];
    ECall (EVar m) [pcall PTrace [EInt 1]; pcall PTrace [EInt 2]; pcall PTrace [EInt 3]] ].

Lemma mixed_prog_outcome :
  eval_program 40 mixed_prog = mkOutcome (Done (SvInt 4)) [[SvInt 1]; [SvInt 3]].
Proof. vm_compute. reflexivity. Qed.

(* ================================================================= 11. call-level corollaries *)

Lemma bind_at : forall A B (m m' : M A) (k : A -> M B) s s', m s = m' s' -> bindM m k s = bindM m' k s'.
Proof. intros A B m m' k s s' H. unfold bindM, on_result. rewrite H. reflexivity. Qed.

Lemma hd_skipn_nth : forall (l : list bool) n, hd false (skipn n l) = nth n l false.
Proof. intros l n. revert l. induction n as [|n IH]; intros [|b l]; simpl; auto. Qed.

Lemma tl_skipn : forall (l : list bool) n, tl (skipn n l) = skipn (S n) l.
Proof.
  intros l n. revert l. induction n as [|n IH]; intros [|b l]; try reflexivity.
  change (tl (skipn n l) = skipn (S n) l). apply IH.
Qed.

Lemma skipn_tl : forall (l : list bool) n, skipn n (tl l) = skipn (S n) l.
Proof. intros [|b l] n; [destruct n|]; reflexivity. Qed.

(* preparing a list of positions = preparing a prefix, then the rest with the remaining flags *)
Lemma prep_args_app_done : forall ev env es1 es2 flags s vs1 sa,
  prep_args ev env flags es1 s = (Done vs1, sa) ->
  prep_args ev env flags (es1 ++ es2) s =
  bindM (prep_args ev env (skipn (length es1) flags) es2) (fun vs2 => ret (vs1 ++ vs2)) sa.
Proof.
  intros ev env es1 es2. induction es1 as [|e r IH]; intros flags s vs1 sa H.
  - simpl in H. apply ret_inv in H. destruct H as [<- <-]. simpl.
    unfold bindM, on_result. destruct (prep_args ev env flags es2 s) as [[vs|g|] s1]; reflexivity.
  - simpl in H. apply bind_done_inv in H. destruct H as (v & s1 & Hp & Hk).
    apply bind_done_inv in Hk. destruct Hk as (vs0 & s2 & Hr & Hret).
    apply ret_inv in Hret. destruct Hret as [<- <-].
    change (length (e :: r)) with (S (length r)). rewrite <- skipn_tl.
    generalize (IH (tl flags) s1 vs0 s2 Hr). generalize (skipn (length r) (tl flags)). intros fl IHr.
    change (prep_args ev env flags ((e :: r) ++ es2) s)
      with (bindM (prep_arg ev env (hd false flags) e)
                  (fun v => vs <- prep_args ev env (tl flags) (r ++ es2) ;; ret (v :: vs)) s).
    erewrite bind_done by exact Hp.
    erewrite (bind_at _ _ _ _ _ s1 s2) by exact IHr.
    unfold bindM, on_result.
    destruct (prep_args ev env fl es2 s2) as [[vs|g|] s3]; reflexivity.
Qed.

Definition sim_bind c := P_bind (sim c) (sim_pure c) (sim_on c).
Definition sim_ret c := P_ret (sim c) (sim_pure c).

Lemma sim_prep_args : forall c n env flags es, sim c _ (prep_args (eval n) env flags es).
Proof.
  intros c n env flags es.
  apply (P_prep_args (sim c) (sim_pure c) (sim_on c) (sim_new c) (eval n) (eval_sim c n)).
Qed.

(* (f a1 .. an) with f evaluating to a closure whose formal at position |args1| is lazy: if the
   cell made for that position is never forced or substituted during the call, the argument
   expression standing there is irrelevant: any other expression gives the same result, the
   same trace, frames, arrays and memos (rel: the stores differ in the source of that cell only).
   Holds for the callee given by name, alias, parameter or any computed expression (one route
   in the code: CallExprInstr). *)
Theorem call_lazy_arg_irrelevant : forall n env f args1 a a' args2 s fv s1 vs1 sa r s3,
  (match f with EVar _ => true | _ => cc [] f end) = true ->
  eval n env f s = (Done fv, s1) ->
  nth (length args1) (lazy_flags fv) false = true ->
  prep_args (eval n) env (lazy_flags fv) args1 s1 = (Done vs1, sa) ->
  eval (S n) env (ECall f (args1 ++ a :: args2)) s = (r, s3) ->
  clean (length (thunks sa)) s3 ->
  exists s3', eval (S n) env (ECall f (args1 ++ a' :: args2)) s = (r, s3') /\
              rel (length (thunks sa)) s3 s3'.
Proof.
  intros n env f args1 a a' args2 s fv s1 vs1 sa r s3 Hc Hf Hlz Hp1 Hrun Hclean.
  assert (E : (match f with
               | EVar _ => eval n env f
               | _ => if cc [] f then eval n env f else raise ELoop
               end) = eval n env f).
  { destruct f; try reflexivity; cbv iota in Hc; rewrite Hc; reflexivity. }
  destruct fv as [| | | | | | |nm ps rest body cenv| | |]; try (simpl in Hlz; destruct (length args1); discriminate).
  set (fv := VClos nm ps rest body cenv) in *.
  set (flags := lazy_flags fv) in *.
  set (c := length (thunks sa)) in *.
  (* the computation after the cell for the position exists *)
  set (T := fun (x : expr) =>
              bindM (bindM (bindM (prep_arg (eval n) env true x)
                                  (fun v => vs <- prep_args (eval n) env (skipn (S (length args1)) flags) args2 ;; ret (v :: vs)))
                           (fun vs2 => ret (vs1 ++ vs2)))
                    (apply n fv)).
  assert (Hshape : forall x, eval (S n) env (ECall f (args1 ++ x :: args2)) s = T x sa).
  { intros x. simpl. unfold call_expr. rewrite E. erewrite bind_done by exact Hf.
    change (bindM (prep_args (eval n) env flags (args1 ++ x :: args2)) (apply n fv) s1 = T x sa).
    unfold T. apply bind_at. rewrite (prep_args_app_done _ _ _ _ _ _ _ _ Hp1).
    apply bind_at. simpl. rewrite hd_skipn_nth. fold flags in Hlz. rewrite Hlz. rewrite tl_skipn. reflexivity. }
  rewrite Hshape in Hrun. rewrite Hshape.
  (* peel the allocation on both sides *)
  set (K := fun v : value =>
              bindM (bindM (vs <- prep_args (eval n) env (skipn (S (length args1)) flags) args2 ;; ret (v :: vs))
                           (fun vs2 => ret (vs1 ++ vs2)))
                    (apply n fv)).
  assert (HT : forall x, T x sa = K (VThunk c)
                 (add_cell sa (mkThunk (TSrc x env) None))).
  { intros x. unfold T, K. apply bind_at. apply bind_at.
    erewrite bind_done by (apply lazy_position_only_allocates). reflexivity. }
  rewrite HT in Hrun. rewrite HT.
  assert (HK : sim c _ (K (VThunk c))).
  { unfold K. apply sim_bind; [|intros; apply apply_sim].
    apply sim_bind; [|intros; apply sim_ret].
    apply sim_bind; [apply sim_prep_args|intros; apply sim_ret]. }
  eapply (proj2 HK); [apply rel_alloc|exact Hrun|exact Hclean].
Qed.

(* ---- strict positions: the effects of each argument occur exactly once, in order ---- *)

(* the trace extension of preparing the positions is the concatenation, position by position, of
   the extension produced by the ONE evaluation of each strict argument; lazy positions add nothing *)
Theorem positions_trace_segments : forall n env flags es s vs s',
  run_prep (eval n) env flags es s vs s' ->
  exists segs : list (list (list sval)),
    length segs = length es /\
    trace (core s') = concat (rev segs) ++ trace (core s) /\
    forall i e, nth_error es i = Some e ->
      (nth i flags false = true -> nth i segs [] = []) /\
      (nth i flags false = false ->
         exists si v si', eval n env e si = (Done v, si') /\ nth_error vs i = Some v /\
                          trace (core si') = nth i segs [] ++ trace (core si)).
Proof.
  intros n env flags es s vs s' H. induction H.
  - exists []. split; [reflexivity|]. split; [reflexivity|]. intros i e Hi. destruct i; discriminate.
  - destruct IHrun_prep as (segs & L & T & Hpos). exists ([] :: segs).
    split; [simpl; congruence|]. split.
    + simpl. rewrite concat_app. simpl. rewrite app_nil_r. exact T.
    + intros i a Hi. destruct i as [|i]; simpl in Hi.
      * split; [reflexivity|]. intros Hf. exfalso. destruct flags; simpl in *; congruence.
      * assert (Ef : nth (S i) flags false = nth i (tl flags) false) by (destruct flags; [destruct i|]; reflexivity).
        rewrite Ef. simpl. apply (Hpos i a Hi).
  - destruct IHrun_prep as (segs & L & T & Hpos).
    destruct (eval_trace_grows _ _ _ _ _ _ H1) as [t Et].
    exists (t :: segs). split; [simpl; congruence|]. split.
    + simpl. rewrite concat_app. simpl. rewrite app_nil_r. rewrite T, Et, app_assoc. reflexivity.
    + intros i a Hi. destruct i as [|i]; simpl in Hi.
      * inversion Hi; subst a. split.
        -- intros Hf. exfalso. destruct flags; simpl in *; congruence.
        -- intros _. exists s, v, s1. auto.
      * assert (Ef : nth (S i) flags false = nth i (tl flags) false) by (destruct flags; [destruct i|]; reflexivity).
        rewrite Ef. simpl. apply (Hpos i a Hi).
Qed.

(* the call (direct, alias, parameter, computed callee): callee effects, then one segment per
   position in order (strict: the single evaluation of that argument; lazy: nothing), then the
   body's effects *)
Theorem call_strict_args_exactly_once_before_body : forall n env f args s fv s1 vs s2 r s3,
  (match f with EVar _ => true | _ => cc [] f end) = true ->
  eval n env f s = (Done fv, s1) -> is_fn fv = true ->
  run_prep (eval n) env (lazy_flags fv) args s1 vs s2 ->
  apply n fv vs s2 = (r, s3) ->
  eval (S n) env (ECall f args) s = (r, s3) /\
  exists tc segs tb,
    length segs = length args /\
    trace (core s1) = tc ++ trace (core s) /\
    trace (core s3) = tb ++ concat (rev segs) ++ tc ++ trace (core s) /\
    forall i e, nth_error args i = Some e ->
      (nth i (lazy_flags fv) false = true -> nth i segs [] = []) /\
      (nth i (lazy_flags fv) false = false ->
         exists si v si', eval n env e si = (Done v, si') /\ nth_error vs i = Some v /\
                          trace (core si') = nth i segs [] ++ trace (core si)).
Proof.
  intros n env f args s fv s1 vs s2 r s3 Hc Hf Hfn Hrp Hap.
  split; [eapply call_sequence; eauto|].
  destruct (eval_trace_grows _ _ _ _ _ _ Hf) as [tc Ec].
  destruct (positions_trace_segments _ _ _ _ _ _ _ Hrp) as (segs & L & T & Hpos).
  destruct (apply_trace_grows _ _ _ _ _ _ Hap) as [tb Eb].
  exists tc, segs, tb. split; [assumption|]. split; [assumption|]. split; [|assumption].
  rewrite Eb, T, Ec. reflexivity.
Qed.

(* apply / map: the route itself evaluates nothing (the values were produced, each once and in
   order, by whatever built the array or list); between the arrival of the values and the body
   only cells are allocated *)
Theorem apply_map_route_sequence : forall ap f vs s ws s1 r s2,
  wrap_args (lazy_flags f) vs s = (Done ws, s1) ->
  ap f ws s1 = (r, s2) ->
  ap_values ap f vs s = (r, s2) /\ core s1 = core s /\ touched s1 = touched s /\
  (forall i, nth i (lazy_flags f) false = false -> nth_error ws i = nth_error vs i).
Proof.
  intros ap f vs s ws s1 r s2 Hw Ha. split.
  - unfold ap_values. erewrite bind_done by exact Hw. exact Ha.
  - destruct (wrap_args_spec _ _ _ _ _ Hw) as (C & T & _ & S & _). auto.
Qed.

(* the elements of an array literal (how the grid hands arguments to apply / map) are each
   evaluated exactly once, left to right *)
Inductive run_list (ev : list nat -> expr -> M value) (env : list nat) :
  list expr -> store -> list value -> store -> Prop :=
| rl_nil : forall s, run_list ev env [] s [] s
| rl_cons : forall e r s v s1 vs s2, ev env e s = (Done v, s1) -> run_list ev env r s1 vs s2 ->
                                     run_list ev env (e :: r) s (v :: vs) s2.

Theorem ev_list_iff_run_list : forall ev env es s vs s',
  ev_list ev env es s = (Done vs, s') <-> run_list ev env es s vs s'.
Proof.
  intros ev env es. induction es as [|e r IH]; intros s vs s'; simpl; split; intros H.
  - apply ret_inv in H. destruct H as [<- <-]. constructor.
  - inversion H; subst. reflexivity.
  - apply bind_done_inv in H. destruct H as (v & s1 & He & Hk).
    apply bind_done_inv in Hk. destruct Hk as (vs0 & s2 & Hr & Hret).
    apply ret_inv in Hret. destruct Hret as [<- <-]. econstructor; [eassumption|]. apply IH. assumption.
  - inversion H as [|? ? ? v s1 vs0 ? He Hr]; subst. erewrite bind_done by exact He.
    apply IH in Hr. erewrite bind_done by exact Hr. reflexivity.
Qed.

(* ================================================================= 12. at most one evaluation per cell *)

(* ghost invariant: no cell's source was started twice, and a cell whose source was started is
   either memoised or still (or, after a failure, forever) marked as being evaluated *)
Definition once (s : store) : Prop :=
  forall c, (count_occ Nat.eq_dec (evals (gh s)) c <= 1)%nat.
Definition acct (s : store) : Prop :=
  forall c, In c (evals (gh s)) -> memo_of s c <> None \/ In c (forcing (gh s)).
Definition ginv (s : store) : Prop := once s /\ acct s.

(* the run never started the evaluation of a cell that was already being evaluated *)
Definition no_reentrant_force (s : store) : Prop := reent (gh s) = false.

Definition gpres A (m : M A) : Prop :=
  (forall s r s1, m s = (r, s1) -> reent (gh s) = true -> reent (gh s1) = true) /\
  (forall s r s1, m s = (r, s1) -> ginv s -> no_reentrant_force s1 -> ginv s1).

Lemma gpres_pure : forall A (r : res A), gpres A (pure r).
Proof. intros A r. split; unfold pure; intros s r0 s1 H; inversion H; subst; auto. Qed.

Lemma gpres_on : forall A B (m : M A) (k : res A -> M B),
  gpres A m -> (forall r, gpres B (k r)) -> gpres B (on_result m k).
Proof.
  intros A B m k [M1 M2] Hk. split.
  - intros s r s1 H Hr. apply on_result_inv in H. destruct H as (r0 & s0 & H1 & H2).
    eapply (proj1 (Hk r0)); eauto.
  - intros s r s1 H Hi Hn. apply on_result_inv in H. destruct H as (r0 & s0 & H1 & H2).
    assert (Hn0 : no_reentrant_force s0).
    { unfold no_reentrant_force in *. destruct (reent (gh s0)) eqn:E; [|reflexivity].
      rewrite (proj1 (Hk r0) _ _ _ H2 E) in Hn. discriminate. }
    eapply (proj2 (Hk r0)); eauto.
Qed.

Lemma ginv_same : forall s s1, gh s1 = gh s -> (forall c, memo_of s c <> None -> memo_of s1 c <> None) ->
  ginv s -> ginv s1.
Proof.
  intros s s1 Eg Hm [Ho Ha]. split.
  - intros c. unfold once in Ho. rewrite Eg. apply Ho.
  - intros c Hc. rewrite Eg in *. destruct (Ha c Hc) as [Hmm|Hf]; [left; apply Hm; assumption|right; assumption].
Qed.

Lemma gpres_lift : forall A (f : C A), gpres A (liftC f).
Proof.
  intros A f. split; unfold liftC; intros s r s1 H; destruct (f (core s)) as [r0 c1]; inversion H; subst; simpl; auto.
  all: try (intros Hi _; eapply ginv_same; [| |exact Hi]; [reflexivity|auto]).
Qed.

Lemma gpres_new : forall src memo, gpres _ (new_thunk src memo).
Proof.
  intros src memo. split; unfold new_thunk, add_cell; intros s r s1 H; inversion H; subst; simpl; auto.
  intros Hi _. eapply ginv_same; [| |exact Hi]; [reflexivity|].
  intros c. unfold memo_of. simpl. destruct (nth_error (thunks s) c) as [t|] eqn:E; [|congruence].
  rewrite nth_error_app1 by (apply nth_error_Some; congruence). rewrite E. auto.
Qed.

Lemma gpres_read : forall c, gpres _ (read_thunk c).
Proof.
  intros c. split; unfold read_thunk; intros s r s1 H; inversion H; subst; simpl; auto.
  all: try (intros Hi _; eapply ginv_same; [| |exact Hi]; [reflexivity|auto]).
Qed.

Lemma memo_of_set : forall s c v t x g tch,
  nth_error (thunks s) c = Some t -> memo_of s x <> None ->
  memo_of (mkStore (core s) (set_nth c (mkThunk (t_src t) (Some v)) (thunks s)) tch g) x <> None.
Proof.
  intros s c v t x g tch E Hx. unfold memo_of in *. simpl.
  assert (L : (c < length (thunks s))%nat) by (apply nth_error_Some; congruence).
  destruct (Nat.eq_dec c x) as [<-|Hne].
  - rewrite nth_error_set_nth_same by assumption. simpl. discriminate.
  - rewrite nth_error_set_nth_other by assumption. assumption.
Qed.

Lemma gpres_memo : forall c v, gpres _ (set_memo c v).
Proof.
  intros c v. split; unfold set_memo; intros s r s1 H; inversion H; subst; simpl; auto.
  intros Hi _. eapply ginv_same; [| |exact Hi]; [reflexivity|].
  intros x Hx. destruct (nth_error (thunks s) c) as [t|] eqn:E.
  - apply memo_of_set; assumption.
  - exact Hx.
Qed.

Lemma existsb_eqb_In : forall c l, existsb (Nat.eqb c) l = false -> ~ In c l.
Proof.
  intros c l H Hin. assert (existsb (Nat.eqb c) l = true); [|congruence].
  apply existsb_exists. exists c. split; [assumption|apply Nat.eqb_refl].
Qed.

(* starting the evaluation of c: either re-entrant (flagged), or c was never started before *)
Lemma gpres_begin : forall c, gpres _ (begin_force c).
Proof.
  intros c. split; unfold begin_force; intros s r s1 H; destruct (memo_of s c) eqn:Em; inversion H; subst; simpl; auto.
  - intros Hr. rewrite Hr. reflexivity.
  - clear H. intros [Ho Ha] Hn. unfold no_reentrant_force in Hn. simpl in Hn.
    apply orb_false_elim in Hn. destruct Hn as [_ Hnf]. apply existsb_eqb_In in Hnf.
    assert (Hne : ~ In c (evals (gh s))).
    { intros Hin. destruct (Ha c Hin) as [Hm|Hf]; [congruence|contradiction]. }
    split.
    + intros x. simpl. destruct (Nat.eq_dec c x) as [<-|Hd].
      * rewrite (proj1 (count_occ_not_In Nat.eq_dec _ _) Hne). lia.
      * apply Ho.
    + intros x Hx. simpl in Hx. simpl. destruct Hx as [<-|Hx]; [right; left; reflexivity|].
      destruct (Ha x Hx) as [Hm|Hf]; [left; exact Hm|right; right; exact Hf].
Qed.

Lemma In_remove1 : forall c x l, In x l -> x <> c -> In x (remove1 c l).
Proof.
  induction l as [|y r IH]; simpl; intros H Hne; [contradiction|].
  destruct (Nat.eqb c y) eqn:E.
  - apply Nat.eqb_eq in E. subst y. destruct H; [congruence|assumption].
  - destruct H; [left; assumption|right; apply IH; assumption].
Qed.

Lemma gpres_finish : forall c v, gpres _ (finish_force c v).
Proof.
  intros c v. split; unfold finish_force; intros s r s1 H;
    destruct (nth_error (thunks s) c) as [t|] eqn:E; inversion H; subst; simpl; auto.
  clear H. intros [Ho Ha] _. split.
  - intros x. apply Ho.
  - intros x Hx. simpl in Hx. destruct (Nat.eq_dec x c) as [->|Hne].
    + left. unfold memo_of. simpl.
      rewrite nth_error_set_nth_same by (apply nth_error_Some; congruence). simpl. discriminate.
    + destruct (Ha x Hx) as [Hm|Hf].
      * left. apply memo_of_set; assumption.
      * right. simpl. apply In_remove1; assumption.
Qed.

Theorem eval_gpres : forall n env e, gpres _ (eval n env e).
Proof.
  intros n. apply (closure gpres gpres_pure gpres_on (fun A f _ => gpres_lift A f)
                            gpres_new gpres_read gpres_memo gpres_begin gpres_finish n).
Qed.

Theorem apply_gpres : forall n f args, gpres _ (apply n f args).
Proof.
  intros n. apply (closure gpres gpres_pure gpres_on (fun A f _ => gpres_lift A f)
                            gpres_new gpres_read gpres_memo gpres_begin gpres_finish n).
Qed.

(* THE UNRESTRICTED STATEMENT, under the side condition that is exactly the finding: in a run
   that never starts evaluating a cell that is already being evaluated, the source of every cell
   is evaluated at most once -- however often, by whom, and whenever force is applied to it, and
   whether the evaluations succeed or fail *)
Theorem force_at_most_once_unrestricted : forall n env e s r s1,
  eval n env e s = (r, s1) -> ginv s -> no_reentrant_force s1 ->
  forall c, (count_occ Nat.eq_dec (evals (gh s1)) c <= 1)%nat.
Proof. intros n env e s r s1 H Hi Hn. apply (proj2 (eval_gpres n env e) _ _ _ H Hi Hn). Qed.

Lemma ginv_init : forall failat, ginv (init_store failat).
Proof. intros failat. split; [intros c; simpl; lia|intros c H; simpl in H; contradiction]. Qed.

Lemma ev_begin_gpres : forall n env es, gpres _ (ev_begin (eval n) env es).
Proof.
  intros n env es.
  apply (P_ev_begin gpres gpres_pure gpres_on (eval n) (eval_gpres n)).
Qed.

(* for whole programs *)
Theorem program_evaluates_each_argument_at_most_once : forall n failat forms r s1,
  ev_begin (eval n) [O] forms (init_store failat) = (r, s1) ->
  no_reentrant_force s1 ->
  forall c, (count_occ Nat.eq_dec (evals (gh s1)) c <= 1)%nat.
Proof.
  intros n failat forms r s1 H Hn.
  apply (proj2 (ev_begin_gpres n [O] forms) _ _ _ H (ginv_init failat) Hn).
Qed.

(* the side condition is necessary and is exactly the re-entrant force: the witness program of
   the finding starts the evaluation of cell 0 twice, and the second start is flagged *)
Definition final_ghost (n : nat) (forms : list expr) : ghost :=
  gh (snd (ev_begin (eval n) [O] forms (init_store O))).

Lemma reentrant_prog_ghost :
  final_ghost 40 reentrant_prog = mkGhost [] [O; O] true.
Proof. vm_compute. reflexivity. Qed.

(* what the flag means, at the only place where it is set: the evaluation of the source of c
   starts (its memo is empty) while c is in the set of cells being evaluated *)
Theorem reentrant_flag_set_iff : forall c s,
  memo_of s c = None ->
  reent (gh (snd (begin_force c s))) = (reent (gh s) || existsb (Nat.eqb c) (forcing (gh s))).
Proof. intros c s H. unfold begin_force. rewrite H. reflexivity. Qed.

(* ================================================================= 13. a bare variable as lazy argument *)

(* forcing a lazy argument that is a plain variable is the LEXICAL look-up of that variable along
   the static chain captured at the call (innermost frame of the caller's chain that binds it),
   in the store at force time -- never a look-up along the chain of callers *)
Theorem force_variable_is_lexical_lookup : forall n c s x env,
  nth_error (thunks s) c = Some (mkThunk (TSrc (EVar x) env) None) ->
  apply (S (S n)) (VPrim PForce) [VThunk c] s =
  match lookup_chain (frames (core s)) env x with
  | Some (_, v) => (Done v, finished c v (started c s))
  | None => (Sig (SErr EUnbound), started c s)
  end.
Proof.
  intros n c s x env Ht.
  destruct (started_same c s) as (Ec & _ & _).
  assert (Hev : eval (S n) env (EVar x) (started c s) =
                match lookup_chain (frames (core s)) env x with
                | Some (_, v) => (Done v, started c s)
                | None => (Sig (SErr EUnbound), started c s)
                end).
  { rewrite <- Ec. generalize (started c s). intros st. simpl. unfold liftC, lookup_var.
    destruct (lookup_chain (frames (core st)) env x) as [[f v]|]; destruct st; reflexivity. }
  destruct (lookup_chain (frames (core s)) env x) as [[f v]|].
  - rewrite (force_in_caller_env (S n) c s (EVar x) env _ _ Ht eq_refl Hev). reflexivity.
  - rewrite (force_in_caller_env (S n) c s (EVar x) env _ _ Ht eq_refl Hev). reflexivity.
Qed.


(* ================================================================= 14. self tail call route, formals passed on, substitute after force *)


Lemma tail_prep_args_eq : forall ev env es flags s,
  strict_cc flags es = true ->
  tail_prep_args ev env flags es s = prep_args ev env flags es s.
Proof.
  intros ev env es. induction es as [|e r IH]; intros flags s H; [reflexivity|].
  simpl in H. apply andb_true_iff in H. destruct H as [H1 H2].
  simpl. unfold prep_arg. destruct (hd false flags); simpl in H1.
  - unfold bindM, on_result. destruct (new_thunk (TSrc e env) None s) as [[v|g|] s1]; auto.
    rewrite IH by exact H2. reflexivity.
  - rewrite H1. unfold bindM, on_result. destruct (ev env e s) as [[v|g|] s1]; auto.
    rewrite IH by exact H2. reflexivity.
Qed.

Theorem self_tail_route_is_call_route : forall ev ap env x fv args s,
  ev env (EVar x) s = (Done fv, s) ->
  (exists nm ps rest body cenv, fv = VClos nm ps rest body cenv) ->
  strict_cc (lazy_flags fv) args = true ->
  self_tail_call ev ap env fv fv args s = call_expr ev ap env (EVar x) args s.
Proof.
  intros ev ap env x fv args s Hf (nm & ps & rest & body & cenv & E) Hcc.
  unfold self_tail_call, call_expr. rewrite (bind_done _ _ _ _ _ _ _ Hf). subst fv.
  apply bind_at. apply tail_prep_args_eq. exact Hcc.
Qed.

(* lookup depends only on the frames of the captured chain *)
Lemma lookup_chain_local : forall fs fs' env x,
  (forall f, In f env -> nth_error fs f = nth_error fs' f) ->
  lookup_chain fs env x = lookup_chain fs' env x.
Proof.
  intros fs fs' env x. induction env as [|f env IH]; intros H; [reflexivity|].
  simpl. rewrite <- (H f (or_introl eq_refl)).
  rewrite IH by (intros g Hg; apply H; right; exact Hg). reflexivity.
Qed.

Theorem force_variable_ignores_dynamic_context : forall n c s s' x env,
  nth_error (thunks s) c = Some (mkThunk (TSrc (EVar x) env) None) ->
  nth_error (thunks s') c = Some (mkThunk (TSrc (EVar x) env) None) ->
  (forall f, In f env -> nth_error (frames (core s)) f = nth_error (frames (core s')) f) ->
  fst (apply (S (S n)) (VPrim PForce) [VThunk c] s) = fst (apply (S (S n)) (VPrim PForce) [VThunk c] s').
Proof.
  intros n c s s' x env H1 H2 Hf.
  rewrite (force_variable_is_lexical_lookup n c s x env H1), (force_variable_is_lexical_lookup n c s' x env H2).
  rewrite (lookup_chain_local _ _ env x Hf).
  destruct (lookup_chain (frames (core s')) env x) as [[f v]|]; reflexivity.
Qed.

(* innermost binding of the captured chain wins: a global of the same name is not seen *)
Theorem force_variable_innermost_binding : forall n c s x f env fr v,
  nth_error (thunks s) c = Some (mkThunk (TSrc (EVar x) (f :: env)) None) ->
  nth_error (frames (core s)) f = Some fr -> assoc x fr = Some v ->
  fst (apply (S (S n)) (VPrim PForce) [VThunk c] s) = Done v.
Proof.
  intros n c s x f env fr v Ht Hf Ha.
  rewrite (force_variable_is_lexical_lookup n c s x (f :: env) Ht). simpl. rewrite Hf, Ha. reflexivity.
Qed.

(* substitute after any evaluation (in particular after forces of the same cell) *)
Theorem substitute_after_evaluation : forall n k c s t e env d env0 e0 r s1,
  nth_error (thunks s) c = Some t -> t_src t = TSrc e env -> expr_datum e = Some d ->
  eval n env0 e0 s = (r, s1) ->
  apply (S k) (VPrim PSubst) [VThunk c] s1 = (Done d, touch c s1).
Proof.
  intros n k c s t e env d env0 e0 r s1 Ht Hs Hd He.
  destruct (eval_keeps n env0 e0 _ _ _ He) as (_ & _ & K).
  destruct (K _ _ Ht) as (t' & Ht' & Hs' & _).
  apply (substitute_returns_source k c s1 t' e env d Ht'); [rewrite Hs'; exact Hs | exact Hd].
Qed.

Theorem substitute_after_force : forall n k c s t e env d r s1,
  nth_error (thunks s) c = Some t -> t_src t = TSrc e env -> expr_datum e = Some d ->
  apply n (VPrim PForce) [VThunk c] s = (r, s1) ->
  apply (S k) (VPrim PSubst) [VThunk c] s1 = (Done d, touch c s1).
Proof.
  intros n k c s t e env d r s1 Ht Hs Hd He.
  destruct (apply_keeps n _ _ _ _ _ He) as (_ & _ & K).
  destruct (K _ _ Ht) as (t' & Ht' & Hs' & _).
  apply (substitute_returns_source k c s1 t' e env d Ht'); [rewrite Hs'; exact Hs | exact Hd].
Qed.

(* ---- a formal passed on: (g #x) / the self tail call (f #x ..) wrap the SYMBOL again ---- *)

Definition chain_head (cs : list nat) (v0 : value) : value :=
  match cs with [] => v0 | c :: _ => VThunk c end.

Fixpoint rewrap_chain (s : store) (cs : list nat) (v0 : value) : Prop :=
  match cs with
  | [] => True
  | c :: r => (exists x env, nth_error (thunks s) c = Some (mkThunk (TSrc (EVar x) env) None) /\
                 option_map snd (lookup_chain (frames (core s)) env x) = Some (chain_head r v0)) /\
              ~ In c r /\ rewrap_chain s r v0
  end.

Lemma rewrap_chain_transfer : forall s s1 cs v0,
  core s1 = core s -> (forall c, In c cs -> nth_error (thunks s1) c = nth_error (thunks s) c) ->
  rewrap_chain s cs v0 -> rewrap_chain s1 cs v0.
Proof.
  intros s s1 cs v0 Hc. induction cs as [|c r IH]; intros Ht H; [exact I|].
  destruct H as ((x & env & H1 & H2) & Hn & Hr). split; [|split].
  - exists x, env. rewrite Hc, (Ht c (or_introl eq_refl)). auto.
  - exact Hn.
  - apply IH; [|exact Hr]. intros c' Hc'. apply Ht. right. exact Hc'.
Qed.

Lemma finished_core : forall c v s, core (finished c v s) = core s.
Proof. intros. unfold finished, finish_force. destruct (nth_error (thunks s) c); reflexivity. Qed.

Lemma finished_other : forall c v s c', c' <> c ->
  nth_error (thunks (finished c v s)) c' = nth_error (thunks s) c'.
Proof.
  intros. unfold finished, finish_force. destruct (nth_error (thunks s) c); [|reflexivity].
  simpl. apply nth_error_set_nth_other. congruence.
Qed.

Theorem force_through_rewrapped : forall n cs s v0,
  rewrap_chain s cs v0 ->
  exists s', force_n (S (S n)) (length cs) (chain_head cs v0) s = (Done v0, s') /\
             core s' = core s /\
             (forall c, ~ In c cs -> nth_error (thunks s') c = nth_error (thunks s) c).
Proof.
  intros n cs. induction cs as [|c r IH]; intros s v0 H.
  - exists s. simpl. auto.
  - destruct H as ((x & env & H1 & H2) & Hn & Hr).
    pose proof (force_variable_is_lexical_lookup n c s x env H1) as F.
    destruct (lookup_chain (frames (core s)) env x) as [[f v]|]; [|discriminate].
    simpl in H2. injection H2 as H2. subst v.
    set (s1 := finished c (chain_head r v0) (started c s)) in *.
    destruct (started_same c s) as (Ec & Et & _).
    assert (C1 : core s1 = core s) by (unfold s1; rewrite finished_core; exact Ec).
    assert (T1 : forall c', c' <> c -> nth_error (thunks s1) c' = nth_error (thunks s) c').
    { intros c' Hc'. unfold s1. rewrite finished_other by exact Hc'. rewrite Et. reflexivity. }
    assert (R1 : rewrap_chain s1 r v0).
    { apply (rewrap_chain_transfer s); auto. intros c' Hc'. apply T1. intro; subst; auto. }
    destruct (IH s1 v0 R1) as (s' & F' & C' & T').
    exists s'. split; [|split].
    + change (force_n (S (S n)) (length (c :: r)) (chain_head (c :: r) v0) s)
        with (bindM (apply (S (S n)) (VPrim PForce) [VThunk c]) (fun w => force_n (S (S n)) (length r) w) s).
      rewrite (bind_done _ _ _ _ _ _ _ F). exact F'.
    + congruence.
    + intros c' Hc'. rewrite T' by (intro; apply Hc'; right; assumption).
      apply T1. intro; subst; apply Hc'; left; reflexivity.
Qed.

Theorem passed_on_argument_forced_in_original_env : forall n m cs s c0 e env0,
  rewrap_chain s cs (VThunk c0) -> ~ In c0 cs ->
  nth_error (thunks s) c0 = Some (mkThunk (TSrc e env0) None) -> cc [] e = true ->
  exists s', force_n (S (S n)) (length cs) (chain_head cs (VThunk c0)) s = (Done (VThunk c0), s') /\
             core s' = core s /\
             forall r s1, eval m env0 e (started c0 s') = (r, s1) ->
               apply (S m) (VPrim PForce) [VThunk c0] s' =
               match r with Done v => (Done v, finished c0 v s1) | _ => (r, s1) end.
Proof.
  intros n m cs s c0 e env0 Hch Hn Ht Hcc.
  destruct (force_through_rewrapped n cs s _ Hch) as (s' & F & C & T).
  exists s'. split; [exact F|]. split; [exact C|].
  intros r s1 He. apply (force_in_caller_env m c0 s' e env0 r s1); auto.
  rewrite (T c0 Hn). exact Ht.
Qed.

(* (defn lp [#x n] (cond (== n 0) (list (substitute #x) (force (force (force #x)))) (lp #x (- n 1))))
   (def a 5) (lp (trace (+ a 1)) 2): the formal is passed on twice (in the real code by the self tail
   call route); the argument is evaluated once, by the third force; substitute shows the symbol *)
Definition pass_on_prog (forces : nat) : list expr :=
  let lp := 1001 in let x := 1002 in let n := 1003 in let a := 1004 in
  [ EDefn lp [(x, true); (n, false)] None
      [ECond [(pcall PEq [EVar n; EInt 0],
               pcall PList [pcall PSubst [EVar x];
                            Nat.iter forces (fun e => pcall PForce [e]) (EVar x)])]
             (ECall (EVar lp) [EVar x; pcall PSub [EVar n; EInt 1]])];
    EDef a (EInt 5);
    ECall (EVar lp) [pcall PTrace [pcall PAdd [EVar a; EInt 1]]; EInt 2] ].

Lemma pass_on_prog_three_forces :
  eval_program 60 (pass_on_prog 3) = mkOutcome (Done (SvPair (SvSym 1002) (SvPair (SvInt 6) SvNil))) [[SvInt 6]].
Proof. vm_compute. reflexivity. Qed.
Lemma pass_on_prog_one_force :
  eval_program 60 (pass_on_prog 1) = mkOutcome (Done (SvPair (SvSym 1002) (SvPair SvThunk SvNil))) [].
Proof. vm_compute. reflexivity. Qed.

(* (def w 7) (defn recv [#x] (force #x)) (defn caller [] (recv w)) (defn outer [w] (caller)) (outer 8):
   the global, not the formal of the caller's caller *)
Definition lexical_var_prog : list expr :=
  let w := 1001 in let recv := 1002 in let x := 1003 in let caller := 1004 in let outer := 1005 in
  [ EDef w (EInt 7);
    EDefn recv [(x, true)] None [pcall PForce [EVar x]];
    EDefn caller [] None [ECall (EVar recv) [EVar w]];
    EDefn outer [(w, false)] None [ECall (EVar caller) []];
    ECall (EVar outer) [EInt 8] ].
Lemma lexical_var_prog_outcome : eval_program 40 lexical_var_prog = mkOutcome (Done (SvInt 7)) [].
Proof. vm_compute. reflexivity. Qed.

(* the finding tail-known-fn on the model of the tail route: the function known under the name
   has a lazy first formal, the function jumped into a strict one: the strict formal holds a
   thunk made by the call mechanism *)
Lemma self_tail_known_mismatch :
  let known := VClos (Some 1001) [(1002, true)] None [EInt 0] [O] in
  let self := VClos (Some 1001) [(1003, false)] None [EVar 1003] [O] in
  fst (self_tail_call (eval 10) (apply 10) [O] known self [pcall PTrace [EInt 1]] (init_store 0))
  = Done (VThunk 0).
Proof. vm_compute. reflexivity. Qed.

Theorem call_by_symbol_is_call_route : forall ev ap env x fv args s,
  ev env (EVar x) s = (Done fv, s) ->
  (exists nm ps rest body cenv, fv = VClos nm ps rest body cenv) ->
  strict_cc (lazy_flags fv) args = true ->
  call_by_symbol ev ap env x fv fv args s = call_expr ev ap env (EVar x) args s.
Proof.
  intros. unfold call_by_symbol. destruct (tail_arity_ok fv (length args)); [|reflexivity].
  apply self_tail_route_is_call_route; assumption.
Qed.

(* ================================================================= 15. conservativity at the call mechanism *)

(* ---- functions without lazy formals are called as in the evaluator without laziness ---- *)

Definition strict_unit (ev : list nat -> expr -> M value) : list nat -> expr -> M value :=
  fun env e => if cc [] e then ev env e else raise ELoop.

Lemma no_lazy_tl : forall flags, forallb negb flags = true ->
  hd false flags = false /\ forallb negb (tl flags) = true.
Proof.
  intros [|b r] H; simpl in *; auto. apply andb_true_iff in H. destruct H as [H1 H2].
  destruct b; simpl in *; [discriminate|auto].
Qed.

Theorem strict_function_call_is_plain : forall ev env es flags s,
  forallb negb flags = true ->
  prep_args ev env flags es s = ev_list (strict_unit ev) env es s.
Proof.
  intros ev env es. induction es as [|e r IH]; intros flags s H; [reflexivity|].
  destruct (no_lazy_tl flags H) as [H1 H2]. simpl. unfold prep_arg. rewrite H1.
  fold (strict_unit ev env e). unfold bindM, on_result.
  destruct (strict_unit ev env e s) as [[v|g|] s1]; auto. rewrite IH by exact H2. reflexivity.
Qed.

Lemma wrap_args_no_lazy : forall vs flags s, forallb negb flags = true ->
  wrap_args flags vs s = (Done vs, s).
Proof.
  induction vs as [|v r IH]; intros flags s H; [reflexivity|].
  destruct (no_lazy_tl flags H) as [H1 H2]. simpl. unfold wrap_arg. rewrite H1.
  unfold bindM, on_result, ret, pure. rewrite IH by exact H2. reflexivity.
Qed.

Theorem strict_function_apply_is_plain : forall ap f vs s,
  forallb negb (lazy_flags f) = true -> ap_values ap f vs s = ap f vs s.
Proof.
  intros ap f vs s H. unfold ap_values, bindM, on_result. rewrite wrap_args_no_lazy by exact H. reflexivity.
Qed.

(* in particular: no cell is allocated by the call mechanism itself *)
Theorem strict_function_call_allocates_nothing : forall ev env es flags s,
  forallb negb flags = true ->
  (forall env e s r s1, ev env e s = (r, s1) -> thunks s1 = thunks s) ->
  forall r s1, prep_args ev env flags es s = (r, s1) -> thunks s1 = thunks s.
Proof.
  intros ev env es. induction es as [|e r IH]; intros flags s H Hev rr s1 Hp.
  - inversion Hp. reflexivity.
  - destruct (no_lazy_tl flags H) as [H1 H2]. simpl in Hp. unfold prep_arg in Hp. rewrite H1 in Hp.
    unfold bindM, on_result in Hp.
    destruct (cc [] e).
    + destruct (ev env e s) as [[v|g|] s2] eqn:E.
      * destruct (prep_args ev env (tl flags) r s2) as [[vs|g|] s3] eqn:E2;
          (assert (s1 = s3) by (inversion Hp; reflexivity)); subst s3;
          (transitivity (thunks s2); [eapply IH; eauto | eapply Hev; eauto]).
      * assert (s1 = s2) by (inversion Hp; reflexivity). subst. eapply Hev; eauto.
      * assert (s1 = s2) by (inversion Hp; reflexivity). subst. eapply Hev; eauto.
    + inversion Hp. reflexivity.
Qed.
